#!/bin/sh
# setup.sh — offline build of the whole framework: Gen/*.v from /repo, full Coq build (.vo), extraction,
# OCaml model drivers.  C++ drivers are built by the checks themselves from /repo's current tree.
set -e
cd "$(dirname "$0")"
python3 gen/translate.py || true
sh coq/mkproject.sh
# -k: a file that does not compile must not keep the other properties from being checked; every check re-verifies its own targets
( cd coq && timeout 3000 make -k -j16 ) > work_setup.log 2>&1 || { grep -B2 -A12 "Error" work_setup.log | head -60; echo "WARNING: some Coq files did not compile (the checks that need them will report it)"; }
python3 - <<'PY'
import importlib, os, sys
sys.path.insert(0, os.getcwd())
from lib import framework
seen = set()
for f in sorted(os.listdir("props")):
    if f.startswith("C") and f.endswith(".py"):
        chk = importlib.import_module("props." + f[:-3]).CHECK
        if chk.ocaml and chk.ocaml["name"] not in seen:
            seen.add(chk.ocaml["name"])
            try:
                print("ocaml driver", chk.ocaml["name"], framework.build_ocaml(**chk.ocaml))
            except framework.BuildError as e:
                print("WARNING: ocaml driver", chk.ocaml["name"], "does not build:", str(e)[:300])
PY
rm -f work_setup.log
echo "setup ok"

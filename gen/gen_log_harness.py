#!/usr/bin/env python3
# gen/gen_log_harness.py — writes the C++ side of the C05/C10 correspondence check: ONE program text, compiled six times
# (once per compile-time minimum: -DNITRO_LOG_MIN_SEVERITY=<name> -DVH_MIN=<index>) by lib.framework.build_cpp against the
# current /repo tree.  For every logger of props/log_common.LOGGERS it instantiates nitro::log::logger with a recording
# formatter and a sink::sequence of recording sinks, all one-expression statement shapes (0..3 items over string /
# number / callable) at all six severities, named stream objects, and static_asserts pinning the statement's stream type.
import os, sys
sys.path.insert(0, os.path.join(os.path.dirname(os.path.abspath(__file__)), ".."))
from props.log_common import LOGGERS, SEVS, NSLOTS, CKINDS, OBJKINDS, TAGTEXT, parse_f, parse_sinks, shapes_for


def filter_type(f):
    if f[0] == "Z":
        return "nl::filter::null_filter<R>"
    if f[0] == "T":
        return "nl::filter::severity_filter<R, %d>" % f[1]
    if f[0] == "G":
        return "TagIs<R, %d>" % f[1]
    if f[0] == "H":
        return "TagMute<R, %d>" % f[1]
    if f[0] == "N":
        return "nl::filter::not_filter<%s>" % filter_type(f[1])
    return "nl::filter::%s_filter<%s, %s>" % ("and" if f[0] == "A" else "or", filter_type(f[1]), filter_type(f[2]))


CB = "Cb{ it[%d].id, it[%d].s }"
LAMBDA = "[&it]() { g_ev.push_back(\"C\" + std::to_string(it[%d].id)); return it[%d].s; }"


def shape_code(shape):
    """(statements that declare the callables stored in variables, the `<< a << b …` text) for a one-expression shape"""
    setup, parts = [], []
    for p, k in enumerate(shape):
        if k == "S":
            parts.append(" << it[%d].s" % p)
        elif k == "N":
            parts.append(" << it[%d].n" % p)
        elif k == "x":      # puts the stringstream into bad(): null C string
            parts.append(" << static_cast<const char*>(nullptr)")
        elif k == "y":      # … null stream buffer
            parts.append(" << static_cast<std::streambuf*>(nullptr)")
        elif k == "z":      # … a user type whose operator<< sets failbit
            parts.append(" << FailBit{}")
        elif k == "o":      # function object, temporary
            parts.append(" << " + CB % (p, p))
        elif k == "M":      # mutable capturing lambda, temporary
            parts.append(" << [&it, calls = 0]() mutable { ++calls; g_ev.push_back(\"C\" + std::to_string(it[%d].id)); return it[%d].s; }" % (p, p))
        elif k == "w":      # non-const operator(), temporary
            parts.append(" << Fnc{ it[%d].id, it[%d].s }" % (p, p))
        elif k == "W":      # non-const operator(), non-const variable
            setup.append("Fnc W%d{ it[%d].id, it[%d].s };" % (p, p, p))
            parts.append(" << W%d" % p)
        elif k == "Q":      # non-const operator(), const variable (operator<< calls its own copy)
            setup.append("const Fnc Q%d{ it[%d].id, it[%d].s };" % (p, p, p))
            parts.append(" << Q%d" % p)
        elif k == "i":      # non-const operator() and operator bool, temporary
            parts.append(" << FncBool{ it[%d].id, it[%d].s }" % (p, p))
        elif k == "I":      # … variable
            setup.append("FncBool I%d{ it[%d].id, it[%d].s };" % (p, p, p))
            parts.append(" << I%d" % p)
        elif k == "j":      # non-const operator() and its own operator<<, variable
            setup.append("FncIns j%d{ it[%d].id, it[%d].s };" % (p, p, p))
            parts.append(" << j%d" % p)
        elif k == "b":      # derived object through a reference to its base
            setup.append("const Named b%d(it[%d].s);" % (p, p))
            setup.append("const Shape& rb%d = b%d;" % (p, p))
            parts.append(" << rb%d" % p)
        elif k == "u":      # not copyable
            setup.append("const NoCopy u%d(it[%d].s);" % (p, p))
            parts.append(" << u%d" % p)
        elif k == "m":      # copies render differently
            setup.append("const CopyMarked m%d(it[%d].s);" % (p, p))
            parts.append(" << m%d" % p)
        elif k == "l":      # lambda, temporary
            parts.append(" << " + LAMBDA % (p, p))
        elif k == "p":      # plain function: decays to std::string (*)()
            setup.append("g_fp[%d] = &it[%d];" % (p, p))
            parts.append(" << fp_%d" % p)
        elif k == "f":      # std::function<std::string()> variable, streamed as an lvalue
            setup.append("std::function<std::string()> f%d = %s;" % (p, CB % (p, p)))
            parts.append(" << f%d" % p)
        elif k == "F":      # std::function<std::string()> temporary
            parts.append(" << std::function<std::string()>(%s)" % (CB % (p, p)))
        elif k == "c":      # std::function<const char*()> variable
            setup.append("std::function<const char*()> c%d = [&it]() { g_ev.push_back(\"C\" + std::to_string(it[%d].id)); return it[%d].s.c_str(); };" % (p, p, p))
            parts.append(" << c%d" % p)
        elif k == "k":      # const function object
            setup.append("const Cb k%d{ it[%d].id, it[%d].s };" % (p, p, p))
            parts.append(" << k%d" % p)
        elif k == "v":      # lambda stored in a variable, streamed as an lvalue
            setup.append("auto v%d = %s;" % (p, LAMBDA % (p, p)))
            parts.append(" << v%d" % p)
        else:
            raise ValueError(shape)
    return setup, "".join(parts)


def sink_type(tree, counter):
    """C++ type of a sink shape; leaves are numbered in declaration order (depth first)"""
    if isinstance(tree, list):
        return "nl::sink::sequence<%s>" % ", ".join(sink_type(m, counter) for m in tree)
    i = counter[0]
    counter[0] += 1
    return "RecSink%s<%d>" % ({"c": "C", "v": "V", "r": "R"}[tree], i)


def snk(shape):
    return sink_type(parse_sinks(shape)[0], [0])


# item kinds whose statement is compiled only if the library accepts it (otherwise the harness records UNSUPPORTED:<shape>,
# which the model never does): a tree in which such a statement would not compile still yields a runnable driver and hence a
# concrete failing input instead of a bare build failure.  %s is the type of the stream expression.
GUARDS = {
    "u": "can_insert<%s, const NoCopy&>::value",                           # deleted copy constructor
    "w": "nitro::meta::is_callable<Fnc, std::string()>::value",            # non-const call operator, not insertable as a value:
    "W": "nitro::meta::is_callable<Fnc, std::string()>::value",            #   if the library does not take it for a callable the
    "Q": "nitro::meta::is_callable<Fnc, std::string()>::value",            #   statement has no meaning at all
    "M": "nitro::meta::is_callable<Fnc, std::string()>::value",            # (a mutable lambda's type cannot be named: Fnc stands in)
}


def guard_of(shape, stream_type):
    g = []
    for k in shape:
        if k in GUARDS:
            c = GUARDS[k] % stream_type if "%s" in GUARDS[k] else GUARDS[k]
            if c not in g:
                g.append(c)
    return " && ".join(g)


def slot_cases():
    """the named form: `s << <callable of kind k>;` as its own statement"""
    out = []
    for k in CKINDS + OBJKINDS:
        setup, expr = shape_code(k)
        g = guard_of(k, "Stream&")
        out.append("        case '%s':\n        {\n" % k)
        ind = "            "
        if g:
            out.append("            if constexpr (%s)\n            {\n" % g)
            ind += "    "
        for l in setup:
            out.append("%s%s\n" % (ind, l))
        out.append("%ss%s;\n" % (ind, expr))
        if g:
            out.append("            }\n            else unsupported(\"%s\");\n" % k)
        out.append("            break;\n        }\n")
    return "".join(out)


# translation units written in the idiom of tests/logging_test.cpp: some nitro::log header has already been seen (with no
# minimum, or with the build system's lower default) when the file raises NITRO_LOG_MIN_SEVERITY and includes log.hpp.
# The minimum in force is the one defined where <nitro/log/log.hpp> is included.
EARLY_INCLUDE = {5: ("severity.hpp", None), 10: ("filter/severity_filter.hpp", "trace")}


def redefine_minimum(early):
    header, default = early
    o = ["// --- the idiom of tests/logging_test.cpp: a nitro::log header is seen BEFORE this file sets its own minimum",
         "#undef NITRO_LOG_MIN_SEVERITY"]
    if default:
        o.append("#define NITRO_LOG_MIN_SEVERITY %s // the build system's default" % default)
    o.append("#include <nitro/log/%s>" % header)
    o.append("#undef NITRO_LOG_MIN_SEVERITY")
    for i, n in enumerate(SEVS):
        o.append("#%s VH_MIN == %d\n#define NITRO_LOG_MIN_SEVERITY %s" % ("if" if i == 0 else "elif", i, n))
    o.append("#endif")
    o.append("// --- from here on as every other translation unit")
    return o


def prelude(what, early=None):
    o = []
    a = o.append
    a("// GENERATED by gen/gen_log_harness.py from props/log_common.py — do not edit.  (%s)" % what)
    a("// Implementation side of the C05/C10 correspondence check; public API of nitro::log only.")
    a("#ifndef VH_MIN\n#error \"compile with -DNITRO_LOG_MIN_SEVERITY=<name> -DVH_MIN=<index>\"\n#endif")
    if early:
        o.extend(redefine_minimum(early))
    a('#include "common.hpp"')
    for h in ("attribute/message.hpp", "attribute/severity.hpp", "attribute/tag.hpp", "attribute/timestamp.hpp",
              "filter/and_filter.hpp", "filter/not_filter.hpp", "filter/null_filter.hpp", "filter/or_filter.hpp",
              "filter/severity_filter.hpp", "log.hpp", "sink/sequence.hpp"):
        a("#include <nitro/log/%s>" % h)
    a("#include <functional>\n#include <map>\n#include <memory>\n#include <type_traits>")
    a("""
namespace nl = nitro::log;
using nl::severity_level;

extern std::vector<std::string> g_ev; // the event trace of the current case (defined in log_driver.cpp)

// severities are identified by NAME (not by underlying value) on this side
constexpr int sev_index(severity_level s)
{
    switch (s)
    {
%s    }
    return 9;
}
inline severity_level sev_of_index(int i)
{
    switch (i)
    {
%s    }
    return severity_level::trace;
}
static_assert(sev_index(severity_level::NITRO_LOG_MIN_SEVERITY) == VH_MIN, "NITRO_LOG_MIN_SEVERITY and VH_MIN name the same severity");
inline std::string sev_digit(severity_level s) { return std::string(1, static_cast<char>('0' + sev_index(s))); }

struct Clock
{
    using time_point = long;
    static time_point now() { return 1; }
};
// two record types with different attribute sets: their severity_filter<Rec, k> are different class template instances
struct extra_attribute
{
    int extra = 0;
};
using RecA = nl::record<nl::tag_attribute, nl::message_attribute, nl::severity_attribute, nl::timestamp_clock_attribute<Clock>>;
using RecB = nl::record<nl::message_attribute, nl::severity_attribute, nl::timestamp_clock_attribute<Clock>, extra_attribute>; // no tag
template <class R> std::string tag_of(R& r, std::true_type) { return r.tag(); }
template <class R> std::string tag_of(R&, std::false_type) { return std::string(); }
template <class R> std::string tag_of(R& r)
{
    return tag_of(r, std::integral_constant<bool, nl::detail::has_attribute<nl::tag_attribute, R>::value>());
}

// user-written filters that READ THE TAG of the record they are asked about (a record type without tag attribute reads as "")
inline const char* tag_text(int k)
{
    static const char* const t[] = { %s };
    return t[k];
}
template <class R, int K>
struct TagIs // passes exactly the records whose tag is tag_text(K)
{
    typedef R record_type;
    bool filter(R& r) const { return tag_of(r) == tag_text(K); }
};
template <class R, int K>
struct TagMute // rejects exactly the records whose tag is tag_text(K)
{
    typedef R record_type;
    bool filter(R& r) const { return tag_of(r) != tag_text(K); }
};

// the user's Formatter: records that it was called and with what, returns <severity digit>|tag|message
template <class R>
struct RecFormatter
{
    std::string format(R& r)
    {
        g_ev.push_back("F" + sev_digit(r.severity()) + ":" + vh::hex(tag_of(r)) + ":" + vh::hex(r.message()));
        return sev_digit(r.severity()) + "|" + tag_of(r) + "|" + r.message();
    }
};
// leaf I of a (possibly nested) sequence sink records what it received; three ways of taking the text
inline void sink_event(int i, severity_level s, const std::string& text) { g_ev.push_back("S" + std::to_string(i) + ":" + sev_digit(s) + ":" + vh::hex(text)); }
template <int I>
struct RecSinkC // const std::string&
{
    void sink(severity_level s, const std::string& text) { sink_event(I, s, text); }
};
template <int I>
struct RecSinkV // by value
{
    void sink(severity_level s, std::string text) { sink_event(I, s, text); }
};
template <int I>
struct RecSinkR // keeps the text: copies an lvalue, adopts the buffer of an rvalue
{
    void sink(severity_level s, const std::string& text)
    {
        std::string kept = text;
        sink_event(I, s, kept);
    }
    void sink(severity_level s, std::string&& text)
    {
        std::string kept = std::move(text);
        sink_event(I, s, kept);
    }
};

struct Item
{
    char kind = 'S'; // S string, N number, C callable
    char ck = 'o';   // C++ shape of a callable: o l p f F c k v (see props/log_common.py)
    std::string s;   // text of a string item / what a callable returns
    long long n = 0;
    int id = 0;
};
// a callable streamed for lazy evaluation, as a function object
struct Cb
{
    int id;
    std::string ret;
    std::string operator()() const
    {
        g_ev.push_back("C" + std::to_string(id));
        return ret;
    }
};
static_assert(nitro::meta::is_callable<Cb, std::string()>::value, "Cb is a lazily evaluated callable");
// callables that are plain functions cannot capture: they read the item they stand for from g_fp[position]
extern const Item* g_fp[3];
inline std::string fp_call(int p)
{
    g_ev.push_back("C" + std::to_string(g_fp[p]->id));
    return g_fp[p]->s;
}
inline std::string fp_0() { return fp_call(0); }
inline std::string fp_1() { return fp_call(1); }
inline std::string fp_2() { return fp_call(2); }
static_assert(nitro::meta::is_callable<decltype(&fp_0), std::string()>::value, "a function pointer is a lazily evaluated callable");
static_assert(nitro::meta::is_callable<std::function<std::string()>, std::string()>::value, "std::function<std::string()> is one");
static_assert(nitro::meta::is_callable<std::function<const char*()>, std::string()>::value, "std::function<const char*()> is one");
static_assert(!nitro::meta::is_callable<std::function<long long()>, std::string()>::value,
              "a std::function returning a number is NOT a lazily evaluated callable for nitro::log (and is not streamable either)");

// function objects whose call operator is NOT const
struct Fnc
{
    int id;
    std::string ret;
    std::string operator()()
    {
        g_ev.push_back("C" + std::to_string(id));
        return ret;
    }
};
struct FncBool // … which can also be inserted into a std::ostream as a value (through operator bool)
{
    int id;
    std::string ret;
    std::string operator()()
    {
        g_ev.push_back("C" + std::to_string(id));
        return ret;
    }
    operator bool() const { return true; }
};
struct FncIns // … which has its own operator<<
{
    int id;
    std::string ret;
    std::string operator()()
    {
        g_ev.push_back("C" + std::to_string(id));
        return ret;
    }
};
inline std::ostream& operator<<(std::ostream& o, const FncIns&) { return o << "<FncIns printed as a value>"; }

// streamable objects: a polymorphic one streamed through a reference to its copyable, non-abstract base
struct Shape
{
    Shape() = default;
    Shape(const Shape&) = default;
    virtual ~Shape() {}
    virtual std::string name() const { return "<base>"; }
};
struct Named : Shape
{
    std::string n;
    explicit Named(const std::string& s) : n(s) {}
    std::string name() const override { return n; }
};
inline std::ostream& operator<<(std::ostream& o, const Shape& s) { return o << s.name(); }
// one that cannot be copied
struct NoCopy
{
    std::string s;
    explicit NoCopy(const std::string& t) : s(t) {}
    NoCopy(const NoCopy&) = delete;
    NoCopy& operator=(const NoCopy&) = delete;
};
inline std::ostream& operator<<(std::ostream& o, const NoCopy& v) { return o << v.s; }
// one whose copies render differently from the original
struct CopyMarked
{
    std::string s;
    explicit CopyMarked(const std::string& t) : s(t) {}
    CopyMarked(const CopyMarked& c) : s(c.s + "<copy>") {}
};
inline std::ostream& operator<<(std::ostream& o, const CopyMarked& v) { return o << v.s; }

// does `stream << value` compile (as far as the signature of the selected operator<< goes)?
template <class St, class T, class = void> struct can_insert : std::false_type
{
};
template <class St, class T> struct can_insert<St, T, decltype(void(std::declval<St>() << std::declval<T>()))> : std::true_type
{
};
inline void unsupported(const char* shape) { g_ev.push_back(std::string("UNSUPPORTED:") + shape); }

// a user type whose stream insertion fails
struct FailBit
{
};
inline std::ostream& operator<<(std::ostream& o, const FailBit&)
{
    o.setstate(std::ios_base::failbit);
    return o;
}

struct SlotBase
{
    virtual ~SlotBase() {}
    virtual void put(const Item& it) = 0;
};
using OneFn = void (*)(const std::string*, const Item*);
using OpenFn = SlotBase* (*)(const std::string*);
using LocalFn = void (*)(const std::string*, const Item*, int);
// what each per-logger translation unit exports
struct LoggerTable
{
    const char* desc;          // "<filter>/<members>"
    int nshapes;
    const char* const* shape;  // names of the one-expression shapes instantiated for this logger
    const OneFn* const* one;   // [severity][shape]
    const OpenFn* open;        // [severity]
    const LocalFn* local;      // [severity]: the named form with a local variable
    const LocalFn* moved;      // [severity]: … moved into another variable half-way
    const LocalFn* const* bound; // [severity][declaration form]: by value / by reference, from the plain call / from a chain
    const int* kind;           // [severity]: 1 smart_stream, 0 null_stream, 2 anything else
    bool (*will_log)(int);                    // logger::will_log on a record of that severity
    void (*log)(int, const std::string&);     // logger::log(severity, record with that message)
};
""" % ("".join("    case severity_level::%s: return %d;\n" % (n, i) for i, n in enumerate(SEVS)),
       "".join("    case %d: return severity_level::%s;\n" % (i, n) for i, n in enumerate(SEVS)),
       ", ".join('"%s"' % t for t in TAGTEXT)))
    return o


def logger_source(i):
    f, m, rc = LOGGERS[i]
    shapes = shapes_for(i)
    o = prelude("logger %d: %s/%s" % (i, f, m), EARLY_INCLUDE.get(i))
    a = o.append
    a("namespace lg%d // a distinct named namespace per logger: the alias template Flt must be a different template in every translation unit" % i)
    a("{")
    a("template <class R> using Flt = %s;" % filter_type(parse_f(f)[0]))
    a("using Snk = %s;" % snk(m))
    a("using Rec = Rec%s;" % rc)
    a("using L = nl::logger<Rec, RecFormatter, Snk, Flt>;")
    a("""
// Mk<S>::make(…) is the call L::<severity S>(…); returning the prvalue is guaranteed copy elision (C++17), so
//   Mk<S>::make(tag) << a << b;   is the statement   L::sev(tag) << a << b;
template <int S> struct Mk;
#define VH_MK(I, NAME)                                                                              \\
    template <> struct Mk<I>                                                                        \\
    {                                                                                               \\
        using type = decltype(L::NAME());                                                           \\
        static type make(const std::string* tag)                                                    \\
        {                                                                                           \\
            /* the tag argument as std::string or as C string (both string_ref constructors) */     \\
            if (tag && (tag->size() + I) % 2) return L::NAME(tag->c_str());                         \\
            if (tag) return L::NAME(*tag);                                                          \\
            return L::NAME(); /* relies on the default argument */                                  \\
        }                                                                                           \\
    };""")
    for s, n in enumerate(SEVS):
        a("VH_MK(%d, %s)" % (s, n))
    a("")
    a("// the stream type of every statement as a run-time observable (the static_asserts are in log_static.cpp)")
    a("template <int S, severity_level V> constexpr int kind_of()")
    a("{")
    a("    return std::is_same<typename Mk<S>::type, nl::detail::smart_stream<Rec, RecFormatter, Snk, Flt, V>>::value ? 1")
    a("           : std::is_same<typename Mk<S>::type, nl::detail::null_stream>::value ? 0 : 2;")
    a("}")
    a("static const int k_kind[6] = { %s };" % ", ".join("kind_of<%d, severity_level::%s>()" % (s, n) for s, n in enumerate(SEVS)))
    a("\n// form 1: one expression per statement; one function template per item shape")
    for sh in shapes:
        name = sh or "E"
        setup, expr = shape_code(sh)
        a("template <int S> void one_%s(const std::string* tag, const Item* it)" % name)
        a("{")
        a("    (void)it;")
        g = guard_of(sh, "typename Mk<S>::type&&")
        ind = "    "
        if g:
            a("    if constexpr (%s)" % g)
            a("    {")
            ind = "        "
        for l in setup:
            a(ind + l)
        a(ind + "Mk<S>::make(tag)%s;" % expr)
        if g:
            a("    }")
            a("    else unsupported(\"%s\");" % sh)
        a("}")
    a("constexpr int NSHAPES = %d;" % len(shapes))
    a("static const char* const k_shape_name[NSHAPES] = { %s };" % ", ".join('"%s"' % s for s in shapes))
    for s in range(6):
        a("static const OneFn k_one_%d[NSHAPES] = { %s };" % (s, ", ".join("&one_%s<%d>" % (sh or "E", s) for sh in shapes)))
    a("static const OneFn* const k_one[6] = { %s };" % ", ".join("k_one_%d" % s for s in range(6)))
    a("""
// form 2: a named stream object filled over several statements
// `s << item;` as its own statement on a named stream object, for every item kind
template <class Stream> void put_item(Stream& s, const Item& item)
{
    const Item* it = &item;
    if (item.kind == 'S') { s << it[0].s; return; }
    if (item.kind == 'N') { s << it[0].n; return; }
    switch (item.ck)
    {
    case 'x': s << static_cast<const char*>(nullptr); break;
    case 'y': s << static_cast<std::streambuf*>(nullptr); break;
    case 'z': s << FailBit{}; break;
%s    default: throw std::logic_error("item kind");
    }
}
template <int S> struct Slot : SlotBase
{
    typename Mk<S>::type s; // auto s = L::sev(tag);
    explicit Slot(const std::string* tag) : s(Mk<S>::make(tag)) {}
    void put(const Item& item) override { put_item(s, item); }
};
template <int S> SlotBase* open_slot(const std::string* tag) { return new Slot<S>(tag); }
static const OpenFn k_open[6] = { %s };
// the named form with a local variable:  { auto s = L::sev(tag); s << i1; …; s << ik; }
template <int S> void named_local(const std::string* tag, const Item* it, int n)
{
    auto s = Mk<S>::make(tag);
    for (int i = 0; i < n; i++) put_item(s, it[i]);
}
static const LocalFn k_local[6] = { %s };
// the same, the stream object moved into another variable half-way:  auto s = L::sev(tag); s << …; auto t = std::move(s); t << …;
template <int S> void named_moved(const std::string* tag, const Item* it, int n)
{
    auto s = Mk<S>::make(tag);
    int half = (n + 1) / 2;
    for (int i = 0; i < half; i++) put_item(s, it[i]);
    auto t = std::move(s);
    for (int i = half; i < n; i++) put_item(t, it[i]);
}
static const LocalFn k_moved[6] = { %s };
// declaration forms of a named stream other than `auto s = L::sev(tag);`: initialised from a `<<` chain (first item S / N / o)
// by value or bound to a reference, then filled by further `s << …;` statements; the object dies at the end of the scope
#define VH_BOUND(NAME, DECL, FROM)                                                          \\
    template <int S> void NAME(const std::string* tag, const Item* it, int n)               \\
    {                                                                                       \\
        (void)it;                                                                           \\
        DECL;                                                                               \\
        for (int i = FROM; i < n; i++) put_item(s, it[i]);                                  \\
    }
VH_BOUND(bound_val_S, auto s = Mk<S>::make(tag) << it[0].s, 1)
VH_BOUND(bound_val_N, auto s = Mk<S>::make(tag) << it[0].n, 1)
VH_BOUND(bound_val_o, auto s = (Mk<S>::make(tag) << Cb{ it[0].id, it[0].s }), 1)
VH_BOUND(bound_ref, auto&& s = Mk<S>::make(tag), 0)
VH_BOUND(bound_ref_S, auto&& s = Mk<S>::make(tag) << it[0].s, 1)
VH_BOUND(bound_ref_N, auto&& s = Mk<S>::make(tag) << it[0].n, 1)
VH_BOUND(bound_ref_o, auto&& s = (Mk<S>::make(tag) << Cb{ it[0].id, it[0].s }), 1)
// (`const auto& s = L::sev();` compiles but cannot be streamed into: every operator<< takes a non-const stream)
constexpr int NBOUND = 7; // index: 0-2 by value from a chain S/N/o, 3 reference to the plain call, 4-6 reference to a chain S/N/o
%s
static const LocalFn* const k_bound[6] = { %s };
// direct use of the two public static members the streams are built on: will_log(record) and log(severity, record)
static bool direct_will_log(int sv)
{
    Rec r;
    r.severity() = sev_of_index(sv);
    return L::will_log(r);
}
static void direct_log(int sv, const std::string& msg)
{
    Rec r;
    r.severity() = sev_of_index(sv);
    r.message() = msg;
    L::log(sev_of_index(sv), r);
}
} // namespace lg%d
extern const LoggerTable k_logger_%d;
const LoggerTable k_logger_%d = { "%s/%s/%s", lg%d::NSHAPES, lg%d::k_shape_name, lg%d::k_one, lg%d::k_open, lg%d::k_local, lg%d::k_moved, lg%d::k_bound, lg%d::k_kind, &lg%d::direct_will_log, &lg%d::direct_log };
""" % (slot_cases(), ", ".join("&open_slot<%d>" % s for s in range(6)), ", ".join("&named_local<%d>" % s for s in range(6)),
       ", ".join("&named_moved<%d>" % s for s in range(6)),
       "\n".join("static const LocalFn k_bound_%d[NBOUND] = { %s };" % (s, ", ".join("&%s<%d>" % (nm, s) for nm in
                 ("bound_val_S", "bound_val_N", "bound_val_o", "bound_ref", "bound_ref_S", "bound_ref_N", "bound_ref_o"))) for s in range(6)),
       ", ".join("k_bound_%d" % s for s in range(6)),
       i, i, i, f, m, rc, i, i, i, i, i, i, i, i, i, i))
    return "\n".join(o) + "\n"


def main_source():
    o = prelude("main: case loop")
    a = o.append
    a("std::vector<std::string> g_ev;")
    a("const Item* g_fp[3];")
    for i in range(len(LOGGERS)):
        a("extern const LoggerTable k_logger_%d;" % i)
    a("constexpr int NL = %d;" % len(LOGGERS))
    a("static const LoggerTable* const k_logger[NL] = { %s };" % ", ".join("&k_logger_%d" % i for i in range(len(LOGGERS))))
    a("""
constexpr int NSLOTS = %d;
static std::unique_ptr<SlotBase> g_slot[NSLOTS];

struct Bad {};
static int digit_of(char c, int lim)
{
    if (c < '0' || c >= '0' + lim) throw Bad();
    return c - '0';
}
static Item parse_item(const std::string& w)
{
    Item it;
    if (w.empty()) throw Bad();
    it.kind = w[0];
    if (w[0] == 'S') it.s = vh::unhex(w.substr(1));
    else if (w[0] == 'N') it.n = std::strtoll(w.c_str() + 1, nullptr, 10);
    else if (w[0] == 'V')
    {
        if (w.size() < 3 || std::string("%s").find(w[1]) == std::string::npos) throw Bad();
        it.ck = w[1];
        it.s = vh::unhex(w.substr(2));
    }
    else if (w[0] == 'X')
    {
        if (w.size() != 2 || std::string("xyz").find(w[1]) == std::string::npos) throw Bad();
        it.ck = w[1];
    }
    else if (w[0] == 'C')
    {
        auto dot = w.find('.');
        if (dot == std::string::npos || dot < 3 || std::string("%s").find(w[1]) == std::string::npos) throw Bad();
        it.ck = w[1];
        it.id = std::atoi(w.substr(2, dot - 2).c_str());
        it.s = vh::unhex(w.substr(dot + 1));
    }
    else throw Bad();
    return it;
}
// "<idx>/<filter>/<members>" must name the logger this program was generated with
static int parse_logger(const std::string& w)
{
    auto sl = w.find('/');
    if (sl == std::string::npos) throw Bad();
    int i = std::atoi(w.substr(0, sl).c_str());
    if (i < 0 || i >= NL || w.substr(sl + 1) != k_logger[i]->desc) throw Bad();
    return i;
}
static bool parse_tag(const std::string& w, std::string& tag)
{
    if (w == "~") return false;
    tag = vh::unhex(w);
    return true;
}
// severity_filter<Rec rc, k>::set_severity / min_severity
static void set_threshold(char rc, int k, int s)
{
    if (rc == 'A' && k == 0) nl::filter::severity_filter<RecA, 0>::set_severity(sev_of_index(s));
    else if (rc == 'A' && k == 1) nl::filter::severity_filter<RecA, 1>::set_severity(sev_of_index(s));
    else if (rc == 'B' && k == 0) nl::filter::severity_filter<RecB, 0>::set_severity(sev_of_index(s));
    else if (rc == 'B' && k == 1) nl::filter::severity_filter<RecB, 1>::set_severity(sev_of_index(s));
    else throw Bad();
}
static severity_level get_threshold(char rc, int k)
{
    if (rc == 'A' && k == 0) return nl::filter::severity_filter<RecA, 0>::min_severity();
    if (rc == 'A' && k == 1) return nl::filter::severity_filter<RecA, 1>::min_severity();
    if (rc == 'B' && k == 0) return nl::filter::severity_filter<RecB, 0>::min_severity();
    if (rc == 'B' && k == 1) return nl::filter::severity_filter<RecB, 1>::min_severity();
    throw Bad();
}

// the contexts a whole statement is executed in
struct Boom
{
};
struct Guard
{
    const std::function<void()>& f;
    ~Guard() { f(); } // the statement runs inside this destructor
};
static void run_in_context(char ctx, const std::function<void()>& body)
{
    switch (ctx)
    {
    case 'n': body(); break;
    case 'u': // inside a destructor while an exception propagates
        try
        {
            Guard g{ body };
            throw Boom();
        }
        catch (const Boom&)
        {
        }
        break;
    case 'c': // inside a catch handler
        try
        {
            throw Boom();
        }
        catch (const Boom&)
        {
            body();
        }
        break;
    case 'd': // inside a destructor on normal scope exit
    {
        Guard g{ body };
    }
    break;
    default: throw Bad();
    }
}
static char context_of(const std::string& head)
{
    if (head.size() == 1) return 'n';
    if (head.size() == 2 && std::string("ucd").find(head[1]) != std::string::npos) return head[1];
    throw Bad();
}

static std::string run_case(const std::vector<std::string>& w)
{
    for (auto& s : g_slot) s.reset();
    g_ev.clear();
    for (char rc : { 'A', 'B' })
        for (int k = 0; k < 2; k++) set_threshold(rc, k, 0);
    try
    {
        if (w.empty() || w[0] != "m" + std::to_string(VH_MIN)) throw Bad();
        for (std::size_t i = 1; i < w.size(); i++)
        {
            const std::string& o = w[i];
            auto f = vh::split_on(o, ':');
            if (o[0] == 'T' && o.size() == 4) set_threshold(o[1], digit_of(o[2], 2), digit_of(o[3], 6));
            else if (o[0] == 'G' && o.size() == 3) g_ev.push_back("G" + sev_digit(get_threshold(o[1], digit_of(o[2], 2))));
            else if (o[0] == 'O' && f.size() == 5)
            {
                int lg = parse_logger(f[1]);
                int sv = digit_of(f[2].at(0), 6);
                std::string tag;
                bool has_tag = parse_tag(f[3], tag);
                std::vector<Item> items;
                std::string shape;
                if (f[4] != ".")
                    for (auto& e : vh::split_on(f[4], ','))
                    {
                        items.push_back(parse_item(e));
                        shape.push_back(items.back().kind == 'S' || items.back().kind == 'N' ? items.back().kind : items.back().ck);
                    }
                int sh = -1;
                for (int k = 0; k < k_logger[lg]->nshapes; k++)
                    if (shape == k_logger[lg]->shape[k]) sh = k;
                if (sh < 0) throw Bad();
                const std::string* tp = has_tag ? &tag : nullptr;
                run_in_context(context_of(f[0]), [&]() { k_logger[lg]->one[sv][sh](tp, items.data()); });
            }
            else if (o[0] == 'M' && f.size() == 5)
            {
                int lg = parse_logger(f[1]);
                int sv = digit_of(f[2].at(0), 6);
                std::string tag;
                bool has_tag = parse_tag(f[3], tag);
                std::vector<Item> items;
                if (f[4] != ".")
                    for (auto& e : vh::split_on(f[4], ',')) items.push_back(parse_item(e));
                const std::string* tp = has_tag ? &tag : nullptr;
                run_in_context(context_of(f[0]), [&]() { k_logger[lg]->local[sv](tp, items.data(), static_cast<int>(items.size())); });
            }
            else if (o[0] == 'R' && f.size() == 5 && f[0].size() == 1)
            {
                int lg = parse_logger(f[1]);
                int sv = digit_of(f[2].at(0), 6);
                std::string tag;
                bool has_tag = parse_tag(f[3], tag);
                std::vector<Item> items;
                if (f[4] != ".")
                    for (auto& e : vh::split_on(f[4], ',')) items.push_back(parse_item(e));
                k_logger[lg]->moved[sv](has_tag ? &tag : nullptr, items.data(), static_cast<int>(items.size()));
            }
            else if (o[0] == 'B' && f.size() == 5 && f[0].size() == 2)
            {
                // B1 auto s = L::sev(tag) << first;   B2 auto&& s = L::sev(tag);   B3 auto&& s = L::sev(tag) << first;   then s << rest…;
                int d = digit_of(f[0][1], 4);
                int lg = parse_logger(f[1]);
                int sv = digit_of(f[2].at(0), 6);
                std::string tag;
                bool has_tag = parse_tag(f[3], tag);
                std::vector<Item> items;
                if (f[4] != ".")
                    for (auto& e : vh::split_on(f[4], ',')) items.push_back(parse_item(e));
                int form = 3;
                if (d == 1 || d == 3)
                {
                    if (items.empty()) throw Bad();
                    char k = items[0].kind == 'C' ? items[0].ck : items[0].kind;
                    int j = k == 'S' ? 0 : k == 'N' ? 1 : k == 'o' ? 2 : -1;
                    if (j < 0) throw Bad();
                    form = (d == 1 ? 0 : 4) + j;
                }
                else if (d != 2) throw Bad();
                k_logger[lg]->bound[sv][form](has_tag ? &tag : nullptr, items.data(), static_cast<int>(items.size()));
            }
            else if (o[0] == 'D' && f.size() == 4 && f[0].size() == 1)
            {
                int lg = parse_logger(f[1]);
                int sv = digit_of(f[2].at(0), 6);
                g_ev.push_back(k_logger[lg]->will_log(sv) ? "W1" : "W0");
                k_logger[lg]->log(sv, vh::unhex(f[3])); // no gate, no filter: log() delivers whatever it is handed
            }
            else if (o[0] == 'N' && f.size() == 4 && f[0].size() == 2)
            {
                int v = digit_of(f[0][1], NSLOTS);
                int lg = parse_logger(f[1]);
                int sv = digit_of(f[2].at(0), 6);
                std::string tag;
                bool has_tag = parse_tag(f[3], tag);
                g_slot[v].reset(); // an occupied variable goes out of scope first
                g_slot[v].reset(k_logger[lg]->open[sv](has_tag ? &tag : nullptr));
            }
            else if (o[0] == 'P' && f.size() == 2 && f[0].size() == 2)
            {
                int v = digit_of(f[0][1], NSLOTS);
                Item it = parse_item(f[1]);
                if (g_slot[v]) g_slot[v]->put(it);
            }
            else if (o[0] == 'X' && o.size() == 2) g_slot[digit_of(o[1], NSLOTS)].reset();
            else if (o[0] == 'K' && f.size() == 3)
            {
                int lg = parse_logger(f[1]);
                int sv = digit_of(f[2].at(0), 6);
                g_ev.push_back("K" + std::to_string(k_logger[lg]->kind[sv]));
            }
            else throw Bad();
        }
        for (auto& s : g_slot) s.reset(); // end of the program: remaining variables go out of scope, in order
    }
    catch (const Bad&)
    {
        for (auto& s : g_slot) s.reset();
        return "BADCASE";
    }
    if (g_ev.empty()) return "-";
    std::string out = "ev"; // first word: observation kind
    for (std::size_t i = 0; i < g_ev.size(); i++)
    {
        out += ' ';
        out += g_ev[i];
    }
    return out;
}
int main(int argc, char** argv) { return vh::driver_main(argc, argv, run_case); }
""" % (NSLOTS, OBJKINDS, CKINDS))
    return "\n".join(o) + "\n"


def static_source(early=None):
    """compile-only program: static_asserts pinning decltype(L::sev()) for every logger and severity at this minimum"""
    o = prelude("static_asserts on the stream types" + (", minimum redefined after an early include" if early else ""), early)
    a = o.append
    a("std::vector<std::string> g_ev;")
    a("const Item* g_fp[3];")
    a('''static_assert(nitro::meta::is_callable<Fnc, std::string()>::value && nitro::meta::is_callable<FncBool, std::string()>::value &&
                  nitro::meta::is_callable<FncIns, std::string()>::value,
              "function objects with a non-const call operator are lazily evaluated callables");''')
    a("// C10: the statement's type is smart_stream iff its severity is at or above the compile-time minimum, else null_stream")
    for i, (f, m, rc) in enumerate(LOGGERS):
        a("namespace lg%d" % i)
        a("{")
        a("using Rec = Rec%s;" % rc)
        a("template <class R> using Flt = %s;" % filter_type(parse_f(f)[0]))
        a("using Snk = %s;" % snk(m))
        a("using L = nl::logger<Rec, RecFormatter, Snk, Flt>;")
        for s, n in enumerate(SEVS):
            a("#if %d >= VH_MIN" % s)
            a("static_assert(std::is_same<decltype(L::%s()), nl::detail::smart_stream<Rec, RecFormatter, Snk, Flt, severity_level::%s>>::value,"
              " \"C10-STREAM-TYPE logger=%d severity=%d expected=smart_stream\");" % (n, n, i, s))
            a("#else")
            a("static_assert(std::is_same<decltype(L::%s()), nl::detail::null_stream>::value,"
              " \"C10-STREAM-TYPE logger=%d severity=%d expected=null_stream\");" % (n, i, s))
            a("#endif")
        a("} // namespace lg%d" % i)
    a("int main() { return 0; }")
    return "\n".join(o) + "\n"


def sources():
    """{path relative to /verif: text}"""
    out = {"harness/gen/log_driver.cpp": main_source(), "harness/gen/log_static.cpp": static_source(),
           "harness/gen/log_static_early.cpp": static_source(("attribute/severity.hpp", None))}
    for i in range(len(LOGGERS)):
        out["harness/gen/log_l%d.cpp" % i] = logger_source(i)
    return out


if __name__ == "__main__":
    for p, t in sources().items():
        sys.stdout.write("// ===== %s\n" % p)
        sys.stdout.write(t)

# gen/tr_enumerate.py — translator for include/nitro/lang/enumerate.hpp (property C20): re-reads the members of
# nitro::lang::detail::enumerate_proxy<Iterator> and of its nested struct `iterator` from clang's JSON AST on every run and
# writes coq/theories/Gen/GenEnumerate.v in the little language of Misc/IterLang.v:
#   gen_iter_ctor, gen_proxy_ctor : inits       which constructor parameter initialises which field
#   gen_begin, gen_end, gen_ne, gen_deref, gen_deref_const : iexpr      the returned expressions
#   gen_preinc, gen_postinc : list istmt        the bodies of operator++() and operator++(int)
#   gen_free_const, gen_free_lvalue : bool      enumerate(const T&) / enumerate(T&) build the proxy from (begin(c), end(c))
# Tie/Tie_C20.v then PROVES that these are e_begin, e_end, e_ne, e_incr, e_deref of the model (Misc/Iter.v) for all states.
# Fields are identified by declaration order in their class and parameters by position (renaming is harmless); anything
# unrecognised becomes IUnknown / IUnknownS / FUnknown, which no obligation accepts.
import json, os, subprocess, tempfile


class Unreadable(Exception):
    pass


def clang_ast(repo, flt):
    with tempfile.TemporaryDirectory() as d:
        tu = os.path.join(d, "tu.cpp")
        open(tu, "w").write("#include <nitro/lang/enumerate.hpp>\n#include <nitro/lang/reverse.hpp>\n")
        p = subprocess.run(["clang++", "-std=gnu++17", "-fsyntax-only", "-I" + os.path.join(repo, "include"),
                            "-Xclang", "-ast-dump=json", "-Xclang", "-ast-dump-filter=" + flt, tu],
                           stdout=subprocess.PIPE, stderr=subprocess.PIPE, timeout=120)
    if p.returncode != 0:
        raise Unreadable("clang++ exit %d" % p.returncode)
    txt = p.stdout.decode("utf-8", "replace")
    docs, i, dec = [], 0, json.JSONDecoder()
    while True:
        while i < len(txt) and txt[i].isspace():
            i += 1
        if i >= len(txt):
            break
        d, i = dec.raw_decode(txt, i)
        docs.append(d)
    return docs


def inner(n):
    return [c for c in n.get("inner", []) if isinstance(c, dict) and c.get("kind")]


WRAP = ("ImplicitCastExpr", "ParenExpr", "ExprWithCleanups", "MaterializeTemporaryExpr", "CXXBindTemporaryExpr", "ConstantExpr")


def strip(e):
    while e.get("kind") in WRAP and len(inner(e)) == 1:
        e = inner(e)[0]
    return e


SRC = {"text": ""}


def src_text(n):
    """the source text of a node of enumerate.hpp (used only where clang's JSON carries no name: unresolved member calls)"""
    r = n.get("range") or {}
    b, e = r.get("begin") or {}, r.get("end") or {}
    if "offset" not in b or "offset" not in e:
        return ""
    return SRC["text"][b["offset"]:e["offset"] + e.get("tokLen", 0)]


def show(t):
    if isinstance(t, tuple):
        return t[0] if len(t) == 1 else "(" + " ".join(show(x) for x in t) + ")"
    return str(t)


class Cls:
    """a class body: fields in declaration order, methods and constructors by name"""
    def __init__(self, rec, prefix):
        self.fields = [c for c in inner(rec) if c.get("kind") == "FieldDecl"]
        self.by_id = {f.get("id"): i for i, f in enumerate(self.fields)}
        self.by_name = {f.get("name"): i for i, f in enumerate(self.fields)}
        self.prefix = prefix   # "F" for iterator, "G" for enumerate_proxy
        self.methods = {}
        self.ctors = []
        for c in inner(rec):
            if c.get("kind") == "CXXMethodDecl" and any(x.get("kind") == "CompoundStmt" for x in inner(c)):
                self.methods.setdefault(c.get("name"), []).append(c)
            if c.get("kind") == "CXXConstructorDecl" and not c.get("isImplicit") and any(x.get("kind") == "CompoundStmt" for x in inner(c)):
                self.ctors.append(c)

    def field(self, idx, who):
        if idx is None or idx > 1:
            raise Unreadable("field index")
        return ("IField", "%s%d" % (who, idx + 1))


def ctor_inits(cls):
    if len(cls.ctors) != 1:
        raise Unreadable("%d user constructors" % len(cls.ctors))
    c = cls.ctors[0]
    params = [p for p in inner(c) if p.get("kind") == "ParmVarDecl"]
    if len(params) != 2 or len(cls.fields) != 2:
        raise Unreadable("constructor/field count")
    body = [b for b in inner(c) if b.get("kind") == "CompoundStmt"]
    if len(body) != 1 or inner(body[0]):
        raise Unreadable("constructor with a body")
    pid = {p.get("id"): i for i, p in enumerate(params)}
    out = []
    for ini in c.get("inner", []):
        if ini.get("kind") != "CXXCtorInitializer":
            continue
        f = (ini.get("anyInit") or {}).get("id")
        if f not in cls.by_id:
            raise Unreadable("initialiser of a non-field")
        e = inner(ini)
        if len(e) != 1:
            raise Unreadable("initialiser shape")
        e = strip(e[0])
        while e.get("kind") in ("ParenListExpr", "InitListExpr", "CXXConstructExpr") and len(inner(e)) == 1:
            e = strip(inner(e)[0])
        if e.get("kind") == "CallExpr" and len(inner(e)) == 2 and src_text(strip(inner(e)[0])).replace(" ", "") in ("std::move", "move"):
            e = strip(inner(e)[1])    # field(std::move(parameter)): the by-value parameter is dead afterwards
        if e.get("kind") != "DeclRefExpr" or (e.get("referencedDecl") or {}).get("id") not in pid:
            raise Unreadable("initialiser is not a parameter")   # std::move(param) etc. are not recognised
        out.append("(%s%d, P%d)" % (cls.prefix, cls.by_id[f] + 1, pid[(e.get("referencedDecl") or {}).get("id")] + 1))
    if len(out) != 2:
        raise Unreadable("initialiser count")
    return "[" + "; ".join(out) + "]"


class Body:
    def __init__(self, cls, method, other_cls=None):
        self.cls = cls
        self.other = None
        ps = [p for p in inner(method) if p.get("kind") == "ParmVarDecl"]
        if other_cls is not None and len(ps) == 1:
            self.other = ps[0].get("id")
        self.saved = None
        body = [b for b in inner(method) if b.get("kind") == "CompoundStmt"]
        if len(body) != 1:
            raise Unreadable("no body")
        self.stmts = inner(body[0])

    def is_this(self, e):
        e = strip(e)
        return e.get("kind") == "CXXThisExpr"

    def is_deref_this(self, e):
        e = strip(e)
        return e.get("kind") == "UnaryOperator" and e.get("opcode") == "*" and self.is_this(inner(e)[0])

    def expr(self, e):
        e = strip(e)
        k = e.get("kind")
        if k == "MemberExpr" and self.is_this(inner(e)[0]):
            return self.cls.field(self.cls.by_id.get(e.get("referencedMemberDecl")), self.cls.prefix)
        if k in ("MemberExpr", "CXXDependentScopeMemberExpr") and inner(e):
            o = strip(inner(e)[0])
            if o.get("kind") == "DeclRefExpr" and (o.get("referencedDecl") or {}).get("id") == self.other and self.other is not None:
                idx = self.cls.by_id.get(e.get("referencedMemberDecl"))
                if idx is None:
                    idx = self.cls.by_name.get(e.get("member") or e.get("name"))
                return self.cls.field(idx, "O")
        if k in ("CallExpr", "CXXMemberCallExpr") and len(inner(e)) == 1:
            callee = strip(inner(e)[0])
            if callee.get("kind") in ("CXXDependentScopeMemberExpr", "MemberExpr") and inner(callee):
                o = strip(inner(callee)[0])
                if o.get("kind") == "MemberExpr" and self.is_this(inner(o)[0]) and len(self.cls.fields) == 1 \
                        and o.get("referencedMemberDecl") == self.cls.fields[0].get("id"):
                    m = {"begin": "CBegin", "cbegin": "CBegin", "end": "CEnd", "cend": "CEnd",
                         "rbegin": "CRBegin", "crbegin": "CRBegin", "rend": "CREnd", "crend": "CREnd"}.get(callee.get("member") or callee.get("name"))
                    if m:
                        return ("ICont", m)
        if k == "IntegerLiteral":
            return ("ILit", int(e.get("value")))
        if k == "UnaryOperator" and e.get("opcode") == "*":
            return ("IDeref", self.expr(inner(e)[0]))
        if k == "BinaryOperator" and e.get("opcode") == "!=":
            l, r = inner(e)
            return ("INe", self.expr(l), self.expr(r))
        if k == "InitListExpr" and len(inner(e)) == 2:
            return ("IMake", self.expr(inner(e)[0]), self.expr(inner(e)[1]))
        if k in ("CXXUnresolvedConstructExpr", "CXXTemporaryObjectExpr", "CXXConstructExpr", "CXXFunctionalCastExpr", "CXXParenListInitExpr") \
                and len(inner(e)) == 2:
            q = ((e.get("type") or {}).get("qualType") or "")
            a, b = self.expr(inner(e)[0]), self.expr(inner(e)[1])
            if q.startswith("proxy<") or "::proxy<" in q:
                return ("IProxy", a, b)
            if q.endswith("iterator") or q.endswith("::iterator"):
                return ("IMake", a, b)
            raise Unreadable("construction of %s" % q)
        raise Unreadable("expression %s" % k)

    def single_return(self):
        # local type aliases (using X = ...; typedef ...) declare no object and are skipped
        self.stmts = [s for s in self.stmts if not (s.get("kind") == "DeclStmt" and inner(s) and
                                                    all(v.get("kind") in ("TypeAliasDecl", "TypedefDecl", "UsingDecl") for v in inner(s)))]
        if len(self.stmts) != 1 or self.stmts[0].get("kind") != "ReturnStmt" or not inner(self.stmts[0]):
            raise Unreadable("not a single return")
        return self.expr(inner(self.stmts[0])[0])

    def statements(self):
        out = []
        for s in self.stmts:
            s = strip(s)
            k = s.get("kind")
            if k == "UnaryOperator" and s.get("opcode") == "++" and not s.get("isPostfix"):
                t = strip(inner(s)[0])
                if self.is_deref_this(t):
                    out.append(("IIncThis",))
                else:
                    f = self.expr(t)
                    if f[0] != "IField":
                        raise Unreadable("++ of a non-field")
                    out.append(("IInc", f[1]))
            elif k == "CXXMemberCallExpr" and not inner(s)[1:]:
                callee = strip(inner(s)[0])
                if callee.get("kind") == "MemberExpr" and callee.get("name") == "operator++" and self.is_this(inner(callee)[0]):
                    out.append(("IIncThis",))
                else:
                    raise Unreadable("member call")
            elif k == "CallExpr" and len(inner(s)) == 1 and strip(inner(s)[0]).get("kind") == "UnresolvedMemberExpr" \
                    and src_text(strip(inner(s)[0])).replace(" ", "") in ("operator++", "this->operator++"):
                out.append(("IIncThis",))      # operator++();  inside the class template: the call is not resolved yet
            elif k == "CXXOperatorCallExpr" and len(inner(s)) == 2 and \
                    (strip(inner(s)[0]).get("referencedDecl") or {}).get("name") == "operator++" and self.is_deref_this(inner(s)[1]):
                out.append(("IIncThis",))
            elif k == "DeclStmt":
                vs = [v for v in inner(s) if v.get("kind") == "VarDecl"]
                if len(vs) != 1 or len(inner(vs[0])) != 1:
                    raise Unreadable("declaration shape")
                init = strip(inner(vs[0])[0])
                while init.get("kind") == "CXXConstructExpr" and len(inner(init)) == 1:
                    init = strip(inner(init)[0])
                if not self.is_deref_this(init):
                    raise Unreadable("local is not a copy of *this")
                self.saved = vs[0].get("id")
                out.append(("ISaveThis",))
            elif k == "ReturnStmt":
                r = strip(inner(s)[0]) if inner(s) else {}
                while r.get("kind") == "CXXConstructExpr" and len(inner(r)) == 1:
                    r = strip(inner(r)[0])
                if self.is_deref_this(r):
                    out.append(("IRetThis",))
                elif r.get("kind") == "DeclRefExpr" and (r.get("referencedDecl") or {}).get("id") == self.saved and self.saved is not None:
                    out.append(("IRetSaved",))
                else:
                    out.append(("IRet", self.expr(r)))
            else:
                raise Unreadable("statement %s" % k)
        return "[" + "; ".join(show(x) for x in out) + "]"


def find_records(docs):
    proxy = it = None
    for d in docs:
        if d.get("kind") == "ClassTemplateDecl" and d.get("name") == "enumerate_proxy":
            for c in inner(d):
                if c.get("kind") == "CXXRecordDecl" and c.get("completeDefinition"):
                    proxy = c
    if proxy is None:
        raise Unreadable("enumerate_proxy not found")
    for c in inner(proxy):
        if c.get("kind") == "CXXRecordDecl" and c.get("name") == "iterator" and c.get("completeDefinition"):
            it = c
    if it is None:
        raise Unreadable("enumerate_proxy::iterator not found")
    return proxy, it


def find_template_class(docs, name):
    for d in docs:
        if d.get("kind") == "ClassTemplateDecl" and d.get("name") == name:
            for c in inner(d):
                if c.get("kind") == "CXXRecordDecl" and c.get("completeDefinition"):
                    return c
    raise Unreadable("class template %s not found" % name)


def free_function_builds_proxy(fn):
    """return detail::enumerate_proxy<...>(begin(container), end(container)) — as the single return of the function
       or of a helper it forwards its parameter to"""
    params = [p for p in inner(fn) if p.get("kind") == "ParmVarDecl"]
    body = [b for b in inner(fn) if b.get("kind") == "CompoundStmt"]
    if len(params) != 1 or len(body) != 1:
        return False
    rets = [s for s in inner(body[0]) if s.get("kind") == "ReturnStmt"]
    others = [s for s in inner(body[0]) if s.get("kind") not in ("ReturnStmt", "DeclStmt")]
    if len(rets) != 1 or others:
        return False
    for s in inner(body[0]):
        if s.get("kind") == "DeclStmt" and any(v.get("kind") != "UsingDecl" for v in inner(s)):
            return False
    e = strip(inner(rets[0])[0])
    if e.get("kind") not in ("CXXUnresolvedConstructExpr", "CXXTemporaryObjectExpr", "CXXFunctionalCastExpr") or len(inner(e)) != 2:
        return False
    if "enumerate_proxy<" not in ((e.get("type") or {}).get("qualType") or ""):
        return False

    def call_of(x, names):
        x = strip(x)
        if x.get("kind") != "CallExpr" or len(inner(x)) != 2:
            return False
        callee = strip(inner(x)[0])
        nm = callee.get("name") or (callee.get("referencedDecl") or {}).get("name")
        if callee.get("kind") == "UnresolvedLookupExpr":
            nm = callee.get("name")
        a = strip(inner(x)[1])
        return nm in names and a.get("kind") == "DeclRefExpr" and (a.get("referencedDecl") or {}).get("id") == params[0].get("id")
    return call_of(inner(e)[0], ("begin",)) and call_of(inner(e)[1], ("end",))


def generate(repo):
    head = ("(* GENERATED by gen/tr_enumerate.py from include/nitro/lang/enumerate.hpp on every run — do not edit *)\n"
            "From Coq Require Import List.\nFrom Nitro Require Import Misc.Iter Misc.IterLang.\nImport ListNotations.\n")
    names_e = ["gen_begin", "gen_end", "gen_ne", "gen_deref", "gen_deref_const"]
    lines = []
    try:
        docs = clang_ast(repo, "enumerate_proxy")
        SRC["text"] = open(os.path.join(repo, "include", "nitro", "lang", "enumerate.hpp"), encoding="latin-1").read()
        proxy_rec, it_rec = find_records(docs)
        P, I = Cls(proxy_rec, "G"), Cls(it_rec, "F")

        def guarded(name, typ, unknown, f):
            try:
                lines.append("Definition %s : %s := %s." % (name, typ, f()))
            except (Unreadable, KeyError, IndexError, TypeError) as e:
                lines.append("Definition %s : %s := %s. (* %s *)" % (name, typ, unknown, str(e).replace("*)", "* )")))

        def one(cls, name, pred=lambda m: True):
            ms = [m for m in cls.methods.get(name, []) if pred(m)]
            if len(ms) != 1:
                raise Unreadable("%d definitions of %s" % (len(ms), name))
            return ms[0]

        def nparams(m):
            return len([p for p in inner(m) if p.get("kind") == "ParmVarDecl"])

        def is_const(m):
            return ((m.get("type") or {}).get("qualType") or "").rstrip().endswith("const")
        guarded("gen_iter_ctor", "inits", "[]", lambda: ctor_inits(I))
        guarded("gen_proxy_ctor", "inits", "[]", lambda: ctor_inits(P))
        guarded("gen_begin", "iexpr", "IUnknown", lambda: show(Body(P, one(P, "begin")).single_return()))
        guarded("gen_end", "iexpr", "IUnknown", lambda: show(Body(P, one(P, "end")).single_return()))
        guarded("gen_ne", "iexpr", "IUnknown", lambda: show(Body(I, one(I, "operator!="), other_cls=I).single_return()))
        guarded("gen_deref", "iexpr", "IUnknown",
                lambda: show(Body(I, one(I, "operator*", lambda m: nparams(m) == 0 and not is_const(m))).single_return()))
        guarded("gen_deref_const", "iexpr", "IUnknown",
                lambda: show(Body(I, one(I, "operator*", lambda m: nparams(m) == 0 and is_const(m))).single_return()))
        guarded("gen_preinc", "list istmt", "[IUnknownS]", lambda: Body(I, one(I, "operator++", lambda m: nparams(m) == 0)).statements())
        guarded("gen_postinc", "list istmt", "[IUnknownS]", lambda: Body(I, one(I, "operator++", lambda m: nparams(m) == 1)).statements())
        # the owning adaptor detail::enumerate<T>, and detail::reverse_proxy / detail::reverse<T>
        docs2 = clang_ast(repo, "nitro::lang::detail::")

        def cls_of(name, prefix):
            return Cls(find_template_class(docs2, name), prefix)
        guarded("gen_own_begin", "iexpr", "IUnknown", lambda: show(Body(cls_of("enumerate", "G"), one(cls_of("enumerate", "G"), "begin")).single_return()))
        guarded("gen_own_end", "iexpr", "IUnknown", lambda: show(Body(cls_of("enumerate", "G"), one(cls_of("enumerate", "G"), "end")).single_return()))
        guarded("gen_rev_ctor", "inits", "[]", lambda: ctor_inits(cls_of("reverse_proxy", "G")))
        guarded("gen_rev_begin", "iexpr", "IUnknown", lambda: show(Body(cls_of("reverse_proxy", "G"), one(cls_of("reverse_proxy", "G"), "begin")).single_return()))
        guarded("gen_rev_end", "iexpr", "IUnknown", lambda: show(Body(cls_of("reverse_proxy", "G"), one(cls_of("reverse_proxy", "G"), "end")).single_return()))
        guarded("gen_rev_own_begin", "iexpr", "IUnknown", lambda: show(Body(cls_of("reverse", "G"), one(cls_of("reverse", "G"), "begin")).single_return()))
        guarded("gen_rev_own_end", "iexpr", "IUnknown", lambda: show(Body(cls_of("reverse", "G"), one(cls_of("reverse", "G"), "end")).single_return()))
    except Unreadable as e:
        names_e = names_e + ["gen_own_begin", "gen_own_end", "gen_rev_begin", "gen_rev_end", "gen_rev_own_begin", "gen_rev_own_end"]
        lines = ["(* unreadable: %s *)" % str(e).replace("*)", "* )"), "Definition gen_rev_ctor : inits := [].",
                 "Definition gen_iter_ctor : inits := [].", "Definition gen_proxy_ctor : inits := []."]
        lines += ["Definition %s : iexpr := IUnknown." % n for n in names_e]
        lines += ["Definition gen_preinc : list istmt := [IUnknownS].", "Definition gen_postinc : list istmt := [IUnknownS]."]
    return [("GenEnumerate.v", head + "\n".join(lines) + "\n")]


if __name__ == "__main__":
    import sys
    print(generate(sys.argv[1] if len(sys.argv) > 1 else "/repo")[0][1])

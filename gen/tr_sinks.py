# gen/tr_sinks.py — translator for property C09: re-reads the bodies of
#   nitro::log::sink::stdout_mt::sink      (include/nitro/log/sink/stdout_mt.hpp)
#   nitro::log::sink::StdErrThreaded::sink (include/nitro/log/sink/stderr_mt.hpp)
# from the repository on every run and writes coq/theories/Gen/GenSinks.v:
#   gen_stdout_mt_body, gen_stderr_mt_body : sink_body          (type in Sched/SchedModel.v)
#   gen_stdout_mt_mutex_static, gen_stderr_mt_mutex_static : bool
# Reading is done on clang's JSON AST (shape-checked: every statement must be one of the few recognised forms,
# everything else becomes SUnknown, which no obligation of Tie/Tie_C09.v accepts).  If clang cannot be run the
# fallback is a lexical comparison with the one canonical token sequence; any other text becomes SUnknown.
import json, os, re, subprocess, tempfile
from concurrent.futures import ThreadPoolExecutor

SINKS = [
    # (prefix of the generated names, header, class, stream object the insertions must go to)
    ("gen_stdout_mt", "nitro/log/sink/stdout_mt.hpp", "stdout_mt", "cout"),
    ("gen_stderr_mt", "nitro/log/sink/stderr_mt.hpp", "StdErrThreaded", "cerr"),
]
GUARD_TYPE = re.compile(r"^(const )?std::(lock_guard|unique_lock|scoped_lock)<std::mutex>$")


class Unreadable(Exception):
    pass


# ----------------------------------------------------------------------------- clang JSON AST

def clang_ast(repo, header, name):
    with tempfile.TemporaryDirectory() as d:
        tu = os.path.join(d, "tu.cpp")
        with open(tu, "w") as f:
            f.write("#include <%s>\n" % header)
        p = subprocess.run(["clang++", "-std=gnu++17", "-fsyntax-only", "-I" + os.path.join(repo, "include"),
                            "-Xclang", "-ast-dump=json", "-Xclang", "-ast-dump-filter=" + name, tu],
                           stdout=subprocess.PIPE, stderr=subprocess.PIPE, timeout=120)
    if p.returncode != 0:
        raise Unreadable("clang++ exit %d: %s" % (p.returncode, p.stderr.decode("utf-8", "replace")[-300:]))
    txt = p.stdout.decode("utf-8", "replace")
    docs, i, dec = [], 0, json.JSONDecoder()
    while True:
        while i < len(txt) and txt[i].isspace():
            i += 1
        if i >= len(txt):
            break
        d, i = dec.raw_decode(txt, i)
        docs.append(d)
    return docs


def inner(n):
    return [c for c in n.get("inner", []) if isinstance(c, dict) and c.get("kind")]


def strip(e):
    """drop wrappers that do not change which object/function an expression denotes"""
    while e.get("kind") in ("ImplicitCastExpr", "ParenExpr", "ExprWithCleanups", "MaterializeTemporaryExpr",
                            "CXXBindTemporaryExpr", "ConstantExpr") and len(inner(e)) == 1:
        e = inner(e)[0]
    return e


def qual(n):
    return (n.get("type") or {}).get("qualType", "")


def desugared(n):
    t = n.get("type") or {}
    return t.get("desugaredQualType") or t.get("qualType", "")


class SinkReader:
    def __init__(self, cls, stream):
        self.cls = cls
        self.stream = stream
        self.members = {c.get("id"): c for c in inner(cls)}
        self.static_keys, self.member_keys = [], []
        self.local_static_mutexes = {}   # id -> name, function-local static std::mutex declared in sink itself
        self.aliases = {}                # id of a local `std::mutex& x = <mutex expression>;` -> the mutex it names
        self.notes = []
        self.nguards = 0
        self.all_static = True
        sinks = [c for c in inner(cls) if c.get("kind") == "CXXMethodDecl" and c.get("name") == "sink"]
        if len(sinks) != 1:
            raise Unreadable("%d methods called sink" % len(sinks))
        self.fn = sinks[0]
        if self.fn.get("virtual") or self.fn.get("storageClass"):
            raise Unreadable("sink is virtual or static")
        parms = [c for c in inner(self.fn) if c.get("kind") == "ParmVarDecl"]
        bodies = [c for c in inner(self.fn) if c.get("kind") == "CompoundStmt"]
        if len(parms) != 2 or len(bodies) != 1 or "std::string" not in qual(parms[1]) and "basic_string" not in qual(parms[1]):
            raise Unreadable("signature of sink not (severity_level, const std::string&)")
        self.rec_id = parms[1].get("id")
        self.body = bodies[0]

    # -- which mutex object does an expression denote?
    def is_plain_mutex(self, d):
        return desugared(d) == "std::mutex" and not d.get("tls")

    def mutex_of(self, e):
        e = strip(e)
        k = e.get("kind")
        if k == "CXXMemberCallExpr":
            # this->accessor()  (non-static member function)
            parts = inner(e)
            if len(parts) != 1:
                return None
            callee = strip(parts[0])
            if callee.get("kind") != "MemberExpr" or strip(inner(callee)[0]).get("kind") != "CXXThisExpr":
                return None
            return self.accessor(self.members.get(callee.get("referencedMemberDecl")))
        if k == "CallExpr":
            # accessor()  where the accessor is a STATIC member function of the class
            parts = inner(e)
            if len(parts) != 1:
                return None
            callee = strip(parts[0])
            ref = callee.get("referencedDecl") or {}
            if callee.get("kind") != "DeclRefExpr" or ref.get("kind") != "CXXMethodDecl":
                return None
            return self.accessor(self.members.get(ref.get("id")))
        if k == "MemberExpr":
            return self.member_expr(e)
        if k == "DeclRefExpr":
            rid = (e.get("referencedDecl") or {}).get("id")
            if rid in self.local_static_mutexes:
                return ("static", "sink()::" + self.local_static_mutexes[rid])
            if rid in self.aliases:
                return self.aliases[rid]
            return self.class_var(rid)
        return None

    def accessor(self, m):
        """a member function (static or not, any name) without parameters whose body is
           `static std::mutex x; return x;` (one object for the whole process), or that returns a member / static member"""
        if not m or m.get("kind") != "CXXMethodDecl" or m.get("virtual"):
            return None
        if any(c.get("kind") == "ParmVarDecl" for c in inner(m)):
            return None
        bodies = [c for c in inner(m) if c.get("kind") == "CompoundStmt"]
        if len(bodies) != 1:
            return None
        stmts = inner(bodies[0])
        local = {}
        for st in stmts[:-1]:
            ds = inner(st)
            if st.get("kind") != "DeclStmt" or len(ds) != 1 or ds[0].get("kind") != "VarDecl":
                return None
            local[ds[0].get("id")] = ds[0]
        if not stmts or stmts[-1].get("kind") != "ReturnStmt" or len(inner(stmts[-1])) != 1:
            return None
        r = strip(inner(stmts[-1])[0])
        if r.get("kind") == "DeclRefExpr":
            rid = (r.get("referencedDecl") or {}).get("id")
            if rid in local:
                v = local[rid]
                if v.get("storageClass") == "static" and self.is_plain_mutex(v):
                    return ("static", "%s()::%s" % (m.get("name"), v.get("name")))
                return None
            return self.class_var(rid)
        if r.get("kind") == "MemberExpr" and m.get("storageClass") != "static":
            return self.member_expr(r)
        return None

    def class_var(self, rid):
        v = self.members.get(rid)
        if v and v.get("kind") == "VarDecl" and v.get("storageClass") == "static" and self.is_plain_mutex(v):
            return ("static", "%s::%s" % (self.cls.get("name"), v.get("name")))
        return None

    def member_expr(self, e):
        base = inner(e)
        if len(base) != 1 or strip(base[0]).get("kind") != "CXXThisExpr":
            return None
        d = self.members.get(e.get("referencedMemberDecl"))
        if not d:
            return None
        if d.get("kind") == "FieldDecl" and self.is_plain_mutex(d):
            return ("member", d.get("name"))
        if d.get("kind") == "VarDecl":
            return self.class_var(d.get("id"))
        return None

    # -- statements
    def is_stream(self, e):
        e = strip(e)
        return (e.get("kind") == "DeclRefExpr" and (e.get("referencedDecl") or {}).get("kind") == "VarDecl"
                and (e.get("referencedDecl") or {}).get("name") == self.stream and qual(e) in ("std::ostream", "ostream"))

    def chain(self, e):
        """stream << item << item ...  ->  list of 'I' / 'F', or None"""
        e = strip(e)
        if self.is_stream(e):
            return []
        if e.get("kind") != "CXXOperatorCallExpr":
            return None
        parts = inner(e)
        if len(parts) != 3:
            return None
        callee = strip(parts[0])
        if callee.get("kind") != "DeclRefExpr" or (callee.get("referencedDecl") or {}).get("name") != "operator<<":
            return None
        left = self.chain(parts[1])
        if left is None:
            return None
        r = strip(parts[2])
        ref = r.get("referencedDecl") or {}
        if r.get("kind") == "DeclRefExpr" and ref.get("kind") == "ParmVarDecl" and ref.get("id") == self.rec_id:
            return left + ["I"]
        if r.get("kind") == "DeclRefExpr" and ref.get("kind") == "FunctionDecl" and ref.get("name") == "flush":
            return left + ["F"]
        return None

    def stmt(self, s):
        """-> list of (constructor text | ('B', [..]))"""
        k = s.get("kind")
        if k == "NullStmt":
            return []
        if k == "CompoundStmt":
            return [("B", self.block(s))]
        if k == "DeclStmt":
            ds = inner(s)
            if len(ds) == 1 and ds[0].get("kind") == "VarDecl":
                v = ds[0]
                if v.get("storageClass") == "static" and self.is_plain_mutex(v):
                    self.local_static_mutexes[v.get("id")] = v.get("name")
                    return []
                if desugared(v) == "std::mutex &" and not v.get("storageClass") and not v.get("tls"):
                    # a named reference to a mutex: no statement of its own, later guards may lock through it
                    init = [strip(c) for c in inner(v)]
                    m = self.mutex_of(init[0]) if len(init) == 1 else None
                    if m:
                        self.aliases[v.get("id")] = m
                        return []
                if GUARD_TYPE.match(desugared(v)) and not v.get("storageClass") and not v.get("tls"):
                    init = [strip(c) for c in inner(v)]
                    if len(init) == 1 and init[0].get("kind") == "CXXConstructExpr":
                        args = [a for a in inner(init[0]) if a.get("kind") != "CXXDefaultArgExpr"]
                        if len(args) == 1:
                            m = self.mutex_of(args[0])
                            if m:
                                self.nguards += 1
                                if m[0] == "static":
                                    if m[1] not in self.static_keys:
                                        self.static_keys.append(m[1])
                                    return ["SLockGuard (MStatic %d)" % self.static_keys.index(m[1])]
                                self.all_static = False
                                if m[1] not in self.member_keys:
                                    self.member_keys.append(m[1])
                                return ["SLockGuard (MMember %d)" % self.member_keys.index(m[1])]
            self.notes.append("unrecognised declaration statement")
            return ["SUnknown"]
        e = strip(s)
        if e.get("kind") == "CXXOperatorCallExpr":
            c = self.chain(e)
            if c:
                return ["SInsert" if x == "I" else "SFlush" for x in c]
        if e.get("kind") == "CXXMemberCallExpr":
            parts = inner(e)
            if len(parts) == 1:
                callee = strip(parts[0])
                if callee.get("kind") == "MemberExpr" and callee.get("name") == "flush" and self.is_stream(inner(callee)[0]):
                    return ["SFlush"]
        if e.get("kind") == "CallExpr":
            # std::flush(stream)
            parts = inner(e)
            if len(parts) == 2:
                callee = strip(parts[0])
                ref = callee.get("referencedDecl") or {}
                if callee.get("kind") == "DeclRefExpr" and ref.get("kind") == "FunctionDecl" and ref.get("name") == "flush" and self.is_stream(parts[1]):
                    return ["SFlush"]
        self.notes.append("unrecognised statement of kind %s" % k)
        return ["SUnknown"]

    def block(self, comp):
        out = []
        for s in inner(comp):
            out += self.stmt(s)
        return out


def coq_of(items):
    if not items:
        return "SEnd"
    h, rest = items[0], coq_of(items[1:])
    if isinstance(h, tuple):
        return "(SBlock %s %s)" % (coq_of(h[1]), rest)
    return "(%s %s)" % (h, rest)


def read_ast(repo, header, cls_name, stream):
    docs = clang_ast(repo, header, cls_name)
    cands = [d for d in docs if d.get("kind") == "CXXRecordDecl" and d.get("name") == cls_name and d.get("completeDefinition")]
    if len(cands) != 1:
        raise Unreadable("class %s: %d plain (non-template) definitions found" % (cls_name, len(cands)))
    rd = SinkReader(cands[0], stream)
    items = rd.block(rd.body)
    static = rd.nguards > 0 and rd.all_static
    return coq_of(items), static, "clang JSON AST; static mutexes %s, member mutexes %s%s" % (
        rd.static_keys, rd.member_keys, ("; " + "; ".join(rd.notes)) if rd.notes else "")


# ----------------------------------------------------------------------------- lexical fallback

def lexical(repo, header, cls_name, stream):
    src = open(os.path.join(repo, "include", header), "rb").read().decode("latin-1")
    src = re.sub(r"/\*.*?\*/", " ", src, flags=re.S)
    src = re.sub(r"//[^\n]*", " ", src)
    toks = re.findall(r"[A-Za-z_][A-Za-z_0-9]*|::|<<|\S", src)
    i = None
    for k in range(len(toks) - 1):
        if toks[k] == "class" and toks[k + 1] == cls_name:
            i = k
    if i is None:
        raise Unreadable("class not found")
    text = " ".join(toks[i:])
    acc = r"std :: mutex & (\w+) \( \) \{ static std :: mutex (\w+) ; return \2 ; \}"
    m = re.search(acc, text)
    if not m:
        raise Unreadable("mutex accessor not in canonical form")
    fn = m.group(1)
    head = r"void sink \( severity_level , const std :: string & (\w+) \) \{ std :: lock_guard < std :: mutex > \w+ \( %s \( \) \) ; std :: %s << \1 " % (fn, stream)
    m1 = re.search(head + r"; \}", text)
    m2 = re.search(head + r"<< std :: flush ; \}", text)
    if text.count(" sink (") != 1 or text.count(fn + " (") != 2:
        raise Unreadable("more than one sink/accessor")
    if m2:
        return "(SLockGuard (MStatic 0) (SInsert (SFlush SEnd)))", True, "lexical scan (canonical text)"
    if m1:
        return "(SLockGuard (MStatic 0) (SInsert SEnd))", True, "lexical scan (canonical text)"
    raise Unreadable("sink body not in canonical form")


def read_one(repo, spec):
    prefix, header, cls_name, stream = spec
    try:
        return read_ast(repo, header, cls_name, stream)
    except Unreadable as e:
        return "(SUnknown SEnd)", False, "unreadable: %s" % e
    except (OSError, subprocess.SubprocessError) as e:
        why = "clang not usable (%r)" % e
    try:
        body, static, how = lexical(repo, header, cls_name, stream)
        return body, static, why + "; " + how
    except (Unreadable, OSError) as e:
        return "(SUnknown SEnd)", False, why + "; lexical scan: %s" % e


def generate(repo):
    with ThreadPoolExecutor(2) as ex:
        res = list(ex.map(lambda s: read_one(repo, s), SINKS))
    out = ["(* Gen/GenSinks.v — GENERATED by gen/tr_sinks.py from the repository on every run; do not edit. *)",
           "From Nitro Require Import Sched.SchedModel.", ""]
    for (prefix, header, cls_name, stream), (body, static, how) in zip(SINKS, res):
        how = how.replace("(*", "( *").replace("*)", "* )")
        out.append("(* %s::sink in include/%s, insertions into std::%s — read by: %s *)" % (cls_name, header, stream, how))
        out.append("Definition %s_body : sink_body := %s." % (prefix, body))
        out.append("Definition %s_mutex_static : bool := %s." % (prefix, "true" if static else "false"))
        out.append("")
    return [("GenSinks.v", "\n".join(out))]


if __name__ == "__main__":
    import sys
    for name, text in generate(sys.argv[1] if len(sys.argv) > 1 else "/repo"):
        print(text)

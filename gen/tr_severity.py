# gen/tr_severity.py — translator for the closed-world tables of nitro::log used by C05/C10:
#   * the enumerators of severity_level with their underlying values (severity.hpp), read from clang's JSON AST
#     and, independently, lexically; both readings must agree
#   * the comparison of the compile-time gate (stream.hpp: log::actual_stream) and which stream type each outcome selects
#   * the comparison in filter::severity_filter::filter and the initial threshold (severity_filter.hpp)
#   * the six logger entry points and the severity each one instantiates (logger.hpp)
# Emits Gen/GenSeverity.v.  Anything whose SHAPE is not the expected one becomes an `…Unknown` constructor that no
# obligation of Tie/Tie_C05.v accepts.
import json, os, re, subprocess


def strip_comments(txt):
    txt = re.sub(r"/\*.*?\*/", " ", txt, flags=re.S)
    txt = re.sub(r"//[^\n]*", " ", txt)
    return txt


def read(repo, rel):
    with open(os.path.join(repo, "include", "nitro", "log", rel), "rb") as f:
        return strip_comments(f.read().decode("latin-1"))


def coq_str(s):
    return '"' + s.replace('"', '""') + '"'


# ------------------------------------------------------------------ enumerators

def enum_lexical(src):
    m = re.findall(r"enum\s+class\s+severity_level\s*(?::\s*[\w:\s]+?)?\s*\{([^{}]*)\}", src)
    if len(m) != 1:
        return None, "expected exactly one definition of enum class severity_level, found %d" % len(m)
    out, nxt = [], 0
    parts = [p.strip() for p in m[0].split(",")]
    if parts and parts[-1] == "":
        parts.pop()
    for p in parts:
        mm = re.fullmatch(r"([A-Za-z_]\w*)(?:\s*=\s*(-?\d+))?", p)
        if not mm:
            return None, "enumerator not of the form `name` or `name = <integer literal>`: " + p[:40]
        if mm.group(2) is not None:
            nxt = int(mm.group(2))
        out.append((mm.group(1), nxt))
        nxt += 1
    return out, None


def enum_clang(repo):
    """[(name, value)] from clang's AST, or None when clang is not usable"""
    tu = "#include <nitro/log/severity.hpp>\n"
    try:
        p = subprocess.run(["clang++", "-std=gnu++17", "-fsyntax-only", "-I" + os.path.join(repo, "include"), "-x", "c++", "-",
                            "-Xclang", "-ast-dump=json", "-Xclang", "-ast-dump-filter=severity_level"],
                           input=tu.encode(), stdout=subprocess.PIPE, stderr=subprocess.PIPE, timeout=120)
    except (OSError, subprocess.TimeoutExpired):
        return None
    if p.returncode != 0:
        return None
    txt = p.stdout.decode("utf-8", "replace")
    dec, i, found = json.JSONDecoder(), 0, []
    while True:
        while i < len(txt) and txt[i].isspace():
            i += 1
        if i >= len(txt):
            break
        try:
            d, i = dec.raw_decode(txt, i)
        except ValueError:
            return None
        if d.get("kind") == "EnumDecl" and d.get("name") == "severity_level" and "inner" in d:
            found.append(d)
    if len(found) != 1:
        return None
    out, nxt = [], 0
    for c in found[0]["inner"]:
        if c.get("kind") != "EnumConstantDecl":
            continue
        if "inner" in c:
            v = None
            for e in c["inner"]:
                if e.get("kind") == "ConstantExpr" and "value" in e:
                    v = int(e["value"])
            if v is None:
                return "unreadable"
            nxt = v
        out.append((c["name"], nxt))
        nxt += 1
    return out


# ------------------------------------------------------------------ comparisons

OPS = {">=": "GGe", ">": "GGt", "<=": "GLe", "<": "GLt", "==": "GEq", "!=": "GNe"}
FLIP = {">=": "<=", ">": "<", "<=": ">=", "<": ">", "==": "==", "!=": "!="}
OPRE = r"(>=|<=|==|!=|>|<)"


def gate(src):
    """(op constructor, stream selected by true, stream selected by false)"""
    op = "GCmpUnknown"
    # log::actual_stream: using type = typename detail::actual_stream< <cond>, Record, Formatter, Sink, Filter, Severity>::type;
    m = re.findall(r"using\s+type\s*=\s*typename\s+detail::actual_stream<(.*?),\s*Record\s*,\s*Formatter\s*,\s*Sink\s*,\s*Filter\s*,\s*Severity\s*>::type\s*;", src, flags=re.S)
    if len(m) == 1:
        cond = " ".join(m[0].split())
        while cond.startswith("(") and cond.endswith(")"):     # (a > b) must be parenthesised inside a template argument list
            cond = cond[1:-1].strip()
        a = re.fullmatch(r"Severity\s*" + OPRE + r"\s*severity_level::NITRO_LOG_MIN_SEVERITY", cond)
        b = re.fullmatch(r"severity_level::NITRO_LOG_MIN_SEVERITY\s*" + OPRE + r"\s*Severity", cond)
        if a:
            op = OPS[a.group(1)]
        elif b:
            op = OPS[FLIP[b.group(1)]]
    # detail::actual_stream: primary template (condition true) and the <false, …> specialisation
    prim = re.findall(r"template\s*<\s*bool\s*,[^<>]*(?:<[^<>]*>[^<>]*)*>\s*struct\s+actual_stream\s*\{\s*typedef\s+(\w+)\s*(?:<[^;]*>)?\s+type\s*;\s*\}", src, flags=re.S)
    spec = re.findall(r"struct\s+actual_stream\s*<\s*(true|false)\s*,[^{}]*>\s*\{\s*typedef\s+(\w+)\s*(?:<[^;]*>)?\s+type\s*;\s*\}", src, flags=re.S)
    t = f = "?"
    if len(prim) == 1 and len(spec) == 1:
        if spec[0][0] == "false":
            t, f = prim[0], spec[0][1]
        else:
            f, t = prim[0], spec[0][1]
    return op, t, f


def severity_filter(src):
    op, init = "GCmpUnknown", "?"
    m = re.findall(r"bool\s+filter\s*\(\s*Record\s*&\s*r\s*\)\s*const\s*\{([^{}]*)\}", src)
    if len(m) == 1:
        body = " ".join(m[0].split())
        a = re.fullmatch(r"return r\.severity\(\)\s*" + OPRE + r"\s*min_severity\(\)\s*;", body)
        b = re.fullmatch(r"return min_severity\(\)\s*" + OPRE + r"\s*r\.severity\(\)\s*;", body)
        if a:
            op = OPS[a.group(1)]
        elif b:
            op = OPS[FLIP[b.group(1)]]
    g = re.findall(r"static\s+severity_level\s+min_severity\s*\(\s*\)\s*\{\s*return\s+sev\s*;\s*\}", src)
    s = re.findall(r"static\s+void\s+set_severity\s*\(\s*severity_level\s+(\w+)\s*\)\s*\{\s*sev\s*=\s*(\w+)\s*;\s*\}", src)
    accessors_ok = len(g) == 1 and len(s) == 1 and s[0][0] == s[0][1]
    i = re.findall(r"severity_level\s+severity_filter\s*<\s*Record\s*,\s*N\s*>::sev\s*=\s*severity_level::(\w+)\s*;", src)
    if len(i) == 1:
        init = i[0]
    # where the threshold lives: a static data member `sev` of the class template over (Record, N), defined once out of class
    storage = "?"
    decl = re.findall(r"template\s*<\s*typename\s+Record\s*,\s*unsigned\s+N\s*=\s*0\s*>\s*class\s+severity_filter\s*\{(.*?)\n\s*\};", src, flags=re.S)
    defn = re.findall(r"template\s*<\s*typename\s+Record\s*,\s*unsigned\s+N\s*>\s*severity_level\s+severity_filter\s*<\s*Record\s*,\s*N\s*>::sev\s*=", src)
    if len(decl) == 1 and len(defn) == 1 and len(re.findall(r"static\s+severity_level\s+sev\s*;", decl[0])) == 1 and accessors_ok:
        storage = "static member of severity_filter<Record, N>"
    return op, init, storage


def logger_functions(src):
    out = []
    for m in re.finditer(r"static\s+actual_stream_t\s*<\s*severity_level::(\w+)\s*>\s*(\w+)\s*\(\s*lang::string_ref\s+tag\s*=\s*nullptr\s*\)\s*"
                         r"\{\s*return\s+actual_stream_t\s*<\s*severity_level::(\w+)\s*>\s*\(\s*tag\s*\)\s*;\s*\}", src):
        if m.group(1) == m.group(3):
            out.append((m.group(2), m.group(1)))
        else:
            out.append((m.group(2), "?"))
    return out


def generate(repo):
    notes = []
    try:
        lex, why = enum_lexical(read(repo, "severity.hpp"))
    except OSError as e:
        lex, why = None, "cannot read severity.hpp: %r" % (e,)
    cl = enum_clang(repo)
    if lex is None:
        enum = "GEnumUnknown %s" % coq_str(why)
    elif cl == "unreadable" or (cl is not None and cl != lex):
        enum = "GEnumUnknown %s" % coq_str("clang and the lexical reading of severity_level disagree: %r vs %r" % (cl, lex))
    else:
        if cl is None:
            notes.append("clang not usable: enumerators read lexically only")
        enum = "GEnum [%s]" % "; ".join("(%s, %d%%Z)" % (coq_str(n), v) for n, v in lex)
    try:
        gop, gt, gf = gate(read(repo, "stream.hpp"))
    except OSError:
        gop, gt, gf = "GCmpUnknown", "?", "?"
    try:
        fop, finit, fstore = severity_filter(read(repo, os.path.join("filter", "severity_filter.hpp")))
    except OSError:
        fop, finit, fstore = "GCmpUnknown", "?", "?"
    try:
        lf = logger_functions(read(repo, "logger.hpp"))
    except OSError:
        lf = []
    text = """(* GENERATED by gen/tr_severity.py from the repository on every run — do not edit.
   severity_level enumerators, the two severity comparisons, stream type selection, logger entry points. %s *)
From Coq Require Import List String ZArith.
Import ListNotations.
Local Open Scope string_scope.

Inductive gen_cmp := GGe | GGt | GLe | GLt | GEq | GNe | GCmpUnknown.
Inductive gen_enum := GEnum (l : list (string * Z)) | GEnumUnknown (why : string).

(* include/nitro/log/severity.hpp: enum class severity_level, (enumerator, underlying value) in declaration order *)
Definition gen_severities : gen_enum := %s.
(* include/nitro/log/stream.hpp log::actual_stream:  Severity <op> severity_level::NITRO_LOG_MIN_SEVERITY *)
Definition gen_gate_op : gen_cmp := %s.
(* detail::actual_stream<cond,…>::type for cond = true / false *)
Definition gen_gate_true_stream : string := %s.
Definition gen_gate_false_stream : string := %s.
(* include/nitro/log/filter/severity_filter.hpp filter():  r.severity() <op> min_severity() *)
Definition gen_filter_op : gen_cmp := %s.
Definition gen_filter_initial : string := %s.
(* where severity_filter keeps its threshold ("?" when it is not a static data member of the class template over (Record, N)) *)
Definition gen_filter_storage : string := %s.
(* include/nitro/log/logger.hpp: (static member function, severity it instantiates) *)
Definition gen_logger_functions : list (string * string) := [%s].
""" % ("; ".join(notes), enum, gop, coq_str(gt), coq_str(gf), fop, coq_str(finit), coq_str(fstore),
       "; ".join("(%s, %s)" % (coq_str(a), coq_str(b)) for a, b in lf))
    return [("GenSeverity.v", text)]


if __name__ == "__main__":
    import sys
    for n, t in generate(sys.argv[1] if len(sys.argv) > 1 else "/repo"):
        print(t)

# gen/tr_severity.py — translator for the closed-world tables of nitro::log used by C05/C10:
#   * the enumerators of severity_level with their underlying values (severity.hpp), read from clang's JSON AST
#     and, independently, lexically; both readings must agree
#   * the comparison of the compile-time gate (stream.hpp: log::actual_stream) and which stream type each outcome selects
#   * the comparison in filter::severity_filter::filter and the initial threshold (severity_filter.hpp)
#   * the six logger entry points and the severity each one instantiates (logger.hpp)
# Emits Gen/GenSeverity.v.  Anything whose SHAPE is not the expected one becomes an `…Unknown` constructor that no
# obligation of Tie/Tie_C05.v accepts.
import json, os, re, subprocess


def strip_comments(txt):
    txt = re.sub(r"/\*.*?\*/", " ", txt, flags=re.S)
    txt = re.sub(r"//[^\n]*", " ", txt)
    return txt


def read(repo, rel):
    with open(os.path.join(repo, "include", "nitro", "log", rel), "rb") as f:
        return strip_comments(f.read().decode("latin-1"))


def coq_str(s):
    return '"' + s.replace('"', '""') + '"'


# ------------------------------------------------------------------ enumerators

def enum_lexical(src):
    m = re.findall(r"enum\s+class\s+severity_level\s*(?::\s*[\w:\s]+?)?\s*\{([^{}]*)\}", src)
    if len(m) != 1:
        return None, "expected exactly one definition of enum class severity_level, found %d" % len(m)
    out, nxt = [], 0
    parts = [p.strip() for p in m[0].split(",")]
    if parts and parts[-1] == "":
        parts.pop()
    for p in parts:
        mm = re.fullmatch(r"([A-Za-z_]\w*)(?:\s*=\s*(-?\d+))?", p)
        if not mm:
            return None, "enumerator not of the form `name` or `name = <integer literal>`: " + p[:40]
        if mm.group(2) is not None:
            nxt = int(mm.group(2))
        out.append((mm.group(1), nxt))
        nxt += 1
    return out, None


def enum_clang(repo):
    """[(name, value)] from clang's AST, or None when clang is not usable"""
    tu = "#include <nitro/log/severity.hpp>\n"
    try:
        p = subprocess.run(["clang++", "-std=gnu++17", "-fsyntax-only", "-I" + os.path.join(repo, "include"), "-x", "c++", "-",
                            "-Xclang", "-ast-dump=json", "-Xclang", "-ast-dump-filter=severity_level"],
                           input=tu.encode(), stdout=subprocess.PIPE, stderr=subprocess.PIPE, timeout=120)
    except (OSError, subprocess.TimeoutExpired):
        return None
    if p.returncode != 0:
        return None
    txt = p.stdout.decode("utf-8", "replace")
    dec, i, found = json.JSONDecoder(), 0, []
    while True:
        while i < len(txt) and txt[i].isspace():
            i += 1
        if i >= len(txt):
            break
        try:
            d, i = dec.raw_decode(txt, i)
        except ValueError:
            return None
        if d.get("kind") == "EnumDecl" and d.get("name") == "severity_level" and "inner" in d:
            found.append(d)
    if len(found) != 1:
        return None
    out, nxt = [], 0
    for c in found[0]["inner"]:
        if c.get("kind") != "EnumConstantDecl":
            continue
        if "inner" in c:
            v = None
            for e in c["inner"]:
                if e.get("kind") == "ConstantExpr" and "value" in e:
                    v = int(e["value"])
            if v is None:
                return "unreadable"
            nxt = v
        out.append((c["name"], nxt))
        nxt += 1
    return out


# ------------------------------------------------------------------ comparisons

OPS = {">=": "GGe", ">": "GGt", "<=": "GLe", "<": "GLt", "==": "GEq", "!=": "GNe"}
FLIP = {">=": "<=", ">": "<", "<=": ">=", "<": ">", "==": "==", "!=": "!="}
OPRE = r"(>=|<=|==|!=|>|<)"
NEG = {">=": "<", "<": ">=", "<=": ">", ">": "<=", "==": "!=", "!=": "=="}


def strip_parens(e):
    """remove redundant outer parentheses"""
    e = e.strip()
    while e.startswith("(") and e.endswith(")"):
        depth, ok = 0, True
        for k, ch in enumerate(e):
            depth += ch == "("
            depth -= ch == ")"
            if depth == 0 and k < len(e) - 1:
                ok = False
                break
        if not ok:
            break
        e = e[1:-1].strip()
    return e


def comparison(expr, lhs_names, rhs_names):
    """normalise `a OP b`, `b OP' a`, `!(a OP b)`, `!(b OP a)` with redundant parentheses and `this->` to the operator OP*
    such that the expression means  lhs OP* rhs;  None when the expression has another shape"""
    e = strip_parens(" ".join(expr.split()).replace("this->", "").replace("this ->", ""))
    neg = False
    while e.startswith("!"):
        neg = not neg
        e = strip_parens(e[1:])
    m = re.fullmatch(r"(.+?)\s*" + OPRE + r"\s*(.+)", e)
    if not m:
        return None

    def canon(t):
        t = strip_parens(t).replace(" ", "")
        t = re.sub(r"^this->", "", t)
        return t
    a, op, b = canon(m.group(1)), m.group(2), canon(m.group(3))
    if a in lhs_names and b in rhs_names:
        pass
    elif a in rhs_names and b in lhs_names:
        op = FLIP[op]
    else:
        return None
    return NEG[op] if neg else op


def split_template_args(txt):
    """top-level arguments of a template argument list whose FIRST argument may contain comparison operators:
    the first argument ends at the first comma outside parentheses; the others are split at angle depth 0"""
    depth = 0
    for k, ch in enumerate(txt):
        depth += ch == "("
        depth -= ch == ")"
        if ch == "," and depth == 0:
            first, rest = txt[:k], txt[k + 1:]
            break
    else:
        return [txt]
    out, cur, ang, par = [first], "", 0, 0
    for ch in rest:
        if ch == "<":
            ang += 1
        elif ch == ">":
            ang -= 1
        elif ch == "(":
            par += 1
        elif ch == ")":
            par -= 1
        if ch == "," and ang == 0 and par == 0:
            out.append(cur)
            cur = ""
        else:
            cur += ch
    out.append(cur)
    return [" ".join(a.split()) for a in out]


def body_after(src, start):
    """text between the `{` at/after position start and its matching `}`"""
    k = src.index("{", start)
    depth = 0
    for e in range(k, len(src)):
        depth += src[e] == "{"
        depth -= src[e] == "}"
        if depth == 0:
            return src[k + 1:e], e + 1
    raise ValueError("unbalanced braces")


GATE_LHS = {"Severity"}
GATE_RHS = {"severity_level::NITRO_LOG_MIN_SEVERITY", "log::severity_level::NITRO_LOG_MIN_SEVERITY",
            "nitro::log::severity_level::NITRO_LOG_MIN_SEVERITY", "::nitro::log::severity_level::NITRO_LOG_MIN_SEVERITY"}


def type_head(t):
    """smart_stream<…> / detail::null_stream -> its unqualified template/class name"""
    m = re.fullmatch(r"(?:typename\s+)?(?:(?:::)?(?:\w+::)*)(\w+)\s*(?:<.*>)?", t.strip(), flags=re.S)
    return m.group(1) if m else "?"


def gate(src):
    """(op constructor, stream selected by true, stream selected by false).  Accepted spellings of log::actual_stream::type:
       using type = [typename] detail::actual_stream<COND, …>::type;      typedef [typename] detail::actual_stream<COND, …>::type type;
       (with the primary template / <true|false, …> specialisation of detail::actual_stream naming the two stream types by
       typedef or using), or   std::conditional_t<COND, A, B>  /  typename std::conditional<COND, A, B>::type."""
    op, t, f = "GCmpUnknown", "?", "?"
    # the public trait: template <severity_level Severity, …> struct actual_stream { … };
    pub = [m for m in re.finditer(r"template\s*<\s*severity_level\s+Severity\s*,[^{};]*>\s*struct\s+actual_stream\s*(?=\{)", src)]
    if len(pub) != 1:
        return op, t, f
    body, _ = body_after(src, pub[0].end())
    body = " ".join(body.split())
    m = re.fullmatch(r"using type = (.*) ;|using type = (.*);|typedef (.*) type ?;", body)
    if not m:
        return op, t, f
    rhs = next(g for g in m.groups() if g is not None).strip()
    cond = None
    c = re.fullmatch(r"(?:typename )?(?:::)?std::conditional_t ?<(.*)>", rhs) or re.fullmatch(r"typename (?:::)?std::conditional ?<(.*)> ?::type", rhs)
    d = re.fullmatch(r"(?:typename )?(?:detail::|log::detail::|nitro::log::detail::)actual_stream ?<(.*)> ?::type", rhs)
    if c:
        args = split_template_args(c.group(1))
        if len(args) == 3:
            cond, t, f = args[0], type_head(args[1]), type_head(args[2])
    elif d:
        args = split_template_args(d.group(1))
        if [a.replace(" ", "") for a in args[1:]] == ["Record", "Formatter", "Sink", "Filter", "Severity"]:
            cond = args[0]
        # detail::actual_stream: primary template (its bool parameter unnamed) and one <true|false, …> specialisation
        prim = [m for m in re.finditer(r"template\s*<\s*bool\s*(?:\w+\s*)?,[^{};]*>\s*struct\s+actual_stream\s*(?=\{)", src)]
        spec = [m for m in re.finditer(r"struct\s+actual_stream\s*<\s*(true|false)\s*,[^{};]*>\s*(?=\{)", src)]

        def member_type(mm):
            b = " ".join(body_after(src, mm.end())[0].split())
            x = re.fullmatch(r"using type = (.*?) ?;|typedef (.*) type ?;", b)
            return type_head(next(g for g in x.groups() if g is not None)) if x else "?"
        if len(prim) == 1 and len(spec) == 1:
            if spec[0].group(1) == "false":
                t, f = member_type(prim[0]), member_type(spec[0])
            else:
                f, t = member_type(prim[0]), member_type(spec[0])
    if cond is not None:
        o = comparison(cond, GATE_LHS, GATE_RHS)
        if o:
            op = OPS[o]
    return op, t, f


FILTER_LHS = {"r.severity()"}


def severity_filter(src):
    """(comparison of filter(), initial threshold, where the threshold lives).
    Storage spellings that all mean ONE THRESHOLD PER (Record, N), i.e. an entity declared inside the class template:
      (a) static severity_level sev;  + out-of-class  template <…> severity_level severity_filter<Record, N>::sev = severity_level::X;
      (b) inline static / static inline severity_level sev = severity_level::X;   (in-class initialiser)
      (c) static severity_level& acc() { static severity_level v = severity_level::X; return v; }   used by both accessors
    Anything else (a namespace-scope variable or helper, a non-template base, …) reads as "?"."""
    op, init, storage = "GCmpUnknown", "?", "?"
    cls = [m for m in re.finditer(r"template\s*<\s*typename\s+Record\s*,\s*unsigned\s+N\s*(?:=\s*0\s*)?>\s*class\s+severity_filter\s*(?=\{)", src)]
    if len(cls) != 1:
        return op, init, storage
    body, end = body_after(src, cls[0].end())
    # ---- the storage entity, declared inside the class body
    store_names = set()
    a = re.findall(r"(?<![\w])static\s+severity_level\s+(\w+)\s*;", body)
    b = re.findall(r"(?:inline\s+static|static\s+inline)\s+severity_level\s+(\w+)\s*(?:=\s*severity_level::(\w+)|\{\s*severity_level::(\w+)\s*\})\s*;", body)
    c = re.findall(r"static\s+severity_level\s*&\s*(\w+)\s*\(\s*\)\s*(?:noexcept\s*)?\{\s*static\s+severity_level\s+(\w+)\s*(?:=\s*severity_level::(\w+)|\{\s*severity_level::(\w+)\s*\})\s*;\s*return\s+(\w+)\s*;\s*\}", body)
    if len(a) == 1 and not b and not c:
        d = re.findall(r"template\s*<\s*typename\s+Record\s*,\s*unsigned\s+N\s*>\s*severity_level\s+severity_filter\s*<\s*Record\s*,\s*N\s*>::(\w+)\s*"
                       r"(?:=\s*severity_level::(\w+)|\{\s*severity_level::(\w+)\s*\})\s*;", src[end:])
        if len(d) == 1 and d[0][0] == a[0]:
            store_names, init = {a[0]}, d[0][1] or d[0][2]
    elif len(b) == 1 and not a and not c:
        store_names, init = {b[0][0]}, b[0][1] or b[0][2]
    elif len(c) == 1 and not a and not b and c[0][1] == c[0][4]:
        store_names, init = {c[0][0] + "()"}, c[0][2] or c[0][3]
    # ---- the accessors must use exactly that entity
    g = re.findall(r"static\s+severity_level\s+min_severity\s*\(\s*\)\s*(?:noexcept\s*)?\{\s*return\s+([^;{}]+?)\s*;\s*\}", body)
    s = re.findall(r"static\s+void\s+set_severity\s*\(\s*(?:const\s+)?severity_level\s+(\w+)\s*\)\s*(?:noexcept\s*)?\{\s*([^;{}=]+?)\s*=\s*(\w+)\s*;\s*\}", body)

    def canon(t):
        return strip_parens(t).replace(" ", "")
    if store_names and len(g) == 1 and len(s) == 1 and s[0][0] == s[0][2] and canon(g[0]) in store_names and canon(s[0][1]) in store_names:
        storage = "static member of severity_filter<Record, N>"
    else:
        init = "?"
    # ---- filter(): one return statement comparing the record's severity with the threshold
    m = re.findall(r"bool\s+filter\s*\(\s*(?:const\s+)?Record\s*&\s*r\s*\)\s*const\s*(?:noexcept\s*)?\{\s*return\s+([^;{}]+);\s*\}", body)
    if len(m) == 1:
        o = comparison(m[0], FILTER_LHS, {"min_severity()", "severity_filter::min_severity()"} | store_names)
        if o:
            op = OPS[o]
    return op, init, storage


def logger_functions(src):
    out = []
    for m in re.finditer(r"static\s+actual_stream_t\s*<\s*severity_level::(\w+)\s*>\s*(\w+)\s*\(\s*lang::string_ref\s+tag\s*=\s*nullptr\s*\)\s*"
                         r"\{\s*return\s+actual_stream_t\s*<\s*severity_level::(\w+)\s*>\s*\(\s*tag\s*\)\s*;\s*\}", src):
        if m.group(1) == m.group(3):
            out.append((m.group(2), m.group(1)))
        else:
            out.append((m.group(2), "?"))
    return out


def generate(repo):
    notes = []
    try:
        lex, why = enum_lexical(read(repo, "severity.hpp"))
    except OSError as e:
        lex, why = None, "cannot read severity.hpp: %r" % (e,)
    cl = enum_clang(repo)
    if lex is None:
        enum = "GEnumUnknown %s" % coq_str(why)
    elif cl == "unreadable" or (cl is not None and cl != lex):
        enum = "GEnumUnknown %s" % coq_str("clang and the lexical reading of severity_level disagree: %r vs %r" % (cl, lex))
    else:
        if cl is None:
            notes.append("clang not usable: enumerators read lexically only")
        enum = "GEnum [%s]" % "; ".join("(%s, %d%%Z)" % (coq_str(n), v) for n, v in lex)
    try:
        gop, gt, gf = gate(read(repo, "stream.hpp"))
    except OSError:
        gop, gt, gf = "GCmpUnknown", "?", "?"
    try:
        fop, finit, fstore = severity_filter(read(repo, os.path.join("filter", "severity_filter.hpp")))
    except OSError:
        fop, finit, fstore = "GCmpUnknown", "?", "?"
    try:
        lf = logger_functions(read(repo, "logger.hpp"))
    except OSError:
        lf = []
    text = """(* GENERATED by gen/tr_severity.py from the repository on every run — do not edit.
   severity_level enumerators, the two severity comparisons, stream type selection, logger entry points. %s *)
From Coq Require Import List String ZArith.
Import ListNotations.
Local Open Scope string_scope.

Inductive gen_cmp := GGe | GGt | GLe | GLt | GEq | GNe | GCmpUnknown.
Inductive gen_enum := GEnum (l : list (string * Z)) | GEnumUnknown (why : string).

(* include/nitro/log/severity.hpp: enum class severity_level, (enumerator, underlying value) in declaration order *)
Definition gen_severities : gen_enum := %s.
(* include/nitro/log/stream.hpp log::actual_stream:  Severity <op> severity_level::NITRO_LOG_MIN_SEVERITY *)
Definition gen_gate_op : gen_cmp := %s.
(* detail::actual_stream<cond,…>::type for cond = true / false *)
Definition gen_gate_true_stream : string := %s.
Definition gen_gate_false_stream : string := %s.
(* include/nitro/log/filter/severity_filter.hpp filter():  r.severity() <op> min_severity() *)
Definition gen_filter_op : gen_cmp := %s.
Definition gen_filter_initial : string := %s.
(* where severity_filter keeps its threshold ("?" when it is not a static data member of the class template over (Record, N)) *)
Definition gen_filter_storage : string := %s.
(* include/nitro/log/logger.hpp: (static member function, severity it instantiates) *)
Definition gen_logger_functions : list (string * string) := [%s].
""" % ("; ".join(notes), enum, gop, coq_str(gt), coq_str(gf), fop, coq_str(finit), coq_str(fstore),
       "; ".join("(%s, %s)" % (coq_str(a), coq_str(b)) for a, b in lf))
    return [("GenSeverity.v", text)]


if __name__ == "__main__":
    import sys
    for n, t in generate(sys.argv[1] if len(sys.argv) > 1 else "/repo"):
        print(t)

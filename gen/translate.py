#!/usr/bin/env python3
# gen/translate.py — re-reads /repo on every run and regenerates coq/theories/Gen/*.v
# (closed-world tables: toggle vocabulary, severity order, *_mt sink bodies, hash constants, usage widths).
import os, sys
sys.path.insert(0, os.path.join(os.path.dirname(os.path.abspath(__file__)), ".."))
from lib.framework import COQ, REPO, write_if_changed

def main():
    os.makedirs(os.path.join(COQ, "theories", "Gen"), exist_ok=True)
    import importlib
    rc = 0
    here = os.path.dirname(os.path.abspath(__file__))
    for f in sorted(os.listdir(here)):
        if f.startswith("tr_") and f.endswith(".py"):
            mod = importlib.import_module("gen." + f[:-3])
            try:
                for name, text in mod.generate(REPO):
                    write_if_changed(os.path.join(COQ, "theories", "Gen", name), text)
            except Exception as e:  # an unreadable source becomes an Unknown table, never a silent pass
                print("translator %s failed: %r" % (f, e))
                rc = 1
    return rc

if __name__ == "__main__":
    sys.exit(main())

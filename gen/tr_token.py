# gen/tr_token.py — translator for the token layer of the option parser (properties C01, C02, C04, C12):
# re-reads the predicates of nitro::options::user_input (include/nitro/options/user_input.hpp) from clang's JSON AST on
# every run and writes coq/theories/Gen/GenToken.v:
#   gen_pred : pname -> pexpr        one expression per predicate (is_value, is_double_dash, is_short, is_named, is_argument,
#                                    has_value, has_prefix), in the small expression language of Opt/TokenTie.v
#   gen_validate : vshape            the shape of validate(): guard, scanned character, maximum run length, forbidden character
# Tie/Tie_C04.v then PROVES, for all byte strings, that these expressions compute the functions of the model (Opt/Token.v).
# Anything the reader does not recognise becomes PUnknown / VUnknown, which no obligation accepts.
import json, os, re, subprocess, tempfile


class Unreadable(Exception):
    pass


PRED = {"is_value": "PnIsValue", "is_double_dash": "PnIsDoubleDash", "is_short": "PnIsShort", "is_named": "PnIsNamed",
        "is_argument": "PnIsArgument", "has_value": "PnHasValue", "has_prefix": "PnHasPrefix"}


def clang_ast(repo):
    with tempfile.TemporaryDirectory() as d:
        tu = os.path.join(d, "tu.cpp")
        open(tu, "w").write("#include <nitro/options/user_input.hpp>\n")
        p = subprocess.run(["clang++", "-std=gnu++17", "-fsyntax-only", "-I" + os.path.join(repo, "include"),
                            "-Xclang", "-ast-dump=json", "-Xclang", "-ast-dump-filter=user_input", tu],
                           stdout=subprocess.PIPE, stderr=subprocess.PIPE, timeout=120)
    if p.returncode != 0:
        raise Unreadable("clang++ exit %d" % p.returncode)
    txt = p.stdout.decode("utf-8", "replace")
    docs, i, dec = [], 0, json.JSONDecoder()
    while True:
        while i < len(txt) and txt[i].isspace():
            i += 1
        if i >= len(txt):
            break
        d, i = dec.raw_decode(txt, i)
        docs.append(d)
    return docs


def inner(n):
    return [c for c in n.get("inner", []) if isinstance(c, dict) and c.get("kind")]


def strip(e):
    while e.get("kind") in ("ImplicitCastExpr", "ParenExpr", "ExprWithCleanups", "MaterializeTemporaryExpr",
                            "CXXBindTemporaryExpr", "ConstantExpr", "CXXStaticCastExpr", "CXXFunctionalCastExpr") and len(inner(e)) == 1:
        e = inner(e)[0]
    return e


def byte(v):
    if not isinstance(v, int) or not (0 <= v <= 255):
        raise Unreadable("character literal %r" % (v,))
    return "x%02x" % v


def c_string(lit):
    if not (len(lit) >= 2 and lit[0] == '"' and lit[-1] == '"') or "\\" in lit:
        raise Unreadable("string literal %r" % lit[:30])
    return "[" + "; ".join("x%02x" % b for b in lit[1:-1].encode("latin-1")) + "]"


class Reader:
    def __init__(self, cls):
        self.fields = {}
        self.methods = {}
        for c in inner(cls):
            if c.get("kind") == "FieldDecl":
                self.fields[c.get("id")] = c.get("name")
            if c.get("kind") == "CXXMethodDecl":
                self.methods[c.get("id")] = c.get("name")

    def member(self, e):
        """name_ / arg_ / value_ accessed on this"""
        e = strip(e)
        if e.get("kind") == "MemberExpr" and strip(inner(e)[0]).get("kind") == "CXXThisExpr":
            n = self.fields.get(e.get("referencedMemberDecl"))
            if n in ("name_", "arg_", "value_"):
                return n
        raise Unreadable("not a member of this: %s" % e.get("kind"))

    def ref(self, m):
        return {"name_": "RName", "arg_": "RArg"}[m] if m in ("name_", "arg_") else self.bad("string member expected")

    def bad(self, msg):
        raise Unreadable(msg)

    def char_at(self, e):
        """member[IntegerLiteral] -> (ref, index)"""
        e = strip(e)
        if e.get("kind") != "CXXOperatorCallExpr":
            raise Unreadable("operator[] expected, got %s" % e.get("kind"))
        parts = inner(e)
        if (strip(parts[0]).get("referencedDecl") or {}).get("name") != "operator[]" or len(parts) != 3:
            raise Unreadable("operator[] expected")
        idx = strip(parts[2])
        if idx.get("kind") != "IntegerLiteral":
            raise Unreadable("constant index expected")
        return self.ref(self.member(parts[1])), int(idx.get("value"))

    def expr(self, e):
        e = strip(e)
        k = e.get("kind")
        if k == "BinaryOperator":
            op = e.get("opcode")
            l, r = inner(e)
            if op == "&&":
                return "(PAnd %s %s)" % (self.expr(l), self.expr(r))
            if op == "||":
                return "(POr %s %s)" % (self.expr(l), self.expr(r))
            if op in ("==", "!="):
                ls, rs = strip(l), strip(r)
                if rs.get("kind") == "CharacterLiteral":
                    ref, i = self.char_at(l)
                    return "(%s %s %d %s)" % ("PCharEq" if op == "==" else "PCharNe", ref, i, byte(rs.get("value")))
                raise Unreadable("comparison with %s" % rs.get("kind"))
            if op in (">", ">=", "<", "<="):
                ls, rs = strip(l), strip(r)
                flip = False
                if rs.get("kind") == "CXXMemberCallExpr" and ls.get("kind") == "IntegerLiteral":
                    ls, rs = rs, ls
                    op = {">": "<", "<": ">", ">=": "<=", "<=": ">="}[op]
                if ls.get("kind") == "CXXMemberCallExpr" and rs.get("kind") == "IntegerLiteral":
                    callee = strip(inner(ls)[0])
                    if callee.get("kind") == "MemberExpr" and callee.get("name") in ("size", "length"):
                        ref, n = self.ref(self.member(inner(callee)[0])), int(rs.get("value"))
                        if op == ">":
                            return "(PSizeGt %s %d)" % (ref, n)
                        if op == ">=" and n >= 1:
                            return "(PSizeGt %s %d)" % (ref, n - 1)
                        if op == "<=":
                            return "(PNot (PSizeGt %s %d))" % (ref, n)
                        if op == "<" and n >= 1:
                            return "(PNot (PSizeGt %s %d))" % (ref, n - 1)
                raise Unreadable("unsupported comparison %s" % op)
            raise Unreadable("binary operator %s" % op)
        if k == "UnaryOperator" and e.get("opcode") == "!":
            return "(PNot %s)" % self.expr(inner(e)[0])
        if k == "CXXMemberCallExpr":
            callee = strip(inner(e)[0])
            if callee.get("kind") == "MemberExpr":
                base = strip(inner(callee)[0])
                if base.get("kind") == "CXXThisExpr":
                    n = self.methods.get(callee.get("referencedMemberDecl"))
                    if n in PRED and len(inner(e)) == 1:
                        return "(PCall %s)" % PRED[n]
                    raise Unreadable("call of %s" % n)
                # static_cast<bool>(value_): value_.operator bool()
                if callee.get("name") == "operator bool" and self.member(base) == "value_":
                    return "PHasValue"
                if callee.get("name") == "empty" and len(inner(e)) == 1 and self.member(base) in ("name_", "arg_"):
                    return "(PNot (PSizeGt %s 0))" % self.ref(self.member(base))
            raise Unreadable("member call")
        if k == "CXXOperatorCallExpr":
            parts = inner(e)
            nm = (strip(parts[0]).get("referencedDecl") or {}).get("name")
            if nm == "operator==" and len(parts) == 3:
                a, b = strip(parts[1]), strip(parts[2])
                if b.get("kind") == "StringLiteral":
                    return "(PStrEq %s %s)" % (self.ref(self.member(a)), c_string(b.get("value", "")))
            raise Unreadable("operator call %s" % nm)
        if k == "CallExpr":
            parts = inner(e)
            nm = (strip(parts[0]).get("referencedDecl") or {}).get("name")
            if nm == "starts_with" and len(parts) == 3:
                lit = strip(parts[2])
                while lit.get("kind") == "CXXConstructExpr":
                    lit = strip(inner(lit)[0])
                if lit.get("kind") == "StringLiteral":
                    return "(PStartsWith %s %s)" % (self.ref(self.member(parts[1])), c_string(lit.get("value", "")))
            raise Unreadable("call of %s" % nm)
        raise Unreadable("expression %s" % k)

    def predicate(self, m):
        body = [c for c in inner(m) if c.get("kind") == "CompoundStmt"]
        if len(body) != 1 or len(inner(body[0])) != 1 or inner(body[0])[0].get("kind") != "ReturnStmt":
            raise Unreadable("body is not a single return")
        return self.expr(inner(inner(body[0])[0])[0])

    def validate(self, m):
        body = [c for c in inner(m) if c.get("kind") == "CompoundStmt"][0]
        st = inner(body)
        if len(st) == 3 and st[0].get("kind") == "IfStmt" and not st[0].get("hasElse"):
            # the early-return spelling:  if (G') return;  v = arg_.find_first_not_of(c);  if (cond) raise;   — guard = !G'
            c0, t0 = inner(st[0])
            t0s = inner(t0) if t0.get("kind") == "CompoundStmt" else [t0]
            if len(t0s) != 1 or t0s[0].get("kind") != "ReturnStmt" or inner(t0s[0]):
                raise Unreadable("validate: outer statement")
            guard = "(PNot %s)" % self.expr(c0)
            ts = st[1:]
        else:
            if len(st) != 1 or st[0].get("kind") != "IfStmt" or st[0].get("hasElse"):
                raise Unreadable("validate: outer statement")
            cond, then = inner(st[0])
            guard = self.expr(cond)
            ts = inner(then)
        if len(ts) != 2 or ts[0].get("kind") != "DeclStmt" or ts[1].get("kind") != "IfStmt" or ts[1].get("hasElse"):
            raise Unreadable("validate: inner statements")
        var = inner(ts[0])[0]
        call = strip(inner(var)[0])
        callee = strip(inner(call)[0])
        if call.get("kind") != "CXXMemberCallExpr" or callee.get("name") != "find_first_not_of" or self.member(inner(callee)[0]) != "arg_":
            raise Unreadable("validate: scan")
        ch = strip(inner(call)[1])
        if ch.get("kind") != "CharacterLiteral":
            raise Unreadable("validate: scanned character")
        vid = var.get("id")
        c2, raise_ = inner(ts[1])
        # (v == npos) || (v > N) || (arg_[v] == 'c')
        top = strip(c2)
        if top.get("kind") != "BinaryOperator" or top.get("opcode") != "||":
            raise Unreadable("validate: condition")
        l, third = inner(top)
        l = strip(l)
        if l.get("kind") != "BinaryOperator" or l.get("opcode") != "||":
            raise Unreadable("validate: condition")
        first, second = inner(l)
        first, second, third = strip(first), strip(second), strip(third)
        def isvar(x):
            x = strip(x)
            return x.get("kind") == "DeclRefExpr" and (x.get("referencedDecl") or {}).get("id") == vid
        if not (first.get("opcode") == "==" and isvar(inner(first)[0]) and (strip(inner(first)[1]).get("referencedDecl") or {}).get("name") == "npos"):
            raise Unreadable("validate: npos test")
        if not (second.get("opcode") == ">" and isvar(inner(second)[0]) and strip(inner(second)[1]).get("kind") == "IntegerLiteral"):
            raise Unreadable("validate: run-length test")
        n = int(strip(inner(second)[1]).get("value"))
        if third.get("opcode") != "==":
            raise Unreadable("validate: forbidden character test")
        at = strip(inner(third)[0])
        parts = inner(at)
        if at.get("kind") != "CXXOperatorCallExpr" or self.member(parts[1]) != "arg_" or not isvar(parts[2]):
            raise Unreadable("validate: arg_[v]")
        fc = strip(inner(third)[1])
        if fc.get("kind") != "CharacterLiteral":
            raise Unreadable("validate: forbidden character")
        rz = strip([c for c in inner(raise_)][0]) if raise_.get("kind") == "CompoundStmt" else strip(raise_)
        if rz.get("kind") != "CallExpr" or (strip(inner(rz)[0]).get("referencedDecl") or {}).get("name") != "raise":
            raise Unreadable("validate: raise")
        return "(VScan %s %s %d %s)" % (guard, byte(ch.get("value")), n, byte(fc.get("value")))


def generate(repo):
    head = ("(* GENERATED by gen/tr_token.py from include/nitro/options/user_input.hpp on every run — do not edit *)\n"
            "From Coq Require Import List.\nFrom Coq Require Import Init.Byte.\n"
            "From Nitro Require Import Base.Bytes Opt.TokenTie.\nImport ListNotations.\n")
    lines = []
    try:
        docs = clang_ast(repo)
        cls = [d for d in docs if d.get("kind") == "CXXRecordDecl" and d.get("name") == "user_input" and inner(d)]
        if len(cls) != 1:
            raise Unreadable("%d definitions of user_input" % len(cls))
        rd = Reader(cls[0])
        meths = {}
        for c in inner(cls[0]):
            if c.get("kind") == "CXXMethodDecl" and any(x.get("kind") == "CompoundStmt" for x in inner(c)):
                meths.setdefault(c.get("name"), []).append(c)
        arms = []
        for cname, pn in PRED.items():
            try:
                if len(meths.get(cname, [])) != 1:
                    raise Unreadable("%d definitions" % len(meths.get(cname, [])))
                arms.append("  | %s => %s" % (pn, rd.predicate(meths[cname][0])))
            except Unreadable as e:
                arms.append("  | %s => PUnknown (* %s *)" % (pn, str(e).replace("*)", "* )")))
        lines.append("Definition gen_pred (p : pname) : pexpr :=\n  match p with\n" + "\n".join(arms) + "\n  end.")
        try:
            if len(meths.get("validate", [])) != 1:
                raise Unreadable("%d definitions of validate" % len(meths.get("validate", [])))
            lines.append("Definition gen_validate : vshape := %s." % rd.validate(meths["validate"][0]))
        except Unreadable as e:
            lines.append("Definition gen_validate : vshape := VUnknown. (* %s *)" % str(e).replace("*)", "* )"))
    except Unreadable as e:
        lines = ["(* unreadable: %s *)" % str(e).replace("*)", "* )"),
                 "Definition gen_pred (p : pname) : pexpr := PUnknown.", "Definition gen_validate : vshape := VUnknown."]
    return [("GenToken.v", head + "\n".join(lines) + "\n")]

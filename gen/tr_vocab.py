# gen/tr_vocab.py — translator for property C11: re-reads nitro::options::toggle::parse_env_value
# (src/options/toggle.cpp) from the repository on every run and writes coq/theories/Gen/GenVocab.v:
#   gen_clauses : list (str * bool)     the (word, returned constant) pairs in the order the code tests them
#   gen_fallthrough : fall              what happens when no word matches (FRaiseUser = raise<parsing_error>)
# The AST shape is checked, not only the leaves: the body must be a sequence of `if (<pure disjunction of
# env_value == "literal">) return <bool literal>;` followed by one call of raise<parsing_error>.  Anything else
# (!=, &&, a function call, case folding, an else branch, another parameter) makes the table Unknown, which no
# obligation of Tie/Tie_C11.v accepts.
import json, os, re, subprocess, tempfile


class Unreadable(Exception):
    pass


def clang_ast(repo, src, name):
    with tempfile.TemporaryDirectory() as d:
        tu = os.path.join(d, "tu.cpp")
        with open(tu, "w") as f:
            f.write('#include "%s"\n' % os.path.join(repo, src))
        p = subprocess.run(["clang++", "-std=gnu++17", "-fsyntax-only", "-I" + os.path.join(repo, "include"),
                            "-Xclang", "-ast-dump=json", "-Xclang", "-ast-dump-filter=" + name, tu],
                           stdout=subprocess.PIPE, stderr=subprocess.PIPE, timeout=120)
    if p.returncode != 0:
        raise Unreadable("clang++ exit %d: %s" % (p.returncode, p.stderr.decode("utf-8", "replace")[-300:]))
    txt = p.stdout.decode("utf-8", "replace")
    docs, i, dec = [], 0, json.JSONDecoder()
    while True:
        while i < len(txt) and txt[i].isspace():
            i += 1
        if i >= len(txt):
            break
        d, i = dec.raw_decode(txt, i)
        docs.append(d)
    return docs


def inner(n):
    return [c for c in n.get("inner", []) if isinstance(c, dict) and c.get("kind")]


def strip(e):
    while e.get("kind") in ("ImplicitCastExpr", "ParenExpr", "ExprWithCleanups", "MaterializeTemporaryExpr",
                            "CXXBindTemporaryExpr", "ConstantExpr") and len(inner(e)) == 1:
        e = inner(e)[0]
    return e


def c_unescape(lit):
    """the bytes of a narrow C string literal as clang prints it ("..."), or Unreadable"""
    if not (len(lit) >= 2 and lit[0] == '"' and lit[-1] == '"'):
        raise Unreadable("not a narrow string literal: %r" % lit[:40])
    s, out, i = lit[1:-1], bytearray(), 0
    simple = {"n": 10, "t": 9, "r": 13, "0": 0, "\\": 92, '"': 34, "'": 39, "a": 7, "b": 8, "f": 12, "v": 11, "?": 63}
    while i < len(s):
        c = s[i]
        if c != "\\":
            out += c.encode("utf-8")
            i += 1
            continue
        i += 1
        if i >= len(s):
            raise Unreadable("dangling backslash")
        c = s[i]
        if c == "x":
            m = re.match(r"[0-9a-fA-F]+", s[i + 1:])
            if not m:
                raise Unreadable("bad \\x")
            out.append(int(m.group(0), 16) & 255)
            i += 1 + len(m.group(0))
        elif c in "01234567":
            m = re.match(r"[0-7]{1,3}", s[i:])
            out.append(int(m.group(0), 8) & 255)
            i += len(m.group(0))
        elif c in simple:
            out.append(simple[c])
            i += 1
        else:
            raise Unreadable("unknown escape \\%s" % c)
    return bytes(out)


def comparison(e, param_id):
    """env_value == "literal" (either order) -> bytes"""
    e = strip(e)
    if e.get("kind") != "CXXOperatorCallExpr":
        raise Unreadable("condition leaf is %s" % e.get("kind"))
    parts = inner(e)
    if len(parts) != 3:
        raise Unreadable("operator call with %d parts" % len(parts))
    callee = strip(parts[0])
    if (callee.get("referencedDecl") or {}).get("name") != "operator==":
        raise Unreadable("operator %s" % (callee.get("referencedDecl") or {}).get("name"))
    a, b = strip(parts[1]), strip(parts[2])
    lit = None
    ref = None
    for x in (a, b):
        if x.get("kind") == "StringLiteral":
            lit = x
        elif x.get("kind") == "DeclRefExpr":
            ref = x
    if lit is None or ref is None or (ref.get("referencedDecl") or {}).get("id") != param_id:
        raise Unreadable("comparison is not <parameter> == <string literal>")
    return c_unescape(lit.get("value", ""))


REPO = [None]


def table_words(name):
    """the string literals of a namespace-scope constant array of narrow strings, in order"""
    docs = clang_ast(REPO[0], "src/options/toggle.cpp", name)
    vs = [d for d in docs if d.get("kind") == "VarDecl" and d.get("name") == name]
    if len(vs) != 1:
        raise Unreadable("%d declarations of table %s" % (len(vs), name))
    ty = (vs[0].get("type") or {}).get("qualType", "")
    if "const" not in ty:
        raise Unreadable("table %s is not constant (%s)" % (name, ty))
    init = [c for c in inner(vs[0]) if c.get("kind") == "InitListExpr"]
    if len(init) != 1:
        raise Unreadable("table %s has no initialiser list" % name)
    words = []
    for x in inner(init[0]):
        x = strip(x)
        while x.get("kind") in ("CXXConstructExpr",) and len(inner(x)) == 1:
            x = strip(inner(x)[0])
        if x.get("kind") != "StringLiteral":
            raise Unreadable("table %s holds a %s" % (name, x.get("kind")))
        words.append(c_unescape(x.get("value", "")))
    return words


def helper_is_membership(fname):
    """the helper F(word, table) must be exactly `return std::find(std::begin(table), std::end(table), word) != std::end(table);`"""
    src = open(os.path.join(REPO[0], "src/options/toggle.cpp"), "rb").read().decode("latin-1")
    src = re.sub(r"/\*.*?\*/", " ", src, flags=re.S)
    src = re.sub(r"//[^\n]*", " ", src)
    m = re.findall(r"\bbool\s+" + re.escape(fname) + r"\s*\(\s*const\s+std::string\s*&\s*(\w+)\s*,\s*const\s+char\s*\*\s*const\s*\(\s*&\s*(\w+)\s*\)\s*\[\s*\w+\s*\]\s*\)\s*\{(.*?)\}", src, flags=re.S)
    if len(m) != 1:
        raise Unreadable("helper %s: %d definitions of the expected signature" % (fname, len(m)))
    w, t, body = m[0]
    body = " ".join(body.split())
    pat = (r"return std::find ?\( ?std::begin ?\( ?%s ?\) ?, ?std::end ?\( ?%s ?\) ?, ?%s ?\) ?!= ?std::end ?\( ?%s ?\) ?;"
           % (re.escape(t), re.escape(t), re.escape(w), re.escape(t)))
    if not re.fullmatch(pat, body):
        raise Unreadable("helper %s is not a plain membership test: %s" % (fname, body[:80]))


def membership(e, param_id):
    """F(env_value, TABLE) with F a plain membership helper -> the table's words"""
    parts = inner(e)
    if len(parts) != 3:
        raise Unreadable("call with %d parts" % len(parts))
    callee, a, b = strip(parts[0]), strip(parts[1]), strip(parts[2])
    fname = (callee.get("referencedDecl") or {}).get("name")
    if not fname:
        raise Unreadable("condition leaf calls an unnamed function")
    if a.get("kind") != "DeclRefExpr" or (a.get("referencedDecl") or {}).get("id") != param_id:
        raise Unreadable("first argument of %s is not the parameter" % fname)
    if b.get("kind") != "DeclRefExpr" or (b.get("referencedDecl") or {}).get("kind") != "VarDecl":
        raise Unreadable("second argument of %s is not a table" % fname)
    helper_is_membership(fname)
    return table_words((b.get("referencedDecl") or {}).get("name"))


def disjunction(e, param_id):
    e = strip(e)
    if e.get("kind") == "BinaryOperator":
        if e.get("opcode") != "||":
            raise Unreadable("operator %s in condition" % e.get("opcode"))
        l, r = inner(e)
        return disjunction(l, param_id) + disjunction(r, param_id)
    if e.get("kind") == "CallExpr":
        return membership(e, param_id)
    return [comparison(e, param_id)]


def returned_bool(stmt):
    s = stmt
    if s.get("kind") == "CompoundStmt":
        body = inner(s)
        if len(body) != 1:
            raise Unreadable("then-branch with %d statements" % len(body))
        s = body[0]
    if s.get("kind") != "ReturnStmt" or len(inner(s)) != 1:
        raise Unreadable("then-branch is not a return")
    v = strip(inner(s)[0])
    if v.get("kind") != "CXXBoolLiteralExpr":
        raise Unreadable("returned value is %s" % v.get("kind"))
    return bool(v.get("value"))


def read_clauses(repo):
    REPO[0] = repo
    docs = clang_ast(repo, "src/options/toggle.cpp", "parse_env_value")
    defs = [d for d in docs if d.get("kind") == "CXXMethodDecl" and any(c.get("kind") == "CompoundStmt" for c in inner(d))]
    if len(defs) != 1:
        raise Unreadable("%d definitions of parse_env_value" % len(defs))
    fn = defs[0]
    params = [c for c in inner(fn) if c.get("kind") == "ParmVarDecl"]
    if len(params) != 1:
        raise Unreadable("%d parameters" % len(params))
    body = [c for c in inner(fn) if c.get("kind") == "CompoundStmt"][0]
    stmts = inner(body)
    clauses = []
    fall = "FOther"
    for k, st in enumerate(stmts):
        if st.get("kind") == "IfStmt":
            if st.get("hasElse") or st.get("hasInit") or st.get("hasVar"):
                raise Unreadable("if with else/init/var")
            parts = inner(st)
            if len(parts) != 2:
                raise Unreadable("if with %d parts" % len(parts))
            b = returned_bool(parts[1])
            for w in disjunction(parts[0], params[0].get("id")):
                clauses.append((w, b))
        elif k == len(stmts) - 1 and strip(st).get("kind") == "CallExpr":
            call = strip(st)
            callee = strip(inner(call)[0])
            rd = callee.get("referencedDecl") or {}
            # explicit template arguments are not in the JSON: read the callee's own source text
            rng = callee.get("range") or {}
            try:
                b, e2 = rng["begin"]["offset"], rng["end"]["offset"] + rng["end"]["tokLen"]
                src = open(os.path.join(repo, "src/options/toggle.cpp"), "rb").read()[b:e2].decode("latin-1")
            except (KeyError, OSError):
                src = ""
            if rd.get("name") == "raise" and re.match(r"^raise\s*<\s*(::)?(nitro::)?(options::)?parsing_error\s*>$", src):
                fall = "FRaiseUser"
            else:
                raise Unreadable("last statement calls %s (%s)" % (rd.get("name"), src[:60]))
        else:
            raise Unreadable("statement %d is %s" % (k, st.get("kind")))
    return clauses, fall


def coq_str(b):
    return "[" + "; ".join("x%02x" % c for c in b) + "]"


def generate(repo):
    head = ("(* GENERATED by gen/tr_vocab.py from src/options/toggle.cpp on every run — do not edit *)\n"
            "From Coq Require Import List.\nFrom Coq Require Import Init.Byte.\n"
            "From Nitro Require Import Base.Bytes Opt.VocabTie.\nImport ListNotations.\n")
    try:
        clauses, fall = read_clauses(repo)
        body = "Definition gen_clauses : list (str * bool) :=\n  [" + ";\n   ".join(
            "(%s (* hex:%s *), %s)" % (coq_str(w), w.hex(), "true" if b else "false") for w, b in clauses) + "].\n"
        body += "Definition gen_fallthrough : fall := %s.\n" % fall
    except Unreadable as e:
        body = ("(* the source could not be read in the expected shape: %s *)\n" % str(e).replace("*)", "* )") +
                "Definition gen_clauses : list (str * bool) := [].\nDefinition gen_fallthrough : fall := FUnknown.\n")
    return [("GenVocab.v", head + body)]

# gen/tr_optional.py — translator for include/nitro/lang/optional.hpp (property C18): re-reads the members of
# nitro::lang::optional<T> from clang's JSON AST on every run and writes coq/theories/Gen/GenOptional.v in the little
# language of Own/OptLang.v:
#   gen_opt_default_ctor : bool                         optional() is defaulted and data_ has no default member initialiser
#   gen_opt_copy_ctor, gen_opt_ctor_cref, gen_opt_ctor_rref : octor
#   gen_opt_assign_opt, gen_opt_assign_cref, gen_opt_assign_rref, gen_opt_bool, gen_opt_deref : list ostmt
#   gen_opt_members : nat                               number of user-declared members read (a new overload changes it)
# Tie/Tie_C18.v then PROVES that these are ctor_copy, ctor_val, assign_opt, assign_val and the readers of Own/Optional.v.
# Anything unrecognised becomes OUnknown / CUnknown / SUnknownSrc, which no obligation accepts.
import json, os, subprocess, tempfile


class Unreadable(Exception):
    pass


def clang_ast(repo):
    with tempfile.TemporaryDirectory() as d:
        tu = os.path.join(d, "tu.cpp")
        open(tu, "w").write("#include <nitro/lang/optional.hpp>\n")
        p = subprocess.run(["clang++", "-std=gnu++17", "-fsyntax-only", "-I" + os.path.join(repo, "include"),
                            "-Xclang", "-ast-dump=json", "-Xclang", "-ast-dump-filter=nitro::lang::optional", tu],
                           stdout=subprocess.PIPE, stderr=subprocess.PIPE, timeout=120)
    if p.returncode != 0:
        raise Unreadable("clang++ exit %d" % p.returncode)
    txt = p.stdout.decode("utf-8", "replace")
    docs, i, dec = [], 0, json.JSONDecoder()
    while True:
        while i < len(txt) and txt[i].isspace():
            i += 1
        if i >= len(txt):
            break
        d, i = dec.raw_decode(txt, i)
        docs.append(d)
    return docs


def inner(n):
    return [c for c in n.get("inner", []) if isinstance(c, dict) and c.get("kind")]


WRAP = ("ImplicitCastExpr", "ParenExpr", "ExprWithCleanups", "MaterializeTemporaryExpr", "CXXBindTemporaryExpr", "ConstantExpr",
        "ParenListExpr")


def strip(e):
    while e.get("kind") in WRAP and len(inner(e)) == 1:
        e = inner(e)[0]
    return e


SRC = {"text": ""}


def src_text(n):
    r = n.get("range") or {}
    b, e = r.get("begin") or {}, r.get("end") or {}
    if "offset" not in b or "offset" not in e:
        return ""
    return SRC["text"][b["offset"]:e["offset"] + e.get("tokLen", 0)].replace(" ", "").replace("\n", "")


class M:
    """one member function of optional<T>"""
    def __init__(self, field_id, decl):
        self.f = field_id
        self.decl = decl
        ps = [p for p in inner(decl) if p.get("kind") == "ParmVarDecl"]
        self.param = ps[0] if len(ps) == 1 else None
        self.pq = ((self.param or {}).get("type") or {}).get("qualType", "")

    def is_this(self, e):
        return strip(e).get("kind") == "CXXThisExpr"

    def is_data(self, e):
        e = strip(e)
        return e.get("kind") == "MemberExpr" and e.get("referencedMemberDecl") == self.f and self.is_this(inner(e)[0])

    def is_param(self, e):
        e = strip(e)
        return self.param is not None and e.get("kind") == "DeclRefExpr" and (e.get("referencedDecl") or {}).get("id") == self.param.get("id")

    def param_is_optional(self):
        return "optional" in self.pq

    def cond(self, e):
        e = strip(e)
        k = e.get("kind")
        if k in ("CXXStaticCastExpr", "CXXFunctionalCastExpr") and ((e.get("type") or {}).get("qualType") == "bool") and len(inner(e)) == 1:
            return self.cond(inner(e)[0])
        if k == "UnaryOperator" and e.get("opcode") == "!":
            return "(CNot %s)" % self.cond(inner(e)[0])
        if k in ("BinaryOperator", "CXXOperatorCallExpr") and len(inner(e)) >= 2:
            ops = inner(e)[-2:]
            op = e.get("opcode") or src_text(strip(inner(e)[0])).replace("operator", "")
            nul = [strip(x).get("kind") == "CXXNullPtrLiteralExpr" for x in ops]
            dat = [self.is_data(x) for x in ops]
            if op in ("!=", "==") and ((nul[0] and dat[1]) or (nul[1] and dat[0])):      # data_ != nullptr / data_ == nullptr
                return "CData" if op == "!=" else "(CNot CData)"
        if self.is_data(e):
            return "CData"
        if self.is_param(e) and self.param_is_optional():
            return "COther"
        if k in ("CallExpr", "CXXMemberCallExpr") and len(inner(e)) == 1:   # other.operator bool() does not occur; has_value-like helpers are unknown
            pass
        return "CUnknown"

    def src(self, e):
        """the argument of std::make_unique<T>( . )"""
        e = strip(e)
        k = e.get("kind")
        if k == "UnaryOperator" and e.get("opcode") == "*" and self.is_param(inner(e)[0]) and self.param_is_optional():
            return "SDerefOther"
        if self.is_param(e) and not self.param_is_optional():
            return "SParam"
        if k == "CallExpr" and len(inner(e)) == 2 and src_text(strip(inner(e)[0])) in ("std::move", "move") \
                and self.is_param(inner(e)[1]) and not self.param_is_optional():
            return "SMovedParam"
        return "SUnknownSrc"

    def make_unique(self, e):
        e = strip(e)
        if e.get("kind") == "CallExpr" and len(inner(e)) == 2 and src_text(strip(inner(e)[0])) in ("std::make_unique<T>", "make_unique<T>"):
            return self.src(inner(e)[1])
        return None

    def stmts(self, body):
        body = strip(body)
        items = inner(body) if body.get("kind") == "CompoundStmt" else [body]
        return "[" + "; ".join(self.stmt(s) for s in items) + "]"

    def stmt(self, s):
        s = strip(s)
        k = s.get("kind")
        if k == "IfStmt":
            p = inner(s)
            if len(p) == 2:
                return "(OIf %s %s [])" % (self.cond(p[0]), self.stmts(p[1]))
            if len(p) == 3 and s.get("hasElse"):
                return "(OIf %s %s %s)" % (self.cond(p[0]), self.stmts(p[1]), self.stmts(p[2]))
            return "OUnknown"
        if k in ("BinaryOperator", "CXXOperatorCallExpr"):
            p = inner(s)
            if k == "BinaryOperator" and s.get("opcode") == "=" and self.is_data(p[0]):
                m = self.make_unique(p[1])
                return "(OAssignMake %s)" % m if m else "OUnknown"
            return "OUnknown"
        if k in ("CallExpr", "CXXMemberCallExpr"):
            p = inner(s)
            callee = strip(p[0])
            if len(p) == 1 and callee.get("kind") in ("CXXDependentScopeMemberExpr", "MemberExpr") and inner(callee) \
                    and self.is_data(inner(callee)[0]) and (callee.get("member") or callee.get("name")) == "reset":
                return "OReset"
            if (callee.get("referencedDecl") or {}).get("name") == "raise":
                return "ORaise"
            return "OUnknown"
        if k == "ReturnStmt":
            r = strip(inner(s)[0]) if inner(s) else {}
            if r.get("kind") == "UnaryOperator" and r.get("opcode") == "*":
                if self.is_this(inner(r)[0]):
                    return "ORetThis"
                if self.is_data(inner(r)[0]):
                    return "ORetDerefData"
                return "OUnknown"
            c = self.cond(r)
            return "(ORetBool %s)" % c if c != "CUnknown" else "OUnknown"
        return "OUnknown"

    def ctor(self):
        init = "None"
        for ini in self.decl.get("inner", []):
            if ini.get("kind") == "CXXCtorInitializer":
                if (ini.get("anyInit") or {}).get("id") != self.f or len(inner(ini)) != 1:
                    raise Unreadable("initialiser")
                m = self.make_unique(inner(ini)[0])
                init = "(Some %s)" % (m or "SUnknownSrc")
        body = [b for b in inner(self.decl) if b.get("kind") == "CompoundStmt"]
        if len(body) != 1:
            raise Unreadable("constructor without body")
        return "{| oc_init := %s; oc_body := %s |}" % (init, self.stmts(body[0]))

    def body(self):
        body = [b for b in inner(self.decl) if b.get("kind") == "CompoundStmt"]
        if len(body) != 1:
            raise Unreadable("no body")
        return self.stmts(body[0])


def generate(repo):
    head = ("(* GENERATED by gen/tr_optional.py from include/nitro/lang/optional.hpp on every run — do not edit *)\n"
            "From Coq Require Import List.\nFrom Nitro Require Import Own.Optional Own.OptLang.\nImport ListNotations.\n")
    UNK_CTOR = "{| oc_init := None; oc_body := [OUnknown] |}"
    slots = [("gen_opt_copy_ctor", "octor", UNK_CTOR), ("gen_opt_ctor_cref", "octor", UNK_CTOR), ("gen_opt_ctor_rref", "octor", UNK_CTOR),
             ("gen_opt_assign_opt", "list ostmt", "[OUnknown]"), ("gen_opt_assign_cref", "list ostmt", "[OUnknown]"),
             ("gen_opt_assign_rref", "list ostmt", "[OUnknown]"), ("gen_opt_bool", "list ostmt", "[OUnknown]"),
             ("gen_opt_deref", "list ostmt", "[OUnknown]")]
    vals = {}
    default_ok, members = "false", 0
    try:
        docs = clang_ast(repo)
        SRC["text"] = open(os.path.join(repo, "include", "nitro", "lang", "optional.hpp"), encoding="latin-1").read()
        rec = None
        for d in docs:
            if d.get("kind") == "ClassTemplateDecl" and d.get("name") == "optional":
                for c in inner(d):
                    if c.get("kind") == "CXXRecordDecl" and c.get("completeDefinition"):
                        rec = c
        if rec is None:
            raise Unreadable("class template optional not found")
        fields = [c for c in inner(rec) if c.get("kind") == "FieldDecl"]
        if len(fields) != 1 or "unique_ptr<T>" not in ((fields[0].get("type") or {}).get("qualType") or "").replace(" ", ""):
            raise Unreadable("optional must have exactly one field, a std::unique_ptr<T>")
        f = fields[0].get("id")
        user = [c for c in inner(rec) if c.get("kind") in ("CXXConstructorDecl", "CXXMethodDecl", "CXXConversionDecl", "CXXDestructorDecl",
                                                          "FunctionTemplateDecl") and not c.get("isImplicit")]
        members = len(user)

        def sig(c):
            return ((c.get("type") or {}).get("qualType") or "").replace(" ", "")
        for c in user:
            k, s = c.get("kind"), sig(c)
            try:
                if k == "CXXConstructorDecl":
                    if s == "void()":
                        if c.get("explicitlyDefaulted") == "default" and not inner(fields[0]):
                            default_ok = "true"
                    elif s == "void(constoptional<T>&)":
                        vals["gen_opt_copy_ctor"] = M(f, c).ctor()
                    elif s == "void(constT&)":
                        vals["gen_opt_ctor_cref"] = M(f, c).ctor()
                    elif s == "void(T&&)":
                        vals["gen_opt_ctor_rref"] = M(f, c).ctor()
                elif k == "CXXMethodDecl" and c.get("name") == "operator=":
                    if s == "optional<T>&(constoptional<T>&)":
                        vals["gen_opt_assign_opt"] = M(f, c).body()
                    elif s == "optional<T>&(constT&)":
                        vals["gen_opt_assign_cref"] = M(f, c).body()
                    elif s == "optional<T>&(T&&)":
                        vals["gen_opt_assign_rref"] = M(f, c).body()
                elif k == "CXXConversionDecl" and s == "bool()const":
                    vals["gen_opt_bool"] = M(f, c).body()
                elif k == "CXXMethodDecl" and c.get("name") == "operator*" and s == "constT&()const":
                    vals["gen_opt_deref"] = M(f, c).body()
            except (Unreadable, KeyError, IndexError, TypeError):
                pass
        note = ""
    except Unreadable as e:
        note = "(* unreadable: %s *)\n" % str(e).replace("*)", "* )")
    lines = [note + "Definition gen_opt_default_ctor : bool := %s." % default_ok, "Definition gen_opt_members : nat := %d." % members]
    for name, typ, unk in slots:
        lines.append("Definition %s : %s := %s." % (name, typ, vals.get(name, unk)))
    return [("GenOptional.v", head + "\n".join(lines) + "\n")]


if __name__ == "__main__":
    import sys
    print(generate(sys.argv[1] if len(sys.argv) > 1 else "/repo")[0][1])

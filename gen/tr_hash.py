# gen/tr_hash.py — translator for the constants of nitro::lang::hash (C16), re-read from the repository on every run:
#   * the statement of detail::hash_combine_impl in include/nitro/lang/hash.hpp must have the exact shape
#         seed ^= value + <integer literal> + (seed << <integer literal>) + (seed >> <integer literal>);
#     it is read from clang's JSON AST of the (uninstantiated) template — the authority; harmless spellings (operand order
#     of +, parentheses, `seed = seed ^ (...)`) are accepted — and lexically; where both read it they must agree; the three literals become gen_hash_magic, gen_hash_shl, gen_hash_shr
#   * the initial seed `std::size_t seed = <literal>;` of hash(const std::tuple<T...>&) and hash(const std::variant<T...>&)
# Emits Gen/GenHash.v.  Anything unreadable or of another shape becomes `GWordUnknown "why"`, which no obligation
# of Tie/Tie_C16.v accepts.
import json, os, re, subprocess


def strip_comments(txt):
    txt = re.sub(r"/\*.*?\*/", " ", txt, flags=re.S)
    txt = re.sub(r"//[^\n]*", " ", txt)
    return txt


def coq_str(s):
    return '"' + s.replace('"', '""') + '"'


def int_lit(tok):
    """value of a C++ integer literal (decimal / hex / octal / binary, optional u/l suffixes, digit separators)"""
    t = tok.replace("'", "")
    t = re.sub(r"[uUlL]+$", "", t)
    try:
        if re.fullmatch(r"0[xX][0-9a-fA-F]+", t):
            return int(t, 16)
        if re.fullmatch(r"0[bB][01]+", t):
            return int(t[2:], 2)
        if re.fullmatch(r"0[0-7]*", t):
            return int(t, 8) if len(t) > 1 else 0
        if re.fullmatch(r"[1-9][0-9]*", t):
            return int(t)
    except ValueError:
        pass
    return None


def body_of(src, header_re):
    """text between the braces of the (single) function whose header matches header_re"""
    ms = list(re.finditer(header_re, src, flags=re.S))
    if len(ms) != 1:
        return None
    i = src.find("{", ms[0].end() - 1)
    if i < 0:
        return None
    depth, j = 0, i
    while j < len(src):
        if src[j] == "{":
            depth += 1
        elif src[j] == "}":
            depth -= 1
            if depth == 0:
                return " ".join(src[i + 1:j].split())
        j += 1
    return None


LIT = r"([0-9][0-9a-fA-FxXbB']*[uUlL]*)"


def combine_lexical(src):
    body = body_of(src, r"inline\s+void\s+hash_combine_impl\s*\(\s*HashT\s*&\s*seed\s*,\s*HashT\s+value\s*\)\s*\{")
    if body is None:
        return None, "hash_combine_impl(HashT& seed, HashT value) not found exactly once"
    m = re.fullmatch(r"seed \^= value \+ " + LIT + r" \+ \( ?seed << " + LIT + r" ?\) \+ \( ?seed >> " + LIT + r" ?\) ?;", body)
    if not m:
        return None, "body of hash_combine_impl is not `seed ^= value + C + (seed << A) + (seed >> B);` but: " + body[:80]
    vals = [int_lit(g) for g in m.groups()]
    if any(v is None for v in vals):
        return None, "unreadable integer literal in hash_combine_impl"
    return vals, None


def combine_clang(repo):
    """[magic, shl, shr] from clang's AST when the statement MEANS  seed ^= value + C + (seed << A) + (seed >> B)  — the
    authority.  Harmless spellings are accepted: `seed = seed ^ (...)` / `seed = (...) ^ seed`, any order and nesting of
    the four summands, extra parentheses.  "shape" when clang reads something else; None when clang is not usable"""
    tu = "#include <nitro/lang/hash.hpp>\n"
    try:
        p = subprocess.run(["clang++", "-std=gnu++17", "-fsyntax-only", "-I" + os.path.join(repo, "include"), "-x", "c++", "-",
                            "-Xclang", "-ast-dump=json", "-Xclang", "-ast-dump-filter=hash_combine_impl"],
                           input=tu.encode(), stdout=subprocess.PIPE, stderr=subprocess.PIPE, timeout=120)
    except (OSError, subprocess.TimeoutExpired):
        return None
    if p.returncode != 0:
        return None
    txt = p.stdout.decode("utf-8", "replace")
    dec, i, tops = json.JSONDecoder(), 0, []
    while True:
        while i < len(txt) and txt[i].isspace():
            i += 1
        if i >= len(txt):
            break
        try:
            d, i = dec.raw_decode(txt, i)
        except ValueError:
            return None
        tops.append(d)
    fts = [d for d in tops if d.get("kind") == "FunctionTemplateDecl" and d.get("name") == "hash_combine_impl"]
    if len(fts) != 1:
        return "shape"
    fds = [c for c in fts[0].get("inner", []) if c.get("kind") == "FunctionDecl"]
    if len(fds) != 1:
        return "shape"
    inner = fds[0].get("inner", [])
    parms = [c.get("name") for c in inner if c.get("kind") == "ParmVarDecl"]
    bodies = [c for c in inner if c.get("kind") == "CompoundStmt"]
    if parms != ["seed", "value"] or len(bodies) != 1 or len(bodies[0].get("inner", [])) < 1:
        return "shape"
    # the body: any number of definitions of CONST locals (each initialised once, from the parameters and earlier locals),
    # then exactly one statement that updates the seed; a use of a local stands for its initialiser
    stmts = bodies[0]["inner"]
    env = {}

    def term(d):
        k = d.get("kind")
        if k in ("ParenExpr", "ImplicitCastExpr", "CXXFunctionalCastExpr", "CXXStaticCastExpr", "ConstantExpr", "ExprWithCleanups"):
            return term(d["inner"][0])
        if k == "DeclRefExpr":
            name = (d.get("referencedDecl") or {}).get("name")
            if name in env:
                return env[name]
            return ("ref", name)
        if k == "IntegerLiteral":
            return ("lit", int(d["value"]))
        if k in ("BinaryOperator", "CompoundAssignOperator"):
            return (d.get("opcode"), term(d["inner"][0]), term(d["inner"][1]))
        return ("?", k)

    def summands(t):
        if t[0] == "+":
            return summands(t[1]) + summands(t[2])
        return [t]

    try:
        for st in stmts[:-1]:
            if st.get("kind") != "DeclStmt":
                return "shape"
            for v in st.get("inner", []):
                qt = (v.get("type") or {}).get("qualType", "")
                if v.get("kind") != "VarDecl" or not qt.startswith("const ") or "&" in qt or "*" in qt or len(v.get("inner", [])) != 1 \
                        or v.get("name") in ("seed", "value") or v.get("name") in env:
                    return "shape"
                env[v["name"]] = term(v["inner"][0])
        t = term(stmts[-1])
        seed = ("ref", "seed")
        if t[0] == "^=" and t[1] == seed:
            rhs = t[2]
        elif t[0] == "=" and t[1] == seed and t[2][0] == "^" and t[2][1] == seed:
            rhs = t[2][2]
        elif t[0] == "=" and t[1] == seed and t[2][0] == "^" and t[2][2] == seed:
            rhs = t[2][1]
        else:
            return "shape"
        terms = summands(rhs)
        if len(terms) != 4:
            return "shape"
        vals = [x for x in terms if x == ("ref", "value")]
        lits = [x for x in terms if x[0] == "lit"]
        shl = [x for x in terms if x[0] == "<<" and x[1] == seed and x[2][0] == "lit"]
        shr = [x for x in terms if x[0] == ">>" and x[1] == seed and x[2][0] == "lit"]
        if not (len(vals) == len(lits) == len(shl) == len(shr) == 1):
            return "shape"
        return [lits[0][1], shl[0][2][1], shr[0][2][1]]
    except (KeyError, IndexError, TypeError, ValueError):
        return "shape"


def seed_of(src, header_re, param, call_name):
    """the literal S of `std::size_t seed = S;` in the (single) function matching header_re, provided the rest of the body is
    what the model follows: seed is passed once to <call_name><0>(seed, <param>) (the start index may be left out for the
    variant helper), returned, and written nowhere else"""
    body = body_of(src, header_re)
    if body is None:
        return None, "function not found exactly once"
    inits = re.findall(r"\b(?:const )?(?:std::)?size_t seed ?(?:= ?" + LIT + r"|\{ ?" + LIT + r" ?\}|\( ?" + LIT + r" ?\)) ?;", body)
    if len(inits) != 1:
        return None, "no single `std::size_t seed = <integer literal>;` in: " + body[:80]
    lit = [x for x in inits[0] if x][0]
    calls = re.findall(r"\b(?:detail::)?" + call_name + r" ?(?:< ?0 ?> ?)?\( ?seed ?, ?" + param + r" ?\) ?;", body)
    rets = re.findall(r"\breturn seed ?;", body)
    writes = re.findall(r"\bseed ?(?:[-+*/%^|&]|<<|>>)?=(?!=)", body)
    if len(calls) != 1 or len(rets) != 1 or len(writes) != 1 or len(re.findall(r"\bseed\b", body)) != 3:
        return None, "body is not `std::size_t seed = S; <combine all>(seed, %s); return seed;` but: %s" % (param, body[:80])
    v = int_lit(lit)
    if v is None:
        return None, "unreadable literal"
    return v, None


def seed_for(src, what, call_name):
    """hash(const std::<what><T...>& <any parameter name>)"""
    hdr = r"inline\s+auto\s+hash\s*\(\s*(?:const\s+std::%s\s*<\s*T\s*\.\.\.\s*>|std::%s\s*<\s*T\s*\.\.\.\s*>\s+const)\s*&\s*(\w+)\s*\)\s*\{" % (what, what)
    ms = list(re.finditer(hdr, src, flags=re.S))
    if len(ms) != 1:
        return None, "hash(const std::%s<T...>&) not found exactly once" % what
    return seed_of(src, hdr, re.escape(ms[0].group(1)), call_name)


def word(v, why):
    return "GWord %d%%N" % v if v is not None else "GWordUnknown %s" % coq_str(why or "?")


def generate(repo):
    notes = []
    try:
        with open(os.path.join(repo, "include", "nitro", "lang", "hash.hpp"), "rb") as f:
            src = strip_comments(f.read().decode("latin-1"))
    except OSError as e:
        src = None
        why_all = "cannot read hash.hpp: %r" % (e,)
    if src is None:
        consts, why = None, why_all
        tseed = vseed = None
        twhy = vwhy = why_all
    else:
        consts, why = combine_lexical(src)
        cl = combine_clang(repo)
        if cl is None:
            notes.append("clang not usable: hash_combine_impl read lexically only")
        elif cl == "shape":
            consts, why = None, "clang: the statement of hash_combine_impl is not seed ^= value + C + (seed << A) + (seed >> B) in any accepted spelling"
        elif consts is None:
            consts, why = cl, None           # clang is the authority; the regex only knows the canonical spelling
            notes.append("hash_combine_impl read from the clang AST (non-canonical spelling)")
        elif cl != consts:
            consts, why = None, "clang and the lexical reading of hash_combine_impl disagree: %r vs %r" % (cl, consts)
        tseed, twhy = seed_for(src, "tuple", "hash_combine_tuple")
        vseed, vwhy = seed_for(src, "variant", "hash_combine_variant")
    c = consts or [None, None, None]
    text = """(* GENERATED by gen/tr_hash.py from the repository on every run — do not edit.
   Constants of nitro::lang::detail::hash_combine_impl and the initial seeds of hash(tuple) / hash(variant). %s *)
From Coq Require Import NArith String.
Local Open Scope string_scope.

Inductive gen_word := GWord (n : N) | GWordUnknown (why : string).

(* include/nitro/lang/hash.hpp, hash_combine_impl:  seed ^= value + MAGIC + (seed << SHL) + (seed >> SHR); *)
Definition gen_hash_magic : gen_word := %s.
Definition gen_hash_shl : gen_word := %s.
Definition gen_hash_shr : gen_word := %s.
(* hash(const std::tuple<T...>&):  std::size_t seed = S; hash_combine_tuple<0>(seed, t); return seed; *)
Definition gen_hash_tuple_seed : gen_word := %s.
(* hash(const std::variant<T...>&):  std::size_t seed = S; hash_combine_variant<0>(seed, t); return seed; *)
Definition gen_hash_variant_seed : gen_word := %s.
""" % ("; ".join(notes), word(c[0], why), word(c[1], why), word(c[2], why), word(tseed, twhy), word(vseed, vwhy))
    return [("GenHash.v", text)]


if __name__ == "__main__":
    import sys
    for n, t in generate(sys.argv[1] if len(sys.argv) > 1 else "/repo"):
        print(t)

# gen/tr_objects.py — translator for the option objects (properties C03, C11, C14 and, through them, the whole parser cluster):
# re-reads the bodies of  option::{update_value, prepare, check},  multi_option::{…},  toggle::{…}  (src/options/*.cpp) from
# clang's JSON AST on every run and writes coq/theories/Gen/GenObjects.v: nine statement lists in the small imperative language of
# Opt/ObjLang.v.  Tie/Tie_C03.v then PROVES, for all states, contexts and tokens, that executing these statement lists gives exactly
# what the model's functions (opt_update_g, check_opt, prepare, …) give.  Whatever the reader does not recognise becomes
# SUnknown / BUnknown (executes to "stuck"), which no obligation accepts.
import json, os, re, subprocess, tempfile

CLASSES = ["option", "multi_option", "toggle"]
METHODS = ["update_value", "prepare", "check"]


class Unreadable(Exception):
    pass


def clang_ast(repo, cls):
    with tempfile.TemporaryDirectory() as d:
        tu = os.path.join(d, "tu.cpp")
        open(tu, "w").write('#include "%s"\n' % os.path.join(repo, "src/options/%s.cpp" % cls))
        p = subprocess.run(["clang++", "-std=gnu++17", "-fsyntax-only", "-I" + os.path.join(repo, "include"),
                            "-Xclang", "-ast-dump=json", "-Xclang", "-ast-dump-filter=options::%s::" % cls, tu],
                           stdout=subprocess.PIPE, stderr=subprocess.PIPE, timeout=180)
    if p.returncode != 0:
        raise Unreadable("clang++ exit %d" % p.returncode)
    txt = p.stdout.decode("utf-8", "replace")
    docs, i, dec = [], 0, json.JSONDecoder()
    while True:
        while i < len(txt) and txt[i].isspace():
            i += 1
        if i >= len(txt):
            break
        d, i = dec.raw_decode(txt, i)
        docs.append(d)
    return docs


def inner(n):
    return [c for c in n.get("inner", []) if isinstance(c, dict) and c.get("kind")]


WRAPPERS = ("ImplicitCastExpr", "ParenExpr", "ExprWithCleanups", "MaterializeTemporaryExpr", "CXXBindTemporaryExpr",
            "ConstantExpr", "CXXStaticCastExpr", "CXXFunctionalCastExpr")


def strip(e):
    while e.get("kind") in WRAPPERS and len(inner(e)) == 1:
        e = inner(e)[0]
    return e


def this_member(e):
    """name of a data member accessed on this, or None"""
    e = strip(e)
    if e.get("kind") == "MemberExpr" and len(inner(e)) == 1 and strip(inner(e)[0]).get("kind") == "CXXThisExpr":
        return e.get("name")
    return None


def this_call(e):
    """name of a member function called on this with no arguments, or None"""
    e = strip(e)
    if e.get("kind") == "CXXMemberCallExpr" and len(inner(e)) == 1:
        callee = strip(inner(e)[0])
        if callee.get("kind") == "MemberExpr" and len(inner(callee)) == 1 and strip(inner(callee)[0]).get("kind") == "CXXThisExpr":
            return callee.get("name")
    return None


def var_ref(e):
    e = strip(e)
    if e.get("kind") == "DeclRefExpr":
        return (e.get("referencedDecl") or {}).get("name"), (e.get("referencedDecl") or {}).get("id")
    return None, None


def call_on_var(e):
    """(variable name, method name, args) for var.method(args)"""
    e = strip(e)
    if e.get("kind") == "CXXMemberCallExpr":
        parts = inner(e)
        callee = strip(parts[0])
        if callee.get("kind") == "MemberExpr" and len(inner(callee)) == 1:
            v, _ = var_ref(inner(callee)[0])
            if v:
                return v, callee.get("name"), parts[1:]
    return None, None, None


def call_on_member(e):
    """(member name, method name, args) for this->member.method(args)"""
    e = strip(e)
    if e.get("kind") == "CXXMemberCallExpr":
        parts = inner(e)
        callee = strip(parts[0])
        if callee.get("kind") == "MemberExpr" and len(inner(callee)) == 1:
            m = this_member(inner(callee)[0])
            if m:
                return m, callee.get("name"), parts[1:]
    return None, None, None


class Tr:
    def __init__(self, cls, repo, facts):
        self.cls = cls
        self.repo = repo
        self.facts = facts      # which helper members have their expected one-line bodies
        self.env_ids = set()    # ids of locals initialised with nitro::env::get(env()) — whatever they are called
        self.raise_lambdas = set()   # ids of local lambdas whose whole body is one raise<parsing_error>(…)
        self.src = open(os.path.join(repo, "src/options/%s.cpp" % cls), "rb").read()

    def is_env_local(self, e):
        n, i = var_ref(e)
        return (i is not None and i in self.env_ids) or n == "env_value"

    # ---------------- conditions
    def cond(self, e):
        e = strip(e)
        k = e.get("kind")
        if k == "UnaryOperator" and e.get("opcode") == "!":
            return "(BNot %s)" % self.cond(inner(e)[0])
        if k == "BinaryOperator" and e.get("opcode") in ("&&", "||"):
            a, b = inner(e)
            return "(%s %s %s)" % ("BAnd" if e.get("opcode") == "&&" else "BOr", self.cond(a), self.cond(b))
        m = this_member(e)
        if m == "is_optional_":
            return "BIsOptional"
        if m == "dirty_":
            return "BDirty"
        if m is not None and re.match(r"^revers[ai]ble_$", m):
            return "BReversable"
        c = this_call(e)
        if c == "has_env" and self.facts.get("has_env"):
            return "BHasEnv"
        if c == "has_non_default" and self.facts.get("has_non_default"):
            return "BDirty"
        if c == "given" and self.facts.get("given"):
            return "BGiven"
        if c == "has_default" and self.facts.get("has_default_" + self.cls):
            return {"option": "BHasDefaultO", "multi_option": "BHasDefaultM"}.get(self.cls, "BUnknown")
        mm, meth, args = call_on_member(e)
        if mm == "value_" and meth == "operator bool" and self.cls == "option":
            return "BValueSet"
        if mm == "default_" and meth == "operator bool":
            return {"option": "BHasDefaultO", "multi_option": "BHasDefaultM"}.get(self.cls, "BUnknown")
        if mm == "value_" and meth == "empty" and self.cls == "multi_option" and not args:
            return "BVecEmpty"
        v, meth, args = call_on_var(e)
        if meth == "empty" and not args and strip(e).get("kind") == "CXXMemberCallExpr":
            callee = strip(inner(strip(e))[0])
            if callee.get("kind") == "MemberExpr" and len(inner(callee)) == 1 and self.is_env_local(inner(callee)[0]):
                return "BEnvEmpty"
        if v == "arg" and not args:
            if meth == "has_value":
                return "BArgHasValue"
            if meth == "is_short":
                return "BArgIsShort"
            if meth == "has_prefix":
                return "BArgHasPrefix"
        if k == "CXXOperatorCallExpr":
            parts = inner(e)
            if (strip(parts[0]).get("referencedDecl") or {}).get("name") == "operator==" and len(parts) == 3:
                sides = [parts[1], parts[2]]
                names = []
                for s_ in sides:
                    v, meth, args = call_on_var(s_)
                    if v == "arg" and meth == "name_without_prefix" and not args:
                        names.append("unprefixed")
                    elif this_call(s_) == "name":
                        names.append("name")
                if sorted(names) == ["name", "unprefixed"]:
                    return "BArgUnprefixedIsName"
        return "BUnknown"

    # ---------------- statements
    def is_raise_user(self, call):
        callee = strip(inner(call)[0])
        rd = callee.get("referencedDecl") or {}
        rng = callee.get("range") or {}
        try:
            b, e2 = rng["begin"]["offset"], rng["end"]["offset"] + rng["end"]["tokLen"]
            txt = self.src[b:e2].decode("latin-1")
        except (KeyError, TypeError):
            txt = ""
        return rd.get("name") == "raise" and re.match(r"^raise\s*<\s*(::)?(nitro::)?(options::)?parsing_error\s*>$", txt) is not None

    def value_rhs(self, rhs):
        """right-hand side of value_ = …"""
        r = strip(rhs)
        v, meth, args = call_on_var(r)
        if v == "arg" and meth == "value" and not args:
            return "arg"
        if self.is_env_local(r):
            return "env"
        if this_call(r) == "get_default" and self.facts.get("get_default_" + self.cls):
            return "default"
        if r.get("kind") == "CXXOperatorCallExpr":
            parts = inner(r)
            if (strip(parts[0]).get("referencedDecl") or {}).get("name") == "operator*" and len(parts) == 2 and this_member(parts[1]) == "default_":
                return "default"
        if r.get("kind") in ("CXXTemporaryObjectExpr", "CXXConstructExpr") and not inner(r):
            return "reset"
        return None

    def stmt(self, s):
        k = s.get("kind")
        e = strip(s)
        k = e.get("kind")
        if k == "IfStmt":
            if e.get("hasInit") or e.get("hasVar"):
                return "SUnknown"
            parts = inner(e)
            c = self.cond(parts[0])
            t = self.block(parts[1])
            el = self.block(parts[2]) if e.get("hasElse") and len(parts) > 2 else "[]"
            return "(SIf %s %s %s)" % (c, t, el)
        if k == "ReturnStmt" and not inner(e):
            return "SReturn"
        if k == "BinaryOperator" and e.get("opcode") == "=":
            l, r = inner(e)
            m = this_member(l)
            r0 = strip(r)
            if m == "dirty_" and r0.get("kind") == "CXXBoolLiteralExpr":
                return "(SAssignDirty %s)" % ("true" if r0.get("value") else "false")
            if m == "given_" and self.cls == "toggle":
                if r0.get("kind") == "IntegerLiteral" and str(r0.get("value")) == "0":
                    return "SGivenZero"
                if this_member(r0) == "default_":
                    return "SGivenDefault"
                if r0.get("kind") == "CallExpr":
                    ps = inner(r0)
                    if (strip(ps[0]).get("referencedDecl") or {}).get("name") == "parse_env_value" and len(ps) == 2 and self.is_env_local(ps[1]):
                        return "SGivenEnvWord"
            return "SUnknown"
        if k == "CompoundAssignOperator" and e.get("opcode") == "+=" and self.cls == "toggle":
            l, r = inner(e)
            if this_member(l) == "given_":
                r0 = strip(r)
                if r0.get("kind") == "CXXMemberCallExpr":
                    ps = inner(r0)
                    callee = strip(ps[0])
                    if callee.get("kind") == "MemberExpr" and callee.get("name") == "count" and len(ps) == 2:
                        v, meth, args = call_on_var(inner(callee)[0])
                        if v == "arg" and meth == "as_short_list" and not args and this_call(ps[1]) == "short_name":
                            return "SGivenAddLetters"
            return "SUnknown"
        if k == "UnaryOperator" and e.get("opcode") == "++" and self.cls == "toggle" and this_member(inner(e)[0]) == "given_":
            return "SGivenIncr"
        if k == "CXXOperatorCallExpr":
            parts = inner(e)
            if (strip(parts[0]).get("referencedDecl") or {}).get("name") == "operator()" and len(parts) == 2:
                _, lid = var_ref(parts[1])
                return "SRaiseUser" if lid in self.raise_lambdas else "SUnknown"
            if (strip(parts[0]).get("referencedDecl") or {}).get("name") == "operator=" and len(parts) == 3 and this_member(parts[1]) == "value_":
                rhs = self.value_rhs(parts[2])
                if self.cls == "option":
                    return {"arg": "SValFromArg", "env": "SValFromEnv", "default": "SValFromDefault", "reset": "SValReset"}.get(rhs, "SUnknown")
                if self.cls == "multi_option":
                    return {"default": "SVecFromDefault"}.get(rhs, "SUnknown")
            return "SUnknown"
        if k == "CXXMemberCallExpr":
            mm, meth, args = call_on_member(e)
            if mm == "value_" and self.cls == "multi_option":
                if meth == "clear" and not args:
                    return "SVecClear"
                if meth in ("push_back", "emplace_back") and len(args) == 1:
                    v, m2, a2 = call_on_var(args[0])
                    if v == "arg" and m2 == "value" and not a2:
                        return "SVecPushArg"
                    if var_ref(args[0])[0] == "element":
                        return "SVecPushElem"
            return "SUnknown"
        if k == "DeclStmt":
            vs = inner(e)
            if len(vs) == 1 and vs[0].get("kind") == "VarDecl" and inner(vs[0]) and strip(inner(vs[0])[0]).get("kind") == "LambdaExpr":
                # a local lambda whose whole body is one raise<parsing_error>(…): calling it is raising
                lam = strip(inner(vs[0])[0])
                bodies = [c for c in inner(lam) if c.get("kind") == "CompoundStmt"]
                if bodies:
                    sts = inner(bodies[-1])
                    if len(sts) == 1 and strip(sts[0]).get("kind") == "CallExpr" and self.is_raise_user(strip(sts[0])):
                        self.raise_lambdas.add(vs[0].get("id"))
                        return "SSkip"
                return "SUnknown"
            if len(vs) == 1 and vs[0].get("kind") == "VarDecl" and inner(vs[0]):
                init = strip(inner(vs[0])[0])
                # a copy-initialised std::string: look through the constructor
                while init.get("kind") in ("CXXConstructExpr",) and len(inner(init)) == 1:
                    init = strip(inner(init)[0])
                if init.get("kind") == "CallExpr":
                    ps = inner(init)
                    rd = strip(ps[0]).get("referencedDecl") or {}
                    # nitro::env::get(env())  with the defaulted second argument
                    if rd.get("name") == "get" and len(ps) >= 2 and this_call(ps[1]) == "env" and self.facts.get("env") \
                            and all(p.get("kind") == "CXXDefaultArgExpr" for p in ps[2:]):
                        self.env_ids.add(vs[0].get("id"))
                        return "SLetEnv"
            return "SUnknown"
        if k == "CXXOperatorCallExpr":
            parts = inner(e)
            if (strip(parts[0]).get("referencedDecl") or {}).get("name") == "operator()" and len(parts) == 2:
                _, lid = var_ref(parts[1])
                if lid in self.raise_lambdas:
                    return "SRaiseUser"
        if k == "CallExpr":
            return "SRaiseUser" if self.is_raise_user(e) else "SUnknown"
        return "SUnknown"

    def getline_idiom(self, sts, i):
        """std::string X; std::stringstream Y; Y << env_value; while (std::getline(Y, X, 'c')) body   ->  SForLines c body"""
        if i + 3 >= len(sts):
            return None
        a, b, c, d = sts[i:i + 4]
        def novalue_decl(s, tyre):
            s = strip(s)
            if s.get("kind") != "DeclStmt" or len(inner(s)) != 1:
                return None
            v = inner(s)[0]
            ty = (v.get("type") or {}).get("qualType", "")
            init = [strip(x) for x in inner(v)]
            if v.get("kind") == "VarDecl" and re.search(tyre, ty) and all(x.get("kind") == "CXXConstructExpr" and not inner(x) for x in init):
                return v.get("name")
            return None
        x = novalue_decl(a, r"(^|::)string$|basic_string<char>")
        y = novalue_decl(b, r"stringstream")
        if not x or not y or x != "element":
            return None
        c0 = strip(c)
        if c0.get("kind") != "CXXOperatorCallExpr":
            return None
        ps = inner(c0)
        if (strip(ps[0]).get("referencedDecl") or {}).get("name") != "operator<<" or var_ref(ps[1])[0] != y or var_ref(ps[2])[0] != "env_value":
            return None
        d0 = strip(d)
        if d0.get("kind") != "WhileStmt":
            return None
        cond, body = inner(d0)[0], inner(d0)[1]
        cnd = strip(cond)
        # (bool) std::getline(Y, X, sep)
        if cnd.get("kind") == "CXXMemberCallExpr":
            callee = strip(inner(cnd)[0])
            if callee.get("name") != "operator bool":
                return None
            cnd = strip(inner(callee)[0])
        if cnd.get("kind") != "CallExpr":
            return None
        ps = inner(cnd)
        if (strip(ps[0]).get("referencedDecl") or {}).get("name") != "getline" or len(ps) != 4:
            return None
        if var_ref(ps[1])[0] != y or var_ref(ps[2])[0] != x or strip(ps[3]).get("kind") != "CharacterLiteral":
            return None
        sep = strip(ps[3]).get("value")
        if not isinstance(sep, int) or not (0 <= sep <= 255):
            return None
        return "(SForLines x%02x %s)" % (sep, self.block(body))

    def for_getline_idiom(self, sts, i):
        """std::istringstream Y(env_value);  for (std::string X; std::getline(Y, X, 'c');) body   ->  SForLines c body"""
        if i + 1 >= len(sts):
            return None
        a, b = strip(sts[i]), strip(sts[i + 1])
        if a.get("kind") != "DeclStmt" or len(inner(a)) != 1 or b.get("kind") != "ForStmt":
            return None
        v = inner(a)[0]
        ty = (v.get("type") or {}).get("qualType", "")
        if v.get("kind") != "VarDecl" or not re.search(r"istringstream|stringstream", ty) or not inner(v):
            return None
        init = strip(inner(v)[0])
        while init.get("kind") == "CXXConstructExpr" and len(inner(init)) >= 1:
            args = [x for x in inner(init) if x.get("kind") != "CXXDefaultArgExpr"]
            if len(args) != 1:
                return None
            init = strip(args[0])
        if not self.is_env_local(init):
            return None
        yid = v.get("id")
        parts = b.get("inner", [])
        parts = [p for p in parts]
        # ForStmt children: init, (condvar), cond, inc, body — empty slots are {}
        kids = [p for p in parts if isinstance(p, dict)]
        if len(kids) < 5:
            return None
        finit, cond, inc, body = kids[0], kids[2], kids[3], kids[4]
        if inc.get("kind"):
            return None
        fi = strip(finit) if finit.get("kind") else {}
        if fi.get("kind") != "DeclStmt" or len(inner(fi)) != 1:
            return None
        xv = inner(fi)[0]
        if xv.get("name") != "element" or not re.search(r"(^|::)string$|basic_string<char>", (xv.get("type") or {}).get("qualType", "")):
            return None
        if any(strip(x).get("kind") != "CXXConstructExpr" or inner(strip(x)) for x in inner(xv)):
            return None
        cnd = strip(cond)
        if cnd.get("kind") == "CXXMemberCallExpr":
            callee = strip(inner(cnd)[0])
            if callee.get("name") != "operator bool":
                return None
            cnd = strip(inner(callee)[0])
        if cnd.get("kind") != "CallExpr":
            return None
        ps = inner(cnd)
        if (strip(ps[0]).get("referencedDecl") or {}).get("name") != "getline" or len(ps) != 4:
            return None
        if var_ref(ps[1])[1] != yid or var_ref(ps[2])[1] != xv.get("id") or strip(ps[3]).get("kind") != "CharacterLiteral":
            return None
        sep = strip(ps[3]).get("value")
        if not isinstance(sep, int) or not (0 <= sep <= 255):
            return None
        return "(SForLines x%02x %s)" % (sep, self.block(body))

    def block(self, s):
        s0 = s
        if s0.get("kind") != "CompoundStmt":
            return "[" + self.stmt(s0) + "]"
        sts = inner(s0)
        out, i = [], 0
        while i < len(sts):
            g = self.getline_idiom(sts, i)
            if g:
                out.append(g)
                i += 4
                continue
            g = self.for_getline_idiom(sts, i)
            if g:
                out.append(g)
                i += 2
                continue
            out.append(self.stmt(sts[i]))
            i += 1
        out = [o for o in out if o != "SSkip"]
        return "[" + "; ".join(out) + "]"


def helper_facts(repo):
    """the one-line helpers the conditions rely on must have their expected bodies"""
    base = open(os.path.join(repo, "include/nitro/options/option/base.hpp"), "rb").read().decode("latin-1")
    tog = open(os.path.join(repo, "src/options/toggle.cpp"), "rb").read().decode("latin-1")
    def has(txt, pat):
        return re.search(pat, txt, re.S) is not None
    def src_of(cls):
        try:
            return open(os.path.join(repo, "src/options/%s.cpp" % cls), "rb").read().decode("latin-1")
        except OSError:
            return ""
    extra = {}
    for cls in ("option", "multi_option"):
        t = src_of(cls)
        extra["has_default_" + cls] = has(t, r"bool\s+%s::has_default\s*\(\s*\)\s*const\s*\{\s*return\s+(static_cast\s*<\s*bool\s*>\s*\(\s*default_\s*\)|default_\.has_value\s*\(\s*\)|!!\s*default_)\s*;\s*\}" % cls)
        extra["get_default_" + cls] = has(t, r"%s::get_default\s*\(\s*\)\s*const\s*\{\s*return\s+\*\s*default_\s*;\s*\}" % cls)
    return dict(extra, **{
        "has_non_default": has(base, r"bool\s+has_non_default\s*\(\s*\)\s*const\s*\{\s*return\s+dirty_\s*;\s*\}"),
        "has_env": has(base, r"bool\s+has_env\s*\(\s*\)\s*const\s*\{\s*return\s*!\s*env_\.empty\s*\(\s*\)\s*;\s*\}"),
        "env": has(base, r"const\s+std::string\s*&\s*env\s*\(\s*\)\s*const\s*\{\s*return\s+env_\s*;\s*\}"),
        "given": has(tog, r"int\s+toggle::given\s*\(\s*\)\s*const\s*\{\s*return\s+given_\s*;\s*\}"),
    })


def generate(repo):
    head = ("(* GENERATED by gen/tr_objects.py from src/options/{option,multi_option,toggle}.cpp on every run — do not edit *)\n"
            "From Coq Require Import List.\nFrom Coq Require Import Init.Byte.\n"
            "From Nitro Require Import Base.Bytes Opt.ObjLang.\nImport ListNotations.\n")
    lines = []
    try:
        facts = helper_facts(repo)
    except OSError:
        facts = {}
    lines.append("(* helper one-liners with their expected bodies: %s *)" % ", ".join("%s=%s" % kv for kv in sorted(facts.items())))
    for cls in CLASSES:
        found = {}
        try:
            docs = clang_ast(repo, cls)
            tr = Tr(cls, repo, facts)
            for d in docs:
                if d.get("kind") == "CXXMethodDecl" and d.get("name") in METHODS:
                    body = [c for c in inner(d) if c.get("kind") == "CompoundStmt"]
                    if body:
                        found.setdefault(d.get("name"), []).append(tr.block(body[0]))
        except Unreadable as e:
            lines.append("(* %s unreadable: %s *)" % (cls, str(e).replace("*)", "* )")))
        for m in METHODS:
            name = "gen_%s_%s" % (cls, m)
            if len(found.get(m, [])) == 1:
                lines.append("Definition %s : list stmt :=\n  %s." % (name, found[m][0]))
            else:
                lines.append("Definition %s : list stmt := [SUnknown]. (* %d definitions found *)" % (name, len(found.get(m, []))))
    return [("GenObjects.v", head + "\n".join(lines) + "\n")]

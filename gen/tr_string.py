# gen/tr_string.py — translator for include/nitro/lang/string.hpp (property C17): re-reads the bodies of
# nitro::lang::{split, replace_all, starts_with} and of the iterator overload of join from clang's JSON AST on every run and
# writes coq/theories/Gen/GenString.v: one `fn` (Str/StrLang.v: parameters, locals, body as a statement of the small
# imperative language) per function.  Tie/Tie_C17.v then PROVES, for all byte strings, that running these bodies with the
# interpreter gives the functions of the model (Str/StrModel.v) the C17 theorems are about.
# Anything the reader does not recognise becomes SUnknown / EUnknown, on which the interpreter is stuck, so no obligation
# can be proved over it.
import json, os, subprocess, tempfile


class Unreadable(Exception):
    pass


def clang_ast(repo, flt):
    with tempfile.TemporaryDirectory() as d:
        tu = os.path.join(d, "tu.cpp")
        open(tu, "w").write("#include <nitro/lang/string.hpp>\n")
        p = subprocess.run(["clang++", "-std=gnu++17", "-fsyntax-only", "-I" + os.path.join(repo, "include"),
                            "-Xclang", "-ast-dump=json", "-Xclang", "-ast-dump-filter=" + flt, tu],
                           stdout=subprocess.PIPE, stderr=subprocess.PIPE, timeout=120)
    if p.returncode != 0:
        raise Unreadable("clang++ exit %d" % p.returncode)
    txt = p.stdout.decode("utf-8", "replace")
    docs, i, dec = [], 0, json.JSONDecoder()
    while True:
        while i < len(txt) and txt[i].isspace():
            i += 1
        if i >= len(txt):
            break
        d, i = dec.raw_decode(txt, i)
        docs.append(d)
    return docs


def inner(n):
    return [c for c in n.get("inner", []) if isinstance(c, dict) and c.get("kind")]


WRAP = ("ImplicitCastExpr", "ParenExpr", "ExprWithCleanups", "MaterializeTemporaryExpr", "CXXBindTemporaryExpr", "ConstantExpr")


def strip(e):
    while e.get("kind") in WRAP and len(inner(e)) == 1:
        e = inner(e)[0]
    return e


def qual(e):
    t = e.get("type") or {}
    return (t.get("desugaredQualType") or "") + " " + (t.get("qualType") or "")


def is_string_type(e):
    q = qual(e)
    return "basic_string<char" in q or "std::string" in q


class Fn:
    def __init__(self):
        self.vars = {}     # decl id -> slot
        self.names = []    # slot -> name
        self.nparams = 0
        self.inlined = {}  # decl id of a size constant -> the expression it abbreviates
        self.frozen = set()  # slots of strings that are never written (const reference parameters, const locals)

    def slot(self, decl, name):
        if decl not in self.vars:
            self.vars[decl] = len(self.names)
            self.names.append(name)
        return self.vars[decl]

    def var(self, e):
        e = strip(e)
        if e.get("kind") == "DeclRefExpr":
            rd = e.get("referencedDecl") or {}
            if rd.get("id") in self.vars:
                return self.vars[rd.get("id")]
        raise Unreadable("variable expected, got %s" % e.get("kind"))

    def member_call(self, e):
        """CXXMemberCallExpr -> (method name, object expr, [args])"""
        parts = inner(e)
        callee = strip(parts[0])
        if callee.get("kind") != "MemberExpr" or not inner(callee):
            raise Unreadable("member call shape")
        return callee.get("name"), inner(callee)[0], parts[1:]

    def expr(self, e):
        e = strip(e)
        k = e.get("kind")
        if k == "DeclRefExpr":
            rd = e.get("referencedDecl") or {}
            if rd.get("name") == "npos":
                return ("ENpos",)
            if rd.get("id") in self.inlined:
                return self.inlined[rd.get("id")]
            if rd.get("id") in self.vars:
                return ("EVar", self.vars[rd.get("id")])
            raise Unreadable("reference to %s" % rd.get("name"))
        if k == "IntegerLiteral":
            return ("ENat", int(e.get("value")))
        if k == "CXXBoolLiteralExpr":
            return ("EBool", "true" if e.get("value") else "false")
        if k in ("CXXTemporaryObjectExpr", "CXXConstructExpr") and is_string_type(e):
            a = inner(e)
            if len(a) == 0:
                return ("EStrEmpty",)
            if len(a) == 1 and is_string_type(strip(a[0])):   # copy / move construction from a string
                return self.expr(a[0])
            raise Unreadable("string constructor with %d arguments" % len(a))
        if k == "CXXFunctionalCastExpr" and len(inner(e)) == 1:
            return self.expr(inner(e)[0])
        if k == "CXXMemberCallExpr":
            name, obj, args = self.member_call(e)
            if not is_string_type(strip(obj)):
                raise Unreadable("member call on a non-string")
            o = self.expr(obj)
            if name == "find" and len(args) == 2 and is_string_type(strip(args[0])):
                st = ("ENat", 0) if strip(args[1]).get("kind") == "CXXDefaultArgExpr" else self.expr(args[1])
                return ("EFind", o, self.expr(args[0]), st)
            if name == "rfind" and len(args) == 2 and is_string_type(strip(args[0])) and strip(args[1]).get("kind") == "IntegerLiteral" \
                    and int(strip(args[1]).get("value")) == 0:
                return ("ERfind0", o, self.expr(args[0]))
            if name == "substr" and len(args) == 2:
                if strip(args[1]).get("kind") == "CXXDefaultArgExpr":
                    return ("ESubstrFrom", o, self.expr(args[0]))
                return ("ESubstr", o, self.expr(args[0]), self.expr(args[1]))
            if name in ("size", "length") and not args:
                return ("ESize", o)
            if name == "empty" and not args:
                return ("EEmpty", o)
            raise Unreadable("string member %s/%d" % (name, len(args)))
        if k == "BinaryOperator":
            op = e.get("opcode")
            l, r = inner(e)
            if op == "=":
                return ("EAssign", self.var(l), self.expr(r))
            c = {"<": "ELt", "==": "EEq", "!=": "ENe", "+": "EAdd", "-": "ESub"}.get(op)
            if c:
                return (c, self.expr(l), self.expr(r))
            if op == ">":
                return ("ELt", self.expr(r), self.expr(l))
            raise Unreadable("binary operator %s" % op)
        if k == "UnaryOperator" and e.get("opcode") == "!":
            return ("ENot", self.expr(inner(e)[0]))
        raise Unreadable("expression %s" % k)

    def seq(self, l):
        if not l:
            return ("SSkip",)
        if len(l) == 1:
            return l[0]
        return ("SSeq", l[0], self.seq(l[1:]))

    def block(self, s):
        if s.get("kind") == "CompoundStmt":
            return self.seq([self.stmt(c) for c in inner(s)])
        return self.stmt(s)

    def decl(self, v):
        q = qual(v)
        x = self.slot(v.get("id"), v.get("name"))
        init = inner(v)
        if "vector<" in q:
            if len(init) == 1 and strip(init[0]).get("kind") == "CXXConstructExpr" and not inner(strip(init[0])):
                return ("SNewList", x)
            if not init:
                return ("SNewList", x)
            raise Unreadable("vector initialiser")
        if len(init) == 1 and " const" in (" " + qual(v).replace("const ", " const ")) and "unsigned long" in qual(v):
            e = self.expr(init[0])
            if e[0] == "ESize" and e[1][0] == "EVar" and e[1][1] in self.frozen:
                self.names.pop(); del self.vars[v.get("id")]
                self.inlined[v.get("id")] = e
                return ("SSkip",)
        if not init:
            if is_string_type(v):
                return ("SNewStr", x)
            raise Unreadable("uninitialised %s" % v.get("name"))
        if is_string_type(v) and (v.get("type") or {}).get("qualType", "").startswith("const"):
            self.frozen.add(x)
        return ("SSet", x, self.expr(init[0]))

    def stmt(self, s):
        s = strip(s)
        k = s.get("kind")
        if k == "CompoundStmt":
            return self.block(s)
        if k == "NullStmt":
            return ("SSkip",)
        if k == "DeclStmt":
            return self.seq([self.decl(v) for v in inner(s) if v.get("kind") == "VarDecl"])
        if k == "IfStmt":
            p = inner(s)
            if len(p) == 2:
                return ("SIf", self.expr(p[0]), self.block(p[1]), ("SSkip",))
            if len(p) == 3 and s.get("hasElse"):
                return ("SIf", self.expr(p[0]), self.block(p[1]), self.block(p[2]))
            raise Unreadable("if with init/condition variable")
        if k == "WhileStmt":
            p = inner(s)
            if len(p) != 2:
                raise Unreadable("while with condition variable")
            return ("SWhile", self.expr(p[0]), self.block(p[1]))
        if k == "ForStmt":
            try:
                return self.foreach(s)
            except Unreadable:
                pass
            return self.plain_for(s)
        if k == "BreakStmt":
            return ("SBreak",)
        if k == "ContinueStmt":
            return ("SContinue",)
        if k == "ReturnStmt":
            p = inner(s)
            return ("SReturn", self.expr(p[0])) if p else ("SReturnVoid",)
        if k == "CallExpr":
            callee = strip(inner(s)[0])
            if (callee.get("referencedDecl") or {}).get("name") == "raise":
                return ("SRaise",)
            raise Unreadable("call of %s" % (callee.get("referencedDecl") or {}).get("name"))
        if k == "CXXMemberCallExpr":
            name, obj, args = self.member_call(s)
            if name == "emplace_back" and len(args) == 0 and "vector<std::" in qual(strip(obj)) and "string" in qual(strip(obj)):
                return ("SEmplaceBack", self.var(obj), ("EStrEmpty",))
            if name in ("emplace_back", "push_back") and len(args) == 1 and "vector<" in qual(strip(obj)):
                return ("SEmplaceBack", self.var(obj), self.expr(args[0]))
            if name == "replace" and len(args) == 3 and is_string_type(strip(obj)) and is_string_type(strip(args[2])):
                return ("SReplace", self.var(obj), self.expr(args[0]), self.expr(args[1]), self.expr(args[2]))
            raise Unreadable("statement call %s" % name)
        if k == "BinaryOperator" and s.get("opcode") == "=":
            l, r = inner(s)
            return ("SSet", self.var(l), self.expr(r))
        if k == "CompoundAssignOperator" and s.get("opcode") == "+=":
            l, r = inner(s)
            return ("SAddN", self.var(l), self.expr(r))
        if k == "CXXOperatorCallExpr":
            p = inner(s)
            if (strip(p[0]).get("referencedDecl") or {}).get("name") == "operator+=" and len(p) == 3 and is_string_type(strip(p[1])) \
                    and is_string_type(strip(p[2])):
                return ("SAppend", self.var(p[1]), self.expr(p[2]))
            raise Unreadable("operator call")
        raise Unreadable("statement %s" % k)

    def plain_for(self, s):
        """for (init; cond; inc) body  =  init; while (cond) { body; inc }   when the body has no `continue` of its own"""
        p = s.get("inner", [])
        if len(p) != 5 or not p[0] or p[1] or not p[2] or not p[3]:
            raise Unreadable("for shape")
        init, _, cond, inc, body = p

        def has_continue(n):
            if not isinstance(n, dict):
                return False
            if n.get("kind") == "ContinueStmt":
                return True
            if n.get("kind") in ("ForStmt", "WhileStmt", "DoStmt", "CXXForRangeStmt", "LambdaExpr"):
                return False
            return any(has_continue(c) for c in n.get("inner", []) or [])
        if has_continue(body):
            raise Unreadable("for body with continue")
        return self.seq([self.stmt(init), ("SWhile", self.expr(cond), self.seq([self.block(body), self.stmt(inc)]))])

    def foreach(self, s):
        """for (auto it = begin; it != end; ++it) { std::stringstream s; s << *it; auto element = s.str(); rest }
           with begin/end the first two parameters (the range is slot 0, the list of the elements' renderings)"""
        p = s.get("inner", [])
        if len(p) != 5:
            raise Unreadable("for shape")
        init, _, cond, inc, body = p
        iv = [v for v in inner(init) if v.get("kind") == "VarDecl"] if init.get("kind") == "DeclStmt" else []
        if len(iv) != 1 or self.src_param(inner(iv[0])[0] if inner(iv[0]) else {}) != 0:
            raise Unreadable("for init is not `it = begin`")
        it = iv[0].get("id")

        def is_it(e):
            e = strip(e)
            return e.get("kind") == "DeclRefExpr" and (e.get("referencedDecl") or {}).get("id") == it
        c = strip(cond)
        if not (c.get("kind") == "BinaryOperator" and c.get("opcode") == "!=" and is_it(inner(c)[0]) and self.src_param(inner(c)[1]) == 1):
            raise Unreadable("for condition is not `it != end`")
        i = strip(inc)
        if not (i.get("kind") == "UnaryOperator" and i.get("opcode") == "++" and is_it(inner(i)[0])):
            raise Unreadable("for increment is not ++it")
        b = inner(body) if body.get("kind") == "CompoundStmt" else []
        if len(b) < 3:
            raise Unreadable("for body too short")
        d0 = [v for v in inner(b[0]) if v.get("kind") == "VarDecl"] if b[0].get("kind") == "DeclStmt" else []
        if len(d0) != 1 or "stringstream" not in qual(d0[0]) or any(inner(x) for x in inner(d0[0])):
            raise Unreadable("element rendering: stringstream declaration")
        ss = d0[0].get("id")

        def is_ss(e):
            e = strip(e)
            return e.get("kind") == "DeclRefExpr" and (e.get("referencedDecl") or {}).get("id") == ss
        ins = strip(b[1])
        if not (ins.get("kind") == "BinaryOperator" and ins.get("opcode") == "<<" and is_ss(inner(ins)[0])):
            raise Unreadable("element rendering: s << *it")
        d = strip(inner(ins)[1])
        if not (d.get("kind") == "UnaryOperator" and d.get("opcode") == "*" and is_it(inner(d)[0])):
            raise Unreadable("element rendering: s << *it")
        d2 = [v for v in inner(b[2]) if v.get("kind") == "VarDecl"] if b[2].get("kind") == "DeclStmt" else []
        if len(d2) != 1 or not inner(d2[0]):
            raise Unreadable("element rendering: element = s.str()")
        call = strip(inner(d2[0])[0])
        if call.get("kind") != "CXXMemberCallExpr":
            raise Unreadable("element rendering: element = s.str()")
        name, obj, args = self.member_call(call)
        if name != "str" or args or not is_ss(obj):
            raise Unreadable("element rendering: element = s.str()")
        x = self.slot(d2[0].get("id"), d2[0].get("name"))
        return ("SForEach", x, 0, self.seq([self.stmt(c) for c in b[3:]]))

    def src_param(self, e):
        e = strip(e)
        if e.get("kind") == "DeclRefExpr":
            return self.param_index.get((e.get("referencedDecl") or {}).get("id"))
        return None


def show(t):
    if isinstance(t, tuple):
        return t[0] if len(t) == 1 else "(" + " ".join(show(x) for x in t) + ")"
    return str(t)


def leaves(s):
    """does every path through s end in break / continue / return / raise (never falls through)?"""
    k = s[0]
    if k in ("SBreak", "SContinue", "SReturn", "SReturnVoid", "SRaise"):
        return True
    if k == "SSeq":
        return leaves(s[1]) or leaves(s[2])
    if k == "SIf":
        return leaves(s[2]) and leaves(s[3])
    return False


def norm(s, tail=False):
    """behaviour-preserving normal form of a statement (each rule is a lemma of the little language, Tie_C17: norm_*):
         skip; s = s = s; skip          (a; b); c = a; (b; c)
         if (c) A else skip; R  with A never falling through   =  if (c) A else R
         if (a == b) A else B = if (a != b) B else A            if (!c) A else B = if (c) B else A
         `continue` as the last statement of a loop body = skip"""
    k = s[0]
    if k == "SSeq":
        a, b = s[1], s[2]
        if a[0] == "SSeq":
            return norm(("SSeq", a[1], ("SSeq", a[2], b)), tail)
        a = norm(a, False)
        if a[0] == "SSkip":
            return norm(b, tail)
        if a[0] == "SIf" and a[3][0] == "SSkip" and leaves(a[2]):
            return norm(("SIf", a[1], a[2], b), tail)
        if a[0] == "SIf" and a[2][0] == "SSkip" and leaves(a[3]):
            return norm(("SIf", a[1], b, a[3]), tail)
        b = norm(b, tail)
        if b[0] == "SSkip":
            return norm(a, tail)
        return ("SSeq", a, b)
    if k == "SIf":
        c, a, b = s[1], s[2], s[3]
        if c[0] == "ENot":
            return norm(("SIf", c[1], b, a), tail)
        if c[0] == "EEq":
            return norm(("SIf", ("ENe", c[1], c[2]), b, a), tail)
        return ("SIf", c, norm(a, tail), norm(b, tail))
    if k == "SWhile":
        return ("SWhile", s[1], norm(s[2], True))
    if k == "SForEach":
        return ("SForEach", s[1], s[2], norm(s[3], True))
    if k == "SContinue" and tail:
        return ("SSkip",)
    return s


def function(decl, join=False):
    f = Fn()
    params = [c for c in inner(decl) if c.get("kind") == "ParmVarDecl"]
    body = [c for c in inner(decl) if c.get("kind") == "CompoundStmt"]
    if len(body) != 1:
        raise Unreadable("no body")
    f.param_index = {p.get("id"): i for i, p in enumerate(params)}
    if join:
        if len(params) != 3:
            raise Unreadable("join parameters")
        f.names.append("[begin,end)")            # slot 0: the renderings of the elements
        f.slot(params[2].get("id"), params[2].get("name"))
        f.nparams = 2
    else:
        for p in params:
            x = f.slot(p.get("id"), p.get("name"))
            if qual(p).strip().startswith("const") and is_string_type(p):
                f.frozen.add(x)
        f.nparams = len(params)
    b = show(norm(f.block(body[0])))
    return f, b


def find_function(docs, name, nparams, template):
    out = []

    def walk(n):
        if not isinstance(n, dict):
            return
        if n.get("kind") == "FunctionDecl" and n.get("name") == name and any(c.get("kind") == "CompoundStmt" for c in inner(n)):
            if len([c for c in inner(n) if c.get("kind") == "ParmVarDecl"]) == nparams:
                out.append(n)
            return
        if n.get("kind") == "FunctionTemplateDecl" and not template:
            return
        for c in n.get("inner", []) or []:
            walk(c)
    for d in docs:
        if d.get("kind") == "FunctionTemplateDecl":
            if template:
                # the pattern (first FunctionDecl child), not the instantiations
                for c in inner(d):
                    if c.get("kind") == "FunctionDecl":
                        walk(c)
                        break
        else:
            walk(d)
    return out


def default_infix(fn_decl):
    """the default argument of the parameter `infix`, when it is std::string("<literal>")"""
    for p in inner(fn_decl):
        if p.get("kind") == "ParmVarDecl" and is_string_type(p) and inner(p):
            lits = []

            def walk(n):
                if isinstance(n, dict):
                    if n.get("kind") == "StringLiteral":
                        lits.append(n.get("value"))
                    for c in n.get("inner", []) or []:
                        walk(c)
            walk(p)
            if len(lits) == 1 and len(lits[0]) >= 2 and lits[0][0] == '"' and lits[0][-1] == '"' and "\\" not in lits[0]:
                return "Some [" + "; ".join("x%02x" % b for b in lits[0][1:-1].encode("latin-1")) + "]"
            raise Unreadable("default argument of %s" % p.get("name"))
    raise Unreadable("no defaulted string parameter")


def vector_overload_forwards(fn_decl):
    """join(const std::vector<std::string>& strs, infix) { return join(strs.[c]begin(), strs.[c]end(), infix); }"""
    params = [c for c in inner(fn_decl) if c.get("kind") == "ParmVarDecl"]
    body = [c for c in inner(fn_decl) if c.get("kind") == "CompoundStmt"]
    if len(params) != 2 or len(body) != 1 or "vector<" not in qual(params[0]) or not qual(params[0]).strip().startswith("const"):
        raise Unreadable("vector overload signature")
    st = inner(body[0])
    if len(st) != 1 or st[0].get("kind") != "ReturnStmt":
        raise Unreadable("vector overload body")
    call = strip(inner(st[0])[0])
    while call.get("kind") in ("CXXConstructExpr",) and len(inner(call)) == 1:
        call = strip(inner(call)[0])
    if call.get("kind") != "CallExpr":
        raise Unreadable("vector overload does not forward")
    parts = inner(call)
    if (strip(parts[0]).get("referencedDecl") or {}).get("name") != "join" or len(parts) != 4:
        raise Unreadable("vector overload does not call join/3")

    def rng(e, names):
        e = strip(e)
        while e.get("kind") == "CXXConstructExpr" and len(inner(e)) == 1:
            e = strip(inner(e)[0])
        if e.get("kind") != "CXXMemberCallExpr" or len(inner(e)) != 1:
            return False
        callee = strip(inner(e)[0])
        o = strip(inner(callee)[0]) if inner(callee) else {}
        return callee.get("name") in names and (o.get("referencedDecl") or {}).get("id") == params[0].get("id")
    third = strip(parts[3])
    if not (rng(parts[1], ("begin", "cbegin")) and rng(parts[2], ("end", "cend"))
            and (third.get("referencedDecl") or {}).get("id") == params[1].get("id")):
        raise Unreadable("vector overload arguments")
    return True


SPEC = [("split", 2, False), ("replace_all", 3, False), ("starts_with", 2, False), ("join", 3, True)]


def generate(repo):
    head = ("(* GENERATED by gen/tr_string.py from include/nitro/lang/string.hpp on every run — do not edit *)\n"
            "From Coq Require Import List.\nFrom Coq Require Import Init.Byte.\nFrom Nitro Require Import Base.Bytes Str.StrLang.\nImport ListNotations.\n")
    lines = []
    for name, np, tmpl in SPEC:
        try:
            docs = clang_ast(repo, "nitro::lang::" + name)
            cands = find_function(docs, name, np, tmpl)
            if len(cands) != 1:
                raise Unreadable("%d definitions of %s/%d" % (len(cands), name, np))
            f, b = function(cands[0], join=tmpl)
            lines.append("(* %s: %s *)" % (name, ", ".join("%d=%s" % (i, n) for i, n in enumerate(f.names))))
            lines.append("Definition gen_%s : fn := {| fn_params := %d; fn_locals := %d; fn_body :=\n  %s |}." %
                         (name, f.nparams, len(f.names) - f.nparams, b))
        except Unreadable as e:
            lines.append("(* %s unreadable: %s *)" % (name, str(e).replace("*)", "* )")))
            lines.append("Definition gen_%s : fn := {| fn_params := 0; fn_locals := 0; fn_body := SUnknown |}." % name)
    # the two overloads of join: same default infix, the vector overload forwards to the iterator overload
    try:
        docs = clang_ast(repo, "nitro::lang::join")
        it = find_function(docs, "join", 3, True)
        vec = find_function(docs, "join", 2, False)
        if len(it) != 1 or len(vec) != 1:
            raise Unreadable("%d iterator / %d vector overloads of join" % (len(it), len(vec)))
        lines.append("Definition gen_join_default_infix_iter : option str := %s." % default_infix(it[0]))
        lines.append("Definition gen_join_default_infix_vec : option str := %s." % default_infix(vec[0]))
        lines.append("Definition gen_join_vector_forwards : bool := %s." % ("true" if vector_overload_forwards(vec[0]) else "false"))
    except Unreadable as e:
        lines.append("(* join overloads unreadable: %s *)" % str(e).replace("*)", "* )"))
        lines.append("Definition gen_join_default_infix_iter : option str := None.\nDefinition gen_join_default_infix_vec : option str := None.")
        lines.append("Definition gen_join_vector_forwards : bool := false.")
    return [("GenString.v", head + "\n".join(lines) + "\n")]


if __name__ == "__main__":
    import sys
    print(generate(sys.argv[1] if len(sys.argv) > 1 else "/repo")[0][1])

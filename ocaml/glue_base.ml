(* glue_base.ml — textually appended after an extracted model; conversions between the wire format
   (hex strings) and the extracted inductives.  `byte` has 256 constant constructors x00..xff in
   order, so its run-time representation is the int 0..255 (checked by selftest below). *)
let byte_of_int (i : int) : byte = Obj.magic i
let int_of_byte (b : byte) : int = Obj.magic b
let () = assert (byte_of_int 0x61 = X61 && int_of_byte Xff = 255 && byte_of_int 0 = X00)
let rec nat_of_int (i : int) : nat = if i <= 0 then O else S (nat_of_int (i - 1))
let int_of_nat (n : nat) : int = let rec go acc = function O -> acc | S m -> go (acc + 1) m in go 0 n
let hexval c = match c with '0'..'9' -> Char.code c - 48 | 'a'..'f' -> Char.code c - 87 | 'A'..'F' -> Char.code c - 55 | _ -> failwith "hex"
(* "-" is the empty string *)
let str_of_hex (h : string) : byte list =
  if h = "-" then [] else begin
    let n = String.length h / 2 in
    let rec go i acc = if i < 0 then acc else go (i - 1) (byte_of_int (hexval h.[2*i] * 16 + hexval h.[2*i+1]) :: acc) in
    go (n - 1) [] end
let hex_of_str (s : byte list) : string =
  if s = [] then "-" else begin
    let b = Buffer.create 16 in
    List.iter (fun c -> Buffer.add_string b (Printf.sprintf "%02x" (int_of_byte c))) s; Buffer.contents b end
(* lists: "." is the empty list, elements separated by ',' *)
let list_of_wire (f : string -> 'a) (w : string) : 'a list =
  if w = "." then [] else List.map f (String.split_on_char ',' w)
let wire_of_list (f : 'a -> string) (l : 'a list) : string =
  if l = [] then "." else String.concat "," (List.map f l)
let strs_of_wire w = list_of_wire str_of_hex w
let wire_of_strs l = wire_of_list hex_of_str l
let words (line : string) : string list = List.filter (fun s -> s <> "") (String.split_on_char ' ' line)
(* main loop: mode "model": case -> observation; mode "oracle": "case\tobs" -> 1/0 *)
let run_driver (model : string list -> string) (oracle : string list -> string -> bool) =
  let mode = if Array.length Sys.argv > 1 then Sys.argv.(1) else "model" in
  let out = Buffer.create 65536 in
  (try while true do
    let line = input_line stdin in
    (match mode with
     | "model" -> Buffer.add_string out (try model (words line) with Stack_overflow -> "MODEL-STACK" | Failure m -> "MODEL-FAIL:" ^ m)
     | _ -> (match String.index_opt line '\t' with
             | Some i -> let c = String.sub line 0 i and o = String.sub line (i+1) (String.length line - i - 1) in
                         Buffer.add_string out (if (try oracle (words c) o with _ -> false) then "1" else "0")
             | None -> Buffer.add_string out "0"));
    Buffer.add_char out '\n';
    if Buffer.length out > 60000 then (print_string (Buffer.contents out); Buffer.clear out)
  done with End_of_file -> ());
  print_string (Buffer.contents out)

(* log_c10_driver.ml — C10: model side and oracle.  The oracle judges the IMPLEMENTATION's observation by the spec:
   the callables called (which, how often, in which order, relative to the stream-type answers) must be exactly the
   spec's, the stream types must be the gate's, and formatter/sink must not be invoked more often than the spec says
   (a disabled statement invokes neither). *)
let part p l = List.filter (fun t -> t <> "" && p t.[0]) l
let oracle (case : string list) (obs : string) : bool =
  let i = tokens_of_line obs and s = spec_tokens case in
  part (fun c -> c = 'C' || c = 'K') i = part (fun c -> c = 'C' || c = 'K') s
  && List.length (part (fun c -> c = 'F') i) <= List.length (part (fun c -> c = 'F') s)
  && List.length (part (fun c -> c = 'S') i) <= List.length (part (fun c -> c = 'S') s)
  && not (List.mem "FAULT" i)
let () = run_driver model oracle

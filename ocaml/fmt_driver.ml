(* fmt_driver.ml — model and oracle side of the format cluster (C08)
   case lines:   fmt <format-hex> <op>*        op  = p:<arg>  |  a:<arg>,<arg>,...  |  a:.  |  q:.  (ask for the text, ignore it)
                 loc <any of the other case lines>     the same under a global locale with digit grouping (state-neutral argument kinds only)
                 lit <format-hex> <op>*        the same through the "..."_nf literal with that text (a fixed table in the C++ driver)
                 excf <format-hex> <op>*       raise("pre:", formatter, "!") and what()
                 os <width> <fill-hex> <l|r|i> <format-hex> <op>*      operator<< into a stream holding "pre:" with that pending width/fill/adjustment, then "!"
                 rel <scenario> <format-hex> <other-format-hex> <op>* / <op>*     the formatter object is copied / moved / relocated between the two groups
                 seq <format-hex> <op>* / <format-hex> <op>* / ...     (several formatters, one after the other)
                 exc <arg>+
   arg = s<hex> | s- (const std::string&) | n<hex> (non-const lvalue: the caller's variable holding that text; the same text = the same
         variable throughout the case) | r<hex> (temporary std::string) | l<hex> (const char*, NUL-free) | c<hex byte> (char)
       | i<dec> (long) | d<dec> (double, integer value) | b0 b1 (bool) | f<dec> (double z + 1/2)
       | h<dec> x<dec> w<dec> t0 t1 (user types that leave hex / fixed+precision 2 / fill+left / boolalpha on the stream)
       | mhex mboolalpha mshowbase mshowpos muppercase mfixed mleft msetprecision<n> msetw<n> msetfill<hex byte>
       | v<k><hex>  an argument with an operator<< AND (optionally) a conversion to a string type, payload text <hex> (NUL-free):
           vt type with implicit operator std::string() (<< prints <text>)      vp std::filesystem::path (<< prints it quoted)
           vk type with implicit operator const char*() (<< prints [text])      ve type with EXPLICIT operator std::string() (<< prints (text))
           vv std::string_view     va char[16] (text of at most 15 bytes)        vo type with an operator<< only (prints #text)
         the model (FormatModel.dual) gives such an argument both texts; render is the stream text *)
let z_of_dec (d : string) : z =
  if String.length d <= 17 then z_of_int (int_of_string d)
  else (match read_dec (List.init (String.length d) (fun i -> byte_of_int (Char.code d.[i]))) with
        | Some x -> x | None -> failwith "decimal")
let tail w k = String.sub w k (String.length w - k)
let parse_manip (w : string) : manip =
  let num pre = nat_of_int (int_of_string (tail w (String.length pre))) in
  let has pre = String.length w > String.length pre && String.sub w 0 (String.length pre) = pre in
  match w with
  | "hex" -> MHex | "boolalpha" -> MBoolalpha | "showbase" -> MShowbase | "showpos" -> MShowpos
  | "uppercase" -> MUppercase | "fixed" -> MFixed | "left" -> MLeft
  | _ when has "setprecision" -> MSetprecision (num "setprecision")
  | _ when has "setw" -> MSetw (num "setw")
  | _ when has "setfill" && String.length w = 9 -> (match str_of_hex (tail w 7) with [c] -> MSetfill c | _ -> failwith "manip")
  | _ -> failwith "manip"
let parse_bool w = match w with "0" -> false | "1" -> true | _ -> failwith "bool"
(* loc cases run under a global locale with digit grouping: every argument is given its text under that locale (render_loc,
   through localize) and the locale-independent model is run on those; only the state-neutral kinds are in scope there *)
let loc_mode = ref false
let parse_arg0 (w : string) : arg =
  if w = "" then failwith "arg" else
  match w.[0] with
  | 's' | 'n' | 'r' -> AStr (str_of_hex (tail w 1))   (* const lvalue / non-const lvalue variable / temporary: the same VALUE *)
  | 'l' -> let s = str_of_hex (tail w 1) in if List.mem X00 s then failwith "literal" else AStr s   (* const char* *)
  | 'c' -> (match str_of_hex (tail w 1) with [b] -> AStr [b] | _ -> failwith "char")                (* char *)
  | 'i' -> AInt (z_of_dec (tail w 1))
  | 'd' -> ADbl (z_of_dec (tail w 1))
  | 'b' -> ABool (parse_bool (tail w 1))
  | 'f' -> AHalf (z_of_dec (tail w 1))
  | 'h' -> AHexer (z_of_dec (tail w 1))
  | 'x' -> AFixer (z_of_dec (tail w 1))
  | 'w' -> APadder (z_of_dec (tail w 1))
  | 't' -> ABoolAlpha (parse_bool (tail w 1))
  | 'm' -> AManip (parse_manip (tail w 1))
  | 'v' when String.length w >= 3 ->
      let s = str_of_hex (tail w 2) in
      if List.mem X00 s then failwith "dual" else
      let k = (match w.[1] with 't' -> KTagged | 'p' -> KPath | 'k' -> KCstr | 'e' -> KExplicit | 'v' -> KView
                              | 'a' -> if List.length s > 15 then failwith "array" else KArray
                              | 'o' -> KStreamOnly | _ -> failwith "dual") in
      dual k s
  | _ -> failwith "arg"
let parse_arg (w : string) : arg =
  let a = parse_arg0 w in
  if !loc_mode then (if stateless a then localize a else failwith "loc scope") else a
let parse_op (w : string) : op =
  if String.length w < 3 || w.[1] <> ':' then failwith "op" else
  match w.[0] with
  | 'p' -> Pct (parse_arg (tail w 2))
  | 'a' -> Args (list_of_wire parse_arg (tail w 2))
  | _ -> failwith "op"
(* the op  q:.  asks the formatter for its text in the middle of a chain (str() / conversion / operator<<) and ignores the answer or
   the exception.  str() is const — in the model str_of is a function of the value — so a query is no operation on the model:
   the ops of a case are the words that are not queries *)
let parse_ops (ws : string list) : op list = List.map parse_op (List.filter (fun w -> w <> "q:.") ws)
let obs_res = function Ok s -> "S " ^ hex_of_str s | Raise _ -> "RAISE"
let obs_short = function Ok s -> hex_of_str s | Raise _ -> "R"
(* seq: formatter descriptions separated by the word "/" *)
let rec split_seq (ws : string list) : string list list =
  let rec go cur acc = function
    | [] -> List.rev (List.rev cur :: acc)
    | "/" :: r -> go [] (List.rev cur :: acc) r
    | x :: r -> go (x :: cur) acc r in
  go [] [] ws
let split_seq_fwd = split_seq
let parse_fmt = function f :: ops -> (str_of_hex f, parse_ops ops) | [] -> failwith "seq"
(* os: the caller's stream holds "pre:" and has a pending width / fill / adjustment (l = left; r, i = right, internal) *)
let pre = str_of_hex "7072653a" and sentinel = str_of_hex "21"
let parse_adj = function "l" -> true | "r" | "i" -> false | _ -> failwith "adj"
let parse_fill c = match str_of_hex c with [b] -> b | _ -> failwith "fill"
let parse_stream w c adj = { content = pre; width = nat_of_int (int_of_string w); fill = parse_fill c; adjust_left = parse_adj adj }
let obs_stream (s, returned) = "O " ^ hex_of_str s ^ (if returned then " K" else " R")
(* rel: <scenario> <format> <other format> <op>* / <op>*   — arguments before and after the relocation of the formatter object.
   Second observation: the SOURCE object where it still has a specified value: after a copy (cc, ca) it is the format with
   the arguments given before; after std::swap (sw) it holds the other formatter (other format, one argument "old") *)
let scenarios = ["mc"; "mcd"; "mcr"; "ma"; "mad"; "cc"; "ccd"; "ca"; "cad"; "vec"; "ret"; "sw"]
let parse_rel ws = match split_seq_fwd ws with
  | [a; b] -> (parse_ops a, parse_ops b)
  | _ -> failwith "rel"
let old_arg = AStr (str_of_hex "6f6c64")
let rel_source_with (eval : byte list -> op list -> res) scn f other pre =
  if not (List.mem scn scenarios) then failwith "scenario" else
  match scn with
  | "cc" | "ca" -> obs_short (eval f pre)
  | "sw" -> obs_short (eval other [Pct old_arg])
  | _ -> "_"
let rel_source = rel_source_with format_chain
(* excf: raise("pre:", formatter, "!") — the formatter is an argument of the exception; with a wrong number of arguments the
   raise inside str() is what leaves the call (its message does not start with pre:) *)
let obs_excf = function
  | Ok s -> "W " ^ hex_of_str (pre @ s @ sentinel)
  | Raise _ -> "W-ARITY"
let in_scope_exc args = List.for_all stateless args
let model0 ws =
  try (match ws with
  | ("fmt" | "lit") :: f :: ops -> obs_res (format_chain (str_of_hex f) (parse_ops ops))
  | "excf" :: f :: ops -> obs_excf (format_chain (str_of_hex f) (parse_ops ops))
  | "os" :: w :: c :: adj :: f :: ops -> obs_stream (stream_chain (parse_stream w c adj) (str_of_hex f) (parse_ops ops) sentinel)
  | "rel" :: scn :: f :: other :: rest ->
      let (pre, post) = parse_rel rest in
      "M " ^ obs_short (reloc_chain (str_of_hex f) pre post) ^ " " ^ rel_source scn (str_of_hex f) (str_of_hex other) pre
  | "seq" :: rest -> "Q " ^ String.concat " " (List.map obs_short (format_seq (List.map parse_fmt (split_seq rest))))
  | "exc" :: (_ :: _ as args) ->
      let args = List.map parse_arg args in
      if in_scope_exc args then "W " ^ hex_of_str (exception_what args) else "BADCASE"
  | _ -> "BADCASE")
  with Failure _ | Invalid_argument _ -> "BADCASE"
(* the oracle judges an observation by the SPEC (split-based formula on the flattened arguments, each
   rendered on its own; concatenation for the message), not by the model's loop *)
let spec_obs (f, ops) = spec_format f (List.map render (flatten_ops ops))
let oracle0 case obs =
  match case, words obs with
  | "excf" :: f :: ops, o -> String.concat " " o = obs_excf (spec_obs (str_of_hex f, parse_ops ops))
  | ("fmt" | "lit") :: f :: ops, o ->
      (match spec_obs (str_of_hex f, parse_ops ops), o with
       | Raise _, ["RAISE"] -> true
       | Ok s, ["S"; x] -> str_of_hex x = s
       | _ -> false)
  | "os" :: w :: c :: adj :: f :: ops, ["O"; x; k] ->
      let rendered = List.map render (flatten_ops (parse_ops ops)) in
      let (s, returned) = spec_stream pre (nat_of_int (int_of_string w)) (parse_fill c) (parse_adj adj) (str_of_hex f) rendered sentinel in
      str_of_hex x = s && k = (if returned then "K" else "R")
  | "rel" :: scn :: f :: other :: rest, ["M"; tgt; src] ->
      let (pre, post) = parse_rel rest in
      let short r = match r with Ok s -> hex_of_str s | Raise _ -> "R" in
      let spec_eval fm ops = spec_format fm (List.map render (flatten_ops ops)) in
      tgt = short (spec_eval (str_of_hex f) (pre @ post)) && src = rel_source_with spec_eval scn (str_of_hex f) (str_of_hex other) pre
  | "seq" :: rest, "Q" :: rs ->
      let l = List.map parse_fmt (split_seq rest) in
      List.length l = List.length rs &&
      List.for_all2 (fun fo r -> match spec_obs fo, r with
                                 | Raise _, "R" -> true
                                 | Ok s, x when x <> "R" -> str_of_hex x = s
                                 | _ -> false) l rs
  | "exc" :: (_ :: _ as args), ["W"; x] ->
      let args = List.map parse_arg args in
      in_scope_exc args && str_of_hex x = spec_message (List.map render args)
  | _ -> false
let with_loc f = loc_mode := true; let r = (try f () with e -> loc_mode := false; raise e) in loc_mode := false; r
let model = function "loc" :: rest -> with_loc (fun () -> model0 rest) | ws -> model0 ws
let oracle case obs = match case with "loc" :: rest -> with_loc (fun () -> oracle0 rest obs) | _ -> oracle0 case obs
let () = run_driver model oracle

(* fmt_driver.ml — model and oracle side of the format cluster (C08)
   case lines:   fmt <format-hex> <op>*        op  = p:<arg>  |  a:<arg>,<arg>,...  |  a:.
                 exc <arg>+                    arg = s<hex> | s- | i<decimal> | d<decimal> *)
let z_of_dec (d : string) : z =
  if String.length d <= 17 then z_of_int (int_of_string d)
  else (match read_dec (List.init (String.length d) (fun i -> byte_of_int (Char.code d.[i]))) with
        | Some x -> x | None -> failwith "decimal")
let tail w k = String.sub w k (String.length w - k)
let parse_arg (w : string) : arg =
  if w = "" then failwith "arg" else
  match w.[0] with
  | 's' -> AStr (str_of_hex (tail w 1))
  | 'i' -> AInt (z_of_dec (tail w 1))
  | 'd' -> ADbl (z_of_dec (tail w 1))
  | _ -> failwith "arg"
let parse_op (w : string) : op =
  if String.length w < 3 || w.[1] <> ':' then failwith "op" else
  match w.[0] with
  | 'p' -> Pct (parse_arg (tail w 2))
  | 'a' -> Args (list_of_wire parse_arg (tail w 2))
  | _ -> failwith "op"
let obs_res = function Ok s -> "S " ^ hex_of_str s | Raise _ -> "RAISE"
let model = function
  | "fmt" :: f :: ops -> obs_res (format_chain (str_of_hex f) (List.map parse_op ops))
  | "exc" :: (_ :: _ as args) -> "W " ^ hex_of_str (exception_what (List.map parse_arg args))
  | _ -> "BADCASE"
(* the oracle judges an observation by the SPEC (split-based formula on the flattened, rendered
   arguments; concatenation for the message), not by the model's loop *)
let oracle case obs =
  match case, words obs with
  | "fmt" :: f :: ops, o ->
      let rendered = List.map render (flatten_ops (List.map parse_op ops)) in
      (match spec_format (str_of_hex f) rendered, o with
       | Raise _, ["RAISE"] -> true
       | Ok s, ["S"; x] -> str_of_hex x = s
       | _ -> false)
  | "exc" :: (_ :: _ as args), ["W"; x] -> str_of_hex x = spec_message (List.map render (List.map parse_arg args))
  | _ -> false
let () = run_driver model oracle

(* glue_z.ml — conversions for extracted positive / Z / N (binary) *)
let rec pos_of_int (i : int) : positive =
  if i <= 1 then XH else if i land 1 = 0 then XO (pos_of_int (i lsr 1)) else XI (pos_of_int (i lsr 1))
let rec int_of_pos (p : positive) : int = match p with XH -> 1 | XO q -> 2 * int_of_pos q | XI q -> 2 * int_of_pos q + 1
let z_of_int (i : int) : z = if i = 0 then Z0 else if i > 0 then Zpos (pos_of_int i) else Zneg (pos_of_int (- i))
let int_of_z (x : z) : int = match x with Z0 -> 0 | Zpos p -> int_of_pos p | Zneg p -> - (int_of_pos p)

(* opt_driver.ml — model and oracle side of the parser cluster (C01-C04, C11, C12, C14) *)
let split_char c s = String.split_on_char c s
let entries w = if w = "." then [] else split_char '/' w
let opt_of f = function "~" -> None | x -> Some (f x)
let byte_of_hex h = match str_of_hex h with [b] -> b | _ -> failwith "short"
let bool_of s = s = "1"
let parse_decl (w : string) : decl =
  match split_char ';' w with
  | [allowed; greedy; os; ms; ts] ->
    { d_opts = List.map (fun e -> match split_char ':' e with
        | [n; s; ev; df; o] -> { o_name = str_of_hex n; o_short = opt_of byte_of_hex s; o_env = opt_of str_of_hex ev; o_def = opt_of str_of_hex df; o_opt = bool_of o }
        | _ -> failwith "odecl") (entries os);
      d_multis = List.map (fun e -> match split_char ':' e with
        | [n; s; ev; df; o] -> { m_name = str_of_hex n; m_short = opt_of byte_of_hex s; m_env = opt_of str_of_hex ev; m_def = opt_of strs_of_wire df; m_opt = bool_of o }
        | _ -> failwith "mdecl") (entries ms);
      d_toggles = List.map (fun e -> match split_char ':' e with
        | [n; s; ev; df; r] -> { t_name = str_of_hex n; t_short = opt_of byte_of_hex s; t_env = opt_of str_of_hex ev; t_def = z_of_int (int_of_string df); t_rev = bool_of r }
        | _ -> failwith "tdecl") (entries ts);
      (* a finite limit beyond any vector a case can hold (>= 10^6) is observationally the unlimited one: `full` can never become
         true; the model keeps unary numbers small that way while the C++ side is given the real 2^32, 2^32+1, 2^40, ... *)
      d_allowed = (if allowed = "~" then None else
                   match int_of_string_opt allowed with
                   | Some k when k < 1000000 -> Some (nat_of_int k)
                   | _ -> None);
      d_greedy = bool_of greedy }
  | _ -> failwith "decl"
let parse_env (w : string) : byte list -> byte list option =
  let l = List.map (fun e -> match split_char '=' e with [n; v] -> (str_of_hex n, str_of_hex v) | _ -> failwith "env") (entries w) in
  (* later assignments override earlier ones, as setenv does *)
  fun n -> List.fold_left (fun acc (k, v) -> if k = n then Some v else acc) None l

let cmp_str (a : byte list) (b : byte list) = compare (List.map int_of_byte a) (List.map int_of_byte b)
let obs_result (r : result) : string =
  let ent f l = if l = [] then "." else String.concat "/" (List.map f l) in
  let n = List.length r.r_pos in
  let xs = List.init (2 * n + 2) (fun k -> let i = k - n - 1 in match arg_get r.r_pos (z_of_int i) with Some s -> hex_of_str s | None -> "!") in
  Printf.sprintf "OK o=%s m=%s t=%s p=%s v=%s x=%s"
    (ent (fun (n, v) -> hex_of_str n ^ ":" ^ (match v with Some s -> hex_of_str s | None -> "~")) r.r_opts)
    (ent (fun (n, l) -> hex_of_str n ^ ":" ^ wire_of_strs l) r.r_multis)
    (ent (fun (n, z) -> hex_of_str n ^ ":" ^ string_of_int (int_of_z z)) r.r_toggles)
    (wire_of_strs r.r_pos)
    (wire_of_strs (List.sort_uniq cmp_str r.r_provided))
    (String.concat "," xs)
let obs_res = function Ok r -> obs_result r | Err UserError -> "USER" | Err DevError -> "DEV"

(* reading as `stringstream >> long` does: skip blanks, optional sign, digits; no digits -> 0; overflow -> LONG_MAX / LONG_MIN *)
let read_long (s : string) : string =
  let n = String.length s in
  let i = ref 0 in
  while !i < n && (s.[!i] = ' ' || s.[!i] = '\t' || s.[!i] = '\n' || s.[!i] = '\r' || s.[!i] = '\011' || s.[!i] = '\012') do incr i done;
  let neg = !i < n && s.[!i] = '-' in
  if !i < n && (s.[!i] = '-' || s.[!i] = '+') then incr i;
  let start = !i in
  let acc = ref Int64.zero and over = ref false in
  while !i < n && s.[!i] >= '0' && s.[!i] <= '9' do
    let dgt = Int64.of_int (Char.code s.[!i] - 48) in
    (* accumulate negatively to reach LONG_MIN *)
    if Int64.compare !acc (Int64.div (Int64.add Int64.min_int dgt) 10L) < 0 then over := true
    else acc := Int64.sub (Int64.mul !acc 10L) dgt;
    incr i
  done;
  if !i = start then "0"
  else if !over then (if neg then Int64.to_string Int64.min_int else Int64.to_string Int64.max_int)
  else if neg then Int64.to_string !acc
  else if Int64.equal !acc Int64.min_int then Int64.to_string Int64.max_int
  else Int64.to_string (Int64.neg !acc)
(* canonical decimal text of an extracted Z, and whether it fits a 64-bit long *)
let string_of_bytes (b : byte list) = String.concat "" (List.map (fun c -> String.make 1 (Char.chr (int_of_byte c))) b)
let fits_long (s : string) : bool =
  let neg = String.length s > 0 && s.[0] = '-' in
  let d = if neg then String.sub s 1 (String.length s - 1) else s in
  String.length d < 19 || (String.length d = 19 && compare d (if neg then "9223372036854775808" else "9223372036854775807") <= 0)
(* as<long>: on a plain decimal text the MODEL (as_long = read_dec) says which number it is; otherwise the glue mimics operator>> *)
let typed_value (v : byte list) : string =
  match as_long v with
  | Some z -> let s = string_of_bytes (dec_text z) in if fits_long s then s else read_long (string_of_bytes v)
  | None -> read_long (string_of_bytes v)
let typed_field_unused (r : result) : string =
  let vals = List.filter_map (fun (_, v) -> v) r.r_opts in
  if vals = [] then " l=." else
  " l=" ^ String.concat "," (List.map (fun v -> read_long (String.concat "" (List.map (fun b -> String.make 1 (Char.chr (int_of_byte b))) v))) vals)
let typed_field (r : result) : string =
  let vals = List.filter_map (fun (_, v) -> v) r.r_opts in
  let mvals = List.concat_map snd r.r_multis in
  (if vals = [] then " l=." else " l=" ^ String.concat "," (List.map typed_value vals))
  ^ (if mvals = [] then " L=." else " L=" ^ String.concat "," (List.map typed_value mvals))

let model = function
  | (("parse" | "parsel" | "hist") as kind) :: dw :: ew :: argvs when argvs <> [] ->
    let d = parse_decl dw and e = parse_env ew in
    let (_, rs) = history d e (init_st d) (List.map strs_of_wire argvs) in
    String.concat " | " (List.map2 (fun r aw -> match r with
        | Ok res when kind = "parsel" -> obs_result res ^ typed_field res
        | _ when kind = "hist" -> obs_res r ^ " # " ^ obs_res (snd (parse d e (init_st d) (strs_of_wire aw)))
        | _ -> obs_res r) rs argvs)
  | ["ctor"; tok] -> if well_formed (str_of_hex tok) then "CTOR-OK" else "USER"
  | "steps" :: dw :: ew :: steps when steps <> [] ->
    (* a:<argv> parse (long-lived object # fresh parser) | e:<env> | d:<decl>: every call starts with prepare(), so the
       object state carried between the steps is irrelevant (C14_history_independent); the model threads it anyway where the
       declaration is unchanged *)
    let d = ref (parse_decl dw) and e = ref (parse_env ew) in
    let st = ref (init_st !d) in
    let outs = ref [] in
    List.iter (fun s ->
        if s = "mc" then () else
        let arg = String.sub s 2 (String.length s - 2) in
        match s.[0] with
        | 'e' -> e := parse_env arg
        | 'd' | 'M' | 'u' -> d := parse_decl arg; st := init_st !d
        | 'a' -> let (st', r) = parse !d !e !st (strs_of_wire arg) in
                 st := st';
                 outs := (obs_res r ^ " # " ^ obs_res (snd (parse !d !e (init_st !d) (strs_of_wire arg)))) :: !outs
        | _ -> failwith "step") steps;
    String.concat " | " (List.rev !outs)
  | _ -> "BADCASE"

(* the oracle judges each call's observation against the SPEC (explain >>= wf_items >>= assignment) of that
   argument vector alone — which is also what a freshly built parser must give (C14) *)
let prop = if Array.length Sys.argv > 2 then Sys.argv.(2) else "spec"
let rec split_obs (s : string) : string list =
  (* calls are separated by " | " *)
  match Str_split.find_sub s " | " with
  | None -> [s]
  | Some i -> String.sub s 0 i :: split_obs (String.sub s (i + 3) (String.length s - i - 3))
let starts s p = String.length s >= String.length p && String.sub s 0 (String.length p) = p
let field (o : string) (k : string) : string =
  (* value of " k=..." inside an OK line *)
  let rec go = function [] -> "" | w :: r -> if starts w (k ^ "=") then String.sub w (String.length k + 1) (String.length w - String.length k - 1) else go r in
  go (String.split_on_char ' ' o)
let is_okline o = starts o "OK "
let oracle case obs =
  match case with
  | (("parse" | "parsel" | "hist") as kind) :: dw :: ew :: argvs when argvs <> [] ->
    let d = parse_decl dw and e = parse_env ew in
    let obss = split_obs obs in
    List.length obss = List.length argvs &&
    List.for_all2 (fun aw o ->
        let args = strs_of_wire aw in
        let sp = spec d e args in
        let expect = match sp with Ok res when kind = "parsel" -> obs_result res ^ typed_field res | _ -> obs_res sp in
        (* for history cases the driver appends " # <result of a freshly built identical parser>" *)
        let (o, fresh) = match Str_split.find_sub o " # " with
          | Some i -> (String.sub o 0 i, Some (String.sub o (i + 3) (String.length o - i - 3)))
          | None -> (o, None) in
        let kinds_ok = o = "USER" || o = "DEV" || is_okline o in
        match prop with
        | "C01" -> (* success implies the vector is accounted for by the result; anything else must be the user-input error *)
          if is_okline o then o = expect else o = "USER" || (o = "DEV" && expect = "DEV")
        | "C02" -> (* a legal spelling parses to exactly the assignment it spells; the property is silent on other vectors *)
          (match sp with Ok _ -> o = expect | Err _ -> kinds_ok)
        | "C03" -> (* values, counts and provided flags (source ranking); positionals are not this property's concern *)
          kinds_ok && (match sp with
            | Ok _ -> is_okline o && List.for_all (fun k -> field o k = field expect k) ["o"; "m"; "t"; "v"]
            | Err _ -> true) && (expect <> "USER" || o = "USER" || not (consistent d))
        | "C04" -> (o = "USER" && expect = "USER") || (o = "DEV" && expect = "DEV") || (is_okline o && is_okline expect)
        | "C11" -> kinds_ok && (match sp with Ok _ -> is_okline o && field o "t" = field expect "t" && field o "v" = field expect "v"
                                              | Err _ -> o = expect)
        | "C12" -> kinds_ok && (match sp with Ok _ -> is_okline o && field o "p" = field expect "p" && field o "x" = field expect "x"
                                              | Err _ -> o = expect)
        | "C14" -> (match fresh with Some f -> o = f | None -> o = expect)
        | _ -> o = expect) argvs obss
  | ["ctor"; tok] -> obs = (if well_formed (str_of_hex tok) then "CTOR-OK" else "USER")
  | "steps" :: dw :: ew :: steps when steps <> [] ->
    let d = ref (parse_decl dw) and e = ref (parse_env ew) in
    let obss = ref (split_obs obs) in
    List.for_all (fun s ->
        if s = "mc" then true else
        let arg = String.sub s 2 (String.length s - 2) in
        match s.[0] with
        | 'e' -> e := parse_env arg; true
        | 'd' | 'M' | 'u' -> d := parse_decl arg; true
        | 'a' -> (match !obss with
                  | [] -> false
                  | o :: rest ->
                    obss := rest;
                    let expect = obs_res (spec !d !e (strs_of_wire arg)) in
                    (match Str_split.find_sub o " # " with
                     | Some i -> let a = String.sub o 0 i and f = String.sub o (i + 3) (String.length o - i - 3) in
                                 a = f && (prop = "C14" || f = expect)
                     | None -> false))
        | _ -> false) steps && !obss = []
  | _ -> false
let () = run_driver model oracle

(* decl_driver.ml — model and oracle side of the declaration-API cluster (C13).
   case: one word per operation
     G:<hexgroup>                 parser.group(name)
     D:<g>:<k>:<hexname>          declaration; <g> = * (on the parser) or hex group name; <k> = o | m | t
     S:<g>:<k>:<hexname>:<f>[:<hexarg>]   declaration followed by a setter; <f> = s(hort_name) e(nv) m(etavar) d(efault)
     HD:<g>:<k>:<hexname>[:<f>[:<hexarg>]]  the same through the group& handed out earlier (held handle; * = default group)
     HS:<g>:<k>:<hexname>:<f>[:<hexarg>]    setter through the option& handed out earlier; NOH when no such handle exists
     <f> also: o(ptional, not for toggles) r(= allow_reverse, toggles only, S and HD forms only)
     an upper-case <k> passes a description argument; <g> = @ is parser.group().<decl>; G:<hexgroup>:<hexdesc> passes a description
     MC | MA | MS | MV | MW | MB  move the parser object (construct / assign / via a stack object / through a growing
                                  std::vector / std::swap / assign over a populated parser); P  parse of []
   observation: one word per operation, then "; F=<parse>", the probes, the display order and the settings table. *)
(* an upper-case kind letter = the same call with a description argument; "@" = parser.group().option(..), the
   default group requested explicitly: forms of the same operation *)
let kind_of = function "o" | "O" -> KOpt | "m" | "M" -> KMulti | "t" | "T" -> KToggle | _ -> failwith "kind"
let gsel_of s = if s = "*" || s = "@" then GDirect else GNamed (str_of_hex s)
let key_of s = if s = "*" || s = "@" then default_key else str_of_hex s
let setter_of f a = match f, a with
  | "s", [a] -> SShort (str_of_hex a) | "e", [a] -> SEnv (str_of_hex a) | "m", [a] -> SMetavar (str_of_hex a)
  | "d", [] -> SDefault | "o", [] -> SOptional | _ -> failwith "setter"
let op_of w = match String.split_on_char ':' w with
  | ["G"; g] | ["G"; g; _] -> OGroup (str_of_hex g)        (* with a description: the same group *)
  (* toggle::allow_reverse() changes no declaration-time state: declaring and calling it = declaring *)
  | ["S"; g; k; n; "r"] -> ODecl (gsel_of g, kind_of k, str_of_hex n)
  | ["HD"; g; k; n; "r"] -> OHDecl (key_of g, kind_of k, str_of_hex n, None)
  | ["S"; g; k; n; "o"] -> OSet (gsel_of g, kind_of k, str_of_hex n, SOptional)
  | ["D"; g; k; n] -> ODecl (gsel_of g, kind_of k, str_of_hex n)
  | ["S"; g; k; n; "s"; a] -> OSet (gsel_of g, kind_of k, str_of_hex n, SShort (str_of_hex a))
  | ["S"; g; k; n; "e"; a] -> OSet (gsel_of g, kind_of k, str_of_hex n, SEnv (str_of_hex a))
  | ["S"; g; k; n; "m"; a] -> OSet (gsel_of g, kind_of k, str_of_hex n, SMetavar (str_of_hex a))
  | ["S"; g; k; n; "d"] -> OSet (gsel_of g, kind_of k, str_of_hex n, SDefault)
  | ["HD"; g; k; n] -> OHDecl (key_of g, kind_of k, str_of_hex n, None)
  | "HD" :: g :: k :: n :: f :: a -> OHDecl (key_of g, kind_of k, str_of_hex n, Some (setter_of f a))
  | "HS" :: g :: k :: n :: f :: a -> OHSet (((key_of g, kind_of k), str_of_hex n), setter_of f a)
  | ["MC"] | ["MA"] | ["MS"] | ["MV"] | ["MW"] | ["MB"] -> OMove
  | ["P"] -> OParse
  | _ -> failwith "op"
let dedup l = List.rev (List.fold_left (fun acc x -> if List.mem x acc then acc else x :: acc) [] l)
(* the names and the one-character letters mentioned anywhere in the case, in order of first mention *)
let names_of ws = dedup (List.concat_map (fun w -> match String.split_on_char ':' w with
  | ("D" | "S" | "HD" | "HS") :: _ :: _ :: n :: _ -> [n] | _ -> []) ws)
let letters_of ws = dedup (List.concat_map (fun w -> match String.split_on_char ':' w with
  | [("S" | "HD" | "HS"); _; _; _; "s"; a] when String.length a = 2 -> [a] | _ -> []) ws)
let pres = function POk -> "OK" | PUser -> "USER" | PDev -> "DEV"
let render (ws : string list) ((((outs, fin), probes), order), table) : string =
  let ids = Hashtbl.create 16 and gids = Hashtbl.create 8 in
  let idorder = ref [] in
  let id_of i = match Hashtbl.find_opt ids i with Some k -> k | None ->
    let k = Hashtbl.length ids + 1 in Hashtbl.add ids i k; idorder := i :: !idorder; k in
  let gid_of g = match Hashtbl.find_opt gids g with Some k -> k | None ->
    let k = Hashtbl.length gids + 1 in Hashtbl.add gids g k; k in
  let b = Buffer.create 256 in
  List.iter (fun o -> Buffer.add_string b (match o with
    | RGroup g -> Printf.sprintf "G%d " (gid_of g)
    | ROk i -> Printf.sprintf "OK%d " (id_of i)
    | RDev -> "DEV "
    | RDevSet i -> Printf.sprintf "DEVS%d " (id_of i)
    | RMoved -> "MOVED "
    | RNoHandle -> "NOH "
    | RParse r -> "P=" ^ pres r ^ " ")) outs;
  Buffer.add_string b ("; F=" ^ pres fin);
  let idset l = if l = [] then "." else String.concat "+" (List.map string_of_int (List.sort compare (List.map id_of l))) in
  (match probes with
   | None -> Buffer.add_string b " ; NOPROBE"
   | Some (ns, ls) ->
     Buffer.add_string b " ;";
     List.iter2 (fun n r -> Buffer.add_string b (" N:" ^ n ^ "=" ^ (match r with None -> "K1" | Some l -> idset l))) (names_of ws) ns;
     List.iter2 (fun c r -> Buffer.add_string b (" L:" ^ c ^ "=" ^ idset r)) (letters_of ws) ls);
  Buffer.add_string b (" ; ORD " ^ wire_of_strs (List.map snd order));
  Buffer.add_string b " ; T";
  (* settings in first-seen order of the identities; returned_ids lists them in outcome order *)
  let retids = List.concat_map (function ROk i | RDevSet i -> [i] | _ -> []) outs in
  let seen = Hashtbl.create 16 in
  List.iter2 (fun i o ->
    if not (Hashtbl.mem seen i) then begin
      Hashtbl.add seen i ();
      Buffer.add_string b (match o with
        | None -> Printf.sprintf " %d=MISSING" (id_of i)
        | Some ob -> let ((_, k), _) = i in
          Printf.sprintf " %d=%s/%s/%s/%s/%s" (id_of i) (hex_of_str ob.o_short) (hex_of_str ob.o_env) (hex_of_str ob.o_metavar)
            (match k with KToggle -> "-" | _ -> if ob.o_default then "1" else "0")
            (match k with KToggle -> "-" | _ -> if ob.o_optional then "1" else "0")) end) retids table;
  Buffer.contents b
let args ws = (List.map op_of ws, List.map str_of_hex (names_of ws), List.map str_of_hex (letters_of ws))
let model ws = let (ops, ns, ls) = args ws in render ws (model_observe ops ns ls)
(* the oracle judges by the SPEC: the flat-list semantics of DeclApiSpec.v, not the model of the C++ *)
let oracle ws obs = let (ops, ns, ls) = args ws in render ws (spec_observe ops ns ls) = obs
let () = run_driver model oracle

(* misc_driver.ml — model and oracle side of the Misc cluster: C16 (hash / tuple_operators / unordered) and
   C20 (enumerate / reverse).  Appended after the extracted misc_model.ml and glue_base.ml. *)

(* ------------------------------------------------------------------ 64-bit words <-> extracted N *)
let n_of_hex (s : string) : n =
  let acc = ref None in
  String.iter (fun ch ->
    let d = hexval ch in
    for k = 3 downto 0 do
      let b = (d lsr k) land 1 = 1 in
      acc := (match !acc with
              | None -> if b then Some XH else None
              | Some p -> Some (if b then XI p else XO p))
    done) s;
  match !acc with None -> N0 | Some p -> Npos p
let hex_of_n (x : n) : string =
  let rec bits p = match p with XH -> [1] | XO q -> 0 :: bits q | XI q -> 1 :: bits q in
  let l = match x with N0 -> [] | Npos p -> bits p in
  if List.length l > 64 then "TOOBIG" else begin
    let v = ref 0L in
    List.iteri (fun i b -> if b = 1 then v := Int64.logor !v (Int64.shift_left 1L i)) l;
    Printf.sprintf "%016Lx" !v end

(* ------------------------------------------------------------------ C16: leaves and value trees *)
type leafv = { kind : char; ik : int; fk : float; sk : string; hw : n; hwtxt : string }
let leaf_h (a : leafv) : n = a.hw
let leaf_eqb (a : leafv) (b : leafv) : bool =
  a.kind = b.kind && (match a.kind with 'f' | 'd' | 'e' -> a.fk = b.fk | 's' | 'w' | 'x' | 'y' -> a.sk = b.sk | _ -> a.ik = b.ik)
let leaf_ltb (a : leafv) (b : leafv) : bool =
  if a.kind <> b.kind then a.kind < b.kind
  else (match a.kind with 'f' | 'd' | 'e' -> a.fk < b.fk | 's' | 'w' | 'x' | 'y' -> compare a.sk b.sk < 0 | _ -> a.ik < b.ik)

exception Bad
let parse_leaf (tok : string) : leafv =
  if String.length tok < 2 then raise Bad;
  let kind = tok.[0] in
  let body, hw, hwtxt =
    match String.index_opt tok '#' with
    | Some i -> let hx = String.sub tok (i + 1) (String.length tok - i - 1) in
                if String.length hx <> 16 then raise Bad;
                String.sub tok 1 (i - 1), n_of_hex hx, String.lowercase_ascii hx
    | None -> raise Bad in
  if body = "" then raise Bad;
  let z = { kind; ik = 0; fk = 0.0; sk = ""; hw; hwtxt } in
  match kind with
  | 'c' | 'h' | 'i' | 'u' | 'l' | 'b' | 'a' | 'k' | 'g' | 'n' | 'm' | 'o' | 'q' | 'j' -> (try { z with ik = int_of_string body } with _ -> raise Bad)
  | 'f' | 'd' | 'e' -> (try { z with fk = float_of_string body } with _ -> raise Bad)
  | 's' | 'w' | 'x' | 'y' -> { z with sk = String.concat "" (List.map (fun b -> String.make 1 (Char.chr (int_of_byte b))) (str_of_hex body)) }
  | _ -> raise Bad

(* the ownership form letter between U and ( *)
let own_of_letter = function
  | 'c' -> OwnCopy | 'n' -> OwnNew | 'a' -> OwnAlias | 'o' -> OwnOwningAlias | 'u' -> OwnFromUnique | 'k' -> OwnMoved | _ -> raise Bad
(* recursive descent over  leaf | T(..) | P(a,b) | V<k>(v) | U(v) | O(..)  ; values in a list are separated by ';' *)
let parse_values (s : string) : leafv value list =
  let n = String.length s in
  let i = ref 0 in
  let peek () = if !i < n then s.[!i] else '\000' in
  let eat c = if peek () = c then incr i else raise Bad in
  let rec value () : leafv value =
    match peek () with
    | 'T' when !i + 1 < n && s.[!i + 1] = '(' -> incr i; eat '('; let l = elems () in VTuple l
    | 'O' when !i + 1 < n && s.[!i + 1] = '(' -> incr i; eat '('; let l = elems () in VObj l
    | 'P' when !i + 1 < n && s.[!i + 1] = '(' ->
        incr i; eat '('; let a = value () in eat ','; let b = value () in eat ')'; VPair (a, b)
    | 'U' when !i + 1 < n && s.[!i + 1] = '(' -> incr i; eat '('; let v = value () in eat ')'; VPtr (OwnMake, v)
    | 'U' when !i + 2 < n && s.[!i + 2] = '(' ->
        let o = own_of_letter s.[!i + 1] in
        i := !i + 2; eat '('; let v = value () in eat ')'; VPtr (o, v)
    | 'Z' -> incr i; VValueless
    | 'V' ->
        incr i;
        let j = !i in
        while peek () >= '0' && peek () <= '9' do incr i done;
        if !i = j then raise Bad;
        let k = int_of_string (String.sub s j (!i - j)) in
        eat '('; let v = value () in eat ')'; VVariant (nat_of_int k, v)
    | _ ->
        let j = !i in
        while !i < n && s.[!i] <> ',' && s.[!i] <> ')' && s.[!i] <> ';' do incr i done;
        VLeaf (parse_leaf (String.sub s j (!i - j)))
  and elems () : leafv value list =
    if peek () = ')' then (incr i; [])
    else begin
      let v = value () in
      if peek () = ',' then (incr i; let r = elems_ne () in v :: r) else (eat ')'; [v]) end
  and elems_ne () = let v = value () in if peek () = ',' then (incr i; let r = elems_ne () in v :: r) else (eat ')'; [v]) in
  if s = "." then [] else begin
    let rec top () = let v = value () in if !i = n then [v] else (eat ';'; let r = top () in v :: r) in
    top () end
let parse_value s = match parse_values s with [v] -> v | _ -> raise Bad

let rec leaves (x : leafv value) : leafv list =
  match x with
  | VLeaf a -> [a]
  | VTuple l | VObj l -> List.concat_map leaves l
  | VPair (a, b) -> leaves a @ leaves b
  | VVariant (_, v) | VPtr (_, v) -> leaves v
  | VValueless -> []
let rec has_ptr (x : leafv value) : bool =
  match x with
  | VLeaf _ | VValueless -> false
  | VTuple l | VObj l -> List.exists has_ptr l
  | VPair (a, b) -> has_ptr a || has_ptr b
  | VVariant (_, v) -> has_ptr v
  | VPtr _ -> true

(* the_params: the constants the translator read from hash.hpp on this run (extracted from Misc/HashInst.v) *)
let mhash x = hash the_params leaf_h x
let meq x y = veqb leaf_eqb x y
let mlt x y = vltb leaf_ltb x y
let b01 b = if b then "1" else "0"
let lh_of xs = match List.concat_map leaves xs with [] -> "." | l -> String.concat "," (List.map (fun a -> a.hwtxt) l)

(* the model's six operators: the friend operators for tuple types, the standard library's for the rest *)
let model_ops x y =
  match x with
  | VObj _ | VTuple _ ->
      [op_lt leaf_ltb x y; op_le leaf_ltb x y; op_gt leaf_ltb x y; op_ge leaf_ltb x y; op_eq leaf_eqb x y; op_ne leaf_eqb x y]
  | _ -> [mlt x y; not (mlt y x); mlt y x; not (mlt x y); meq x y; not (meq x y)]
(* the same six by the SPEC: textbook lexicographic order on the member lists *)
let spec_ops x y =
  let lists = match x, y with
    | (VObj l | VTuple l), (VObj m | VTuple m) -> Some (l, m)
    | VPair (a, b), VPair (c, d) -> Some ([a; b], [c; d])
    | _ -> None in
  match lists with
  | Some (l, m) ->
      let lt = spec_ltb leaf_eqb leaf_ltb l m and gt = spec_ltb leaf_eqb leaf_ltb m l and eq = spec_eqb leaf_eqb l m in
      [lt; lt || eq; gt; gt || eq; eq; not eq]
  | None -> let lt = mlt x y and gt = mlt y x and eq = meq x y in [lt; lt || eq; gt; gt || eq; eq; not eq]
let ops_str l = String.concat "" (List.map b01 l)

(* "changing or swapping components": x and y have the same structure and differ in exactly one leaf whose
   std::hash words differ, or y is x with two unequal top-level components exchanged *)
let rec leaf_diffs (x : leafv value) (y : leafv value) : int option =   (* None: different structure *)
  let both l m = if List.length l <> List.length m then None else
      List.fold_left2 (fun acc a b -> match acc, leaf_diffs a b with Some p, Some q -> Some (p + q) | _ -> None) (Some 0) l m in
  match x, y with
  | VLeaf a, VLeaf b -> if a.kind <> b.kind then None else if leaf_eqb a b then Some 0 else if a.hwtxt <> b.hwtxt then Some 1 else Some 100
  | VTuple l, VTuple m | VObj l, VObj m -> both l m
  | VPair (a, b), VPair (c, d) -> both [a; b] [c; d]
  | VVariant (k, v), VVariant (j, w) -> if k = j then leaf_diffs v w else None
  | VPtr (_, v), VPtr (_, w) -> leaf_diffs v w
  | VValueless, VValueless -> Some 0
  | _ -> None
let is_swap (x : leafv value) (y : leafv value) : bool =
  let sw l m =
    let a = Array.of_list l and b = Array.of_list m in
    let n = Array.length a in
    n = Array.length b &&
    (let found = ref false in
     for i = 0 to n - 1 do for j = i + 1 to n - 1 do
       if not !found && cmp_shape a.(i) a.(j) && not (meq a.(i) a.(j)) then begin
         let ok = ref true in
         for k = 0 to n - 1 do
           let want = if k = i then a.(j) else if k = j then a.(i) else a.(k) in
           if leaf_diffs want b.(k) <> Some 0 then ok := false
         done;
         if !ok then found := true end
     done done; !found) in
  match x, y with
  | VTuple l, VTuple m | VObj l, VObj m -> sw l m
  | VPair (a, b), VPair (c, d) -> sw [a; b] [c; d]
  | _ -> false
let neighbours x y = leaf_diffs x y = Some 1 || is_swap x y

let kv_of (l : leafv value list) = List.mapi (fun i v -> (v, nat_of_int i)) l

(* ------------------------------------------------------------------ C16: equal pointers in different ownership forms *)
(* the twin the C++ driver builds: every outermost pointer re-made in the form FORMS[k mod length]; the pointee is the same object *)
let twin (forms : string) (x : leafv value) : leafv value =
  let k = ref 0 in
  let next () = if forms = "" then OwnCopy else begin
      let c = forms.[!k mod String.length forms] in incr k;
      (match c with 'c' -> OwnCopy | 'a' -> OwnAlias | 'o' -> OwnOwningAlias | 'k' -> OwnMoved | _ -> raise Bad) end in
  let rec go x = match x with
    | VLeaf _ | VValueless -> x
    | VTuple l -> VTuple (List.map go l)
    | VObj l -> VObj (List.map go l)
    | VPair (a, b) -> let a' = go a in let b' = go b in VPair (a', b')
    | VVariant (j, v) -> VVariant (j, go v)
    | VPtr (_, v) -> VPtr (next (), v) in
  go x
let alias_model sx forms =
  let x = parse_value sx in
  if not (has_ptr x) then raise Bad;
  let y = twin forms x in
  let t1 = tbuild the_params leaf_h leaf_eqb (kv_of [x]) and t2 = tbuild the_params leaf_h leaf_eqb (kv_of [x; y]) in
  let f = b01 (tfind the_params leaf_h leaf_eqb t1 y <> None) in
  Printf.sprintf "AL %s %s %s S %s %d M %s %d LH %s" (b01 (meq x y)) (hex_of_n (mhash x)) (hex_of_n (mhash y)) f (List.length t2) f (List.length t2) (lh_of [x])
(* the SPEC: the twin's pointers ARE x's pointers (same address), so x == y; equal values hash equal, a container holding x
   finds y and does not take y as a second element *)
let alias_oracle sx forms obs =
  match words obs with
  | ["AL"; e; hx; hy; "S"; f1; n1; "M"; f2; n2; "LH"; _] ->
      let x = parse_value sx in
      ignore (twin forms x);
      has_ptr x && e = "1" && hx = hy && f1 = "1" && n1 = "1" && f2 = "1" && n2 = "1"
  | _ -> false

(* ------------------------------------------------------------------ C16: objects with a history *)
(* the history the C++ driver performs for CODE, as operations of the model's history machine on the members of a;
   the model has no notion of "which copy": a copy is the same member list *)
let history_ops (code : string) (b : leafv value) : leafv hop list =
  let mb = members b in
  let first = (match code.[0] with 'n' -> [] | 'd' -> [HHash] | 's' -> [HHash; HHash] | _ -> raise Bad) in
  (match code.[1] with 'o' | 'b' | 'a' -> () | _ -> raise Bad);
  let first = if code.[1] = 'b' then [] else first in     (* a copy made before the first use was never hashed *)
  let how = (match code.[2] with
             | 'm' | 't' -> List.mapi (fun i v -> HSet (nat_of_int i, v)) mb
             | 'w' | 'v' -> [HAssign mb]
             | _ -> raise Bad) in
  (match code.[3] with '-' | 'c' | 'k' -> () | _ -> raise Bad);
  first @ how @ [HHash]
let rec last = function [x] -> x | _ :: r -> last r | [] -> raise Bad
let history_model code sa sb sf =
  if String.length code <> 4 then raise Bad;
  let a = parse_value sa and b = parse_value sb and fill = parse_values sf in
  (match a, b with VObj _, VObj _ -> () | _ -> raise Bad);
  let (zm, seen) = hrun the_params leaf_h (history_ops code b) (members a) [] in
  let z = VObj zm in
  let t1 = tbuild the_params leaf_h leaf_eqb (kv_of (fill @ [b])) in
  let t2 = tbuild the_params leaf_h leaf_eqb (kv_of (fill @ [z])) in
  let t3 = tbuild the_params leaf_h leaf_eqb (kv_of (fill @ [z; b])) in
  Printf.sprintf "HH %s %s EQ %s OPS %s F %s %s %d LH %s" (hex_of_n (last seen)) (hex_of_n (mhash b))
    (b01 (meq z b)) (ops_str (model_ops z b))
    (b01 (tfind the_params leaf_h leaf_eqb t1 z <> None)) (b01 (tfind the_params leaf_h leaf_eqb t2 b <> None)) (List.length t3) (lh_of [a; b])
(* the SPEC: after the history the object's member tuple is b's, so it is equal to a fresh b, hashes like it,
   is found where a fresh b is stored and makes a fresh b found *)
let history_oracle code sa sb sf obs =
  match words obs with
  | ["HH"; hz; hy; "EQ"; e; "OPS"; o; "F"; f1; f2; size; "LH"; _] ->
      let b = parse_value sb and fill = parse_values sf in
      ignore (parse_value sa); ignore (history_ops code b);
      hz = hy && e = "1" && o = ops_str (spec_ops b b) && f1 = "1" && f2 = "1"
      && int_of_string size = int_of_nat (spec_distinct leaf_eqb (fill @ [b]))
  | _ -> false

(* ------------------------------------------------------------------ C20 *)
let ints_of_wire w = if w = "." then [] else List.map int_of_string (String.split_on_char ',' w)
let wire_of_ints l = if l = [] then "." else String.concat "," (List.map string_of_int l)
let fe (i : nat) (v : int) : int = 3 * v + int_of_nat i + 1
let fr (v : int) : int = 3 * v + 7
let vis_e l = if l = [] then "." else String.concat "," (List.map (fun (i, v) -> Printf.sprintf "%d:%d" (int_of_nat i) v) l)
let ones n = if n = 0 then "." else String.make n '1'
let maxn = 6
(* which (adaptor, kind, mode, length) combinations exist in the C++ driver *)
let iter_valid en kind mode n =
  match kind with
  | "vec" | "list" | "map" | "fv" | "ui" -> List.mem mode ["l"; "c"; "r"; "m"; "k"; "s"; "q"]
  | "deq" -> List.mem mode ["l"; "c"; "r"; "m"; "k"; "s"; "q"]
  | "set" | "str" -> List.mem mode ["c"; "r"; "m"; "k"; "s"; "q"]
  | "arr" -> n <= maxn && List.mem mode ["l"; "c"; "r"; "m"; "k"; "s"; "q"]
  | "carr" -> n >= 1 && n <= maxn && List.mem mode ["l"; "c"]
  | "il" -> n <= maxn && (match mode with "r" -> n >= 1 | "m" -> true | "l" | "c" -> en | _ -> false)
  | _ -> false
let out_str f = function Done r -> f r | OutOfFuel -> "HANG" | BadDeref -> "CRASH(model:bad-deref)"
let iter_model en kind mode elems =
  let n = List.length elems in
  if not (iter_valid en kind mode n) then "BADCASE" else
  let writes = mode = "l" && kind <> "il" in
  if en then begin
    match mode with
    | "l" | "c" ->
        out_str (fun (vs, c') -> Printf.sprintf "V %s A %s C %s" (vis_e vs) (ones (List.length vs)) (if writes then wire_of_ints c' else "-"))
          (enumerate_for (if writes then fe else (fun _ v -> v)) elems)
    | _ -> out_str (fun vs -> Printf.sprintf "V %s A - C -" (vis_e vs)) (enumerate_rvalue elems)
  end else begin
    match mode with
    | "l" | "c" ->
        let f = if writes then fr else (fun v -> v) in
        out_str (fun (vs, c') -> Printf.sprintf "V %s A %s C %s" (wire_of_ints vs) (ones (List.length vs)) (if writes then wire_of_ints c' else "-"))
          (if kind = "carr" then reverse_array_for f elems else reverse_for f elems)
    | _ -> out_str (fun vs -> Printf.sprintf "V %s A - C -" (wire_of_ints vs)) (reverse_rvalue elems)
  end
(* the SPEC: visits = combine (seq 0 n) c resp. rev c; every visit is the container's own element;
   afterwards the container is the pointwise image *)
let iter_oracle en kind mode elems obs =
  let n = List.length elems in
  if not (iter_valid en kind mode n) then obs = "BADCASE" else
  match words obs with
  | ["V"; v; "A"; a; "C"; c] ->
      let writes = mode = "l" && kind <> "il" in
      let lval = mode = "l" || mode = "c" in
      let want_v = if en then vis_e (spec_enumerate elems) else wire_of_ints (List.rev elems) in
      let want_a = if lval then ones n else "-" in
      let want_c = if not writes then "-" else if en then wire_of_ints (spec_enumerate_write fe elems) else wire_of_ints (List.map fr elems) in
      v = want_v && a = want_a && c = want_c
  | _ -> false

(* ---- the same adaptor / container used more than once ---- *)
let gm (v : int) : int = 2 * v + 1
let reuse_valid sc kind mode =
  List.mem kind ["vec"; "list"; "map"; "fv"; "ui"] &&
  (match sc with
   | "en3" | "rv3" -> mode = "l" || mode = "c" || mode = "r"
   | "en2" | "rv2" | "enbe" | "rvbe" -> mode = "l" || mode = "r"
   | "enen" | "enrv" | "enmod" | "rvmod" -> mode = "l"
   | "nest" | "cad" -> mode = "l" || mode = "r"
   | _ -> false)
let inner_str f = function Done vs -> f vs | OutOfFuel -> "HANG" | BadDeref -> "CRASH(model:bad-deref)"
let nn_str fin l =
  if l = [] then "." else String.concat "|" (List.map (fun ((i, v), inner) -> Printf.sprintf "%d:%d=%s" (int_of_nat i) v (fin inner)) l)
let reuse_model sc kind mode elems =
  if not (reuse_valid sc kind mode) then "BADCASE" else
  match sc with
  | "en3" ->   (* five passes over the one adaptor: range-for, range-for (writing in mode l), range-for, two manual loops *)
      let keep = (fun _ v -> v) in
      out_str (fun (vs, c) -> Printf.sprintf "V5 %s C %s" (String.concat " " (List.map vis_e vs)) (if mode = "l" then wire_of_ints c else "-"))
        (enumerate_passes [keep; (if mode = "l" then fe else keep); keep; keep; keep] elems)
  | "rv3" ->
      let keep = (fun v -> v) in
      out_str (fun (vs, c) -> Printf.sprintf "V5 %s C %s" (String.concat " " (List.map wire_of_ints vs)) (if mode = "l" then wire_of_ints c else "-"))
        (reverse_passes [keep; (if mode = "l" then fr else keep); keep; keep; keep] elems)
  | "en2" -> out_str (fun (a, b) -> Printf.sprintf "V2 %s %s" (vis_e a) (vis_e b)) (enumerate_twice elems)
  | "rv2" -> out_str (fun (a, b) -> Printf.sprintf "V2 %s %s" (wire_of_ints a) (wire_of_ints b)) (reverse_twice elems)
  | "enen" -> out_str (fun l -> "NN " ^ nn_str (inner_str vis_e) l) (enumerate_nested elems)
  | "enrv" -> out_str (fun l -> "NN " ^ nn_str (inner_str wire_of_ints) l) (enumerate_reverse_nested elems)
  | "enmod" -> out_str (fun (vs, c) -> Printf.sprintf "V %s A - C %s" (vis_e vs) (wire_of_ints c)) (enumerate_after_modify gm elems)
  | "rvmod" -> out_str (fun (vs, c) -> Printf.sprintf "V %s A - C %s" (wire_of_ints vs) (wire_of_ints c)) (reverse_after_modify gm elems)
  | "nest" -> (* enumerate over the reversed range: the composition of the two loops *)
      (match reverse_rvalue elems with
       | Done r -> out_str (fun vs -> Printf.sprintf "V %s A - C -" (vis_e vs)) (enumerate_rvalue r)
       | OutOfFuel -> "HANG" | BadDeref -> "CRASH(model:bad-deref)")
  | "cad" -> out_str (fun r -> if mode = "l" then Printf.sprintf "V2 %s %s" (wire_of_ints r) (wire_of_ints r)
                               else out_str (fun e -> Printf.sprintf "V2 %s %s" (wire_of_ints r) (vis_e e)) (enumerate_rvalue elems)) (reverse_rvalue elems)
  | "enbe" -> let b = b01 (enumerate_nonempty_test elems) in
              out_str (fun (vs, _) -> Printf.sprintf "BE %s%s%s %d" b b b (List.length vs)) (enumerate_for (fun _ v -> v) elems)
  | "rvbe" -> let b = b01 (reverse_nonempty_test elems) in
              out_str (fun (vs, _) -> Printf.sprintf "BE %s%s%s %d" b b b (List.length vs)) (reverse_for (fun v -> v) elems)
  | _ -> "BADCASE"
(* SPEC: every use of the adaptor visits each element once, indices 0..n-1 again / the opposite order again *)
let reuse_oracle sc kind mode elems obs =
  if not (reuse_valid sc kind mode) then obs = "BADCASE" else
  let n = List.length elems in
  let en c = vis_e (spec_enumerate c) and rv c = wire_of_ints (List.rev c) in
  let ne = b01 (n > 0) in
  let want = match sc with
    | "en3" | "rv3" ->
        (* passes 1 and 2 see the range as it was, passes 3..5 what the writing pass 2 left (mode l); each pass sees all of it *)
        let e = sc = "en3" in
        let c2 = if mode <> "l" then elems else if e then spec_enumerate_write fe elems else List.map fr elems in
        let v c = if e then en c else rv c in
        Printf.sprintf "V5 %s %s %s %s %s C %s" (v elems) (v elems) (v c2) (v c2) (v c2) (if mode = "l" then wire_of_ints c2 else "-")
    | "en2" -> Printf.sprintf "V2 %s %s" (en elems) (en elems)
    | "rv2" -> Printf.sprintf "V2 %s %s" (rv elems) (rv elems)
    | "enen" | "enrv" ->
        let inner = if sc = "enen" then en elems else rv elems in
        "NN " ^ (if n = 0 then "." else String.concat "|" (List.map (fun (i, v) -> Printf.sprintf "%d:%d=%s" (int_of_nat i) v inner) (spec_enumerate elems)))
    | "nest" -> Printf.sprintf "V %s A - C -" (en (List.rev elems))
    | "cad" -> if mode = "l" then Printf.sprintf "V2 %s %s" (rv elems) (rv elems) else Printf.sprintf "V2 %s %s" (rv elems) (en elems)
    | "enmod" -> let c = List.map gm elems in Printf.sprintf "V %s A - C %s" (en c) (wire_of_ints c)
    | "rvmod" -> let c = List.map gm elems in Printf.sprintf "V %s A - C %s" (rv c) (wire_of_ints c)
    | _ -> Printf.sprintf "BE %s%s%s %d" ne ne ne n in
  obs = want

(* ---- several containers alive at once: independent ranges ---- *)
let mc_maxn = 4
let is_ad c = c = 'r' || c = 'e'
let mc_valid sc kind mode n three =
  (mode = "l" || mode = "o") &&
  (match kind with
   | "vec" | "list" | "fv" -> true
   | "arr" -> n <= mc_maxn
   | "carr" -> n >= 1 && n <= mc_maxn && mode = "l"
   | _ -> false) &&
  (if sc = "n3" then three
   else if String.length sc = 4 && sc.[0] = 'n' then not three && is_ad sc.[1] && is_ad sc.[2] && (sc.[3] = '-' || (sc.[3] = 'w' && mode = "l"))
   else if String.length sc = 5 && sc.[0] = 's' then not three && is_ad sc.[1] && is_ad sc.[2] && (sc.[3] = '1' || sc.[3] = '2') && (sc.[4] = '-' || (sc.[4] = 'w' && mode = "l"))
   else false)
let dotted s = if s = "" then "." else s
let vis_r_plain l = String.concat "," (List.map string_of_int l)
let vis_e_plain l = String.concat "," (List.map (fun (i, v) -> Printf.sprintf "%d:%d" (int_of_nat i) v) l)
(* a whole read-only loop over b, as the body of an outer loop sees it: b unchanged, the inner visits as text *)
let inner_of ad (b : int list) : int list * string =
  (b, if ad = 'r' then inner_str vis_r_plain (reverse_rvalue b) else inner_str vis_e_plain (enumerate_rvalue b))
let mc_model sc kind mode (es : int list list) =
  let three = List.length es = 3 in
  let n = List.length (List.hd es) in
  if List.exists (fun e -> List.length e <> n) es || not (mc_valid sc kind mode n three) then "BADCASE" else
  let a = List.nth es 0 and b = List.nth es 1 in
  if sc = "n3" then begin
    let c = List.nth es 2 in
    let inner_b (b : int list) : int list * string =
      match reverse_for2 (inner_of 'r') (fun v -> v) b c with
      | Done ((vis, b'), _) -> (b', String.concat "+" (List.map (fun (y, zs) -> Printf.sprintf "%d{%s}" y zs) vis))
      | OutOfFuel -> (b, "HANG") | BadDeref -> (b, "CRASH") in
    out_str (fun ((vis, a'), b') ->
        Printf.sprintf "N3 %s C %s %s %s" (dotted (String.concat "|" (List.map (fun (x, m) -> Printf.sprintf "%d=%s" x (dotted m)) vis)))
          (wire_of_ints a') (wire_of_ints b') (wire_of_ints c))
      (reverse_for2 inner_b (fun v -> v) a b)
  end else if sc.[0] = 'n' then begin
    let w = sc.[3] = 'w' in
    if sc.[1] = 'r' then
      out_str (fun ((vis, a'), b') ->
          Printf.sprintf "N2 %s C %s %s" (dotted (String.concat "|" (List.map (fun (x, i) -> Printf.sprintf "%d=%s" x (dotted i)) vis))) (wire_of_ints a') (wire_of_ints b'))
        (reverse_for2 (inner_of sc.[2]) (if w then fr else (fun v -> v)) a b)
    else
      out_str (fun ((vis, a'), b') ->
          Printf.sprintf "N2 %s C %s %s" (dotted (String.concat "|" (List.map (fun ((k, x), i) -> Printf.sprintf "%d:%d=%s" (int_of_nat k) x (dotted i)) vis))) (wire_of_ints a') (wire_of_ints b'))
        (enumerate_for2 (inner_of sc.[2]) (if w then fe else (fun _ v -> v)) a b)
  end else begin
    (* two stored adaptors: two independent loops, run in the given order; the first one run may write *)
    let w = sc.[4] = 'w' in
    let run ad wr l = if ad = 'r' then (match reverse_for (if wr then fr else (fun v -> v)) l with Done (vs, l') -> (vis_r_plain vs, l') | _ -> ("HANG", l))
                      else (match enumerate_for (if wr then fe else (fun _ v -> v)) l with Done (vs, l') -> (vis_e_plain vs, l') | _ -> ("HANG", l)) in
    let (va, a'), (vb, b') =
      if sc.[3] = '1' then (let ra = run sc.[1] w a in let rb = run sc.[2] false b in (ra, rb))
      else (let rb = run sc.[2] w b in let ra = run sc.[1] false a in (ra, rb)) in
    Printf.sprintf "S2 %s %s C %s %s" (dotted va) (dotted vb) (wire_of_ints a') (wire_of_ints b')
  end
(* SPEC: each loop visits its own range (rev / combine (seq 0 n)); only the written range changes, pointwise *)
let mc_oracle sc kind mode es obs =
  let three = List.length es = 3 in
  let n = List.length (List.hd es) in
  if List.exists (fun e -> List.length e <> n) es || not (mc_valid sc kind mode n three) then obs = "BADCASE" else
  let a = List.nth es 0 and b = List.nth es 1 in
  let vis ad l = if ad = 'r' then vis_r_plain (List.rev l) else vis_e_plain (spec_enumerate l) in
  let items ad l = if ad = 'r' then List.map string_of_int (List.rev l) else List.map (fun (i, v) -> Printf.sprintf "%d:%d" (int_of_nat i) v) (spec_enumerate l) in
  let written ad l = if ad = 'r' then List.map fr l else spec_enumerate_write fe l in
  let want =
    if sc = "n3" then begin
      let c = List.nth es 2 in
      let mid = String.concat "+" (List.map (fun y -> Printf.sprintf "%s{%s}" y (vis 'r' c)) (items 'r' b)) in
      Printf.sprintf "N3 %s C %s %s %s" (dotted (String.concat "|" (List.map (fun x -> x ^ "=" ^ dotted mid) (items 'r' a))))
        (wire_of_ints a) (wire_of_ints b) (wire_of_ints c)
    end else if sc.[0] = 'n' then
      Printf.sprintf "N2 %s C %s %s" (dotted (String.concat "|" (List.map (fun x -> x ^ "=" ^ dotted (vis sc.[2] b)) (items sc.[1] a))))
        (wire_of_ints (if sc.[3] = 'w' then written sc.[1] a else a)) (wire_of_ints b)
    else begin
      let w = sc.[4] = 'w' in
      let a' = if w && sc.[3] = '1' then written sc.[1] a else a and b' = if w && sc.[3] = '2' then written sc.[2] b else b in
      Printf.sprintf "S2 %s %s C %s %s" (dotted (vis sc.[1] a)) (dotted (vis sc.[2] b)) (wire_of_ints a') (wire_of_ints b')
    end in
  obs = want

(* ---- owning adaptors relocated: values ---- *)
let ow_second sc = match sc with "cp" -> `First | "asg" | "ret" | "vec" -> `Second | _ -> `None
let ow_valid sc kind n =
  List.mem sc ["cp"; "cpd"; "mv"; "mvd"; "asg"; "masg"; "ret"; "vec"; "opt"] &&
  (match kind with "vec" | "list" | "fv" -> true | "arr" -> n <= mc_maxn | "il" -> n >= 1 && n <= mc_maxn | _ -> false)
let ow_model sc en kind e1 e2 =
  if List.length e1 <> List.length e2 || not (ow_valid sc kind (List.length e1)) then "BADCASE" else
  let other = match ow_second sc with `First -> Some e1 | `Second -> Some e2 | `None -> None in
  let src_after = match other with Some l -> l | None -> [] in
  if en then
    let (c, s) = iterate_copy_and_source_enumerate e1 src_after in
    Printf.sprintf "OW %s %s" (inner_str (fun l -> dotted (vis_e_plain l)) c) (if other = None then "-" else inner_str (fun l -> dotted (vis_e_plain l)) s)
  else
    let (c, s) = iterate_copy_and_source_reverse e1 src_after in
    Printf.sprintf "OW %s %s" (inner_str (fun l -> dotted (vis_r_plain l)) c) (if other = None then "-" else inner_str (fun l -> dotted (vis_r_plain l)) s)
let ow_oracle sc en kind e1 e2 obs =
  if List.length e1 <> List.length e2 || not (ow_valid sc kind (List.length e1)) then obs = "BADCASE" else
  let vis l = dotted (if en then vis_e_plain (spec_enumerate l) else vis_r_plain (List.rev l)) in
  obs = Printf.sprintf "OW %s %s" (vis e1) (match ow_second sc with `First -> vis e1 | `Second -> vis e2 | `None -> "-")

(* ---- manual iteration over begin()/end(): every form visits what the range-for visits ---- *)
let rec drop k l = if k <= 0 then l else match l with [] -> [] | _ :: r -> drop (k - 1) r
let mi_line en elems =
  let n = List.length elems in
  let full, items =
    if en then (match enumerate_rvalue elems with Done vs -> (dotted (vis_e_plain vs), List.map (fun (i, v) -> Printf.sprintf "%d:%d" (int_of_nat i) v) vs) | _ -> ("HANG", []))
    else (match reverse_rvalue elems with Done vs -> (dotted (vis_r_plain vs), List.map string_of_int vs) | _ -> ("HANG", [])) in
  let suffix = dotted (String.concat "," (drop (n / 2) items)) in
  let base = Printf.sprintf "MI %s %s %s %s %s %s" full full full suffix suffix full in
  if en then base ^ " K " ^ full
  else Printf.sprintf "%s X %s %d %s %s" base full n full (if n = 0 then "." else List.nth items (n / 2))
let mi_valid kind mode = List.mem kind ["vec"; "list"; "map"; "fv"; "ui"] && (mode = "l" || mode = "r")
(* the SPEC side: the same line computed from spec_enumerate / rev *)
let mi_spec en elems =
  let n = List.length elems in
  let items = if en then List.map (fun (i, v) -> Printf.sprintf "%d:%d" (int_of_nat i) v) (spec_enumerate elems) else List.map string_of_int (List.rev elems) in
  let full = dotted (String.concat "," items) and suffix = dotted (String.concat "," (drop (n / 2) items)) in
  let base = Printf.sprintf "MI %s %s %s %s %s %s" full full full suffix suffix full in
  if en then base ^ " K " ^ full else Printf.sprintf "%s X %s %d %s %s" base full n full (if n = 0 then "." else List.nth items (n / 2))

(* ---- element types constructible from their own container: the visits are still the range's elements ---- *)
let et_valid ty kind mode n =
  List.mem ty ["any"; "val"; "ilt"; "up"] &&
  (match kind with "vec" | "list" -> mode = "l" || mode = "r" | "il" -> ty <> "up" && mode = "r" && n >= 1 && n <= 4 | _ -> false)
(* move-only elements over an lvalue: the driver first replaces every element through the adaptor by tag + 1000 *)
let et_elems ty mode elems = if ty = "up" && mode = "l" then List.map (fun v -> v + 1000) elems else elems
let et_model en ty kind mode elems =
  if not (et_valid ty kind mode (List.length elems)) then "BADCASE" else
  let elems = (if ty = "up" && mode = "l" then
                 (match (if en then (match enumerate_for (fun _ v -> v + 1000) elems with Done (_, c) -> Some c | _ -> None)
                         else (match reverse_for (fun v -> v + 1000) elems with Done (_, c) -> Some c | _ -> None)) with Some c -> c | None -> [])
               else elems) in
  if en then out_str (fun vs -> Printf.sprintf "ET %d %s" (List.length vs) (dotted (vis_e_plain vs))) (enumerate_rvalue elems)
  else out_str (fun vs -> Printf.sprintf "ET %d %s" (List.length vs) (dotted (vis_r_plain vs))) (reverse_rvalue elems)
let et_oracle en ty kind mode elems obs =
  if not (et_valid ty kind mode (List.length elems)) then obs = "BADCASE" else
  let elems = et_elems ty mode elems in
  obs = Printf.sprintf "ET %d %s" (List.length elems)
          (dotted (if en then vis_e_plain (spec_enumerate elems) else vis_r_plain (List.rev elems)))

(* ---- binding forms of the enumerate loop variable: write-through and aliasing hold for every form ---- *)
let bf_valid form kind n =
  List.mem form ["a"; "f"; "c"; "k"; "h"] &&
  (match kind with "vec" | "list" | "deq" | "map" | "fv" -> true | "arr" -> n <= mc_maxn | "carr" -> n >= 1 && n <= mc_maxn | _ -> false)
let bf_model form kind elems =
  if not (bf_valid form kind (List.length elems)) then "BADCASE" else
  out_str (fun (vs, c) -> Printf.sprintf "BF %s %s" (ones (List.length vs)) (dotted (String.concat "," c)))
    (enumerate_for (fun _ s -> s ^ "x") (List.map string_of_int elems))
let bf_oracle form kind elems obs =
  if not (bf_valid form kind (List.length elems)) then obs = "BADCASE" else
  obs = Printf.sprintf "BF %s %s" (ones (List.length elems)) (dotted (String.concat "," (List.map (fun v -> string_of_int v ^ "x") elems)))

(* ------------------------------------------------------------------ dispatch *)
let model (w : string list) : string =
  try
    match w with
    | ["p"; _; sx; sy] ->
        let x = parse_value sx and y = parse_value sy in
        let ptr = has_ptr x || has_ptr y in
        Printf.sprintf "H %s %s EQ %s OPS %s LH %s" (hex_of_n (mhash x)) (hex_of_n (mhash y))
          (if ptr then "-" else b01 (meq x y)) (if ptr then "------" else ops_str (model_ops x y)) (lh_of [x; y])
    | ["t"; _; sx; sy; sz] ->
        let x = parse_value sx and y = parse_value sy and z = parse_value sz in
        if has_ptr x then "BADCASE" else
        let le a b = not (mlt b a) in
        Printf.sprintf "TR %s%s%s %s%s%s" (b01 (mlt x y)) (b01 (mlt y z)) (b01 (mlt x z)) (b01 (le x y)) (b01 (le y z)) (b01 (le x z))
    | [("set" | "map") as k; _; si; sp] ->
        let ins = parse_values si and probes = parse_values sp in
        if List.exists has_ptr ins || List.exists has_ptr probes then "BADCASE" else
        let t = tbuild the_params leaf_h leaf_eqb (kv_of ins) in
        let look y = tfind the_params leaf_h leaf_eqb t y in
        if k = "set" then
          Printf.sprintf "S %d %s" (List.length t)
            (if probes = [] then "." else String.concat "" (List.map (fun y -> b01 (look y <> None)) probes))
        else
          Printf.sprintf "M %d %s" (List.length t)
            (if probes = [] then "." else String.concat "," (List.map (fun y -> match look y with None -> "-" | Some i -> string_of_int (int_of_nat i)) probes))
    | ["h"; ("P" | "Q"); code; sa; sb; sf] -> history_model code sa sb sf
    | ["al"; _; sx; forms] -> alias_model sx forms
    | ["a"; "SQ"; sx] ->
        let x = parse_value sx in
        (match x with VPtr (_, _) -> Printf.sprintf "A 1 %s %s" (hex_of_n (mhash x)) (hex_of_n (mhash x)) | _ -> "BADCASE")
    | [("en" | "rv") as a; kind; mode; elems] -> iter_model (a = "en") kind mode (ints_of_wire elems)
    | ["mi"; ("en" | "rv") as a; kind; mode; elems] -> if mi_valid kind mode then mi_line (a = "en") (ints_of_wire elems) else "BADCASE"
    | ["et"; ("en" | "rv") as a; ty; kind; mode; elems] -> et_model (a = "en") ty kind mode (ints_of_wire elems)
    | ["bf"; form; kind; elems] -> bf_model form kind (ints_of_wire elems)
    | ["re"; sc; kind; mode; elems] -> reuse_model sc kind mode (ints_of_wire elems)
    | ["ow"; sc; ("en" | "rv") as a; kind; e1; e2] -> ow_model sc (a = "en") kind (ints_of_wire e1) (ints_of_wire e2)
    | "mc" :: sc :: kind :: mode :: (([_; _] | [_; _; _]) as es) -> mc_model sc kind mode (List.map ints_of_wire es)
    | _ -> "BADCASE"
  with Bad | Invalid_argument _ | Failure _ | Not_found -> "BADCASE"

(* the oracle judges the implementation's observation by the property, not by the model's hash words *)
let oracle (w : string list) (obs : string) : bool =
  match w, words obs with
  | ["p"; _; sx; sy], ["H"; hx; hy; "EQ"; e; "OPS"; o; "LH"; _] ->
      let x = parse_value sx and y = parse_value sy in
      let ptr = has_ptr x || has_ptr y in
      let eq = meq x y in
      (not eq || hx = hy)                                        (* equal values hash equal *)
      && (if ptr then e = "-" && o = "------"
          else e = b01 eq && o = ops_str (spec_ops x y))         (* the six operators are the lexicographic predicates *)
      && (not (neighbours x y) || hx <> hy)                      (* a changed / swapped component changes the hash *)
  | ["t"; _; sx; sy; sz], ["TR"; lt; le] when String.length lt = 3 && String.length le = 3 ->
      let x = parse_value sx and y = parse_value sy and z = parse_value sz in
      let s a b = List.nth (spec_ops a b) 0 and sle a b = List.nth (spec_ops a b) 1 in
      (not (lt.[0] = '1' && lt.[1] = '1') || lt.[2] = '1')       (* transitivity, as observed *)
      && (not (le.[0] = '1' && le.[1] = '1') || le.[2] = '1')
      && lt = b01 (s x y) ^ b01 (s y z) ^ b01 (s x z)
      && le = b01 (sle x y) ^ b01 (sle y z) ^ b01 (sle x z)
  | ["set"; _; si; sp], ["S"; size; bits] ->
      let ins = parse_values si and probes = parse_values sp in
      int_of_string size = int_of_nat (spec_distinct leaf_eqb ins)
      && bits = (if probes = [] then "." else String.concat "" (List.map (fun y -> b01 (List.exists (fun k -> meq k y) ins)) probes))
  | ["map"; _; si; sp], ["M"; size; idx] ->
      let ins = parse_values si and probes = parse_values sp in
      int_of_string size = int_of_nat (spec_distinct leaf_eqb ins)
      && idx = (if probes = [] then "." else String.concat "," (List.map (fun y ->
                  match spec_lookup leaf_eqb (kv_of ins) y with None -> "-" | Some i -> string_of_int (int_of_nat i)) probes))
  | ["h"; ("P" | "Q"); code; sa; sb; sf], _ -> history_oracle code sa sb sf obs
  | ["a"; "SQ"; _], ["A"; e; hx; hy] -> e = "1" && hx = hy
  | ["al"; _; sx; forms], _ -> (try alias_oracle sx forms obs with Bad -> false)
  | [("en" | "rv") as a; kind; mode; elems], _ -> iter_oracle (a = "en") kind mode (ints_of_wire elems) obs
  | ["mi"; ("en" | "rv") as a; kind; mode; elems], _ -> if mi_valid kind mode then obs = mi_spec (a = "en") (ints_of_wire elems) else obs = "BADCASE"
  | ["et"; ("en" | "rv") as a; ty; kind; mode; elems], _ -> et_oracle (a = "en") ty kind mode (ints_of_wire elems) obs
  | ["bf"; form; kind; elems], _ -> bf_oracle form kind (ints_of_wire elems) obs
  | ["re"; sc; kind; mode; elems], _ -> reuse_oracle sc kind mode (ints_of_wire elems) obs
  | ["ow"; sc; ("en" | "rv") as a; kind; e1; e2], _ -> ow_oracle sc (a = "en") kind (ints_of_wire e1) (ints_of_wire e2) obs
  | "mc" :: sc :: kind :: mode :: (([_; _] | [_; _; _]) as es), _ -> mc_oracle sc kind mode (List.map ints_of_wire es) obs
  | _ -> false

let () = run_driver model oracle

(* sched_driver.ml — model and oracle side of property C09 (thread-safe sinks).
   case:  <out|err> <c0,c1,...> <dist> <mode> <seed> [ord]      (see harness/sched_driver.cpp)
   model: the extracted scheduler model runs the hand-written reading of today's sink body (stdout_mt_body /
          stderr_mt_body — the behaviour the property demands) on a SCALED-DOWN version of the case (at most
          4 records of 2 bytes per thread; thread t on sink instance t mod 2, like the C++ driver) under a
          pseudo-random schedule drawn from the seed, checks the result with the extracted valid_orderb and
          prints the canonical observation `OK <counts>`; the real threads' interleaving is a different one
          anyway, only the canonical observation is compared.
   oracle: judges the implementation's observation by the spec: only `OK` with exactly the case's counts is
          accepted, and when an observed order is attached it must pass the extracted valid_orderb
          (proved equivalent to exactly_once_in_program_order). *)
let ints_of_csv s = List.map int_of_string (String.split_on_char ',' s)
let str_of_string (s : string) : byte list = List.init (String.length s) (fun i -> byte_of_int (Char.code s.[i]))
let enc_seq (s : int) : byte list = str_of_string (string_of_int s)

let body_of = function "out" -> Some stdout_mt_body | "err" -> Some stderr_mt_body | _ -> None

let model_run body counts seed =
  let n = List.length counts in
  let ths = List.mapi (fun t c ->
      (nat_of_int (t mod 2), List.init (min c 4) (fun s -> [byte_of_int (t land 255); byte_of_int (s land 255)]))) counts in
  let x = ref ((seed * 7919 + 17) land 0x7fffffff) in
  let next () = x := (!x * 1103515245 + 12345) land 0x7fffffff; !x lsr 8 in
  let prefix = List.init (40 * n) (fun _ -> nat_of_int (next () mod (max n 1))) in
  let st = ref (run body ths prefix) in
  let rounds = ref 0 in
  while not (finished !st) && !rounds < 2000 do
    st := run_from body (round_robin (nat_of_int n) (nat_of_int 4)) !st; incr rounds
  done;
  let st = !st in
  finished st && not st.st_corrupt
  && valid_orderb (List.map (fun (_, r) -> r) ths) st.st_order
  && st.st_out = List.concat (List.map (fun (_, r) -> r) st.st_order)

let model = function
  | sink :: counts :: _dist :: _mode :: seed :: _ ->
    (match body_of sink with
     | None -> "BADCASE"
     | Some body ->
       let cs = ints_of_csv counts in
       if not (body_ok body && solo false body) then "MODEL-BODY-NOT-OK"
       else if model_run body cs (int_of_string seed) then "OK " ^ counts else "MODEL-INVALID")
  | ["witness"] ->
    (* for the tie-break report: does the body the translator read today go wrong in the model? *)
    let f name b st = Printf.sprintf "%s: well_locked=%b single_insert=%b solo=%b mutex_static=%b corrupt_under_adversary=%b"
        name (well_locked b) (single_insert b) (solo false b) st (corrupts_under_adversary b) in
    f "stdout_mt" gen_stdout_mt_body gen_stdout_mt_mutex_static ^ "; " ^ f "stderr_mt" gen_stderr_mt_body gen_stderr_mt_mutex_static
    ^ "; adversary schedule for two threads = round robin [0;1;0;1;...]"
  | _ -> "BADCASE"

let oracle case obs =
  match case, words obs with
  | _ :: counts :: _, ["OK"; c] -> c = counts
  | _ :: counts :: _, ["OK"; c; "ORDER"; o] ->
    let cs = ints_of_csv counts in
    let recs = List.map (fun c -> List.init c enc_seq) cs in
    let order = if o = "." then [] else
        List.map (fun e -> match String.split_on_char ':' e with
            | [t; s] -> (nat_of_int (int_of_string t), enc_seq (int_of_string s))
            | _ -> failwith "order") (String.split_on_char ',' o) in
    c = counts && valid_orderb recs order && List.length order = List.fold_left (+) 0 cs
  | _ -> false

let () = run_driver model oracle

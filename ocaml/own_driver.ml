(* own_driver.ml — model and oracle side of the ownership cluster: C18 (quaint_ptr "q", optional "o") and
   C19 (env "e", dl "d").  Appended after the extracted own_model.ml and glue_base.ml. *)
let ni = nat_of_int
let inn = int_of_nat
let sp c s = String.split_on_char c s
let ios = int_of_string
let list_of_field s = if s = "." then [] else sp ',' s
let field_of_list l = if l = [] then "." else String.concat "," l
let rec mapi_ f i = function [] -> [] | x :: r -> let y = f i x in y :: mapi_ f (i + 1) r

(* ================================================================= quaint_ptr *)
let tyname t = match inn t with 0 -> "A" | 1 -> "B" | 2 -> "C" | k -> "T" ^ string_of_int k
let tyof c = match c with 'A' -> ni 0 | 'B' -> ni 1 | 'C' -> ni 2 | _ -> failwith "type"
let q_parse_op s = match sp '.' s with
  | ["mk"; i; t] -> Make (ni (ios i), ni (ios t))
  (* mr.i.t.m: the payload is RE-ENTRANT (its destructor calls reset() on (m land 1) / assigns nullptr to (m land 2) the pointer
     that owns it); for the spec it is a Make like any other — every clause of the property holds of it unchanged *)
  | ["mr"; i; t; m] when ios m >= 0 && ios m <= 3 -> Make (ni (ios i), ni (ios t))
  | ["mc"; i; j] -> MoveCtor (ni (ios i), ni (ios j))
  | ["ma"; i; j] -> MoveAssign (ni (ios i), ni (ios j))
  | ["rs"; i] -> Reset (ni (ios i))
  | ["dr"; i] -> Drop (ni (ios i))
  | ["vp"; i] -> VecPush (ni (ios i))
  | ["vg"] -> VecGrow
  | ["vc"] -> VecClear
  | ["vt"; i; k] -> VecTake (ni (ios i), ni (ios k))
  | ["an"; i] -> AssignNull (ni (ios i))
  | ["vn"; k] -> VecAssignNull (ni (ios k))
  | ["sw"; i; j] -> Swap (ni (ios i), ni (ios j))
  | ["dc"; i] -> DefCtor (ni (ios i))
  | ["vo"] -> VecPop
  | ["ve"; k] -> VecErase (ni (ios k))
  (* the payload constructor throws inside make_quaint: assigned to pool[i] (mx) or pushed into the vector (vx) — either way
     the expression never yields a pointer *)
  | ["mx"; i; t] -> MakeThrows (ni (ios i), ni (ios t))
  | ["vx"; t] -> MakeThrows (ni 0, ni (ios t))
  | _ -> failwith "qop"
let q_is_adopt (_ : string) = false   (* no wire operation needs an existing pointer object beyond q_applicable *)
(* applicability of a wire operation: the adopting assignment needs an existing pointer object *)
let q_app st (o, adopt) =
  q_applicable st o && (not adopt || (match o with Make (i, _) -> (match nth_error st.pool i with Some (Live _) -> true | _ -> false) | _ -> true))
let q_parse_ops ops = List.map (fun s -> (q_parse_op s, q_is_adopt s)) (list_of_field ops)
let q_ntypes = 3
let q_obs_ptr = function None -> "N" | Some (id, _) -> string_of_int (inn id)
let q_obs_state st =
  let objs = List.map (fun o -> tyname o.otype ^ (if o.alive then "a" else "d") ^
                         (if o.destroyed_by = [] then "" else ":" ^ String.concat "" (List.map tyname o.destroyed_by))) st.heap in
  let pool = List.map (function Gone -> "G" | Live p -> q_obs_ptr p) st.pool in
  let vecs = List.map q_obs_ptr st.vec in
  let cs = List.init q_ntypes (fun t -> string_of_int (inn (count_type (ni t) st.heap))) in
  let ds = List.init q_ntypes (fun t -> string_of_int (inn (count_destroyed_by (ni t) st.heap))) in
  String.concat "|" [field_of_list objs; field_of_list pool; field_of_list vecs; "c=" ^ String.concat "/" cs; "d=" ^ String.concat "/" ds]
let q_reentry_of s = match sp '.' s with
  | ["mr"; _; _; m] -> (if ios m land 1 <> 0 then [ReReset] else []) @ (if ios m land 2 <> 0 then [ReAssignNull] else [])
  | _ -> []
let model_q n ops =
  let st = ref (q_init (ni (ios n))) in
  let re = ref [] in   (* object id -> what its destructor does to its owner *)
  let words = ref (list_of_field ops) in
  let parts = List.map (fun (o, adopt) ->
      let word = List.hd !words in
      words := List.tl !words;
      let a = q_app !st (o, adopt) in
      (if a then match o with
         | Make _ when q_reentry_of word <> [] -> re := (List.length !st.heap, q_reentry_of word) :: !re; st := q_step !st o
         | Reset i ->
           (* reset of a pointer whose pointee is re-entrant: the three stages of Own/Quaint.v reset_reentrant *)
           (match nth_error !st.pool i with
            | Some (Live (Some (id, _))) when List.mem_assoc (inn id) !re -> st := reset_reentrant !st i (List.assoc (inn id) !re)
            | _ -> st := q_step !st o)
         | _ -> st := q_step !st o);
      (if a then (match o with MakeThrows _ -> "throw" | _ -> "ok") else "skip") ^ "|" ^ q_obs_state !st) (q_parse_ops ops) in
  String.concat ";" (parts @ ["fin|" ^ q_obs_state (q_finish !st)])

(* observation -> a qstate as far as it is observable (the type remembered by a deleter is not) *)
let q_parse_obj s =
  let t = tyof s.[0] in
  let al = (match s.[1] with 'a' -> true | 'd' -> false | _ -> failwith "alive") in
  let db = if String.length s > 2 then (if s.[2] <> ':' then failwith "obj" else
             List.init (String.length s - 3) (fun k -> tyof s.[k + 3])) else [] in
  { otype = t; alive = al; destroyed_by = db }
let q_parse_ptr s = if s = "N" then None else Some (ni (ios s), ni 0)
let q_parse_step s =
  match sp '|' s with
  | [r; objs; pool; vecs; c; d] ->
      let st = { heap = List.map q_parse_obj (list_of_field objs);
                 pool = List.map (fun x -> if x = "G" then Gone else Live (q_parse_ptr x)) (list_of_field pool);
                 vec = List.map q_parse_ptr (list_of_field vecs) } in
      let nums pre x = if String.length x < 2 || String.sub x 0 2 <> pre then failwith "cnt" else
          List.map ios (sp '/' (String.sub x 2 (String.length x - 2))) in
      (r, st, nums "c=" c, nums "d=" d)
  | _ -> failwith "qstep"
let q_counters_ok st c d =
  List.length c = q_ntypes && List.length d = q_ntypes &&
  List.for_all (fun t -> List.nth c t = inn (count_type (ni t) st.heap) && List.nth d t = inn (count_destroyed_by (ni t) st.heap))
    (List.init q_ntypes (fun t -> t)) &&
  List.for_all (fun o -> inn o.otype < q_ntypes) st.heap
let oracle_q n ops obs =
  let wops = q_parse_ops ops in
  let ops = List.map fst wops in
  let steps = List.map q_parse_step (sp ';' obs) in
  if List.length steps <> List.length ops + 1 then false else begin
    let prev = ref (q_init (ni (ios n))) in
    let ok = ref true in
    List.iteri (fun k (r, st, c, d) ->
        let good =
          if k < List.length ops then begin
            let o = List.nth ops k in
            let app = q_app !prev (List.nth wops k) in
            let thrown = (match o with MakeThrows _ -> true | _ -> false) in
            r = (if app then (if thrown then "throw" else "ok") else "skip")
            (* a skipped operation, and a make_quaint whose constructor threw, create nothing and destroy nothing *)
            && ((app && not thrown) || (st.heap = !prev.heap && st.pool = !prev.pool && st.vec = !prev.vec))
            (* every object: destroyed at most once, by its creation type, iff not alive; alive iff exactly one owner *)
            && q_state_ok st && q_counters_ok st c d
            (* nothing forgotten, retyped, revived *)
            && heap_extends !prev.heap st.heap
            (* only an applicable Make creates, and exactly one live object of the requested type owned by slot i *)
            && (match o with
                | Make (i, t) when app ->
                    List.length st.heap = List.length !prev.heap + 1 &&
                    (let nw = List.nth st.heap (List.length !prev.heap) in nw.otype = t && nw.alive) &&
                    (match nth_error st.pool i with Some (Live (Some (id, _))) -> inn id = List.length !prev.heap | _ -> false)
                | _ -> List.length st.heap = List.length !prev.heap)
            (* the source of a move and the target of reset are empty afterwards *)
            && (if app then (match must_be_empty o with Some j -> slot_is_null st j | None -> true) else true)
            && (if app then (match vec_must_be_null o with Some j -> vec_is_null st j | None -> true) else true)
            (* swap exchanges what the two pointers own and destroys nothing *)
            && (match o with
                | Swap (i, j) when app -> st.heap = !prev.heap && nth_error st.pool i = nth_error !prev.pool j
                                          && nth_error st.pool j = nth_error !prev.pool i
                | _ -> true)
            && List.length st.pool = List.length !prev.pool
          end else
            r = "fin" && heap_extends !prev.heap st.heap && List.length st.heap = List.length !prev.heap
            && q_counters_ok st c d && all_destroyed_once st
            && List.for_all (fun s -> s = Gone) st.pool && st.vec = [] in
        if not good then ok := false;
        prev := st) steps;
    !ok
  end

(* ================================================================= optional *)
let o_parse_op s = match sp '.' s with
  (* the source's value category (const lvalue / non-const lvalue / rvalue) selects different overload-resolution paths in
     the C++; the model has ONE function per operation: va vn vm, vc vq vr, as an ar, cc cn cr *)
  | [("va" | "vn" | "vm"); i; v] -> OValAssign (ni (ios i), str_of_hex v)
  | [("vc" | "vq" | "vr"); i; v] -> OValCtor (ni (ios i), str_of_hex v)
  | [("as" | "an" | "ar"); i; j] -> OAssign (ni (ios i), ni (ios j))
  | [("cc" | "cn" | "cr"); i; j] -> OCopyCtor (ni (ios i), ni (ios j))
  | ["ae"; i] -> OAssignEmpty (ni (ios i))
  | ["dc"; i] -> ODefaultCtor (ni (ios i))
  (* the value category of the optional at the read site (lvalue, const lvalue, std::move, prvalue from a function, member of
     a temporary) is a driver-side dimension: the model has ONE read, and the temporaries' transient copies are not modelled *)
  | [("rd" | "rc" | "rm" | "rp" | "rt"); i] -> ORead (ni (ios i))
  | _ -> failwith "oop"
let o_obs_view = function VEmpty -> "E" | VVal v -> "V" ^ hex_of_str v | VDangling -> "D"
let o_parse_view s = if s = "E" then VEmpty else if s = "D" then VDangling else
    if s.[0] = 'V' then VVal (str_of_hex (String.sub s 1 (String.length s - 1))) else failwith "view"
let o_obs_rd = function RRaise -> "raise" | RVal v -> "v:" ^ hex_of_str v | RDangling -> "dangling"
let o_distinct st =
  let ids = List.filter_map (fun x -> x) st.opts in
  List.length (List.sort_uniq compare (List.map inn ids)) = List.length ids
let o_obs_state kind st =
  String.concat "|" [field_of_list (List.map o_obs_view (views st)); (if o_distinct st then "1" else "0");
                     (if kind = "c" then string_of_int (inn (live_cells st)) else "-")]
let model_o kind n ops =
  let st = ref (o_init (ni (ios n))) in
  let parts = List.map (fun o ->
      let r = (match o with ORead i -> o_obs_rd (opt_read !st i) | _ -> "-") in
      st := o_step !st o;
      r ^ "|" ^ o_obs_state kind !st) (List.map o_parse_op (list_of_field ops)) in
  String.concat ";" (parts @ ["fin|" ^ o_obs_state kind (o_finish !st)])
let oracle_o kind n ops obs =
  let ops = List.map o_parse_op (list_of_field ops) in
  let steps = List.map (fun s -> match sp '|' s with [r; vs; dis; live] -> (r, List.map o_parse_view (list_of_field vs), dis, live) | _ -> failwith "ostep") (sp ';' obs) in
  if List.length steps <> List.length ops + 1 then false else begin
    let prev = ref (views (o_init (ni (ios n)))) in
    let ok = ref true in
    List.iteri (fun k (r, vs, dis, live) ->
        let live_ok want = if kind = "c" then live = string_of_int want else live = "-" in
        let good =
          if k < List.length ops then begin
            let o = List.nth ops k in
            (* value semantics: the target takes the value (or emptiness) asked for, nobody else changes; no use after free *)
            vs = o_spec_step !prev o && List.for_all view_is_value vs
            (* reading raises exactly on an empty optional and otherwise yields the stored value *)
            && (match o with ORead i -> r = o_obs_rd (o_spec_read !prev i) | _ -> r = "-")
            (* distinct optionals never share storage; one live T per engaged optional (no leak, no early free) *)
            && dis = "1" && live_ok (inn (engaged_count vs))
          end else
            r = "fin" && List.for_all (fun v -> v = VEmpty) vs && List.length vs = List.length !prev && live_ok 0 in
        if not good then ok := false;
        prev := vs) steps;
    !ok
  end

(* ================================================================= env *)
(* an op of an "e" case is a plain operation  s.N.V | u.N | g.N.D | d.N | n.N  (a get is observed at once) or a
   result-holding group  h<form>.<sub>.<sub>...  whose sub-operations use ':' between their fields: the results of ALL
   gets of the group are observed only after every sub-operation (gets, setenv, unsetenv) was made.
   forms r / a / m: the results are bound to `const std::string&` / `auto&&` / alternately; one outcome per get.
   form c: the gets are the arguments of ONE call expression; if any of them raises the call is not made: one "raise". *)
type ecmd = One of eop | Held of char * eop list
let e_parse_fields = function
  | ["s"; n; v] -> ESet (str_of_hex n, str_of_hex v)
  | ["u"; n] -> EUnset (str_of_hex n)
  | ["g"; n; d] -> EGet (str_of_hex n, str_of_hex d)
  | ["d"; n] -> EGetDefaulted (str_of_hex n)
  | ["n"; n] -> EGetNoDefault (str_of_hex n)
  | _ -> failwith "eop"
let e_is_get = function ESet _ | EUnset _ -> false | _ -> true
let e_parse_cmd s = match sp '.' s with
  | h :: subs when String.length h = 2 && h.[0] = 'h' && subs <> [] ->
    let subs = List.map (fun x -> e_parse_fields (sp ':' x)) subs in
    if not (List.mem h.[1] ['r'; 'a'; 'm'; 'c']) then failwith "eform";
    if h.[1] = 'c' && not (List.for_all e_is_get subs) then failwith "ecall";
    Held (h.[1], subs)
  | f -> One (e_parse_fields f)
let e_obs_res = function EOk v -> "v" ^ hex_of_str v | ERaise -> "raise"
let e_parse_res s = if s = "raise" then ERaise else if s.[0] = 'v' then EOk (str_of_hex (String.sub s 1 (String.length s - 1))) else failwith "eres"
(* model: the history model of Own/Env.v — every get creates result object k, HRead k looks at it later *)
let model_e ops =
  let st = ref (h_init []) in
  let nres = ref 0 in
  let out = ref [] in
  let step o = let (st', r) = h_step !st o in st := st'; r in
  let do_op o = ignore (step (HOp o)); if e_is_get o then (incr nres; Some (!nres - 1)) else None in
  let read k = match step (HRead (nat_of_int k)) with Some r -> r | None -> failwith "model_e: no such result" in
  List.iter (fun c -> match c with
      | One o -> (match do_op o with Some k -> out := e_obs_res (read k) :: !out | None -> ())
      | Held (form, subs) ->
        let ks = List.filter_map do_op subs in
        let rs = List.map read ks in
        if form = 'c' && List.mem ERaise rs then out := "raise" :: !out
        else List.iter (fun r -> out := e_obs_res r :: !out) rs)
    (List.map e_parse_cmd (list_of_field ops));
  field_of_list (List.rev !out)
(* oracle: the three clauses, judged against the environment AT THE MOMENT OF EACH GET (tracked here with
   env_set / env_unset); a held result must still be that text when it is finally observed *)
let oracle_e ops obs =
  let cmds = List.map e_parse_cmd (list_of_field ops) in
  let outs = ref (List.map e_parse_res (list_of_field obs)) in
  let env = ref [] in
  let ok = ref true in
  let take () = match !outs with x :: r -> outs := r; Some x | [] -> ok := false; None in
  let want o = match o with
    | EGet (n, d) -> Some (env_lookup !env n, Some d)
    | EGetDefaulted n -> Some (env_lookup !env n, Some [])
    | EGetNoDefault n -> Some (env_lookup !env n, None)
    | ESet (n, v) -> env := env_set !env n v; None
    | EUnset n -> env := env_unset !env n; None in
  let judge (cur, d) = match take () with Some r -> if not (env_spec_ok cur d r) then ok := false | None -> () in
  List.iter (fun c -> match c with
      | One o -> (match want o with Some w -> judge w | None -> ())
      | Held ('c', subs) ->
        let ws = List.filter_map want subs in
        if List.exists (fun (cur, d) -> cur = None && d = None) ws
        then (match take () with Some ERaise -> () | _ -> ok := false)
        else List.iter judge ws
      | Held (_, subs) ->
        let ws = List.filter_map want subs in   (* the environment of each get's own moment *)
        List.iter judge ws) cmds;
  !ok && !outs = []

(* ================================================================= dl *)
(* the world of the harness: file 0 = libvdl_a.so, 1 = libvdl_b.so, 2 = the program itself, >= 3 missing;
   symbol 0 = vdl_f (a, b), 1 = vdl_g (a, b AND, as a different function, the program), 2 = vdl_only_a (a),
   3 = vdl_self (program), 4 = vdl_null (a: DEFINED with the value NULL — found, never called), >= 5 missing *)
let d_world = { lib_exists = (fun f -> inn f < 3);
                sym_exists = (fun lib s -> let l = inn lib and s = inn s in (l < 2 && s < 2) || (l = 0 && (s = 2 || s = 4)) || (l = 2 && (s = 3 || s = 1))) }
let d_fun lib s x = match lib, s with
  | 0, 0 -> x + 100 | 0, 1 -> 2 * x + 1 | 0, 2 -> x * x + 7
  | 1, 0 -> x + 200 | 1, 1 -> 3 * x + 2
  | 2, 3 -> x + 900
  | 2, 1 -> x + 7000      (* the program has its own, different vdl_g *)
  | _ -> -1
(* wire operations of a dl case: a model operation (quiet = the handler does not read the diagnostic at once), a scoped
   open+load with the dl object INSIDE the try block (expands to DOpen t f; DLoad i t s; DDrop t on a scratch slot t), or a
   later read of the k-th caught exception *)
type dwire = WOp of dop * bool | WScoped of nat * nat * nat * nat * bool | WRead of nat
           | WTemp of nat * nat * nat * nat   (* load on a temporary copy of library object j (scratch slot t): DCopy t j; DLoad i t s; DDrop t *)
let d_parse_wire s = match sp '.' s with
  | ["op"; i; f] -> WOp (DOpen (ni (ios i), ni (ios f)), false)
  | ["oq"; i; f] -> WOp (DOpen (ni (ios i), ni (ios f)), true)
  | ["ld"; i; j; s] -> WOp (DLoad (ni (ios i), ni (ios j), ni (ios s)), false)
  | ["lq"; i; j; s] -> WOp (DLoad (ni (ios i), ni (ios j), ni (ios s)), true)
  (* the value category of the library object (named lvalue / std::move(named) / temporary) is a driver-side dimension:
     the model has ONE load, on the handle *)
  | [("lm" | "lg"); i; j; s] -> WOp (DLoad (ni (ios i), ni (ios j), ni (ios s)), false)   (* lg: symbol<T>(lib.get(), name) *)
  | ["lt"; i; j; t; s] -> WTemp (ni (ios i), ni (ios j), ni (ios t), ni (ios s))
  | ["tc"; i; t; f; s] -> WScoped (ni (ios i), ni (ios t), ni (ios f), ni (ios s), false)
  | ["tq"; i; t; f; s] -> WScoped (ni (ios i), ni (ios t), ni (ios f), ni (ios s), true)
  | ["sc"; i; t; f; s] -> WScoped (ni (ios i), ni (ios t), ni (ios f), ni (ios s), false)
  | ["sq"; i; t; f; s] -> WScoped (ni (ios i), ni (ios t), ni (ios f), ni (ios s), true)
  | ["rx"; k] -> WRead (ni (ios k))
  | ["gt"; i; j] -> WOp (DGet (ni (ios i), ni (ios j)), false)
  | ["cp"; i; j] -> WOp (DCopy (ni (ios i), ni (ios j)), false)
  | ["mv"; i; j] -> WOp (DMove (ni (ios i), ni (ios j)), false)
  | ["as"; i; j] -> WOp (DAssign (ni (ios i), ni (ios j)), false)
  | ["ma"; i; j] -> WOp (DMoveAssign (ni (ios i), ni (ios j)), false)
  | ["sw"; i; j] -> WOp (DSwap (ni (ios i), ni (ios j)), false)
  | ["dr"; i] -> WOp (DDrop (ni (ios i)), false)
  | ["cl"; i; x] -> WOp (DCall (ni (ios i), ni (ios x)), false)
  | ["st"; f] -> WOp (DStale (ni (ios f)), false)
  | _ -> failwith "dop"
(* the diagnostic the loader produces for the failure this operation provokes *)
let d_expected_diag st o = match o with
  | DOpen (_, f) -> Some (DgOpen f)
  | DLoad (_, j, s) -> (match slot_owner st j with
      | Some (OLib (Some h)) -> (match nth_error st.hs h with Some r -> Some (DgSym (r.hlib, s)) | None -> None)
      | _ -> None)
  | _ -> None
let d_obs_res ?(quiet = false) st o = function
  | DOk -> "ok" | DSkip -> "skip"
  | DRaise dle -> if quiet then "raise:-" else if dle <> None && dle = d_expected_diag st o then "raise:1" else "raise:0"
  | DCallOk (lib, s, x) -> "call:" ^ string_of_int (d_fun (inn lib) (inn s) (inn x))
  | DUnmapped -> "unmapped"
(* an owner is shown as its kind and the handle its shared_ptr refers to, "~" when it is null (moved from) *)
let d_obs_h = function Some h -> string_of_int (inn h) | None -> "~"
let d_obs_state st =
  let hsl = List.map (fun r -> string_of_int (inn r.hlib) ^ ":" ^ string_of_int (inn r.closes)) st.hs in
  let sl = List.map (function None -> "-" | Some (OLib h) -> "L" ^ d_obs_h h
                              | Some (OSym (h, _, _)) -> "S" ^ d_obs_h h | Some (ORaw h) -> "R" ^ d_obs_h h) st.slots in
  String.concat "|" [field_of_list hsl; field_of_list sl; "nc=" ^ string_of_int (inn st.null_closes)]
let model_d n ops =
  let xs = ref (x_init (ni (ios n))) in
  let expected = ref [] in     (* per caught exception: the diagnostic the loader produced for that failure *)
  let run_op o quiet =
    let before = !xs.xd in
    let (xs', r) = x_step d_world !xs (XOp o) in
    xs := xs';
    (match r with
     | XRes (DRaise _ as rr) -> expected := !expected @ [d_expected_diag before o]; d_obs_res ~quiet before o rr
     | XRes rr -> d_obs_res before o rr
     | XDiag _ -> "?") in
  let parts = List.map (fun wop ->
      let s = (match wop with
        | WOp (DCall (i, _), _) when (match slot_owner !xs.xd i with Some (OSym (Some _, _, s)) -> inn s = 4 | _ -> false) ->
            "nullsym"     (* a symbol whose address is NULL exists and owns its library, but is never called *)
        | WOp (o, quiet) -> run_op o quiet
        | WScoped (i, t, f, sy, quiet) ->
            if not (slot_empty !xs.xd i && slot_empty !xs.xd t && i <> t) then "skip"
            else begin
              let r1 = run_op (DOpen (t, f)) quiet in
              if r1 <> "ok" then r1
              else begin
                let r2 = run_op (DLoad (i, t, sy)) quiet in
                ignore (run_op (DDrop t) false); r2
              end
            end
        | WTemp (i, j, t, sy) ->
            if not (slot_empty !xs.xd i && slot_empty !xs.xd t && i <> t
                    && (match slot_owner !xs.xd j with Some (OLib (Some _)) -> true | _ -> false)) then "skip"
            else begin
              ignore (run_op (DCopy (t, j)) false);
              let r2 = run_op (DLoad (i, t, sy)) false in
              ignore (run_op (DDrop t) false); r2
            end
        | WRead k ->
            (match snd (x_step d_world !xs (XRead k)) with
             | XDiag (Some dle) -> "diag:" ^ (if dle <> None && dle = List.nth !expected (inn k) then "1" else "0") ^ "11"
             | _ -> "skip")) in
      s ^ "|" ^ d_obs_state !xs.xd) (List.map d_parse_wire (list_of_field ops)) in
  String.concat ";" (parts @ ["fin|" ^ d_obs_state (d_finish !xs.xd)])
(* observation -> dstate as far as observable (use counts are not; which function a symbol object holds is not) *)
let d_parse_step s = match sp '|' s with
  | [r; hsl; sl; nc] ->
      let hs = List.map (fun x -> match sp ':' x with [l; c] -> { hlib = ni (ios l); refs = ni 0; closes = ni (ios c) } | _ -> failwith "h") (list_of_field hsl) in
      let slots = List.map (fun x -> if x = "-" then None else
                              let hs = String.sub x 1 (String.length x - 1) in
                              let h = if hs = "~" then None else Some (ni (ios hs)) in
                              match x.[0] with 'L' -> Some (OLib h) | 'S' -> Some (OSym (h, ni 0, ni 0)) | 'R' -> Some (ORaw h) | _ -> failwith "slot") (list_of_field sl) in
      let nc = if String.length nc > 3 && String.sub nc 0 3 = "nc=" then ios (String.sub nc 3 (String.length nc - 3)) else failwith "nc" in
      (r, { hs = hs; slots = slots; pend = None; null_closes = ni nc })
  | _ -> failwith "dstep"
let rec d_hs_extends a b = match a, b with
  | [], _ -> true
  | x :: r, y :: r' -> x.hlib = y.hlib && inn x.closes <= inn y.closes && d_hs_extends r r'
  | _ :: _, [] -> false
let d_null_of = function OLib _ -> OLib None | OSym (_, a, b) -> OSym (None, a, b) | ORaw _ -> ORaw None
let d_same_kind a b = match a, b with OLib _, OLib _ | OSym _, OSym _ | ORaw _, ORaw _ -> true | _ -> false
(* all slots except the listed ones are unchanged *)
let d_others_same prev cur except =
  List.length prev = List.length cur &&
  List.for_all (fun k -> List.mem k except || List.nth prev k = List.nth cur k) (List.init (List.length prev) (fun k -> k))
let oracle_d n ops obs =
  let ops = List.map d_parse_wire (list_of_field ops) in
  let steps = List.map d_parse_step (sp ';' obs) in
  if List.length steps <> List.length ops + 1 then false else begin
    let prev = ref (d_init (ni (ios n))) in
    (* which function (symbol name) each symbol slot holds is the oracle's own bookkeeping of the case: it follows the
       value semantics the property demands of copies and assignments *)
    let names = Array.make (ios n) (-1) in
    let ncaught = ref 0 in      (* exceptions the implementation raised so far *)
    let ok = ref true in
    List.iteri (fun k (r, st) ->
        let same_hs = st.hs = !prev.hs in
        let len_hs = List.length st.hs = List.length !prev.hs in
        let unchanged = same_hs && st.slots = !prev.slots in
        let good =
          if k < List.length ops then begin
            let wop = List.nth ops k in
            let quiet = (match wop with WOp (_, q) -> q | WScoped (_, _, _, _, q) -> q | WRead _ | WTemp _ -> false) in
            let raised = if quiet then "raise:-" else "raise:1" in   (* the dl exception, with the diagnostic when read at once *)
            if String.length r >= 5 && String.sub r 0 5 = "raise" then incr ncaught;
            let own i = slot_owner !prev i in
            let now i = nth_error st.slots i in
            (* every handle: closed at most once, and closed exactly when no owner object is left; dlclose(NULL) never *)
            d_state_ok st && d_hs_extends !prev.hs st.hs && List.length st.slots = List.length !prev.slots
            && (match wop with
             | WRead kx ->
                 (* a caught exception carries the diagnostic of ITS failure and what() names the file/symbol, the same
                    text whenever it is read *)
                 (if inn kx < !ncaught then r = "diag:111" else r = "skip") && unchanged
             | WTemp (i, j, t, sy) ->
                 (* a symbol loaded through a temporary copy of the library object is a symbol of that library: same
                    function, one more owner of the same handle; nothing else changes *)
                 (match own j with
                  | Some (OLib (Some h)) when slot_empty !prev i && slot_empty !prev t && i <> t ->
                      let lib = (match nth_error !prev.hs h with Some rr -> rr.hlib | None -> ni 99) in
                      if d_world.sym_exists lib sy then
                        (names.(inn i) <- inn sy;
                         r = "ok" && same_hs && now i = Some (Some (OSym (Some h, ni 0, ni 0))) && d_others_same !prev.slots st.slots [inn i])
                      else r = raised && unchanged
                  | _ -> r = "skip" && unchanged)
             | WScoped (i, t, f, sy, _) ->
                 if not (slot_empty !prev i && slot_empty !prev t && i <> t) then r = "skip" && unchanged
                 else if not (d_world.lib_exists f) then r = raised && unchanged
                 else if d_world.sym_exists f sy then
                   (* the symbol outlives the scoped library object: one new handle, still mapped, owned by the symbol *)
                   (names.(inn i) <- inn sy;
                    r = "ok" && List.length st.hs = List.length !prev.hs + 1
                    && now i = Some (Some (OSym (Some (ni (List.length !prev.hs)), ni 0, ni 0)))
                    && d_others_same !prev.slots st.slots [inn i])
                 else
                   (* failed look-up inside the scope: the exception, and the library opened in the scope is closed again *)
                   r = raised && List.length st.hs = List.length !prev.hs + 1 && st.slots = !prev.slots
             | WOp (o, _) ->
               (match o with
                | DOpen (i, f) when slot_empty !prev i ->
                    if d_world.lib_exists f then
                      r = "ok" && List.length st.hs = List.length !prev.hs + 1
                      && (match now i with Some (Some (OLib (Some h))) -> inn h = List.length !prev.hs | _ -> false)
                      && d_others_same !prev.slots st.slots [inn i]
                    else (* failed open: dl exception with the diagnostic, nothing created, nothing closed *)
                      r = raised && unchanged
                | DLoad (i, j, s) when slot_empty !prev i && (match own j with Some (OLib (Some _)) -> true | _ -> false) ->
                    let h = (match own j with Some (OLib (Some h)) -> h | _ -> ni 0) in
                    let lib = (match nth_error !prev.hs h with Some rr -> rr.hlib | None -> ni 99) in
                    if d_world.sym_exists lib s then
                      (names.(inn i) <- inn s;
                       r = "ok" && same_hs && now i = Some (Some (OSym (Some h, ni 0, ni 0))) && d_others_same !prev.slots st.slots [inn i])
                    else (* failed look-up: dl exception with the diagnostic, the library and every owner stay as they were *)
                      r = raised && unchanged
                | DCall (i, x) ->
                    (match own i with
                     | Some (OSym (Some h, _, _)) ->
                         (* an owning symbol can be called: the library of the function it holds is mapped *)
                         let lib = (match nth_error !prev.hs h with Some rr -> inn rr.hlib | None -> 99) in
                         (if names.(inn i) = 4 then r = "nullsym" else r = "call:" ^ string_of_int (d_fun lib names.(inn i) (inn x))) && unchanged
                     | _ -> r = "skip" && unchanged)
                | DGet (i, j) when slot_empty !prev i && (match own j with Some (OLib _) -> true | _ -> false) ->
                    let h = (match own j with Some (OLib h) -> h | _ -> None) in
                    r = "ok" && same_hs && now i = Some (Some (ORaw h)) && d_others_same !prev.slots st.slots [inn i]
                | DCopy (i, j) when slot_empty !prev i && own j <> None ->
                    names.(inn i) <- names.(inn j);
                    r = "ok" && same_hs && now i = nth_error !prev.slots j && d_others_same !prev.slots st.slots [inn i]
                | DMove (i, j) when slot_empty !prev i && own j <> None ->
                    names.(inn i) <- names.(inn j);
                    r = "ok" && same_hs && now i = nth_error !prev.slots j
                    && (match own j with Some b -> now j = Some (Some (d_null_of b)) | None -> false)
                    && d_others_same !prev.slots st.slots [inn i; inn j]
                | DAssign (i, j) when (match own i, own j with Some a, Some b -> d_same_kind a b | _ -> false) ->
                    (* the target becomes an owner of what the source owns; the source keeps it; the target's previous
                       library is closed exactly if nobody else owns it (d_state_ok) *)
                    names.(inn i) <- names.(inn j);
                    r = "ok" && len_hs && now i = nth_error !prev.slots j && d_others_same !prev.slots st.slots [inn i]
                | DMoveAssign (i, j) when (match own i, own j with Some a, Some b -> d_same_kind a b | _ -> false) ->
                    if i = j then r = "ok" && unchanged
                    else begin
                      names.(inn i) <- names.(inn j);
                      r = "ok" && len_hs && now i = nth_error !prev.slots j
                      && (match own j with Some b -> now j = Some (Some (d_null_of b)) | None -> false)
                      && d_others_same !prev.slots st.slots [inn i; inn j]
                    end
                | DSwap (i, j) when (match own i, own j with Some a, Some b -> d_same_kind a b | _ -> false) ->
                    let t = names.(inn i) in names.(inn i) <- names.(inn j); names.(inn j) <- t;
                    r = "ok" && same_hs && now i = nth_error !prev.slots j && now j = nth_error !prev.slots i
                    && d_others_same !prev.slots st.slots [inn i; inn j]
                | DDrop i when own i <> None ->
                    r = "ok" && len_hs && now i = Some None && d_others_same !prev.slots st.slots [inn i]
                | DStale _ -> r = "ok" && unchanged
                | _ -> r = "skip" && unchanged))
          end else
            (* complete history: every handle ever opened has been closed exactly once *)
            r = "fin" && d_state_ok st && List.length st.hs = List.length !prev.hs && d_hs_extends !prev.hs st.hs
            && all_closed_once st && List.for_all (fun s -> s = None) st.slots in
        if not good then ok := false;
        prev := st) steps;
    !ok
  end

(* ================================================================= dispatch *)
(* a trailing word "lsan" asks the C++ side for a LeakSanitizer pass after the case; it does not change the case *)
let strip_lsan w = match List.rev w with "lsan" :: r -> List.rev r | _ -> w
(* every observation line starts with a one-letter kind word (Q, O, E, D) and a blank *)
let model w = match strip_lsan w with
  | ["q"; n; ops] -> "Q " ^ model_q n ops
  | ["o"; kind; n; ops] -> "O " ^ model_o kind n ops
  | ["e"; ops] -> "E " ^ model_e ops
  | ["d"; n; ops] -> "D " ^ model_d n ops
  | _ -> "BADCASE"
let oracle case obs =
  let body k = if String.length obs >= 2 && String.sub obs 0 2 = k ^ " " then String.sub obs 2 (String.length obs - 2) else failwith "kind" in
  match strip_lsan case with
  | ["q"; n; ops] -> oracle_q n ops (body "Q")
  | ["o"; kind; n; ops] -> oracle_o kind n ops (body "O")
  | ["e"; ops] -> oracle_e ops (body "E")
  | ["d"; n; ops] -> oracle_d n ops (body "D")
  | _ -> false
let () = run_driver model oracle

(* usage_driver.ml — model and oracle side of the usage-text cluster (C15).
   Case formats: see harness/usage_driver.cpp. *)
let fields (s : string) : string list = String.split_on_char ':' s

exception Bad_case

(* the declaration record of the model, and the long toggles in the requested address order *)
let decl_of_case (w : string list) : decl * odecl list =
  match w with
  | "U" :: app :: about :: defname :: pos :: posname :: _prior :: groups :: opts ->
    let gdefs = if groups = "." then [] else
        List.map (fun g -> match fields g with
            | [n; d] -> (str_of_hex n, str_of_hex d, false)
            | [n; d; "L"] -> (str_of_hex n, str_of_hex d, true)     (* created late: after the groups that are not *)
            | _ -> raise Bad_case)
          (String.split_on_char ',' groups) in
    let ng = List.length gdefs in
    let per_group = Array.make (ng + 1) [] in
    let longs = ref [] in
    (* pos is 0 | 1 | a<k>, optionally followed by ":<hist>": the parse() history is no input of the usage text *)
    let pos = List.hd (fields pos) in
    if not (pos = "0" || pos = "1" || (String.length pos > 1 && pos.[0] = 'a')) then raise Bad_case;
    let pos = if pos = "0" || pos = "a0" then "0" else "1" in
    (* options with an upper-case kind letter are declared late (after a first usage() call): they come after the
       others in their group's declaration order, and that is all the difference *)
    let is_late o = o <> "" && o.[0] >= 'A' && o.[0] <= 'Z' in
    let opts = List.filter (fun o -> not (is_late o)) opts @ List.filter is_late opts in
    (* a word of kind r re-requests an option that is already declared (same name, kind and group): it adds nothing to the
       declaration order; the setters applied to the returned object update that one declaration.  The description passed
       with a re-request is ignored *)
    let by_name : (str, odecl ref) Hashtbl.t = Hashtbl.create 16 in
    List.iter (fun o ->
        match fields o with
        | [k; gi; name; short; descr; env; metavar; dflt; flag; rank] ->
          let k = String.lowercase_ascii k in
          let gi = int_of_string gi in
          if gi < 0 || gi > ng then raise Bad_case;
          let short = (if short = "-" then None else (match str_of_hex short with [c] -> Some c | _ -> raise Bad_case)) in
          let flag = (flag = "1") in
          let rest s = String.sub s 1 (String.length s - 1) in
          (* a toggle default 0|1 (default_value(bool)) or i<k> (default_value(int): enabled iff k <> 0); n = not set *)
          let tdefault d0 = if dflt = "0" then false else if dflt = "1" then true
            else if dflt.[0] = 'i' then int_of_string (rest dflt) <> 0 else d0 in
          (* k: the same as r, through the reference kept from the first request *)
          if k = "r" || k = "k" then begin
            let r = (try Hashtbl.find by_name (str_of_hex name) with Not_found -> raise Bad_case) in
            let upd b = { b with b_short = (match short with Some _ -> short | None -> b.b_short);
                                 b_env = (if env = "-" then b.b_env else str_of_hex env);
                                 b_metavar = (if metavar = "-" then b.b_metavar else str_of_hex metavar) } in
            r := (match !r with
                | DOption (b, d0, opt) -> DOption (upd b, (if dflt.[0] = 's' then Some (str_of_hex (rest dflt)) else d0), opt || flag)
                | DMulti (b, d0, opt) -> DMulti (upd b, (if dflt.[0] = 'l' then Some (strs_of_wire (rest dflt)) else d0), opt || flag)
                | DToggle (b, rev, d0) -> DToggle (upd b, rev || flag, tdefault d0))
          end else begin
            let b = { b_name = str_of_hex name; b_short = short;
                      b_descr = str_of_hex descr; b_env = str_of_hex env; b_metavar = str_of_hex metavar } in
            let od = match k with
              | "o" -> DOption (b, (if dflt.[0] = 's' then Some (str_of_hex (rest dflt)) else None), flag)
              | "m" -> DMulti (b, (if dflt.[0] = 'l' then Some (strs_of_wire (rest dflt)) else None), flag)
              | "t" -> DToggle (b, flag, tdefault false)
              | _ -> raise Bad_case in
            let r = ref od in
            Hashtbl.replace by_name b.b_name r;
            per_group.(gi) <- r :: per_group.(gi);
            if rank <> "-" then longs := (int_of_string rank, r) :: !longs
          end
        | _ -> raise Bad_case) opts;
    let per_group = Array.map (List.map (fun r -> !r)) per_group in
    let longs = ref (List.map (fun (k, r) -> (k, !r)) !longs) in
    let d = { d_app = str_of_hex app; d_about = str_of_hex about;
              d_default = { g_name = str_of_hex defname; g_descr = []; g_opts = List.rev per_group.(0) };
              d_groups = (let gs = List.mapi (fun i (n, ds, late) -> (late, { g_name = n; g_descr = ds; g_opts = List.rev per_group.(i + 1) })) gdefs in
                          List.map snd (List.filter (fun (l, _) -> not l) gs) @ List.map snd (List.filter fst gs));
              d_positionals = (pos = "1"); d_posname = str_of_hex posname } in
    let lt = List.map snd (List.sort (fun (a, _) (b, _) -> compare a b) !longs) in
    (d, lt)
  | _ -> raise Bad_case

let model = function
  | ("U" :: _) as w ->
    (try
       let (d, lt) = decl_of_case w in
       (* the case must rank exactly the toggles that are listed in long form *)
       if List.length lt <> List.length (long_toggles d) || not (List.for_all is_long_toggle lt) then "BADCASE-RANKS"
       else "T " ^ hex_of_str (usage d lt)
     with Bad_case -> "BADCASE")
  | ["F"; indent; lp; mw; text] ->
    "F " ^ hex_of_str (format_padded (z_of_int (int_of_string indent)) (str_of_hex text)
                         (nat_of_int (int_of_string lp)) (nat_of_int (int_of_string mw)))
  | _ -> "BADCASE"

let rec take n l = if n <= 0 then [] else match l with [] -> [] | x :: r -> x :: take (n - 1) r
let rec drop n l = if n <= 0 then l else match l with [] -> [] | _ :: r -> drop (n - 1) r

(* the oracle judges the IMPLEMENTATION's text by the spec (UsageSpec.v):
   (1) all stream kinds received the same text (the C++ driver reports a difference as STREAMS-DIFFER);
   (2)+(3) the layout-free token sequence is exactly what the declaration dictates: synopsis tokens in any order
           of the synopsis entries, then about text, then groups in creation order with each option block once, in
           declaration order, spelling + placeholder + description + environment hint + default, no word lost or reordered;
   (4) the STRICT width rule (UsageSpec.strip_ok): a line wider than max_width must END with an unbreakable word, and the line
       without that word and its blank is judged again, down to a beginning of at most max_width columns (or a developer-supplied line /
       the pre-existing left column). *)
let oracle case obs =
  match case, words obs with
  | ("U" :: _), ["T"; h] ->
    let (d, lt) = decl_of_case case in
    let t = str_of_hex h in
    let toks = tokens t in
    let syn = syn_tokens d lt and body = body_tokens d in
    let n = List.length syn in
    let head = tokens (str_of_hex "75736167653a20" @ d.d_app) in   (* "usage: " ++ app *)
    let k = List.length head in
    List.length toks = n + List.length body
    && take k toks = head
    && List.sort compare (take n toks) = List.sort compare syn
    && drop n toks = body
    && check_width d lt t
  | ["F"; indent; lp; mw; text], ["F"; h] ->
    let out = str_of_hex h and text = str_of_hex text and indent = int_of_string indent in
    check_fp_tokens text out
    && (indent < 0
        || check_fp_width (List.init indent (fun _ -> byte_of_int 0x23)) text
             (nat_of_int (int_of_string lp)) (nat_of_int (int_of_string mw)) out)
  | _ -> false
let () = run_driver model oracle

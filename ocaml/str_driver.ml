(* str_driver.ml — model and oracle side of the string cluster (C17) *)
let obs_opt_list = function None -> "RAISE" | Some l -> "L " ^ wire_of_strs l
let model = function
  | ["split"; n; s] -> obs_opt_list (split (str_of_hex n) (str_of_hex s))
  | ["replace"; p; r; s] -> (match replace_all (str_of_hex p) (str_of_hex r) (str_of_hex s) with None -> "HANG" | Some x -> "S " ^ hex_of_str x)
  | ["replacea"; m; a; b] ->
      let a = str_of_hex a and b = str_of_hex b in
      let (p, r, s) = (match m with "1" -> (a, b, a) | "2" -> (b, a, a) | _ -> (a, a, a)) in
      (match replace_all p r s with None -> "HANG" | Some x -> "S " ^ hex_of_str x)
  | ["joinn"; i; inner; rows] ->
      let rs = if rows = "." then [] else List.map strs_of_wire (String.split_on_char '/' rows) in
      "S " ^ hex_of_str (join (str_of_hex i) (List.map (join (str_of_hex inner)) rs))
  | ["joinh"; i; l] ->
      let ints = if l = "." then [] else List.map int_of_string (String.split_on_char ',' l) in
      let bytes_of s = List.map (fun c -> byte_of_int (Char.code c)) (List.of_seq (String.to_seq s)) in
      "S " ^ hex_of_str (join (str_of_hex i) (List.map (fun d -> bytes_of (Printf.sprintf "%Lx" (Int64.of_int d))) ints))
      ^ " " ^ hex_of_str (join (str_of_hex i) (List.map (fun d -> bytes_of (string_of_int d)) ints))
  | ["joinc"; i; t] -> "S " ^ hex_of_str (join (str_of_hex i) (List.map (fun b -> [b]) (str_of_hex t)))
  | ["joind"; l] -> "S " ^ hex_of_str (join [byte_of_int 32] (strs_of_wire l))
  | ["joinw"; i; l] -> "S " ^ hex_of_str (join (str_of_hex i) (strs_of_wire l))
  | ["starts"; f; p] -> if starts_with (str_of_hex f) (str_of_hex p) then "B 1" else "B 0"
  | ["join"; i; l] -> "S " ^ hex_of_str (join (str_of_hex i) (strs_of_wire l))
  | ["joini"; i; l] ->
      let ints = if l = "." then [] else String.split_on_char ',' l in
      let strs = List.map (fun d -> List.map (fun c -> byte_of_int (Char.code c)) (List.of_seq (String.to_seq (string_of_int (int_of_string d))))) ints in
      "S " ^ hex_of_str (join (str_of_hex i) strs)
  | _ -> "BADCASE"
(* the oracle judges an observation by the SPEC, not by the model *)
let oracle case obs =
  match case, words obs with
  | ["split"; n; _], ["RAISE"] -> str_of_hex n = []
  | ["split"; n; s], ["L"; w] ->
      let n = str_of_hex n and s = str_of_hex s and l = strs_of_wire w in
      n <> [] && intercalate n l = s && List.for_all (fun p -> not (contains n p)) l
      && List.length l = 1 + int_of_nat (count_nonoverlapping n s)
  | ["replace"; p; r; s], ["S"; x] -> str_of_hex x = spec_replace (str_of_hex p) (str_of_hex r) (str_of_hex s)
  | ["replacea"; m; a; b], ["S"; x] ->
      let a = str_of_hex a and b = str_of_hex b in
      let (p, r, s) = (match m with "1" -> (a, b, a) | "2" -> (b, a, a) | _ -> (a, a, a)) in
      str_of_hex x = spec_replace p r s
  | ["joinn"; i; inner; rows], ["S"; x] ->
      let rs = if rows = "." then [] else List.map strs_of_wire (String.split_on_char '/' rows) in
      str_of_hex x = spec_join (str_of_hex i) (List.map (spec_join (str_of_hex inner)) rs)
  | ["joinh"; i; l], ["S"; a; b] ->
      let ints = if l = "." then [] else List.map int_of_string (String.split_on_char ',' l) in
      let bytes_of s = List.map (fun c -> byte_of_int (Char.code c)) (List.of_seq (String.to_seq s)) in
      str_of_hex a = spec_join (str_of_hex i) (List.map (fun d -> bytes_of (Printf.sprintf "%Lx" (Int64.of_int d))) ints)
      && str_of_hex b = spec_join (str_of_hex i) (List.map (fun d -> bytes_of (string_of_int d)) ints)
  | ["joinc"; i; t], ["S"; x] -> str_of_hex x = spec_join (str_of_hex i) (List.map (fun b -> [b]) (str_of_hex t))
  | ["joind"; l], ["S"; x] -> str_of_hex x = spec_join [byte_of_int 32] (strs_of_wire l)
  | ["joinw"; i; l], ["S"; x] -> str_of_hex x = spec_join (str_of_hex i) (strs_of_wire l)
  | ["starts"; f; p], ["B"; b] -> (b = "1") = prefixb (str_of_hex p) (str_of_hex f)
  | ["join"; i; l], ["S"; x] -> str_of_hex x = spec_join (str_of_hex i) (strs_of_wire l)
  | ["joini"; i; l], ["S"; x] ->
      let ints = if l = "." then [] else String.split_on_char ',' l in
      let strs = List.map (fun d -> List.map (fun c -> byte_of_int (Char.code c)) (List.of_seq (String.to_seq (string_of_int (int_of_string d))))) ints in
      str_of_hex x = spec_join (str_of_hex i) strs
  | _ -> false
let () = run_driver model oracle

(* glue_sub.ml — substring search helper *)
module Str_split = struct
  let find_sub (s : string) (sub : string) : int option =
    let n = String.length s and m = String.length sub in
    let rec go i = if i + m > n then None else if String.sub s i m = sub then Some i else go (i + 1) in
    go 0
end

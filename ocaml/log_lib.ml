(* log_lib.ml — shared by log_driver.ml (C05) and log_c10_driver.ml (C10): wire format of log programs,
   the model's trace (extracted exec_prog) and the spec's trace (extracted spec_prog), rendered as tokens.
   Appended after log_model.ml, glue_base.ml, glue_z.ml. *)
exception Bad

let sev_of_int = function 0 -> Trace | 1 -> Debug | 2 -> Info | 3 -> Warn | 4 -> Error | 5 -> Fatal | _ -> raise Bad
let int_of_sev = function Trace -> 0 | Debug -> 1 | Info -> 2 | Warn -> 3 | Error -> 4 | Fatal -> 5
let digit c lim = let d = Char.code c - 48 in if d < 0 || d >= lim then raise Bad else d

(* decimal text -> positive without going through OCaml's 63-bit int: halve the digit string repeatedly *)
let pos_of_decimal (s : string) : positive =
  let ds = ref (List.map (fun c -> digit c 10) (List.init (String.length s) (String.get s))) in
  let is_zero l = List.for_all (fun d -> d = 0) l in
  let halve l = (* l / 2 and l mod 2 *)
    let r = ref 0 in
    let q = List.map (fun d -> let x = !r * 10 + d in r := x mod 2; x / 2) l in (q, !r) in
  let bits = ref [] in
  while not (is_zero !ds) do let (q, r) = halve !ds in bits := r :: !bits; ds := q done;
  (* !bits: most significant first, starts with 1 *)
  match !bits with
  | [] -> raise Bad
  | _ :: rest -> List.fold_left (fun p b -> if b = 1 then XI p else XO p) XH rest
let z_of_decimal (s : string) : z =
  if s = "" then raise Bad else
  let neg = s.[0] = '-' in
  let body = if neg then String.sub s 1 (String.length s - 1) else s in
  if body = "" then raise Bad
  else if String.for_all (fun c -> c = '0') body then Z0
  else if neg then Zneg (pos_of_decimal body) else Zpos (pos_of_decimal body)

(* filter expression, prefix notation: Z | T<k> | A x y | O x y | N x *)
let parse_fexpr (s : string) : fexpr =
  let n = String.length s in
  let rec go i =
    if i >= n then raise Bad else
    match s.[i] with
    | 'Z' -> (FNull, i + 1)
    | 'T' -> if i + 1 >= n then raise Bad else (FThr (nat_of_int (digit s.[i+1] 10)), i + 2)
    | 'G' | 'H' -> (* user-written tag filters: G<k> passes exactly the tag tag_text k, H<k> rejects exactly it *)
        if i + 1 >= n then raise Bad else
        let t = (match s.[i+1] with '0' -> "tg" | '1' -> "" | _ -> raise Bad) in
        (FTag (s.[i] = 'G', List.init (String.length t) (fun j -> byte_of_int (Char.code t.[j]))), i + 2)
    | 'N' -> let (a, j) = go (i + 1) in (FNot a, j)
    | 'A' -> let (a, j) = go (i + 1) in let (b, k) = go j in (FAnd (a, b), k)
    | 'O' -> let (a, j) = go (i + 1) in let (b, k) = go j in (FOr (a, b), k)
    | _ -> raise Bad in
  let (f, j) = go 0 in if j <> n then raise Bad else f

(* record types: A = record with a tag attribute (id 0), B = record without one (id 1) *)
let rec_id (c : char) : nat = match c with 'A' -> nat_of_int 0 | 'B' -> nat_of_int 1 | _ -> raise Bad
(* sink shape: c | v | r leaves, ( … ) a sequence, possibly nested; the top level is a sequence *)
let parse_sinks (s : string) : sinks =
  let n = String.length s in
  let rec go i =
    if i >= n then raise Bad else
    match s.[i] with
    | 'c' -> (SLeaf MConstRef, i + 1)
    | 'v' -> (SLeaf MByValue, i + 1)
    | 'r' -> (SLeaf MRvalue, i + 1)
    | '(' -> let rec members i acc =
               if i >= n then raise Bad
               else if s.[i] = ')' then (SSeq (List.rev acc), i + 1)
               else let (m, j) = go i in members j (m :: acc) in
             members (i + 1) []
    | _ -> raise Bad in
  let (t, j) = go 0 in
  (match t with SSeq _ when j = n -> t | _ -> raise Bad)
(* "<idx>/<filter>/<sink shape>/<record type>" *)
let parse_logger (w : string) : logger =
  match String.split_on_char '/' w with
  | [_; f; m; r] when String.length r = 1 ->
      { lg_rec = rec_id r.[0]; lg_tagged = (r = "A"); lg_filter = parse_fexpr f; lg_sink = parse_sinks m }
  | _ -> raise Bad

let parse_tag (w : string) : str option = if w = "~" then None else Some (str_of_hex w)

let parse_item (w : string) : item =
  if w = "" then raise Bad else
  let rest = String.sub w 1 (String.length w - 1) in
  match w.[0] with
  | 'S' -> IStr (str_of_hex rest)
  | 'N' -> INum (z_of_decimal rest)
  | 'V' -> (* V<kind><hex>: a streamable object and what its operator<< writes *)
      if String.length rest < 2 then raise Bad else
      let k = (match rest.[0] with 'b' -> OBaseRef | 'u' -> ONonCopyable | 'm' -> OCopyMarked | _ -> raise Bad) in
      IObj (k, str_of_hex (String.sub rest 1 (String.length rest - 1)))
  | 'X' -> (* an insertion that makes the statement's stringstream fail *)
      (match rest with "x" -> IFail FNullCStr | "y" -> IFail FNullStreambuf | "z" -> IFail FUserFailbit | _ -> raise Bad)
  | 'C' -> (* C<kind><id>.<hex>: the kind is the C++ shape of the callable; the model carries it and ignores it *)
      if rest = "" then raise Bad else
      let k = (match rest.[0] with
               | 'o' -> KFunctor | 'l' -> KLambda | 'p' -> KFunPtr | 'f' -> KStdFunL | 'F' -> KStdFunR
               | 'c' -> KStdFunCStr | 'k' -> KConstObj | 'v' -> KLambdaVar
               | 'M' -> KMutableLambda | 'w' -> KNonConstTemp | 'W' -> KNonConstVar | 'Q' -> KNonConstConstVar
               | 'i' -> KBoolTemp | 'I' -> KBoolVar | 'j' -> KInsertableVar | _ -> raise Bad) in
      let rest = String.sub rest 1 (String.length rest - 1) in
      (match String.index_opt rest '.' with
       | Some i -> ICall (k, nat_of_int (int_of_string (String.sub rest 0 i)), str_of_hex (String.sub rest (i + 1) (String.length rest - i - 1)))
       | None -> raise Bad)
  | _ -> raise Bad

let parse_items (w : string) : item list = if w = "." then [] else List.map parse_item (String.split_on_char ',' w)

type pword = POp of op | PKind of logger * sev | PGet of nat * nat | PDirect of logger * sev * str

let nslots = 4

(* "O" / "M" followed by nothing (straight-line code) or u | c | d: the context the statement is executed in (ignored by the model) *)
let parse_ctx (h : string) : sctx =
  match String.length h, (if String.length h = 2 then h.[1] else 'n') with
  | 1, _ -> CNormal | 2, 'u' -> CUnwinding | 2, 'c' -> CCatch | 2, 'd' -> CDtor | _ -> raise Bad

let parse_word (o : string) : pword =
  let f = String.split_on_char ':' o in
  if o = "" then raise Bad else
  match o.[0], f with
  | 'T', [_] when String.length o = 4 -> POp (OSet (rec_id o.[1], nat_of_int (digit o.[2] 2), sev_of_int (digit o.[3] 6)))
  | 'G', [_] when String.length o = 3 -> PGet (rec_id o.[1], nat_of_int (digit o.[2] 2))
  | 'O', [h; lg; sv; tag; its] -> POp (OOne (parse_ctx h, parse_logger lg, sev_of_int (digit sv.[0] 6), parse_tag tag, parse_items its))
  | 'M', [h; lg; sv; tag; its] -> POp (ONamed (parse_ctx h, parse_logger lg, sev_of_int (digit sv.[0] 6), parse_tag tag, parse_items its))
  | 'N', [h; lg; sv; tag] when String.length h = 2 -> POp (OOpen (nat_of_int (digit h.[1] nslots), parse_logger lg, sev_of_int (digit sv.[0] 6), parse_tag tag))
  | 'P', [h; it] when String.length h = 2 -> POp (OPut (nat_of_int (digit h.[1] nslots), parse_item it))
  | 'X', [_] when String.length o = 2 -> POp (OClose (nat_of_int (digit o.[1] nslots)))
  | 'R', [h; lg; sv; tag; its] when String.length h = 1 ->
      (* the named local moved into another variable half-way: the same statement (LogProofs.named_moved_same) *)
      POp (ONamed (CNormal, parse_logger lg, sev_of_int (digit sv.[0] 6), parse_tag tag, parse_items its))
  | 'B', [h; lg; sv; tag; its] when String.length h = 2 && (h.[1] = '1' || h.[1] = '2' || h.[1] = '3') ->
      (* other declaration forms of the named local (by value / by reference, from the plain call / from a << chain):
         the same statement (LogProofs.named_from_chain_same) *)
      let items = parse_items its in
      if h.[1] <> '2' && (match items with (IStr _ | INum _ | ICall (KFunctor, _, _)) :: _ -> false | _ -> true) then raise Bad
      else POp (ONamed (CNormal, parse_logger lg, sev_of_int (digit sv.[0] 6), parse_tag tag, items))
  | 'D', [h; lg; sv; msg] when String.length h = 1 -> PDirect (parse_logger lg, sev_of_int (digit sv.[0] 6), str_of_hex msg)
  | 'K', [_; lg; sv] -> PKind (parse_logger lg, sev_of_int (digit sv.[0] 6))
  | _ -> raise Bad

(* (minimum, program words followed by the end-of-program closes of all variables, in order) *)
let parse_case (w : string list) : sev * pword list =
  match w with
  | m :: ops when String.length m = 2 && m.[0] = 'm' ->
      (sev_of_int (digit m.[1] 6), List.map parse_word ops @ List.init nslots (fun v -> POp (OClose (nat_of_int v))))
  | _ -> raise Bad

let tok_of_event = function
  | Call id -> "C" ^ string_of_int (int_of_nat id)
  | Format r -> Printf.sprintf "F%d:%s:%s" (int_of_sev r.r_sev) (hex_of_str r.r_tag) (hex_of_str r.r_msg)
  | Sink (i, s, t) -> Printf.sprintf "S%d:%d:%s" (int_of_nat i) (int_of_sev s) (hex_of_str t)
  | Fault -> "FAULT"

(* run the program one word at a time, threading the world; `step` is exec_prog (model) or spec_prog (spec) *)
let trace_with step init kind thr direct (w : string list) : string list =
  let (mn, prog) = parse_case w in
  let cfg = { c_min = mn; c_fmt = harness_fmt } in
  let world = ref init and out = ref [] in
  List.iter (function
    | POp o -> let (w', ev) = step cfg !world [o] in world := w'; List.iter (fun e -> out := tok_of_event e :: !out) ev
    | PKind (_, sv) -> out := ("K" ^ kind mn sv) :: !out
    | PDirect (lg, sv, msg) -> List.iter (fun t -> out := t :: !out) (direct cfg !world lg sv msg)
    | PGet (rc, k) -> out := ("G" ^ string_of_int (int_of_sev (thr !world rc k))) :: !out) prog;
  List.rev !out

let model_tokens w = trace_with exec_prog init_world (fun mn sv -> match stream_kind mn sv with KSmart -> "1" | KNull -> "0")
                        (fun wd rc k -> min_severity wd.w_th rc k)
                        (fun cfg wd lg sv msg ->   (* logger::will_log on a record of severity sv, then logger::log(sv, record) *)
                           let r = { r_sev = sv; r_tag = []; r_msg = msg } in
                           (if filt (wd.w_th lg.lg_rec) lg.lg_filter r then "W1" else "W0") :: List.map tok_of_event (log_record cfg lg sv r)) w
let spec_tokens w = trace_with spec_prog init_sworld (fun mn sv -> if gate_open mn sv then "1" else "0")
                       (fun sw rc k -> min_severity sw.s_th rc k)
                       (fun cfg sw lg sv msg ->
                          let r = { r_sev = sv; r_tag = []; r_msg = msg } in
                          (if holds (sw.s_th lg.lg_rec) lg.lg_filter sv [] then "W1" else "W0") :: List.map tok_of_event (delivery cfg lg sv r)) w

(* observation line: "-" when nothing happened, else "ev" followed by the event tokens *)
let line_of_tokens = function [] -> "-" | l -> String.concat " " ("ev" :: l)
let tokens_of_line (s : string) = match words s with ["-"] -> [] | "ev" :: l -> l | l -> "?" :: l

let model (w : string list) : string = try line_of_tokens (model_tokens w) with Bad | Failure _ | Invalid_argument _ -> "BADCASE-MODEL" (* differs from the implementation's BADCASE on purpose: a malformed case must not pass silently *)

(* log_driver.ml — C05: model side and oracle.  The oracle judges the IMPLEMENTATION's observation by the spec
   (LogSpec.spec_prog): everything that reached the formatter and the sinks — which records, with what severity, tag
   and message, to which sequence members, in which order — must be exactly what the spec prescribes. *)
(* delivery events and the threshold getters (which thresholds are in force is part of "the configured runtime filter") *)
let delivery_part l = List.filter (fun t -> t <> "" && t.[0] <> 'C' && t.[0] <> 'K') l
let oracle (case : string list) (obs : string) : bool =
  delivery_part (tokens_of_line obs) = delivery_part (spec_tokens case)
let () = run_driver model oracle

(* vec_driver.ml — model and oracle side of the fixed_vector cluster (C06, C07).
   Case line:  <variant> <op> <op> ...      variant in C M T U P (P = plain std::int64_t, trivially copyable; S = std::string, Q = std::unique_ptr<int>; element type of the C++ side; the model ignores it,
   except that copy-requiring operations are refused for the move-only variants and fault plans for the
   non-throwing ones, exactly as the C++ driver does).
   op = name,arg,...[!k]   lists are digit strings, "_" = empty list, !k = the k-th element assignment throws.
   Observation: one token per step:  <outcome>[:i=<state>...]  for the objects the step may have written.
   Pool of 3 objects.  A moved-from object is shown as MF (only its validity is compared) and every later
   operation that would USE it (other than assigning to it, constructing over it or destroying it) is not
   executed: token K.  v = std::move(v) (ma,i,i) leaves v "moved-from" in this sense.
   Aliasing arguments: ea,i,pos,k = emplace(begin()+pos, v[k]); ba/ia/pa,i,k = emplace_back/insert/push_back(v[k]);
   sr,i,pos,a,b = insert(begin()+pos, begin()+a, begin()+b); ps,i,a,b = push_back(begin()+a, begin()+b) of the same
   vector; not executed (S) unless k < size resp. a <= b <= size. *)
let npool = 3
let n2i = int_of_nat and i2n = nat_of_int

type pop = { o : op; plan : int option; name : string; cthrow : bool; form : int }

let digits s = if s = "_" then [] else List.init (String.length s) (fun i ->
  let c = s.[i] in if c >= '1' && c <= '9' then Char.code c - 48 else failwith "digit")
let nats s = List.map i2n (digits s)

let parse_op (w : string) : pop =
  (* !k : the k-th element assignment throws;  !c : the element constructor invoked with the emplace arguments throws *)
  let w, plan, cthrow = match String.index_opt w '!' with
    | Some i -> let s = String.sub w (i+1) (String.length w - i - 1) in
                if s = "c" then String.sub w 0 i, None, true
                else (String.iter (fun ch -> if ch < '0' || ch > '9' then failwith "plan") s;
                      String.sub w 0 i, Some (int_of_string s), false)
    | None -> w, None, false in
  let form = ref 0 in
  (* ~f: the overload / value category / argument form the C++ driver uses; the same operation for the model *)
  let w = match String.index_opt w '~' with
    | Some i -> let f = int_of_string (String.sub w (i+1) (String.length w - i - 1)) in
                if f < 0 || f > 9 then failwith "form" else (form := f; String.sub w 0 i)
    | None -> w in
  let f = String.split_on_char ',' w in
  let n s = let v = int_of_string s in if v < 0 || v > 1000 then failwith "range" else i2n v in
  let o = match f with
    | ["n"; i; c] -> ONew (n i, n c)
    (* fixed_vector(c, iterable): std::vector / std::list / std::array / initializer_list / another fixed_vector *)
    | [("nf" | "nfl" | "nfa" | "nfi"); i; c; xs] -> ONewFrom (n i, n c, nats xs)
    | ["nfv"; i; c; j] -> OConstructFrom (n i, n c, n j)
    | ["nl"; i; xs] -> ONewList (n i, nats xs)
    | ["cp"; i; j] -> OCopy (n i, n j)
    | ["mv"; i; j] -> OMove (n i, n j)
    | ["as"; i; j] -> OAssign (n i, n j)
    | ["ma"; i; j] -> OMoveAssign (n i, n j)
    | ["sw"; i; j] -> OMoveAssign (n i, n j)   (* std::swap(pool[i], pool[j]); recognised by its name, see swap_steps *)
    | ["la"; i; xs] -> OListAssign (n i, nats xs)
    | ["at"; i; k] -> OAt (n i, n k)
    | ["get"; i; k] -> OGet (n i, n k)
    | ["em"; i; p; v] -> OEmplace (n i, n p, n v)
    | ["eb"; i; v] -> OEmplaceBack (n i, n v)
    | ["in"; i; v] -> OInsert (n i, n v)
    | ["im"; i; v] -> OInsertMove (n i, n v)
    | ["pb"; i; v] -> OPushBack (n i, n v)
    | [("ir" | "irs"); i; p; xs] -> OInsertRange (n i, n p, nats xs)   (* irs / prs: single-pass input iterators *)
    | ["il"; i; p; xs] -> OInsertList (n i, n p, nats xs)
    | [("pr" | "prs"); i; xs] -> OPushBackRange (n i, nats xs)
    | ["po"; i] -> OPop (n i)
    | ["er"; i; p] -> OErase (n i, n p)
    | ["de"; i] -> ODestroy (n i)
    (* arguments aliasing the container itself *)
    | ["ea"; i; p; k] -> OEmplaceAt (n i, n p, n k)
    | ["ba"; i; k] -> OEmplaceBackAt (n i, n k)
    | ["ia"; i; k] -> OInsertAt (n i, n k)
    | ["pa"; i; k] -> OPushBackAt (n i, n k)
    | ["sr"; i; p; a; b] -> OInsertSelfRange (n i, n p, n a, n b)
    | ["ps"; i; a; b] -> OPushBackSelfRange (n i, n a, n b)
    (* no arguments: the new element is T() = value 0 *)
    | ["ebd"; i] -> OEmplaceBack (n i, O)
    | ["emd"; i; p] -> OEmplace (n i, n p, O)
    (* positions before begin(): begin() - d, d >= 1 *)
    | ["erb"; i; d] -> OEraseBefore (n i, n d)
    | ["emb"; i; d; v] -> OEmplaceBefore (n i, n d, n v)
    | ["irb"; i; d; xs] -> OInsertRangeBefore (n i, n d, nats xs)
    | _ -> failwith "op" in
  let o = if cthrow then (match o with
      | OEmplaceBack (i, _) -> OEmplaceBackCtorThrows i
      | OEmplace (i, p, _) -> OEmplaceCtorThrows (i, p)
      | _ -> o) else o in
  { o; plan; name = List.hd f; cthrow; form = !form }

(* objects a step may write (printed afterwards), objects it uses (must not be moved-from), the object it (re)creates
   or assigns as a whole, and whether it needs copyable elements *)
let writes o = match o with
  | OMove (i, j) | OMoveAssign (i, j) -> [n2i i; n2i j]
  | ONew (i, _) | ONewFrom (i, _, _) | ONewList (i, _) | OCopy (i, _) | OAssign (i, _) | OListAssign (i, _)
  | OAt (i, _) | OGet (i, _) | OEmplace (i, _, _) | OEmplaceBack (i, _) | OInsert (i, _) | OInsertMove (i, _)
  | OPushBack (i, _) | OInsertRange (i, _, _) | OInsertList (i, _, _) | OPushBackRange (i, _) | OPop i | OErase (i, _)
  | ODestroy i | OEmplaceAt (i, _, _) | OEmplaceBackAt (i, _) | OInsertAt (i, _) | OPushBackAt (i, _)
  | OInsertSelfRange (i, _, _, _) | OPushBackSelfRange (i, _, _)
  | OEraseBefore (i, _) | OEmplaceBefore (i, _, _) | OInsertRangeBefore (i, _, _) | OConstructFrom (i, _, _)
  | OEmplaceBackCtorThrows i | OEmplaceCtorThrows (i, _) -> [n2i i]
let uses o = match o with
  | ONew _ | ONewFrom _ | ONewList _ | OListAssign _ | ODestroy _ -> []
  | OCopy (_, j) | OMove (_, j) | OAssign (_, j) | OMoveAssign (_, j) | OConstructFrom (_, _, j) -> [n2i j]
  | OAt (i, _) | OGet (i, _) | OEmplace (i, _, _) | OEmplaceBack (i, _) | OInsert (i, _) | OInsertMove (i, _)
  | OPushBack (i, _) | OInsertRange (i, _, _) | OInsertList (i, _, _) | OPushBackRange (i, _) | OPop i | OErase (i, _)
  | OEmplaceAt (i, _, _) | OEmplaceBackAt (i, _) | OInsertAt (i, _) | OPushBackAt (i, _)
  | OInsertSelfRange (i, _, _, _) | OPushBackSelfRange (i, _, _)
  | OEraseBefore (i, _) | OEmplaceBefore (i, _, _) | OInsertRangeBefore (i, _, _)
  | OEmplaceBackCtorThrows i | OEmplaceCtorThrows (i, _) -> [n2i i]
let needs_copy o = match o with
  | ONewFrom _ | ONewList _ | OCopy _ | OAssign _ | OListAssign _ | OInsert _ | OPushBack _ | OInsertRange _
  | OInsertList _ | OPushBackRange _
  | OEmplaceAt _ | OEmplaceBackAt _ | OInsertAt _ | OPushBackAt _ | OInsertSelfRange _ | OPushBackSelfRange _
  | OInsertRangeBefore _ | OConstructFrom _ -> true
  | _ -> false
(* positions are turned into iterators begin()+pos by the C++ driver: only 0..capacity is a valid pointer *)
let position o = match o with
  | OEmplace (i, p, _) | OInsertRange (i, p, _) | OInsertList (i, p, _) | OErase (i, p)
  | OEmplaceAt (i, p, _) | OInsertSelfRange (i, p, _, _) | OEmplaceCtorThrows (i, p) -> Some (n2i i, n2i p)
  | _ -> None
let list_len o = match o with
  | ONewList (_, xs) | OListAssign (_, xs) | OInsertList (_, _, xs) -> List.length xs
  | _ -> 0

(* a value-initialised element shows as 0 whether the caller asked for it (emplace_back() : Filled 0) or never wrote the
   slot (Fresh): the two are the same object state in C++; caller-given values in the cases are 1..9 *)
let ch_slot = function Filled v -> let v = n2i v in if v >= 0 && v <= 9 then Char.chr (48 + v) else '?' | Fresh -> '0' | Moved -> 'm'
let ch_access = function Val s -> ch_slot s | ARaised -> 'R' | AOut -> '!'
let str_of_chars l = if l = [] then "-" else String.init (List.length l) (List.nth l)
let range a b = if b < a then [] else List.init (b - a + 1) (fun k -> a + k)
let ch_outcome = function Done -> "D" | Raised -> "R" | Faulted -> "F" | OutOfStorage -> "O" | Skipped -> "S"

(* ---- rendering of a model object ---- *)
let render_fv (st : fv) : string =
  let c = n2i st.cap and s = n2i st.size in
  let idx f = str_of_chars (List.map (fun k -> ch_access (f st (i2n k))) (range 0 (s - 1))) in
  let walk = function None -> "!" | Some l -> str_of_chars (List.map ch_slot l) in
  Printf.sprintf "c%d,s%d,%s,%s,%s,%s,%s,%s" c s (idx index)
    (str_of_chars (List.map (fun k -> let a = at_ st (i2n k) and g = get_I st (i2n k) in if a = g then ch_access a else '?') (range 0 (c + 1))))
    (walk (iterate st)) (walk (riterate st)) (idx data_at)
    (if s > 0 then str_of_chars [ch_access (front st); ch_access (back st)] else "-")
let valid_fv (st : fv) = n2i st.size <= n2i st.cap && iterate st <> None

(* ---- rendering of an abstract object (capacity, list): what the SPEC says the views must show ---- *)
let render_abs ((c, l) : aobj) : string =
  let c = n2i c and s = List.length l in
  let e = str_of_chars (List.map ch_slot l) in
  Printf.sprintf "c%d,s%d,%s,%s,%s,%s,%s,%s" c s e
    (str_of_chars (List.map (fun k -> match bl_at l (i2n k) with Some x -> ch_slot x | None -> 'R') (range 0 (c + 1))))
    e (str_of_chars (List.rev_map ch_slot l)) e
    (if s > 0 then str_of_chars [ch_slot (List.hd l); ch_slot (List.nth l (s - 1))] else "-")

let copyable v = (v = "C" || v = "T" || v = "P" || v = "S")
(* std::swap(a, b) is  T tmp(std::move(a)); a = std::move(b); b = std::move(tmp);  — run as these three operations with
   the temporary in a hidden extra pool slot (index npool, not addressable by cases), which is destroyed afterwards *)
let swap_steps i j = [OMove (i2n npool, i); OMoveAssign (i, j); OMoveAssign (j, i2n npool); ODestroy (i2n npool)]
let throwing v = (v = "T" || v = "U")

(* static refusal of a step, identical on the three sides *)
let refused variant (p : pop) : bool =
  (needs_copy p.o && not (copyable variant)) || (p.plan <> None && not (throwing variant))
  || List.exists (fun i -> i >= npool) (writes p.o @ uses p.o)
  || (p.name = "sw" && p.plan <> None)
  || (p.cthrow && not (List.mem variant ["C"; "M"; "T"; "U"] && (p.name = "eb" || p.name = "em")
                       && (p.form = 0 || p.form = 1 || p.form = 5 || (p.form = 4 && copyable variant))))
  || list_len p.o > 5
  || (match p.o with ONewFrom (_, _, xs) -> (p.name = "nfi" && List.length xs > 5) || (p.name = "nfa" && List.length xs > 6) | _ -> false)
  || (match p.o with OGet (_, k) -> n2i k > 5 | _ -> false)
  || (match p.o with OEraseBefore (_, d) | OEmplaceBefore (_, d, _) | OInsertRangeBefore (_, d, _) -> n2i d < 1 || n2i d > 4 | _ -> false)
(* checked after the moved-from rule, so that the capacity of a moved-from object is never consulted *)
let bad_position (p : pop) (capof : int -> int option) : bool =
  match position p.o with Some (i, pos) -> (match capof i with Some c -> pos > c | None -> false) | None -> false

let model (ws : string list) : string =
  match ws with
  | [] -> "BADCASE"
  | variant :: ops when List.mem variant ["C"; "M"; "T"; "U"; "P"; "S"; "Q"] ->
    (try
      let pool = ref (empty_pool (i2n (npool + 1))) in
      let mf = Array.make npool false in
      let out = Buffer.create 256 in
      List.iteri (fun n w ->
        let p = parse_op w in
        if n > 0 then Buffer.add_char out ' ';
        let capof i = match pget !pool (i2n i) with Some st -> Some (n2i st.cap) | None -> None in
        if refused variant p then Buffer.add_string out "NA"
        else if List.exists (fun i -> mf.(i)) (uses p.o @ (if p.name = "sw" then writes p.o else [])) then Buffer.add_string out "K"
        else if bad_position p capof then Buffer.add_string out "NA"
        else if p.name = "sw" then begin
          (match p.o with
           | OMoveAssign (i, j) when n2i i <> n2i j && pget !pool i <> None && pget !pool j <> None ->
               List.iter (fun o -> pool := fst (pstep None o !pool)) (swap_steps i j);
               Buffer.add_string out "D";
               List.iter (fun k ->
                 Buffer.add_string out (Printf.sprintf ":%d=%s" k (match pget !pool (i2n k) with None -> "X" | Some st -> render_fv st)))
                 (List.sort_uniq compare [n2i i; n2i j])
           | _ -> Buffer.add_string out "S")
        end
        else begin
          let (pool', r) = pstep (match p.plan with Some k -> Some (i2n k) | None -> None) p.o !pool in
          pool := pool';
          (match p.o, r with
           | (OMove (i, j) | OMoveAssign (i, j)), Done -> mf.(n2i i) <- false; mf.(n2i j) <- true
           | (ONew (i, _) | ONewFrom (i, _, _) | ONewList (i, _) | OCopy (i, _) | ODestroy i | OConstructFrom (i, _, _)), (Done | Raised | Faulted) -> mf.(n2i i) <- false
           | (OAssign (i, _) | OListAssign (i, _)), Done -> mf.(n2i i) <- false
           | _ -> ());
          Buffer.add_string out (ch_outcome r);
          if r <> Skipped then
            List.iter (fun i ->
              Buffer.add_string out (Printf.sprintf ":%d=" i);
              Buffer.add_string out (match pget !pool (i2n i) with
                | None -> "X"
                | Some st -> if mf.(i) then (if valid_fv st then "MF" else "MF!") else render_fv st))
              (List.sort_uniq compare (writes p.o))
        end) ops;
      if Buffer.length out = 0 then "-" else Buffer.contents out
    with Failure _ | Not_found | Invalid_argument _ -> "BADCASE")
  | _ -> "BADCASE"

(* ---- the oracle: the SPEC interpreter `sstep` over abstract objects; judges the implementation's tokens ---- *)
let split_token (t : string) : string * (int * string) list =
  match String.split_on_char ':' t with
  | [] -> failwith "token"
  | o :: objs -> o, List.map (fun s -> match String.index_opt s '=' with
      | Some k -> int_of_string (String.sub s 0 k), String.sub s (k+1) (String.length s - k - 1)
      | None -> failwith "token") objs

(* parse a printed object state back into an abstract object, insisting that all views agree *)
let parse_state (s : string) : aobj option =
  match String.split_on_char ',' s with
  | [c; sz; e; a; f; r; d; fb] when String.length c > 1 && String.length sz > 1 ->
    let c = int_of_string (String.sub c 1 (String.length c - 1)) and n = int_of_string (String.sub sz 1 (String.length sz - 1)) in
    let chars x = if x = "-" then [] else List.init (String.length x) (String.get x) in
    let sl ch = if ch >= '0' && ch <= '9' then Filled (i2n (Char.code ch - 48)) else if ch = 'm' then Moved else failwith "slot" in
    let l = List.map sl (chars e) in
    let ao = (i2n c, l) in
    if List.length l = n && n <= c && render_abs ao = s then Some ao else None
  | _ -> None

let oracle (ws : string list) (obs : string) : bool =
  match ws with
  | variant :: ops when List.mem variant ["C"; "M"; "T"; "U"; "P"; "S"; "Q"] ->
    let toks = words obs in
    (* the plug-in's normalize() prefixes a summary word k=...; it carries no information of its own *)
    let toks = match toks with t :: r when String.length t >= 2 && String.sub t 0 2 = "k=" -> r | _ -> toks in
    if ops = [] then toks = ["-"] else
    if List.length toks <> List.length ops then false else begin
      let pool = ref (repeat None (i2n (npool + 1)) : apool) in
      let mf = Array.make npool false in
      (* "no never-filled slot became visible": value-initialised elements (shown as 0) may not multiply, except by the one
         an argument-less emplace inserts *)
      let zeros l = List.length (List.filter (fun x -> x = Fresh || x = Filled O) l) in
      let extra o = (match o with OEmplace (_, _, O) | OEmplaceBack (_, O) -> 1 | _ -> 0) in
      List.for_all2 (fun w tok ->
        let p = parse_op w in
        let capof i = match aget !pool (i2n i) with Some (c, _) -> Some (n2i c) | None -> None in
        if refused variant p then tok = "NA"
        else if List.exists (fun i -> mf.(i)) (uses p.o @ (if p.name = "sw" then writes p.o else [])) then tok = "K"
        else if bad_position p capof then tok = "NA"
        else if p.name = "sw" then begin
          match p.o with
          | OMoveAssign (i, j) when n2i i <> n2i j && aget !pool i <> None && aget !pool j <> None ->
              List.iter (fun o -> pool := fst (sstep o !pool)) (swap_steps i j);
              tok = "D" ^ String.concat "" (List.map (fun k ->
                Printf.sprintf ":%d=%s" k (match aget !pool (i2n k) with None -> "X" | Some a -> render_abs a))
                (List.sort_uniq compare [n2i i; n2i j]))
          | _ -> tok = "S"
        end
        else begin
          let before = !pool in
          let (pool', r) = sstep p.o before in
          let (oc, objs) = split_token tok in
          let ws_ = List.sort_uniq compare (writes p.o) in
          if oc = "F" then begin
            (* an element assignment threw: only legal under a fault plan; the spec fixes what may be left behind *)
            (p.plan <> None || p.cthrow) && List.map (fun (i, _) -> i) objs = ws_ &&
            List.for_all (fun (i, s) ->
              let old = aget before (i2n i) in
              match p.o with
              | ONewFrom _ | ONewList _ | OCopy _ | OConstructFrom _ -> s = "X" && (pool := aset !pool (i2n i) None; mf.(i) <- false; true)
              | OEmplaceBack _ | OInsert _ | OInsertMove _ | OPushBack _ | OAssign _ | OListAssign _
              | OEmplaceBackAt _ | OInsertAt _ | OPushBackAt _ | OEmplaceBackCtorThrows _ | OEmplaceCtorThrows _ ->
                  (match old with Some a -> if mf.(i) then s = "MF" else s = render_abs a | None -> false)
              | OEmplace _ | OErase _ | OInsertRange _ | OInsertList _ | OPushBackRange _
              | OEmplaceAt _ | OInsertSelfRange _ | OPushBackSelfRange _ ->
                  (match old, parse_state s with
                   | Some (c, l), Some (c', l') ->
                       c' = c && zeros l' <= zeros l + extra p.o &&
                       (match p.o with OEmplace _ | OErase _ | OEmplaceAt _ -> List.length l' = List.length l | _ -> List.length l' >= List.length l) &&
                       (pool := aset !pool (i2n i) (Some (c', l')); true)
                   | _ -> false)
              | _ -> false) objs
          end else if (match p.o with OInsertSelfRange (_, pos, a, b) -> n2i a < n2i pos && n2i pos < n2i b | _ -> false)
                       && r <> Skipped then begin
            (* a sub-range of the vector itself inserted strictly inside that range: the refinement theorem excludes it
               (C07_self_range_overlap_refuted: the header re-reads slots it has already overwritten), so the spec fixes
               only outcome, capacity, size and that nothing never-filled appears; the contents are adopted as observed *)
            (match objs with
             | [(i, s)] when [i] = ws_ ->
                 (match aget pool' (i2n i), parse_state s with
                  | Some (c, l), Some (c', l') ->
                      oc = ch_outcome r && c' = c && List.length l' = List.length l && zeros l' <= zeros l &&
                      (pool := aset pool' (i2n i) (Some (c', l')); true)
                  | _ -> false)
             | _ -> false)
          end else begin
            pool := pool';
            (match p.o, r with
             | (OMove (i, j) | OMoveAssign (i, j)), Done -> mf.(n2i i) <- false; mf.(n2i j) <- true
             | (ONew (i, _) | ONewFrom (i, _, _) | ONewList (i, _) | OCopy (i, _) | ODestroy i | OConstructFrom (i, _, _)), (Done | Raised) -> mf.(n2i i) <- false
             | (OAssign (i, _) | OListAssign (i, _)), Done -> mf.(n2i i) <- false
             | _ -> ());
            let expect = ch_outcome r ^
              (if r = Skipped then "" else String.concat "" (List.map (fun i ->
                 Printf.sprintf ":%d=%s" i (match aget !pool (i2n i) with
                   | None -> "X"
                   | Some a -> if mf.(i) then "MF" else render_abs a)) ws_)) in
            tok = expect
          end
        end) ops toks
    end
  | _ -> false

let () = run_driver model oracle

#!/bin/sh
# tools/harmless_regress.sh — applies each behaviour-preserving refactoring of seeded/harmless/ to a scratch worktree of /repo and runs the
# quick checks of the properties anchored in the touched files: every line must say OK (a VIOLATION here is a false alarm)
cd /verif
run() { h=$1; shift; wt=/tmp/harmless-$h; git -C /repo worktree remove --force $wt 2>/dev/null; git -C /repo worktree add -q --detach $wt HEAD && git -C $wt apply /verif/seeded/harmless/$h.diff || { echo "$h PATCH DOES NOT APPLY"; return; }
  for p in "$@"; do r=$(VERIF_REPO=$wt ./check $p --tier quick 2>&1 | grep -E "^OK|^VIOLATION" | cut -c1-120); echo "$h $p :: $r"; done; git -C /repo worktree remove --force $wt; rm -f replays/*.json; git checkout -- evidence; }
run H11 C17
run H06 C09 C05
run H04 C08
run H10 C18 C19 C03
run H08 C16
run H09 C20
run H02 C03 C11 C13 C02 C15 C14
run H03 C06 C07 C20
run H05 C05 C10 C09
run H01 C01 C02 C04 C12 C14 C03 C11 C13
run H07 C15 C13 C01

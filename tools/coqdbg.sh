#!/bin/sh
# tools/coqdbg.sh <file.v> <line> : compile the file truncated before <line>, printing the goal there
f=$1; n=$2
head -n $((n-1)) "$f" > /tmp/dbg_$$.v
echo "Show. Abort." >> /tmp/dbg_$$.v
( cd /tmp && timeout 300 coqc -Q /verif/coq/theories Nitro dbg_$$.v 2>&1 | head -${3:-60} )
rm -f /tmp/dbg_$$.*

#!/bin/sh
# tools/baseline.sh — the repository's own suite with no verification define (there are no hooks):
# configure + build /repo in a scratch directory, run ctest exactly as the baseline does, remove the directory.
# Expected (BASELINE.json): everything passes except the two "self binary" cases of Nitro.dl_test.
set -e
D=$(mktemp -d /tmp/nitro-baseline.XXXXXX)
trap 'rm -rf "$D"' EXIT
cmake -G Ninja -B "$D" -S /repo >/dev/null
cmake --build "$D" >/dev/null
ctest --test-dir "$D" -j8 --timeout 900 --output-junit "$D/junit.xml" > "$D/ctest.out" 2>&1 || true
tail -8 "$D/ctest.out"
FAILED=$(grep -E "^\s+[0-9]+ - .*\(Failed\)" "$D/ctest.out" | sed -E 's/^\s+[0-9]+ - ([^ ]+).*/\1/' | sort | tr '\n' ' ')
echo "failed ctest entries: $FAILED"
[ "$FAILED" = "Nitro.dl_test " ] || { echo "BASELINE MISMATCH"; exit 1; }
echo "baseline ok (Nitro.dl_test is the only failing ctest entry, as in BASELINE.json: its two self-binary cases)"

#!/bin/sh
# tools/baseline.sh — the repository's own suite with no verification define (there are no hooks):
# configure + build /repo in a scratch directory, run ctest, remove the directory.
set -e
D=$(mktemp -d /tmp/nitro-baseline.XXXXXX)
trap 'rm -rf "$D"' EXIT
cmake -G Ninja -B "$D" -S /repo >/dev/null
cmake --build "$D" >/dev/null
# dl_test's two "self binary" cases fail at the pinned baseline as well (BASELINE.json always_fail)
ctest --test-dir "$D" -j8 --timeout 900 --output-junit "$D/junit.xml" || true
python3 - "$D" <<'PY'
import sys, glob, subprocess, re
d = sys.argv[1]
fails = 0
for t in sorted(glob.glob(d + "/tests/Nitro.*_test")):
    p = subprocess.run([t], stdout=subprocess.PIPE, stderr=subprocess.STDOUT, cwd=d + "/tests")
    out = p.stdout.decode("utf-8", "replace")
    m = re.search(r"test cases:\s*(\d+)\s*\|\s*(\d+) passed\s*\|\s*(\d+) failed", out)
    name = t.split("/")[-1]
    if p.returncode != 0 and name != "Nitro.dl_test":
        print("FAIL", name); fails += 1
    else:
        print("ok  ", name, "(baseline: 2 self-binary cases of dl_test fail)" if name == "Nitro.dl_test" and p.returncode else "")
sys.exit(1 if fails else 0)
PY

#!/usr/bin/env python3
# tools/seeded_regress.py [ids...] — re-runs the checks against every seeded change (a scratch worktree of /repo with the patch
# applied, removed afterwards) and records the outcome as final_results in seeded/<id>/meta.json.  This is the regression suite
# of the verification machinery itself: every seeded change must be reported.
import json, os, subprocess, sys, glob, time
ROOT = os.path.dirname(os.path.dirname(os.path.abspath(__file__)))
ids = sys.argv[1:] or sorted(os.path.basename(os.path.dirname(p)) for p in glob.glob(os.path.join(ROOT, "seeded", "*", "meta.json")))
def sh(cmd, cwd=None, env=None, timeout=3600):
    e = dict(os.environ); e.update(env or {})
    p = subprocess.run(cmd, shell=True, cwd=cwd, stdout=subprocess.PIPE, stderr=subprocess.STDOUT, env=e, timeout=timeout)
    return p.returncode, p.stdout.decode("utf-8", "replace")
missed = []
for sid in ids:
    d = os.path.join(ROOT, "seeded", sid)
    meta = json.load(open(os.path.join(d, "meta.json")))
    wt = "/tmp/seedrun-" + sid
    sh("git -C /repo worktree remove --force %s" % wt)
    rc, o = sh("git -C /repo worktree add -q %s HEAD && git -C %s apply %s" % (wt, wt, os.path.join(d, "patch.diff")))
    if rc != 0:
        print(sid, "PATCH DOES NOT APPLY", o[-300:]); continue
    props = list(meta["results"].keys())
    res = {}
    for p in props:
        t0 = time.time()
        rc, o = sh("./check %s --tier quick" % p, cwd=ROOT, env={"VERIF_REPO": wt})
        lines = [l for l in o.splitlines() if l.startswith(("VIOLATION", "OK "))]
        kind = "missed" if rc == 0 else ("no-failing-input-found" if any("no-failing-input-found" in l for l in lines) else "concrete")
        case = None
        for l in lines:
            if l.startswith("VIOLATION") and "replay=" in l:
                try:
                    case = json.load(open(l.split("replay=")[1].split()[0])).get("case")
                except Exception:
                    pass
        res[p] = dict(outcome=kind, replay_case=(case or "")[:300], wall_s=round(time.time() - t0, 1))
    meta["final_results"] = res
    json.dump(meta, open(os.path.join(d, "meta.json"), "w"), indent=1)
    sh("git -C /repo worktree remove --force %s" % wt)
    sh("rm -f replays/*.json; git checkout -- evidence", cwd=ROOT)
    main = res.get(meta["breaks"], {}).get("outcome")
    print(sid, {p: r["outcome"] for p, r in res.items()})
    if main == "missed" and not any(r["outcome"] != "missed" for r in res.values()):
        missed.append(sid)
print("missed by every check run:", missed)

#!/usr/bin/env python3
# tools/seed_eval.py <seed-id> <worktree> <property> "<demo build+run command, run in the worktree>" [more properties to run...]
# Confirms a seeded change (made by an independent sub-agent in its own scratch worktree): it compiles, the repository's suite
# stays at baseline, the demonstration fails with the change and passes without it; then runs our checks against the changed
# tree (VERIF_REPO) and stores patch, demonstration and meta.json under /verif/seeded/<seed-id>/.
import json, os, shutil, subprocess, sys, tempfile, time
ROOT = os.path.dirname(os.path.dirname(os.path.abspath(__file__)))
# with --recheck: keep the recorded confirmation (suite, demonstration) and the first results; run the checks again and store the
# outcome under results_after_strengthening
recheck = "--recheck" in sys.argv
if recheck:
    sys.argv.remove("--recheck")
sid, wt, prop, democmd = sys.argv[1:5]
props = [prop] + sys.argv[5:]
out = os.path.join(ROOT, "seeded", sid)
os.makedirs(out, exist_ok=True)

def sh(cmd, cwd=None, timeout=3600, env=None):
    e = dict(os.environ); e.update(env or {})
    p = subprocess.run(cmd, shell=True, cwd=cwd, stdout=subprocess.PIPE, stderr=subprocess.STDOUT, timeout=timeout, env=e)
    return p.returncode, p.stdout.decode("utf-8", "replace")

if recheck:
    meta = json.load(open(os.path.join(ROOT, "seeded", sid, "meta.json")))
    first = meta["results"]
    meta["results"] = {}
    for p in props:
        t0 = time.time()
        rc, o = sh("./check %s --tier quick" % p, cwd=ROOT, env={"VERIF_REPO": wt}, timeout=3600)
        lines = [l for l in o.splitlines() if l.startswith(("VIOLATION", "OK ", "KNOWN-FINDING"))]
        rep = None
        for l in lines:
            if l.startswith("VIOLATION") and "replay=" in l:
                try:
                    rep = json.load(open(l.split("replay=")[1].split()[0]))
                    rep = {k: (str(v)[:400]) for k, v in rep.items() if k in ("kind", "case", "model_obs", "impl_obs", "broken", "n_failing")}
                except Exception:
                    pass
        meta["results"][p] = dict(rc=rc, lines=lines, replay=rep, wall_s=round(time.time() - t0, 1))
        print(p, rc, lines[-1] if lines else "", rep)
    meta["results_after_strengthening"] = meta["results"]
    meta["results"] = first
    sh("rm -f replays/*.json", cwd=ROOT)
    sh("git checkout -- evidence", cwd=ROOT)
    json.dump(meta, open(os.path.join(ROOT, "seeded", sid, "meta.json"), "w"), indent=1)
    sys.exit(0)
meta = dict(id=sid, breaks=prop, worktree=wt, ran=[], results={})
rc, diff = sh("git diff -- include src", cwd=wt)
open(os.path.join(out, "patch.diff"), "w").write(diff)
meta["files_changed"] = sh("git diff --stat -- include src | tail -1", cwd=wt)[1].strip()
if os.path.isdir(os.path.join(wt, "demo")):
    shutil.rmtree(os.path.join(out, "demo"), ignore_errors=True)
    shutil.copytree(os.path.join(wt, "demo"), os.path.join(out, "demo"), ignore=shutil.ignore_patterns("demo", "*.o", "a.out", "*.so"))
# 1. suite with the change
b = tempfile.mkdtemp(prefix="seedb-")
rc, o = sh("cmake -G Ninja -B %s -S %s >/dev/null && cmake --build %s 2>&1 | tail -3 && ctest --test-dir %s -j8 2>&1 | tail -8" % (b, wt, b, b))
shutil.rmtree(b, ignore_errors=True)
failed = [l.strip() for l in o.splitlines() if "(Failed)" in l or "***" in l]
meta["suite_with_change"] = dict(failed=failed, ok=(len(failed) == 1 and "Nitro.dl_test" in failed[0]), tail=o[-600:])
meta["ran"].append("cmake+ninja build and ctest of the changed worktree")
# 2. demo with the change
rc1, o1 = sh(democmd, cwd=wt, timeout=1200)
meta["demo_with_change"] = dict(rc=rc1, tail=o1[-500:])
# 3. demo without the change
sh("git apply -R %s" % os.path.join(out, "patch.diff"), cwd=wt)
rc0, o0 = sh(democmd, cwd=wt, timeout=1200)
sh("git apply %s" % os.path.join(out, "patch.diff"), cwd=wt)
meta["demo_without_change"] = dict(rc=rc0, tail=o0[-500:])
meta["demo_confirms"] = (rc1 != 0 or "FAIL" in o1) and (rc0 == 0 and "FAIL" not in o0)
meta["ran"].append("demonstration with and without the change: " + democmd)
# 4. our checks against the changed tree
for p in props:
    t0 = time.time()
    rc, o = sh("./check %s --tier quick" % p, cwd=ROOT, env={"VERIF_REPO": wt}, timeout=3600)
    lines = [l for l in o.splitlines() if l.startswith(("VIOLATION", "OK ", "KNOWN-FINDING"))]
    rep = None
    for l in lines:
        if l.startswith("VIOLATION") and "replay=" in l:
            rp = l.split("replay=")[1].split()[0]
            try:
                rep = json.load(open(rp))
                rep = {k: (str(v)[:400]) for k, v in rep.items() if k in ("kind", "case", "model_obs", "impl_obs", "broken", "n_failing")}
            except Exception:
                pass
    meta["results"][p] = dict(rc=rc, lines=lines, replay=rep, wall_s=round(time.time() - t0, 1))
    meta["ran"].append("VERIF_REPO=%s ./check %s --tier quick" % (wt, p))
sh("rm -f replays/*.json", cwd=ROOT)
sh("git checkout -- evidence", cwd=ROOT)
json.dump(meta, open(os.path.join(out, "meta.json"), "w"), indent=1)
print(json.dumps({k: meta[k] for k in ("suite_with_change", "demo_confirms")}, indent=1)[:800])
for p, r in meta["results"].items():
    print(p, r["rc"], r["lines"][-1] if r["lines"] else "", r["replay"])

#!/usr/bin/env python3
# tools/mutate.py [--per-file N] [--seed S] [--out FILE] — mechanical mutants of the anchored sources (operator flips, boundary shifts,
# negations removed, statements deleted), one at a time in a scratch worktree of /repo, each judged by the quick checks of the
# properties anchored in the mutated file (VERIF_REPO).  Survivors are written to the log for manual triage (equivalent mutant or
# gap in a check).  Not a registered check: a measuring device for the checks themselves.
import json, os, random, re, subprocess, sys, time
ROOT = os.path.dirname(os.path.dirname(os.path.abspath(__file__)))
WT = "/tmp/mutauto"
FILES = {
    "include/nitro/lang/string.hpp": ["C17"],
    "include/nitro/format/format.hpp": ["C08"],
    "include/nitro/lang/fixed_vector.hpp": ["C06", "C07"],
    "src/options/parser.cpp": ["C02", "C04", "C12", "C14", "C13", "C15"],
    "src/options/toggle.cpp": ["C11", "C02"],
    "src/options/option.cpp": ["C03", "C02"],
    "src/options/multi_option.cpp": ["C03", "C02"],
    "include/nitro/options/user_input.hpp": ["C04", "C01"],
    "src/options/group.cpp": ["C13", "C15"],
    "include/nitro/options/option/base.hpp": ["C01", "C15"],
    "include/nitro/options/arguments.hpp": ["C12", "C03"],
    "include/nitro/lang/hash.hpp": ["C16"],
    "include/nitro/lang/tuple_operators.hpp": ["C16"],
    "include/nitro/lang/enumerate.hpp": ["C20"],
    "include/nitro/lang/reverse.hpp": ["C20"],
    "include/nitro/lang/quaint_ptr.hpp": ["C18"],
    "include/nitro/lang/optional.hpp": ["C18", "C14"],
    "include/nitro/dl/dl.hpp": ["C19"],
    "include/nitro/dl/symbol.hpp": ["C19"],
    "src/env/get.cpp": ["C19", "C03"],
    "include/nitro/log/stream.hpp": ["C05", "C10"],
    "include/nitro/log/logger.hpp": ["C05", "C10"],
    "include/nitro/log/filter/severity_filter.hpp": ["C05"],
    "include/nitro/log/filter/and_filter.hpp": ["C05"],
    "include/nitro/log/filter/or_filter.hpp": ["C05"],
    "include/nitro/log/filter/not_filter.hpp": ["C05"],
    "include/nitro/log/sink/sequence.hpp": ["C05"],
    "include/nitro/log/sink/stdout_mt.hpp": ["C09"],
    "include/nitro/log/sink/stderr_mt.hpp": ["C09"],
    "include/nitro/io/terminal.hpp": ["C15"],
}
RULES = [
    (r"(?<![<>=!-])<=(?!=)", "<"), (r"(?<![<>=!-])>=(?!=)", ">"),
    (r"(?<![<>=!\-\w:])<(?![<=\w:>])", "<="), (r"(?<![<>=!\-])>(?![>=:])(?=\s*[\w(])", ">="),
    (r"==", "!="), (r"!=", "=="), (r"&&", "||"), (r"\|\|", "&&"),
    (r"\+ 1\b", "+ 0"), (r"\+ 1\b", "+ 2"), (r"- 1\b", "- 0"), (r"\btrue\b", "false"), (r"\bfalse\b", "true"),
    (r"!(?=[\w(])", ""), (r"\+\+", "--"), (r"\+=", "-="), (r"\bsize_\b", "capacity_"), (r"\bbegin\(\)", "end()"),
]


def sh(cmd, cwd=None, env=None, timeout=3600):
    e = dict(os.environ); e.update(env or {})
    p = subprocess.run(cmd, shell=True, cwd=cwd, stdout=subprocess.PIPE, stderr=subprocess.STDOUT, env=e, timeout=timeout)
    return p.returncode, p.stdout.decode("utf-8", "replace")


def code_lines(txt):
    """indices of lines that are code (not comments, preprocessor, includes, license header)"""
    out, inblock = [], False
    for i, l in enumerate(txt.split("\n")):
        s = l.strip()
        if inblock:
            if "*/" in s:
                inblock = False
            continue
        if s.startswith("/*"):
            if "*/" not in s:
                inblock = True
            continue
        if not s or s.startswith(("//", "#", "*", "namespace", "using ", "template", "typedef", "}", "{", "public:", "private:", "protected:")):
            continue
        out.append(i)
    return out


def candidates(path, txt):
    lines = txt.split("\n")
    cands = []
    for i in code_lines(txt):
        l = lines[i]
        code = l.split("//")[0]
        if '"' in code and ("raise" in code or "<<" in code and "operator" not in code):
            # message texts: mutate only outside string literals
            pass
        for pat, rep in RULES:
            for m in re.finditer(pat, code):
                # skip inside string literals
                if code[:m.start()].count('"') % 2 == 1:
                    continue
                new = code[:m.start()] + rep + code[m.end():] + l[len(code):]
                if new != l:
                    cands.append((i, "%s -> %s" % (m.group(0), rep or "(removed)"), new))
        s = code.strip()
        if re.fullmatch(r"[\w:.\->\[\]()*&, <>+=!'\"]+;", s) and not s.startswith(("return", "throw", "break", "continue", "typedef", "using", "static_assert", "friend")) \
                and "=" in s or re.fullmatch(r"[\w:.\->\[\]]+\([^;]*\);", s):
            if not re.match(r"^(const |static |auto |std::|[\w:<>]+[ &*]+\w+\s*(=|;|\())", s) or re.match(r"^[\w.\->\[\]_]+\s*(=|\+=|-=)[^=]", s):
                cands.append((i, "statement deleted", l[:len(l) - len(l.lstrip())] + ";"))
        if re.fullmatch(r"return;", s):
            cands.append((i, "early return removed", l.replace("return;", ";")))
    return cands


def main():
    per_file, seed, out = 6, 1, os.path.join(ROOT, "work", "mutauto.jsonl")
    a = sys.argv[1:]
    only = None
    while a:
        k = a.pop(0)
        if k == "--per-file": per_file = int(a.pop(0))
        elif k == "--seed": seed = int(a.pop(0))
        elif k == "--out": out = a.pop(0)
        elif k == "--only": only = a.pop(0).split(",")
    rng = random.Random(seed)
    os.makedirs(os.path.dirname(out), exist_ok=True)
    sh("git -C /repo worktree remove --force %s" % WT)
    rc, o = sh("git -C /repo worktree add -q --detach %s HEAD" % WT)
    if rc != 0:
        print(o); return 1
    try:
        for path, props in FILES.items():
            if only and not any(x in path for x in only):
                continue
            full = os.path.join(WT, path)
            txt = open(full, encoding="latin-1").read()
            cands = candidates(path, txt)
            rng.shuffle(cands)
            done = 0
            for (i, what, new) in cands:
                if done >= per_file:
                    break
                lines = txt.split("\n")
                old = lines[i]
                lines[i] = new
                open(full, "w", encoding="latin-1").write("\n".join(lines))
                rec = dict(file=path, line=i + 1, what=what, old=old.strip(), new=new.strip(), results={})
                # cheap filter: the mutated file must still be syntactically valid C++
                rcs, _ = sh("g++ -std=gnu++17 -I%s/include -fsyntax-only -x c++ %s" % (WT, full), timeout=300)
                if rcs != 0:
                    open(full, "w", encoding="latin-1").write(txt)
                    continue
                killed = False
                for p in props:
                    t0 = time.time()
                    rc, o = sh("./check %s --tier quick" % p, cwd=ROOT, env={"VERIF_REPO": WT}, timeout=3000)
                    ls = [l for l in o.splitlines() if l.startswith(("VIOLATION", "OK "))]
                    kind = "survived" if rc == 0 else ("nfif" if any("no-failing-input-found" in l for l in ls) else "concrete")
                    for l in ls:
                        if l.startswith("VIOLATION") and "replay=" in l:
                            try:
                                if json.load(open(l.split("replay=")[1].split()[0])).get("kind") == "build":
                                    kind = "no-compile"
                            except Exception:
                                pass
                    rec["results"][p] = dict(outcome=kind, wall=round(time.time() - t0, 1))
                    if rc != 0:
                        killed = True
                        break
                rec["killed"] = killed
                done += 1
                open(out, "a").write(json.dumps(rec) + "\n")
                print(("KILLED  " if killed else "SURVIVED") , path, i + 1, what, "|", old.strip()[:70], "=>", new.strip()[:70], rec["results"], flush=True)
                open(full, "w", encoding="latin-1").write(txt)
                sh("rm -f replays/*.json; git checkout -- evidence", cwd=ROOT)
    finally:
        sh("git -C /repo worktree remove --force %s" % WT)
    return 0


if __name__ == "__main__":
    sys.exit(main())

#!/usr/bin/env python3
# tools/update_design_table.py — regenerates the seeded-changes table inside DESIGN.md from seeded/*/meta.json
import json, os, glob, re
ROOT = os.path.dirname(os.path.dirname(os.path.abspath(__file__)))
desc = json.load(open(os.path.join(ROOT, "seeded", "descriptions.json")))
def outcome(r):
    if r["rc"] == 0:
        return "missed"
    if any("no-failing-input-found" in l for l in r["lines"]):
        return "no-failing-input-found"
    return "concrete"
rows = ["| id | change | needs, in order to manifest | first run of `./check` (quick) | now |", "|---|---|---|---|---|"]
n = dict(total=0, first_concrete=0, first_nf=0, first_missed=0, now_concrete=0, now_nf=0, now_missed=0)
for mp in sorted(glob.glob(os.path.join(ROOT, "seeded", "*", "meta.json"))):
    m = json.load(open(mp))
    d = desc.get(m["id"], {})
    first = {p: outcome(r) for p, r in m["results"].items()}
    fin = m.get("final_results")
    if fin:
        now = {p: r["outcome"] for p, r in fin.items()}
    elif m.get("results_after_strengthening"):
        now = dict(first)
        now.update({p: outcome(r) for p, r in m["results_after_strengthening"].items()})
    else:
        now = dict(first)
    def best(x):
        return "concrete" if "concrete" in x.values() else ("no-failing-input-found" if "no-failing-input-found" in x.values() else "missed")
    n["total"] += 1
    n["first_" + {"concrete": "concrete", "no-failing-input-found": "nf", "missed": "missed"}[best(first)]] += 1
    n["now_" + {"concrete": "concrete", "no-failing-input-found": "nf", "missed": "missed"}[best(now)]] += 1
    fmt = lambda x: "; ".join("%s %s" % (p, o) for p, o in x.items())
    note = d.get("after", "")
    rows.append("| %s | %s | %s | %s | %s%s |" % (m["id"], d.get("what", ""), d.get("needs", ""), fmt(first), fmt(now), (" — " + note) if note else ""))
summary = ("%d seeded changes. First run: %d reported with a concrete replay, %d reported as no-failing-input-found, %d missed by every check run. "
           "With the checks as committed: %d concrete, %d no-failing-input-found, %d missed.\n\n" %
           (n["total"], n["first_concrete"], n["first_nf"], n["first_missed"], n["now_concrete"], n["now_nf"], n["now_missed"]))
p = os.path.join(ROOT, "DESIGN.md")
s = open(p).read()
s = re.sub(r"<!-- SEEDED_TABLE_BEGIN -->.*?<!-- SEEDED_TABLE_END -->",
           lambda _: "<!-- SEEDED_TABLE_BEGIN -->\n" + summary + "\n".join(rows) + "\n<!-- SEEDED_TABLE_END -->", s, flags=re.S)
open(p, "w").write(s)
print(summary)

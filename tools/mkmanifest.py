#!/usr/bin/env python3
# tools/mkmanifest.py — writes MANIFEST.json from the props/ registry (run after adding a property plug-in)
import importlib, json, os, sys
ROOT = os.path.dirname(os.path.dirname(os.path.abspath(__file__)))
sys.path.insert(0, ROOT)
props = [json.loads(l) for l in open(os.path.join(ROOT, "properties.jsonl"))]
checks, na = [], []
NA_REASONS = {}
try:
    NA_REASONS = json.load(open(os.path.join(ROOT, "tools", "not_applicable.json")))
except OSError:
    pass
for p in props:
    pid = p["id"]
    if os.path.exists(os.path.join(ROOT, "props", pid + ".py")):
        chk = importlib.import_module("props." + pid).CHECK
        checks.append(dict(
            property_id=pid,
            quick_cmd="./check %s --tier quick" % pid,
            thorough_cmd="./check %s --tier thorough" % pid,
            evidence_file="/verif/evidence/%s.json" % pid,
            replay_cmd_template="./check %s --replay {path}" % pid,
            engine="coq-proof+correspondence",
            level_claimed=dict(category="proof", text=chk.level_text, design_ref=chk.design_ref),
            level_note=chk.level_note,
            technique=chk.technique))
    else:
        na.append(dict(property_id=pid, reason=NA_REASONS.get(pid, "check not built yet (work in progress); see DESIGN.md section 6 for the planned model and theorems")))
man = dict(
    version=1,
    setup_cmd="./setup.sh",
    hooks=dict(guard="NITRO_VERIF", enable="none needed: the drivers use the public API only; no hook commit exists in /repo",
               baseline_off_cmd="./tools/baseline.sh", source_commits=[], add_only=True),
    engines=[dict(name="coq-proof+correspondence", path="/verif/check",
                  serves_properties=[c["property_id"] for c in checks],
                  kind_free_text="Coq 8.16 theorems over executable Gallina models (coq/theories), tied to /repo by extraction to OCaml + differential runs against C++ drivers built from the working tree under ASan/UBSan, and by a translator regenerating closed-world tables (Gen/*.v) on every run")],
    checks=checks,
    notes="See DESIGN.md. Known findings and repaired defects: known_findings.txt.",
    not_applicable=na)
json.dump(man, open(os.path.join(ROOT, "MANIFEST.json"), "w"), indent=1)
print("MANIFEST.json: %d checks, %d not claimed" % (len(checks), len(na)))

#!/usr/bin/env python3
# tools/seeded_table.py — prints the markdown table of seeded changes from seeded/*/meta.json + seeded/descriptions.json
import json, os, glob
ROOT = os.path.dirname(os.path.dirname(os.path.abspath(__file__)))
desc = json.load(open(os.path.join(ROOT, "seeded", "descriptions.json")))
print("| id | change | needs | result of `./check` (quick) |")
print("|---|---|---|---|")
for mp in sorted(glob.glob(os.path.join(ROOT, "seeded", "*", "meta.json"))):
    m = json.load(open(mp))
    d = desc.get(m["id"], {})
    res = []
    for p, r in m["results"].items():
        if r["rc"] == 0:
            res.append("%s: **missed**" % p)
        else:
            rep = r.get("replay") or {}
            kind = rep.get("kind", "?")
            if any("no-failing-input-found" in l for l in r["lines"]):
                res.append("%s: VIOLATION no-failing-input-found" % p)
            else:
                res.append("%s: VIOLATION, replay `%s`" % (p, (rep.get("case") or "")[:60]))
    extra = d.get("after", "")
    if m.get("results_after_strengthening"):
        aft = []
        for p, r in m["results_after_strengthening"].items():
            rep = r.get("replay") or {}
            if r["rc"] == 0:
                aft.append("%s: still missed" % p)
            elif any("no-failing-input-found" in l for l in r["lines"]):
                aft.append("%s: VIOLATION no-failing-input-found" % p)
            else:
                aft.append("%s: VIOLATION, replay `%s`" % (p, (rep.get("case") or "")[:60]))
        extra = (extra + "; " if extra else "") + "after strengthening the check: " + "; ".join(aft)
    print("| %s | %s | %s | %s%s |" % (m["id"], d.get("what", ""), d.get("needs", ""), "; ".join(res), (" — " + extra) if extra else ""))

#!/bin/sh
# regenerate _CoqProject (all .v under theories) and the Makefile when the file set changed
cd "$(dirname "$0")"
{ echo "-Q theories Nitro"; echo "-arg -w -arg -notation-overridden,-deprecated-hint-without-locality,-deprecated-instance-without-locality"; find theories -name '*.v' | LC_ALL=C sort; } > _CoqProject.new
if ! cmp -s _CoqProject.new _CoqProject || [ ! -f Makefile ]; then
  mv _CoqProject.new _CoqProject
  coq_makefile -f _CoqProject -o Makefile >/dev/null
else
  rm -f _CoqProject.new
fi

(* Str/StrLang.v — the small imperative language into which gen/tr_string.py translates the bodies of
   nitro::lang::{split, replace_all, starts_with} and the loop of nitro::lang::join (include/nitro/lang/string.hpp)
   from clang's AST on every run, and its interpreter.  Tie/Tie_C17.v proves that the translated bodies compute the
   functions of Str/StrModel.v for ALL byte strings.  No proofs here.

   Meaning given to the primitives (trusted; libstdc++'s documented behaviour):
     h.find(n, st)      first index >= st at which n occurs in h, npos if none or st > h.size()
     h.rfind(n, 0)      0 when h begins with n, npos otherwise
     h.substr(st, len)  at most len bytes from st; throws when st > h.size()  (here: stuck)
     h.substr(st)       the rest from st; throws when st > h.size()           (here: stuck)
     x.replace(p, l, w) bytes [p, p+l) of x replaced by w; throws when p > x.size() (here: stuck)
     a - b              stuck when b > a (unsigned wrap-around never happens on a proved path)
   Sizes are unbounded naturals: the 2^64 wrap of size_t is not modelled (no std::string is that long). *)
From Coq Require Import List Arith Bool.
From Coq Require Import Init.Byte.
From Nitro Require Import Base.Bytes.
Import ListNotations.
Local Open Scope list_scope.

Inductive val := VS (s : str) | VN (n : nat) | VNpos | VB (b : bool) | VL (l : list str).

Inductive expr :=
| EVar (x : nat) | ENat (n : nat) | ENpos | EBool (b : bool) | EStrEmpty
| EFind (h n st : expr)
| ERfind0 (h n : expr)                    (* h.rfind(n, 0): 0 when h begins with n, npos otherwise *)
| ESubstr (h st len : expr)
| ESubstrFrom (h st : expr)
| ESize (e : expr) | EEmpty (e : expr)
| ELt (a b : expr) | EEq (a b : expr) | ENe (a b : expr) | ENot (a : expr)
| EAdd (a b : expr) | ESub (a b : expr)
| EAssign (x : nat) (e : expr)            (* (x = e) used as a value *)
| EUnknown.

Inductive stmt :=
| SSkip | SSeq (a b : stmt)
| SSet (x : nat) (e : expr)                (* T x = e;  or  x = e; *)
| SAddN (x : nat) (e : expr)               (* x += e  on sizes *)
| SAppend (x : nat) (e : expr)             (* x += e  on strings *)
| SIf (c : expr) (a b : stmt)
| SWhile (c : expr) (body : stmt)
| SBreak | SContinue
| SReturn (e : expr) | SReturnVoid
| SRaise
| SNewList (x : nat)                       (* std::vector<std::string> x; *)
| SNewStr (x : nat)                        (* std::string x; *)
| SEmplaceBack (x : nat) (e : expr)
| SReplace (x : nat) (pos len w : expr)
| SForEach (x src : nat) (body : stmt)     (* for (it = begin; it != end; ++it) { stringstream s; s << *it; auto x = s.str(); body } *)
| SUnknown.

Definition env := list val.
Fixpoint upd (e : env) (x : nat) (v : val) : env :=
  match e, x with
  | [], _ => []
  | _ :: r, 0 => v :: r
  | a :: r, S k => a :: upd r k v
  end.
Definition get (e : env) (x : nat) : option val := nth_error e x.

Definition find_from (h n : str) (st : nat) : val :=
  if length h <? st then VNpos
  else match find n (skipn st h) with Some i => VN (st + i) | None => VNpos end.

Definition val_eq (a b : val) : option bool :=
  match a, b with
  | VN x, VN y => Some (x =? y)
  | VNpos, VNpos => Some true
  | VN _, VNpos | VNpos, VN _ => Some false
  | _, _ => None
  end.

(* None = stuck (ill-typed, out-of-range access that throws in C++, or EUnknown) *)
Fixpoint eval (e : env) (x : expr) : option (env * val) :=
  match x with
  | EVar v => match get e v with Some a => Some (e, a) | None => None end
  | ENat n => Some (e, VN n)
  | ENpos => Some (e, VNpos)
  | EBool b => Some (e, VB b)
  | EStrEmpty => Some (e, VS [])
  | EFind h n st =>
      match eval e h with Some (e1, VS hs) =>
        match eval e1 n with Some (e2, VS ns) =>
          match eval e2 st with Some (e3, VN k) => Some (e3, find_from hs ns k) | _ => None end
        | _ => None end
      | _ => None end
  | ERfind0 h n =>
      match eval e h with Some (e1, VS hs) =>
        match eval e1 n with Some (e2, VS ns) => Some (e2, if prefixb ns hs then VN 0 else VNpos) | _ => None end
      | _ => None end
  | ESubstr h st len =>
      match eval e h with Some (e1, VS hs) =>
        match eval e1 st with Some (e2, VN k) =>
          match eval e2 len with
          | Some (e3, VN l) => if length hs <? k then None else Some (e3, VS (firstn l (skipn k hs)))
          | _ => None end
        | _ => None end
      | _ => None end
  | ESubstrFrom h st =>
      match eval e h with Some (e1, VS hs) =>
        match eval e1 st with
        | Some (e2, VN k) => if length hs <? k then None else Some (e2, VS (skipn k hs))
        | _ => None end
      | _ => None end
  | ESize a => match eval e a with Some (e1, VS s) => Some (e1, VN (length s)) | _ => None end
  | EEmpty a => match eval e a with
                | Some (e1, VS s) => Some (e1, VB (negb (nonempty s)))
                | _ => None end
  | ELt a b =>
      match eval e a with Some (e1, VN x) =>
        match eval e1 b with Some (e2, VN y) => Some (e2, VB (x <? y)) | _ => None end
      | _ => None end
  | EEq a b =>
      match eval e a with Some (e1, va) =>
        match eval e1 b with Some (e2, vb) =>
          match val_eq va vb with Some r => Some (e2, VB r) | None => None end
        | None => None end
      | None => None end
  | ENe a b =>
      match eval e a with Some (e1, va) =>
        match eval e1 b with Some (e2, vb) =>
          match val_eq va vb with Some r => Some (e2, VB (negb r)) | None => None end
        | None => None end
      | None => None end
  | ENot a => match eval e a with Some (e1, VB b) => Some (e1, VB (negb b)) | _ => None end
  | EAdd a b =>
      match eval e a with Some (e1, VN x) =>
        match eval e1 b with Some (e2, VN y) => Some (e2, VN (x + y)) | _ => None end
      | _ => None end
  | ESub a b =>
      match eval e a with Some (e1, VN x) =>
        match eval e1 b with Some (e2, VN y) => if x <? y then None else Some (e2, VN (x - y)) | _ => None end
      | _ => None end
  | EAssign v a => match eval e a with Some (e1, r) => Some (upd e1 v r, r) | None => None end
  | EUnknown => None
  end.

Inductive outcome :=
| ONormal (e : env) | OBreak (e : env) | OContinue (e : env)
| OReturn (e : env) (v : option val) | ORaise | OStuck | OFuel.

Section Exec.
Variable fuel : nat.    (* iterations allowed to each while loop *)

Fixpoint exec (s : stmt) (e : env) {struct s} : outcome :=
  match s with
  | SSkip => ONormal e
  | SSeq a b => match exec a e with ONormal e1 => exec b e1 | o => o end
  | SSet x a => match eval e a with Some (e1, v) => ONormal (upd e1 x v) | None => OStuck end
  | SAddN x a => match eval e a with
                 | Some (e1, VN n) => match get e1 x with Some (VN m) => ONormal (upd e1 x (VN (m + n))) | _ => OStuck end
                 | _ => OStuck end
  | SAppend x a => match eval e a with
                   | Some (e1, VS t) => match get e1 x with Some (VS s0) => ONormal (upd e1 x (VS (s0 ++ t))) | _ => OStuck end
                   | _ => OStuck end
  | SIf c a b => match eval e c with
                 | Some (e1, VB true) => exec a e1
                 | Some (e1, VB false) => exec b e1
                 | _ => OStuck end
  | SWhile c body =>
      (fix loop (k : nat) (e : env) {struct k} : outcome :=
         match k with
         | 0 => OFuel
         | S k' =>
           match eval e c with
           | Some (e1, VB true) =>
               match exec body e1 with
               | ONormal e2 | OContinue e2 => loop k' e2
               | OBreak e2 => ONormal e2
               | o => o
               end
           | Some (e1, VB false) => ONormal e1
           | _ => OStuck
           end
         end) fuel e
  | SBreak => OBreak e
  | SContinue => OContinue e
  | SReturn a => match eval e a with Some (e1, v) => OReturn e1 (Some v) | None => OStuck end
  | SReturnVoid => OReturn e None
  | SRaise => ORaise
  | SNewList x => ONormal (upd e x (VL []))
  | SNewStr x => ONormal (upd e x (VS []))
  | SEmplaceBack x a => match eval e a with
                        | Some (e1, VS t) => match get e1 x with Some (VL l) => ONormal (upd e1 x (VL (l ++ [t]))) | _ => OStuck end
                        | _ => OStuck end
  | SReplace x p l w =>
      match eval e p with Some (e1, VN pn) =>
        match eval e1 l with Some (e2, VN ln) =>
          match eval e2 w with Some (e3, VS ws) =>
            match get e3 x with
            | Some (VS s0) => if length s0 <? pn then OStuck
                              else ONormal (upd e3 x (VS (firstn pn s0 ++ ws ++ skipn (pn + ln) s0)))
            | _ => OStuck end
          | _ => OStuck end
        | _ => OStuck end
      | _ => OStuck end
  | SForEach x src body =>
      match get e src with
      | Some (VL l) =>
          (fix each (l : list str) (e : env) {struct l} : outcome :=
             match l with
             | [] => ONormal e
             | p :: r => match exec body (upd e x (VS p)) with
                         | ONormal e2 | OContinue e2 => each r e2
                         | OBreak e2 => ONormal e2
                         | o => o
                         end
             end) l e
      | _ => OStuck end
  | SUnknown => OStuck
  end.
End Exec.

(* the two loops on their own (convertible with the local fixpoints of exec), for the invariants of Tie_C17 *)
Section Loops.
Variable fuel : nat.
Section While.
Variables (c : expr) (body : stmt).
Fixpoint while_loop (k : nat) (e : env) {struct k} : outcome :=
  match k with
  | 0 => OFuel
  | S k' =>
    match eval e c with
    | Some (e1, VB true) =>
        match exec fuel body e1 with
        | ONormal e2 | OContinue e2 => while_loop k' e2
        | OBreak e2 => ONormal e2
        | o => o
        end
    | Some (e1, VB false) => ONormal e1
    | _ => OStuck
    end
  end.
End While.
Section Each.
Variables (x : nat) (body : stmt).
Fixpoint each_loop (l : list str) (e : env) {struct l} : outcome :=
  match l with
  | [] => ONormal e
  | p :: r => match exec fuel body (upd e x (VS p)) with
              | ONormal e2 | OContinue e2 => each_loop r e2
              | OBreak e2 => ONormal e2
              | o => o
              end
  end.
End Each.
End Loops.

(* a function: its parameters occupy slots 0.., the locals the following slots *)
Record fn := { fn_params : nat; fn_locals : nat; fn_body : stmt }.
Definition init_env (args : list val) (locals : nat) : env := args ++ repeat (VN 0) locals.
Definition run (fuel : nat) (f : fn) (args : list val) : outcome :=
  if length args =? fn_params f then exec fuel (fn_body f) (init_env args (fn_locals f)) else OStuck.

(* Str/StrProofs.v — the model of string.hpp satisfies the string laws of property C17. *)
From Coq Require Import List Arith Lia Bool.
From Coq Require Import Init.Byte.
From Nitro Require Import Base.Bytes Base.ListX Str.StrModel Str.StrSpec.
Import ListNotations.
Local Open Scope list_scope.

(* ---------- split ---------- *)

Lemma split_f_total fuel needle s : needle <> [] -> length s < fuel -> exists l, split_f fuel needle s = Some l.
Proof.
  intros Hn. revert s; induction fuel as [|f IH]; intros s Hl; [lia|]. simpl.
  destruct (find needle s) as [i|] eqn:F; [|eauto].
  apply find_some in F as (H1 & H2 & _).
  destruct (IH (skipn (i + length needle) s)) as [l Hl'].
  - rewrite skipn_length. destruct needle; [congruence|]. simpl in *. lia.
  - rewrite Hl'. simpl. eauto.
Qed.

Lemma split_f_join fuel needle s l : split_f fuel needle s = Some l -> intercalate needle l = s /\ l <> [].
Proof.
  revert s l; induction fuel as [|f IH]; intros s l; simpl; [discriminate|].
  destruct (find needle s) as [i|] eqn:F.
  - destruct (split_f f needle (skipn (i + length needle) s)) as [l'|] eqn:E; [|discriminate].
    simpl. intros [= <-]. apply IH in E as [E1 E2]. apply find_some in F as (H1 & _).
    split; [|discriminate]. destruct l' as [|y l']; [congruence|].
    change (firstn i s ++ needle ++ intercalate needle (y :: l') = s). rewrite E1. symmetry. exact H1.
  - intros [= <-]. split; [reflexivity | discriminate].
Qed.

Lemma split_total needle s : needle <> [] -> exists l, split needle s = Some l.
Proof.
  intros Hn. unfold split. destruct needle as [|c n] eqn:En; [congruence|]. rewrite <- En in *.
  apply split_f_total; [exact Hn | lia].
Qed.

Theorem split_lossless needle s : needle <> [] -> exists l, split needle s = Some l /\ intercalate needle l = s.
Proof.
  intros Hn. destruct (split_total needle s Hn) as [l Hl]. exists l. split; [exact Hl|].
  unfold split in Hl. destruct needle; [congruence|]. apply (split_f_join _ _ _ _ Hl).
Qed.

Theorem split_empty_needle_raises s : split [] s = None.
Proof. reflexivity. Qed.

(* fuel independence: any sufficient fuel gives the same answer *)
Lemma split_f_fuel f1 f2 needle s l : split_f f1 needle s = Some l -> f1 <= f2 -> split_f f2 needle s = Some l.
Proof.
  revert f2 s l; induction f1 as [|f1 IH]; intros f2 s l; simpl; [discriminate|].
  intros H Hle. destruct f2 as [|f2]; [lia|]. simpl.
  destruct (find needle s) as [i|]; [|exact H].
  destruct (split_f f1 needle (skipn (i + length needle) s)) as [l'|] eqn:E; [|discriminate].
  rewrite (IH f2 _ _ E); [exact H | lia].
Qed.

(* unfolding equation for split on a non-empty needle *)
Lemma split_unfold needle s : needle <> [] ->
  split needle s = match find needle s with
                   | None => Some [s]
                   | Some i => option_map (cons (firstn i s)) (split needle (skipn (i + length needle) s))
                   end.
Proof.
  intros Hn. unfold split. destruct needle as [|c n] eqn:En; [congruence|]. rewrite <- En in *.
  simpl split_f at 1. destruct (find needle s) as [i|] eqn:F; [|reflexivity].
  set (r := skipn (i + length needle) s).
  destruct (split_f_total (S (length r)) needle r Hn) as [l Hl]; [lia|].
  rewrite Hl. rewrite (split_f_fuel _ (length s) _ _ _ Hl); [reflexivity|].
  apply find_some in F as (_ & H2 & _). subst r. rewrite skipn_length. rewrite En in *. simpl in *. lia.
Qed.

(* no piece contains the needle *)
Lemma clean_firstn needle s i : needle <> [] ->
  (forall j, j < i -> prefixb needle (skipn j s) = false) -> i + length needle <= length s ->
  prefixb needle (skipn i s) = true -> clean needle (firstn i s).
Proof.
  intros Hn Hbefore Hlen Hat j.
  destruct (prefixb needle (skipn j (firstn i s))) eqn:E; [|reflexivity].
  apply prefixb_spec in E as [t E].
  assert (Hj : j + length needle <= i).
  { assert (L : length (skipn j (firstn i s)) = length (needle ++ t)) by (rewrite E; reflexivity).
    rewrite skipn_length, firstn_length, app_length in L.
    destruct needle; [congruence|]. simpl in *. lia. }
  assert (Hj' : j < i) by (destruct needle; [congruence|]; simpl in *; lia).
  rewrite <- (Hbefore j Hj'). symmetry. apply prefixb_spec.
  exists (t ++ skipn i s).
  rewrite <- (firstn_skipn i s) at 1. rewrite skipn_app.
  rewrite firstn_length. replace (j - Nat.min i (length s)) with 0 by lia. simpl.
  rewrite E. rewrite <- app_assoc. reflexivity.
Qed.

Lemma split_f_clean fuel needle s l : needle <> [] -> split_f fuel needle s = Some l -> Forall (clean needle) l.
Proof.
  intros Hn. revert s l; induction fuel as [|f IH]; intros s l; simpl; [discriminate|].
  destruct (find needle s) as [i|] eqn:F.
  - destruct (split_f f needle (skipn (i + length needle) s)) as [l'|] eqn:E; [|discriminate].
    simpl. intros [= <-]. constructor; [|eapply IH; eauto].
    pose proof (find_some _ _ _ F) as (H1 & H2 & H3).
    apply clean_firstn; auto.
    apply prefixb_spec. exists (skipn (i + length needle) s).
    rewrite H1 at 1. rewrite skipn_app. rewrite firstn_length.
    replace (i - Nat.min i (length s)) with 0 by lia.
    rewrite skipn_all2 by (rewrite firstn_length; lia). reflexivity.
  - intros [= <-]. constructor; [|constructor]. intros j. apply find_none. exact F.
Qed.

Theorem split_pieces_clean needle s l : split needle s = Some l -> Forall (clean needle) l.
Proof.
  unfold split. destruct needle as [|c n] eqn:En; [discriminate|]. rewrite <- En.
  apply split_f_clean. congruence.
Qed.

(* counting *)
Lemma count_scan_skip_prefix needle s i :
  (forall j, j < i -> prefixb needle (skipn j s) = false) -> i <= length s ->
  count_scan needle s 0 = count_scan needle (skipn i s) 0.
Proof.
  revert s; induction i as [|i IH]; intros s Hb Hl; [reflexivity|].
  destruct s as [|c s]; [simpl in Hl; lia|].
  simpl skipn. cbn [count_scan]. pose proof (Hb 0 ltac:(lia)) as H0. simpl skipn in H0. rewrite H0.
  apply IH; [|simpl in Hl; lia]. intros j Hj. apply (Hb (S j)). lia.
Qed.

Lemma count_scan_skip needle s k : k <= length s -> count_scan needle s k = count_scan needle (skipn k s) 0.
Proof.
  revert s; induction k as [|k IH]; intros s Hl; [reflexivity|].
  destruct s as [|c s]; [simpl in Hl; lia|]. simpl. apply IH. simpl in Hl. lia.
Qed.

Lemma count_scan_none needle s : find needle s = None -> count_scan needle s 0 = 0.
Proof.
  intros F. pose proof (find_none _ _ F) as H.
  rewrite (count_scan_skip_prefix needle s (length s)); [rewrite skipn_all; reflexivity | intros; apply H | lia].
Qed.

Lemma occurs_at_find needle s i : find needle s = Some i -> prefixb needle (skipn i s) = true.
Proof.
  intros F. pose proof (find_some _ _ _ F) as (H1 & H2 & H3).
  apply prefixb_spec. exists (skipn (i + length needle) s).
  rewrite H1 at 1. rewrite skipn_app, firstn_length.
  replace (i - Nat.min i (length s)) with 0 by lia.
  rewrite skipn_all2 by (rewrite firstn_length; lia). reflexivity.
Qed.

Lemma count_scan_some needle s i : needle <> [] -> find needle s = Some i ->
  count_scan needle s 0 = S (count_scan needle (skipn (i + length needle) s) 0).
Proof.
  intros Hn F. pose proof (find_some _ _ _ F) as (H1 & H2 & H3).
  pose proof (occurs_at_find _ _ _ F) as Hat.
  rewrite (count_scan_skip_prefix needle s i H3) by lia.
  assert (Hk : i + length needle = S i + (length needle - 1)) by (destruct needle; [congruence|]; simpl; lia).
  rewrite Hk, <- skipn_skipn'.
  assert (Lr : length (skipn i s) = length s - i) by apply skipn_length.
  destruct (skipn i s) as [|c r] eqn:Er.
  - apply prefixb_length in Hat. destruct needle; [congruence|]. simpl in Hat. lia.
  - cbn [count_scan]. rewrite Hat. f_equal.
    replace (skipn (S i) s) with r.
    + apply count_scan_skip. simpl in Lr. lia.
    + change (S i) with (1 + i). rewrite Nat.add_comm, <- skipn_skipn', Er. reflexivity.
Qed.

Lemma split_f_count fuel needle s l : needle <> [] -> split_f fuel needle s = Some l ->
  length l = S (count_nonoverlapping needle s).
Proof.
  intros Hn. unfold count_nonoverlapping. revert s l; induction fuel as [|f IH]; intros s l; simpl; [discriminate|].
  destruct (find needle s) as [i|] eqn:F.
  - destruct (split_f f needle (skipn (i + length needle) s)) as [l'|] eqn:E; [|discriminate].
    simpl. intros [= <-]. simpl. rewrite (IH _ _ E). rewrite (count_scan_some _ _ _ Hn F). reflexivity.
  - intros [= <-]. rewrite (count_scan_none _ _ F). reflexivity.
Qed.

Theorem split_count needle s l : split needle s = Some l -> length l = S (count_nonoverlapping needle s).
Proof.
  unfold split. destruct needle as [|c n] eqn:En; [discriminate|]. rewrite <- En.
  apply split_f_count. congruence.
Qed.

(* ---------- replace_all ---------- *)

Lemma replace_f_split fuel pat rep done rest l : pat <> [] -> split_f fuel pat rest = Some l ->
  replace_f fuel pat rep done rest = Some (done ++ intercalate rep l).
Proof.
  intros Hn. revert done rest l; induction fuel as [|f IH]; intros done rest l; simpl; [discriminate|].
  destruct (find pat rest) as [i|] eqn:F.
  - destruct (split_f f pat (skipn (i + length pat) rest)) as [l'|] eqn:E; [|discriminate].
    simpl. intros [= <-]. rewrite (IH _ _ _ E).
    pose proof (split_f_join _ _ _ _ E) as [_ Hne]. destruct l' as [|y l']; [congruence|].
    rewrite intercalate_cons. rewrite <- !app_assoc. reflexivity.
  - intros [= <-]. reflexivity.
Qed.

(* replace_all terminates and is "split at the pattern, glue with the replacement" *)
Theorem replace_all_split pat rep s : pat <> [] ->
  exists l, split pat s = Some l /\ replace_all pat rep s = Some (intercalate rep l).
Proof.
  intros Hn. destruct (split_total pat s Hn) as [l Hl]. exists l. split; [exact Hl|].
  unfold split, replace_all in *. destruct pat as [|c p] eqn:Ep; [congruence|]. rewrite <- Ep in *.
  rewrite (replace_f_split _ _ _ _ _ _ Hn Hl). reflexivity.
Qed.

Theorem replace_all_empty_pattern rep s : replace_all [] rep s = Some s.
Proof. reflexivity. Qed.

(* ... and it is the single left-to-right pass of the specification *)
Lemma replace_scan_skip_prefix pat rep s i :
  (forall j, j < i -> prefixb pat (skipn j s) = false) -> i <= length s ->
  replace_scan pat rep s 0 = firstn i s ++ replace_scan pat rep (skipn i s) 0.
Proof.
  revert s; induction i as [|i IH]; intros s Hb Hl; [reflexivity|].
  destruct s as [|c s]; [simpl in Hl; lia|].
  simpl skipn. simpl firstn. cbn [replace_scan].
  pose proof (Hb 0 ltac:(lia)) as H0. simpl skipn in H0. rewrite H0. simpl. f_equal.
  apply IH; [|simpl in Hl; lia]. intros j Hj. apply (Hb (S j)). lia.
Qed.

Lemma replace_scan_skip pat rep s k : k <= length s -> replace_scan pat rep s k = replace_scan pat rep (skipn k s) 0.
Proof.
  revert s; induction k as [|k IH]; intros s Hl; [reflexivity|].
  destruct s as [|c s]; [simpl in Hl; lia|]. simpl. apply IH. simpl in Hl. lia.
Qed.

Lemma replace_scan_none pat rep s : find pat s = None -> replace_scan pat rep s 0 = s.
Proof.
  intros F. pose proof (find_none _ _ F) as H.
  rewrite (replace_scan_skip_prefix pat rep s (length s)); [|intros; apply H | lia].
  rewrite skipn_all, firstn_all. simpl. apply app_nil_r.
Qed.

Lemma replace_scan_some pat rep s i : pat <> [] -> find pat s = Some i ->
  replace_scan pat rep s 0 = firstn i s ++ rep ++ replace_scan pat rep (skipn (i + length pat) s) 0.
Proof.
  intros Hn F. pose proof (find_some _ _ _ F) as (H1 & H2 & H3).
  pose proof (occurs_at_find _ _ _ F) as Hat.
  rewrite (replace_scan_skip_prefix pat rep s i H3) by lia. f_equal.
  assert (Hk : i + length pat = S i + (length pat - 1)) by (destruct pat; [congruence|]; simpl; lia).
  rewrite Hk, <- skipn_skipn'.
  assert (Lr : length (skipn i s) = length s - i) by apply skipn_length.
  destruct (skipn i s) as [|c r] eqn:Er.
  - apply prefixb_length in Hat. destruct pat; [congruence|]. simpl in Hat. lia.
  - cbn [replace_scan]. rewrite Hat. f_equal.
    replace (skipn (S i) s) with r.
    + apply replace_scan_skip. simpl in Lr. lia.
    + change (S i) with (1 + i). rewrite Nat.add_comm, <- skipn_skipn', Er. reflexivity.
Qed.

Lemma replace_f_scan fuel pat rep done rest : pat <> [] -> length rest < fuel ->
  replace_f fuel pat rep done rest = Some (done ++ replace_scan pat rep rest 0).
Proof.
  intros Hn. revert done rest; induction fuel as [|f IH]; intros done rest Hl; [lia|]. simpl.
  destruct (find pat rest) as [i|] eqn:F.
  - pose proof (find_some _ _ _ F) as (_ & H2 & _).
    rewrite IH.
    + rewrite (replace_scan_some _ _ _ _ Hn F). rewrite <- !app_assoc. reflexivity.
    + rewrite skipn_length. destruct pat; [congruence|]. simpl in *. lia.
  - rewrite (replace_scan_none _ _ _ F). reflexivity.
Qed.

Theorem replace_all_spec pat rep s : replace_all pat rep s = Some (spec_replace pat rep s).
Proof.
  unfold replace_all, spec_replace. destruct pat as [|c p] eqn:Ep; [reflexivity|]. rewrite <- Ep.
  rewrite replace_f_scan; [reflexivity | congruence | lia].
Qed.

(* ---------- starts_with ---------- *)
Theorem starts_with_prefix full p : starts_with full p = true <-> is_prefix p full.
Proof.
  unfold starts_with, is_prefix. rewrite <- prefixb_spec, <- find_zero_iff.
  destruct (find p full) as [[|n]|]; split; congruence.
Qed.

(* ---------- join ---------- *)
Lemma join_fold infix l acc :
  fold_left (join_step infix) l acc =
  match filter nonempty l with
  | [] => acc
  | _ :: _ => if nonempty acc then acc ++ infix ++ intercalate infix (filter nonempty l)
              else intercalate infix (filter nonempty l)
  end.
Proof.
  revert acc; induction l as [|x l IH]; intros acc; [reflexivity|].
  cbn [fold_left filter]. rewrite IH. unfold join_step.
  destruct x as [|b x]; cbn [nonempty]; [reflexivity|].
  destruct (filter nonempty l) as [|y r] eqn:E.
  - destruct acc as [|a acc]; cbn [nonempty intercalate]; reflexivity.
  - destruct acc as [|a acc]; cbn [nonempty app].
    + reflexivity.
    + rewrite intercalate_cons. rewrite <- !app_assoc. reflexivity.
Qed.

Theorem join_spec infix l : join infix l = spec_join infix l.
Proof.
  unfold join, spec_join. rewrite join_fold.
  destruct (filter nonempty l); reflexivity.
Qed.

(* corollaries of join_spec in the words of the property *)
Lemma intercalate_nonempty_prefix infix x l : intercalate infix (x :: l) = x ++ match l with [] => [] | _ => infix ++ intercalate infix l end.
Proof. destruct l; simpl; [symmetry; apply app_nil_r | reflexivity]. Qed.

Theorem join_no_empty_elements infix l : join infix l = join infix (filter nonempty l).
Proof.
  rewrite !join_spec. unfold spec_join. f_equal.
  induction l as [|x l IH]; [reflexivity|]. cbn [filter].
  destruct (nonempty x) eqn:E; cbn [filter]; [rewrite E; f_equal; exact IH | exact IH].
Qed.

Theorem join_singleton infix x : join infix [x] = x.
Proof. rewrite join_spec. unfold spec_join. destruct x; reflexivity. Qed.

Theorem join_all_empty infix l : Forall (fun x => x = []) l -> join infix l = [].
Proof.
  intros H. rewrite join_spec. unfold spec_join.
  replace (filter nonempty l) with (@nil str); [reflexivity|].
  induction H as [|x l Hx H IH]; [reflexivity|]. subst x. exact IH.
Qed.

(* Str/StrModel.v — executable model of include/nitro/lang/string.hpp (split, join, replace_all,
   starts_with), following the C++ loops.  No proofs here. *)
From Coq Require Import List Arith Bool.
From Coq Require Import Init.Byte.
From Nitro Require Import Base.Bytes.
Import ListNotations.
Local Open Scope list_scope.

(* split: `start` is modelled by dropping the consumed prefix; each iteration consumes at least
   |needle| >= 1 bytes, so S (length s) iterations always suffice (proved in StrProofs). *)
Fixpoint split_f (fuel : nat) (needle s : str) : option (list str) :=
  match fuel with
  | 0 => None
  | S f =>
    match find needle s with
    | None => Some [s]
    | Some i => option_map (cons (firstn i s)) (split_f f needle (skipn (i + length needle) s))
    end
  end.

(* None = the call raises (empty needle) *)
Definition split (needle s : str) : option (list str) :=
  match needle with [] => None | _ => split_f (S (length s)) needle s end.

(* replace_all: the string is  done ++ rest  with start_pos = |done|; `find` only looks at rest *)
Fixpoint replace_f (fuel : nat) (pat rep done rest : str) : option str :=
  match fuel with
  | 0 => None
  | S f =>
    match find pat rest with
    | None => Some (done ++ rest)
    | Some i => replace_f f pat rep (done ++ firstn i rest ++ rep) (skipn (i + length pat) rest)
    end
  end.

(* None = does not return (never happens: proved) *)
Definition replace_all (pat rep s : str) : option str :=
  match pat with [] => Some s | _ => replace_f (S (length s)) pat rep [] s end.

Definition starts_with (full beginning : str) : bool :=
  match find beginning full with Some 0 => true | _ => false end.

(* join: the loop over the elements with the running result *)
Definition join_step (infix : str) (result element : str) : str :=
  if nonempty element then (if nonempty result then result ++ infix ++ element else result ++ element)
  else result.
Definition join (infix : str) (l : list str) : str := fold_left (join_step infix) l [].

(* Str/StrSpec.v — what the string functions are supposed to compute, stated without reference to
   the loops of the implementation. *)
From Coq Require Import List Arith Bool.
From Coq Require Import Init.Byte.
From Nitro Require Import Base.Bytes.
Import ListNotations.
Local Open Scope list_scope.

Definition is_prefix (p s : str) : Prop := exists t, s = p ++ t.

(* number of left-to-right non-overlapping occurrences of a non-empty needle: scan byte by byte;
   after a match the next |needle|-1 positions are skipped *)
Fixpoint count_scan (needle s : str) (skip : nat) : nat :=
  match s with
  | [] => 0
  | _ :: s' =>
    match skip with
    | S k => count_scan needle s' k
    | 0 => if prefixb needle s then S (count_scan needle s' (length needle - 1)) else count_scan needle s' 0
    end
  end.
Definition count_nonoverlapping (needle s : str) : nat := count_scan needle s 0.

(* single left-to-right pass replacing non-overlapping occurrences; the replacement is emitted, never rescanned *)
Fixpoint replace_scan (pat rep s : str) (skip : nat) : str :=
  match s with
  | [] => []
  | c :: s' =>
    match skip with
    | S k => replace_scan pat rep s' k
    | 0 => if prefixb pat s then rep ++ replace_scan pat rep s' (length pat - 1) else c :: replace_scan pat rep s' 0
    end
  end.
Definition spec_replace (pat rep s : str) : str := match pat with [] => s | _ => replace_scan pat rep s 0 end.

Definition spec_join (infix : str) (l : list str) : str := intercalate infix (filter nonempty l).

(* a piece is clean when the needle occurs nowhere in it *)
Definition clean (needle p : str) : Prop := forall j, prefixb needle (skipn j p) = false.

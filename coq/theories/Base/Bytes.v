(* Base/Bytes.v — strings are lists of bytes; executable equality, prefix and search.
   Definitions AND their characterising lemmas for the basic string layer live here
   (this file is not a model of nitro code; the models are in */*Model.v). *)
From Coq Require Import List Arith Lia Bool.
From Coq Require Import Init.Byte Strings.Byte.
From Coq Require Strings.String.
Import ListNotations.
Local Open Scope list_scope.

Definition str := list byte.
Definition B (s : String.string) : str := String.list_byte_of_string s.
Arguments B s%string_scope.

Definition beq (a b : byte) : bool := Byte.eqb a b.

Lemma beq_true a b : beq a b = true <-> a = b.
Proof. unfold beq. split; [apply Byte.byte_dec_bl | apply Byte.byte_dec_lb]. Qed.
Lemma beq_refl a : beq a a = true.
Proof. apply beq_true; reflexivity. Qed.
Lemma beq_false a b : beq a b = false <-> a <> b.
Proof.
  split.
  - intros H E. apply beq_true in E. congruence.
  - intros H. destruct (beq a b) eqn:E; [apply beq_true in E; contradiction | reflexivity].
Qed.
Lemma beq_sym a b : beq a b = beq b a.
Proof.
  destruct (beq a b) eqn:E.
  - apply beq_true in E. subst. symmetry. apply beq_refl.
  - symmetry. apply beq_false. apply beq_false in E. congruence.
Qed.

Fixpoint seq_eqb (a b : str) : bool :=
  match a, b with
  | [], [] => true
  | x :: a', y :: b' => beq x y && seq_eqb a' b'
  | _, _ => false
  end.

Lemma seq_eqb_true a b : seq_eqb a b = true <-> a = b.
Proof.
  revert b; induction a as [|x a IH]; intros [|y b]; simpl; try (split; [discriminate|discriminate]).
  - split; reflexivity.
  - rewrite andb_true_iff, beq_true, IH. split; [intros [-> ->]; reflexivity | intros [= -> ->]; auto].
Qed.
Lemma seq_eqb_refl a : seq_eqb a a = true.
Proof. apply seq_eqb_true; reflexivity. Qed.
Lemma seq_eqb_false a b : seq_eqb a b = false <-> a <> b.
Proof.
  split.
  - intros H E. apply seq_eqb_true in E. congruence.
  - intros H. destruct (seq_eqb a b) eqn:E; [apply seq_eqb_true in E; contradiction | reflexivity].
Qed.
Lemma seq_eqb_sym a b : seq_eqb a b = seq_eqb b a.
Proof.
  destruct (seq_eqb a b) eqn:E.
  - apply seq_eqb_true in E. subst. symmetry. apply seq_eqb_refl.
  - symmetry. apply seq_eqb_false. apply seq_eqb_false in E. congruence.
Qed.

Definition str_eq_dec (a b : str) : {a = b} + {a <> b}.
Proof. destruct (seq_eqb a b) eqn:E; [left; apply seq_eqb_true; exact E | right; apply seq_eqb_false; exact E]. Defined.

Fixpoint prefixb (p s : str) : bool :=
  match p, s with
  | [], _ => true
  | a :: p', b :: s' => beq a b && prefixb p' s'
  | _ :: _, [] => false
  end.

Lemma prefixb_spec p s : prefixb p s = true <-> exists t, s = p ++ t.
Proof.
  revert s; induction p as [|a p IH]; intros s; simpl.
  - split; [intros _; exists s; reflexivity | reflexivity].
  - destruct s as [|b s]; [split; [discriminate | intros [t H]; discriminate]|].
    rewrite andb_true_iff, IH, beq_true. split.
    + intros [-> [t ->]]. now exists t.
    + intros [t H]. injection H as -> ->. split; [reflexivity | now exists t].
Qed.

Lemma prefixb_app p t : prefixb p (p ++ t) = true.
Proof. apply prefixb_spec. now exists t. Qed.

Lemma prefixb_length p s : prefixb p s = true -> length p <= length s.
Proof. intros H. apply prefixb_spec in H as [t ->]. rewrite app_length. lia. Qed.

(* std::string::find(needle) on s: index of the first occurrence *)
Fixpoint find (needle s : str) : option nat :=
  if prefixb needle s then Some 0
  else match s with [] => None | _ :: s' => option_map S (find needle s') end.

Lemma find_some needle s i : find needle s = Some i ->
  s = firstn i s ++ needle ++ skipn (i + length needle) s /\ i + length needle <= length s
  /\ forall j, j < i -> prefixb needle (skipn j s) = false.
Proof.
  revert i; induction s as [|c s IH]; intros i; simpl.
  - destruct (prefixb needle []) eqn:E; [|discriminate]. intros [= <-].
    apply prefixb_spec in E as [t E]. destruct needle; [|discriminate]. simpl. repeat split; auto. intros; lia.
  - destruct (prefixb needle (c :: s)) eqn:E.
    + intros [= <-]. pose proof E as E'. apply prefixb_spec in E as [t E]. simpl.
      split; [|split; [|intros; lia]].
      * rewrite E at 1. f_equal. rewrite E. rewrite skipn_app, skipn_all, Nat.sub_diag. reflexivity.
      * change (S (length s)) with (length (c :: s)). rewrite E, app_length. lia.
    + destruct (find needle s) as [k|] eqn:F; [|discriminate]. simpl. intros [= <-].
      destruct (IH k eq_refl) as (H1 & H2 & H3). simpl. split; [|split].
      * f_equal. exact H1.
      * lia.
      * intros [|j] Hj; simpl; [exact E | apply H3; lia].
Qed.

Lemma find_none needle s : find needle s = None -> forall j, prefixb needle (skipn j s) = false.
Proof.
  induction s as [|c s IH]; simpl.
  - destruct (prefixb needle []) eqn:E; [discriminate|]. intros _ [|j]; exact E.
  - destruct (prefixb needle (c :: s)) eqn:E; [discriminate|].
    destruct (find needle s) eqn:F; [discriminate|]. intros _ [|j]; simpl; [exact E | now apply IH].
Qed.

Lemma find_zero_iff needle s : find needle s = Some 0 <-> prefixb needle s = true.
Proof.
  destruct s as [|c s]; simpl.
  - destruct (prefixb needle []); split; congruence.
  - destruct (prefixb needle (c :: s)); [split; reflexivity|].
    destruct (find needle s); simpl; split; congruence.
Qed.

(* the needle occurs somewhere in s *)
Definition contains (needle s : str) : bool := match find needle s with Some _ => true | None => false end.

Fixpoint intercalate (sep : str) (l : list str) : str :=
  match l with
  | [] => []
  | [x] => x
  | x :: rest => x ++ sep ++ intercalate sep rest
  end.

Lemma intercalate_cons sep x y l : intercalate sep (x :: y :: l) = x ++ sep ++ intercalate sep (y :: l).
Proof. reflexivity. Qed.

Definition nonempty (s : str) : bool := match s with [] => false | _ => true end.

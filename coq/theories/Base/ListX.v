(* Base/ListX.v — small list facts missing from the 8.16 standard library, and indexed update. *)
From Coq Require Import List Arith Lia Bool.
Import ListNotations.
Local Open Scope list_scope.

Lemma skipn_skipn' {A} (a b : nat) (l : list A) : skipn a (skipn b l) = skipn (b + a) l.
Proof.
  revert l; induction b as [|b IH]; intros l; simpl; [reflexivity|].
  destruct l as [|x l]; [now rewrite skipn_nil | apply IH].
Qed.

Lemma skipn_app_exact {A} (l1 l2 : list A) : skipn (length l1) (l1 ++ l2) = l2.
Proof. rewrite skipn_app, skipn_all, Nat.sub_diag. reflexivity. Qed.

Lemma firstn_app_exact {A} (l1 l2 : list A) : firstn (length l1) (l1 ++ l2) = l1.
Proof. rewrite firstn_app, firstn_all, Nat.sub_diag. simpl. apply app_nil_r. Qed.

Fixpoint find_idx {A} (f : A -> bool) (l : list A) : option nat :=
  match l with [] => None | x :: r => if f x then Some 0 else option_map S (find_idx f r) end.

Fixpoint upd {A} (l : list A) (i : nat) (f : A -> A) : list A :=
  match l, i with [] , _ => [] | x :: r, 0 => f x :: r | x :: r, S j => x :: upd r j f end.

Lemma upd_length {A} (l : list A) i f : length (upd l i f) = length l.
Proof. revert i; induction l as [|x l IH]; intros [|i]; simpl; auto. Qed.

Lemma find_idx_some {A} (f : A -> bool) l i : find_idx f l = Some i ->
  exists x, nth_error l i = Some x /\ f x = true /\ forall j y, j < i -> nth_error l j = Some y -> f y = false.
Proof.
  revert i; induction l as [|x l IH]; intros i; simpl; [discriminate|].
  destruct (f x) eqn:E.
  - intros [= <-]. exists x. repeat split; auto. intros; lia.
  - destruct (find_idx f l) as [k|]; [|discriminate]. simpl. intros [= <-].
    destruct (IH k eq_refl) as (y & H1 & H2 & H3). exists y. repeat split; auto.
    intros [|j] z Hj; simpl; [intros [= <-]; exact E | apply H3; lia].
Qed.

Lemma find_idx_none {A} (f : A -> bool) l : find_idx f l = None -> forall x, In x l -> f x = false.
Proof.
  induction l as [|x l IH]; simpl; [intros _ ? []|].
  destruct (f x) eqn:E; [discriminate|].
  destruct (find_idx f l); [discriminate|]. intros _ y [<-|H]; auto.
Qed.

(* Base/Res.v — outcomes: a value, the library's user-input error (parsing_error) or its developer error
   (parser_error).  Any other exception, a crash or a hang cannot be expressed by a model; only the
   implementation can produce them and they are violations by themselves. *)
Inductive err := UserError | DevError.
Inductive res (A : Type) := Ok (a : A) | Err (e : err).
Arguments Ok {A}. Arguments Err {A}.

Definition bind {A B} (r : res A) (f : A -> res B) : res B :=
  match r with Ok a => f a | Err e => Err e end.
Notation "'do' x <- r ; k" := (bind r (fun x => k)) (at level 200, x pattern, r at level 100, k at level 200).

Definition is_ok {A} (r : res A) : bool := match r with Ok _ => true | Err _ => false end.

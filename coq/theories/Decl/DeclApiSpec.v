(* Decl/DeclApiSpec.v — property C13 in the simplest terms: ONE flat list of declarations.

   A parser is the list of its group keys and the list of (identity, settings) pairs declared so far, both in
   creation order.  There are no per-group maps, no three kinds of containers and no back pointer here: a name is
   looked up in the one list.
     declaring  (g, k, n):  n not in the list                    -> new entry, its identity is returned
                            the entry called n is exactly (g,k,n) -> that identity again, nothing changes
                            otherwise                              -> developer error, nothing changes
     short_name s:          |s| = 1 and (no letter yet or the same letter) -> stored; otherwise developer error
     parse:                 developer error iff two entries carry the same letter
     a token --n / -c       reaches exactly the entries called n / carrying the letter c
   The types kind, obj, objid, op, outcome are shared with the model (they are the vocabulary of the driver). *)
From Coq Require Import List Arith Bool.
From Coq Require Import Init.Byte.
From Nitro Require Import Base.Bytes Decl.DeclApiModel.
Import ListNotations.
Local Open Scope list_scope.

Record sstate := mkS { s_groups : list str; s_decls : list (objid * obj) }.
Definition s_init : sstate := mkS [default_key] [].

Definition gkey (g : gsel) : str := match g with GDirect => default_key | GNamed n => n end.
Definition s_group (ss : sstate) (g : str) : sstate :=
  if in_dec str_eq_dec g (s_groups ss) then ss else mkS (s_groups ss ++ [g]) (s_decls ss).
Definition s_select (ss : sstate) (g : gsel) : sstate :=
  match g with GDirect => ss | GNamed n => s_group ss n end.

Definition called (n : str) (x : objid * obj) : bool := if str_eq_dec (id_name (fst x)) n then true else false.
(* declaring (gn, k, n) when the group gn exists *)
Definition s_gdeclare (ss1 : sstate) (gn : str) (k : kind) (n : str) : sstate * option objid :=
  let i := (gn, k, n) in
  match List.find (called n) (s_decls ss1) with
  | None => (mkS (s_groups ss1) (s_decls ss1 ++ [(i, new_obj)]), Some i)
  | Some x => if objid_eq_dec (fst x) i then (ss1, Some i) else (ss1, None)
  end.
Definition s_declare (ss : sstate) (g : gsel) (k : kind) (n : str) : sstate * option objid :=
  s_gdeclare (s_select ss g) (gkey g) k n.

Definition s_lookup (ss : sstate) (i : objid) : option obj :=
  match List.find (fun x => if objid_eq_dec (fst x) i then true else false) (s_decls ss) with
  | Some x => Some (snd x) | None => None end.
Definition s_store (ss : sstate) (i : objid) (o : obj) : sstate :=
  mkS (s_groups ss) (map (fun x => if objid_eq_dec (fst x) i then (i, o) else x) (s_decls ss)).

(* the rules of the setters *)
Definition short_ok (old s : str) : bool :=
  (length s =? 1) && (is_empty old || (if str_eq_dec old s then true else false)).
Definition env_ok (old e : str) : bool := is_empty old || (if str_eq_dec old e then true else false).
Definition s_setter (x : setter) (o : obj) : option obj :=
  match x with
  | SShort s => if short_ok (o_short o) s then Some (mkObj s (o_env o) (o_metavar o) (o_default o) (o_optional o)) else None
  | SEnv e => if env_ok (o_env o) e then Some (mkObj (o_short o) e (o_metavar o) (o_default o) (o_optional o)) else None
  | SMetavar m => if is_empty m then None else Some (mkObj (o_short o) (o_env o) m (o_default o) (o_optional o))
  | SDefault => Some (mkObj (o_short o) (o_env o) (o_metavar o) true (o_optional o))
  | SOptional => Some (mkObj (o_short o) (o_env o) (o_metavar o) (o_default o) true)
  end.

(* letters in use, with multiplicity *)
Definition letters (l : list (objid * obj)) : list str :=
  filter (fun s => negb (is_empty s)) (map (fun x => o_short (snd x)) l).
Fixpoint nodupb (l : list str) : bool :=
  match l with [] => true | x :: r => (if in_dec str_eq_dec x r then false else true) && nodupb r end.
Definition s_consistent (ss : sstate) : bool := nodupb (letters (s_decls ss)).
Definition needs_value (x : objid * obj) : bool :=
  match id_kind (fst x) with KToggle => false | _ => negb (o_default (snd x) || o_optional (snd x)) end.
Definition s_parse (ss : sstate) : presult :=
  if negb (s_consistent ss) then PDev else if existsb needs_value (s_decls ss) then PUser else POk.

Definition carries (c : str) (x : objid * obj) : bool :=
  negb (is_empty c) && (if str_eq_dec (o_short (snd x)) c then true else false).
Definition s_resolve_name (ss : sstate) (n : str) : list objid := map fst (filter (called n) (s_decls ss)).
Definition s_resolve_letter (ss : sstate) (c : str) : list objid := map fst (filter (carries c) (s_decls ss)).
Definition s_k1_name (ss : sstate) (n : str) : bool :=
  existsb (fun x => match id_kind (fst x) with
                    | KToggle => if str_eq_dec (no_prefix ++ id_name (fst x)) n then true else false
                    | _ => false end) (s_decls ss).
Definition s_display_order (ss : sstate) : list (kind * str) :=
  flat_map (fun g => map (fun x => (id_kind (fst x), id_name (fst x)))
                         (filter (fun x => if str_eq_dec (id_grp (fst x)) g then true else false) (s_decls ss)))
           (s_groups ss).

Definition s_set_on (s1 : sstate) (i : objid) (x : setter) : sstate * outcome :=
  match s_lookup s1 i with
  | None => (s1, RDev)
  | Some ob => match s_setter x ob with None => (s1, RDevSet i) | Some ob' => (s_store s1 i ob', ROk i) end
  end.
(* a held handle is just a name: the operation through it is the operation on the named group / entry, and
   nothing else in the parser is involved *)
Definition s_step (ss : sstate) (o : op) : sstate * outcome :=
  match o with
  | OGroup g => (s_group ss g, RGroup g)
  | ODecl g k n => match s_declare ss g k n with (s1, Some i) => (s1, ROk i) | (s1, None) => (s1, RDev) end
  | OSet g k n x =>
      match s_declare ss g k n with
      | (s1, None) => (s1, RDev)
      | (s1, Some i) => s_set_on s1 i x
      end
  | OHDecl g k n xo =>
      if in_dec str_eq_dec g (s_groups ss) then
        match s_gdeclare ss g k n, xo with
        | (s1, None), _ => (s1, RDev)
        | (s1, Some i), None => (s1, ROk i)
        | (s1, Some i), Some x => s_set_on s1 i x
        end
      else (ss, RNoHandle)
  | OHSet i x => match s_lookup ss i with None => (ss, RNoHandle) | Some _ => s_set_on ss i x end
  | OMove => (ss, RMoved)
  | OParse => (ss, RParse (s_parse ss))
  end.
Fixpoint s_run_from (ss : sstate) (ops : list op) : sstate * list outcome :=
  match ops with
  | [] => (ss, [])
  | o :: r => let (s1, x) := s_step ss o in let (s2, xs) := s_run_from s1 r in (s2, x :: xs)
  end.
Definition s_run (ops : list op) : sstate * list outcome := s_run_from s_init ops.

(* ---- what a driver reports about a whole case: the outcome of every operation, then on the final parser the
   parse of an empty vector, (when that is not the developer error) for the given names and letters the objects a
   probe token reaches (None = name skipped for known finding K1), the display order of usage(), and the settings
   read back through the getters of every object a call returned *)
Definition probe_obs := (list (option (list objid)) * list (list objid))%type.
Definition observation := (list outcome * presult * option probe_obs * list (kind * str) * list (option obj))%type.
Fixpoint returned_ids (l : list outcome) : list objid :=
  match l with [] => [] | ROk i :: r => i :: returned_ids r | RDevSet i :: r => i :: returned_ids r | _ :: r => returned_ids r end.

Definition spec_observe (ops : list op) (names letters : list str) : observation :=
  let (ss, outs) := s_run ops in
  (outs, s_parse ss,
   if s_consistent ss
   then Some (map (fun n => if s_k1_name ss n then None else Some (s_resolve_name ss n)) names,
              map (s_resolve_letter ss) letters)
   else None,
   s_display_order ss,
   map (s_lookup ss) (returned_ids outs)).
Definition model_observe (ops : list op) (names letters : list str) : observation :=
  let (p, outs) := run ops in
  (outs, parse_empty p,
   match parse_empty p with
   | PDev => None
   | _ => Some (map (fun n => if k1_name p n then None else Some (resolve_name p n)) names,
                map (resolve_letter p) letters)
   end,
   display_order p,
   map (lookup p) (returned_ids outs)).

(* ---- the property, as predicates on a set of declarations *)
Definition names_unique (l : list (objid * obj)) : Prop :=
  forall i j o o', In (i, o) l -> In (j, o') l -> id_name i = id_name j -> i = j /\ o = o'.
Definition shares_letter (l : list (objid * obj)) : Prop :=
  exists i j o o', In (i, o) l /\ In (j, o') l /\ i <> j /\ o_short o = o_short o' /\ o_short o <> [].

(* Decl/DeclApiModel.v — executable model of nitro's declaration API (property C13):
     src/options/group.cpp            group::option / multi_option / toggle
     src/options/parser.cpp           parser::group(), parser::option() ..., has_option_with_name,
                                      get_all_*, check_parser_consistency, the move operations + adopt_groups,
                                      and of parse() exactly what an EMPTY argument vector and the two probe
                                      vectors [--name; v] / [-c; v] exercise
     include/nitro/options/option/base.hpp   crtp_base::short_name / env / metavar
     src/options/option.cpp, multi_option.cpp, toggle.cpp   default_value, check() without a value
   Functions follow the C++ statement by statement.  No proofs here.

   Representation choices (each is justified by a theorem in DeclApiProofs.v or tied by the driver):
   * std::map<std::string, T> is an association list in insertion order on which only find/count/emplace and
     assignment through a returned reference are used.  The C++ iterates maps in key order; the only places
     where iteration order could matter (which duplicate letter is reported first, which of several matching
     options is consulted first) are order-independent on every reachable state: error KIND only is observed,
     and at most one option matches (names_unique / resolution_unique).
   * parser::groups_ (std::map keyed by group name, the default group under the key "__default") and
     parser::group_order_ (creation order of the named groups) are one list of groups in creation order whose
     head is the default group.  Consequently parser.group("__default") returns the default group, as in the C++.
   * group::parser_ (the back pointer) is not state: group functions receive the whole parser.  That this is
     right after the parser object was moved is a memory fact exercised only by the C++ driver (see props/C13.py).
   * an object's identity (its address in the C++) is the triple (group key, kind, name). *)
From Coq Require Import List Arith Bool.
From Coq Require Import Init.Byte.
From Nitro Require Import Base.Bytes.
Import ListNotations.
Local Open Scope list_scope.

Inductive kind := KOpt | KMulti | KToggle.
Definition kind_eq_dec (a b : kind) : {a = b} + {a <> b}.
Proof. decide equality. Defined.

(* the declaration-time fields of options::base (+ "a default was given" of option / multi_option / toggle) *)
Record obj := mkObj { o_short : str; o_env : str; o_metavar : str; o_default : bool; o_optional : bool }.
(* base(): short_ = "", env_ = "", metavar_ = "ARG"; no default; is_optional_ = false *)
Definition new_obj : obj := mkObj [] [] [x41; x52; x47] false false.

Definition objid := (str * kind * str)%type.          (* group key, kind, long name *)
Definition id_grp (i : objid) : str := fst (fst i).
Definition id_kind (i : objid) : kind := snd (fst i).
Definition id_name (i : objid) : str := snd i.
Definition objid_eq_dec (a b : objid) : {a = b} + {a <> b}.
Proof. decide equality; [apply str_eq_dec | decide equality; [apply kind_eq_dec | apply str_eq_dec]]. Defined.

Definition is_empty (s : str) : bool := match s with [] => true | _ => false end.

(* ---- std::map<std::string, T> *)
Definition amap := list (str * obj).
Fixpoint afind (m : amap) (n : str) : option obj :=
  match m with [] => None | (k, v) :: r => if str_eq_dec k n then Some v else afind r n end.
(* assignment through the reference that find/emplace returned *)
Fixpoint aset (m : amap) (n : str) (v : obj) : amap :=
  match m with [] => [] | (k, x) :: r => if str_eq_dec k n then (k, v) :: r else (k, x) :: aset r n v end.

(* ---- options::group *)
Record grp := mkGrp { g_name : str; g_opts : amap; g_multis : amap; g_toggles : amap; g_order : list (kind * str) }.
Definition kmap (k : kind) (g : grp) : amap :=
  match k with KOpt => g_opts g | KMulti => g_multis g | KToggle => g_toggles g end.
Definition with_kmap (k : kind) (g : grp) (m : amap) : grp :=
  match k with
  | KOpt => mkGrp (g_name g) m (g_multis g) (g_toggles g) (g_order g)
  | KMulti => mkGrp (g_name g) (g_opts g) m (g_toggles g) (g_order g)
  | KToggle => mkGrp (g_name g) (g_opts g) (g_multis g) m (g_order g)
  end.
Definition push_order (g : grp) (e : kind * str) : grp :=
  mkGrp (g_name g) (g_opts g) (g_multis g) (g_toggles g) (g_order g ++ [e]).
Definition new_grp (n : str) : grp := mkGrp n [] [] [] [].

(* ---- options::parser: groups in creation order, head = the default group *)
Definition parser := list grp.
Definition default_key : str := [x5f; x5f; x64; x65; x66; x61; x75; x6c; x74].   (* "__default" *)
Definition new_parser : parser := [new_grp default_key].

Fixpoint gfind (p : parser) (gn : str) : option grp :=
  match p with [] => None | g :: r => if str_eq_dec (g_name g) gn then Some g else gfind r gn end.
Fixpoint gset (p : parser) (gn : str) (g' : grp) : parser :=
  match p with [] => [] | g :: r => if str_eq_dec (g_name g) gn then g' :: r else g :: gset r gn g' end.

(* parser::group(name): groups_.emplace; a new group is appended to group_order_ *)
Definition parser_group (p : parser) (gn : str) : parser :=
  match gfind p gn with Some _ => p | None => p ++ [new_grp gn] end.

(* get_all_options()/get_all_multi_options()/get_all_toggles(): the merged map of one kind, each element tagged
   with its identity *)
Definition tag (gn : str) (k : kind) (e : str * obj) : objid * obj := ((gn, k, fst e), snd e).
Definition get_all (k : kind) (p : parser) : list (objid * obj) :=
  flat_map (fun g => map (tag (g_name g) k) (kmap k g)) p.
(* get_all_X().count(name) *)
Definition all_count (k : kind) (p : parser) (n : str) : nat :=
  if existsb (fun g => match afind (kmap k g) n with Some _ => true | None => false end) p then 1 else 0.
(* parser::has_option_with_name *)
Definition has_option_with_name (p : parser) (n : str) : bool :=
  negb (all_count KMulti p n + all_count KOpt p n + all_count KToggle p n =? 0).

(* group::option / group::multi_option / group::toggle on the group with key gn (which exists when called);
   None = parser_error *)
Definition group_declare (p : parser) (gn : str) (k : kind) (n : str) : parser * option objid :=
  match gfind p gn with
  | None => (p, None)
  | Some g =>
      if has_option_with_name p n && (match afind (kmap k g) n with Some _ => false | None => true end)
      then (p, None)                                     (* "Trying to redefine option" *)
      else match afind (kmap k g) n with
           | Some _ => (p, Some (gn, k, n))              (* emplace found the key: same object *)
           | None => (gset p gn (push_order (with_kmap k g (kmap k g ++ [(n, new_obj)])) (k, n)), Some (gn, k, n))
           end
  end.

(* ---- crtp_base setters; None = parser_error *)
Definition obj_short_name (o : obj) (s : str) : option obj :=
  if negb (is_empty (o_short o)) && (if str_eq_dec (o_short o) s then false else true) then None
  else if negb (length s =? 1) then None
  else Some (mkObj s (o_env o) (o_metavar o) (o_default o) (o_optional o)).
Definition obj_env (o : obj) (e : str) : option obj :=
  if negb (is_empty (o_env o)) && (if str_eq_dec (o_env o) e then false else true) then None
  else Some (mkObj (o_short o) e (o_metavar o) (o_default o) (o_optional o)).
Definition obj_metavar (o : obj) (m : str) : option obj :=
  if is_empty m then None else Some (mkObj (o_short o) (o_env o) m (o_default o) (o_optional o)).
Definition obj_default (o : obj) : option obj := Some (mkObj (o_short o) (o_env o) (o_metavar o) true (o_optional o)).
(* option::optional() / multi_option::optional(); toggles have no such member (the drivers never send it) *)
Definition obj_optional (o : obj) : option obj := Some (mkObj (o_short o) (o_env o) (o_metavar o) (o_default o) true).

Inductive setter := SShort (s : str) | SEnv (e : str) | SMetavar (m : str) | SDefault | SOptional.
Definition apply_setter (x : setter) (o : obj) : option obj :=
  match x with SShort s => obj_short_name o s | SEnv e => obj_env o e | SMetavar m => obj_metavar o m | SDefault => obj_default o | SOptional => obj_optional o end.

(* ---- operations of a declaring program *)
Inductive gsel := GDirect | GNamed (g : str).      (* parser.option(..)  |  parser.group(g).option(..) *)
Inductive op :=
| OGroup (g : str)                                  (* parser.group(g) *)
| ODecl (g : gsel) (k : kind) (n : str)             (* <g>.option(n) / multi_option(n) / toggle(n) *)
| OSet (g : gsel) (k : kind) (n : str) (x : setter) (* <g>.option(n).short_name(s) ... (the fluent form) *)
| OHDecl (g : str) (k : kind) (n : str) (x : option setter)
      (* through a group& the caller obtained earlier (held handle, parser::group() is NOT called again):
         held_g.option(n) [.short_name(s) ...] *)
| OHSet (i : objid) (x : setter)                    (* through an option&/multi_option&/toggle& obtained earlier *)
| OMove                                             (* parser q(std::move(p)) / q = std::move(p); go on with q *)
| OParse.                                           (* parse of an empty argument vector *)
Inductive presult := POk | PUser | PDev.
(* RDevSet i: the declaration returned object i, then its setter raised parser_error;
   RNoHandle: the case uses a handle that no earlier call handed out (the driver skips the operation) *)
Inductive outcome := RGroup (g : str) | ROk (i : objid) | RDev | RDevSet (i : objid) | RMoved | RParse (r : presult)
                   | RNoHandle.

Definition select (p : parser) (g : gsel) : parser * str :=
  match g with GDirect => (p, default_key) | GNamed n => (parser_group p n, n) end.
Definition declare (p : parser) (g : gsel) (k : kind) (n : str) : parser * option objid :=
  let (p1, gn) := select p g in group_declare p1 gn k n.

Definition lookup (p : parser) (i : objid) : option obj :=
  match gfind p (id_grp i) with Some g => afind (kmap (id_kind i) g) (id_name i) | None => None end.
Definition store (p : parser) (i : objid) (o : obj) : parser :=
  match gfind p (id_grp i) with
  | Some g => gset p (id_grp i) (with_kmap (id_kind i) g (aset (kmap (id_kind i) g) (id_name i) o))
  | None => p
  end.

(* ---- parse(): for_each_option order, check_parser_consistency, validate_options with nothing given *)
Definition for_each_option (p : parser) : list (objid * obj) :=
  get_all KOpt p ++ get_all KMulti p ++ get_all KToggle p.
Fixpoint mem_str (s : str) (l : list str) : bool :=
  match l with [] => false | x :: r => if str_eq_dec x s then true else mem_str s r end.
(* std::set<std::string> short_names; emplace fails on a letter already present -> parser_error *)
Fixpoint check_consistency (l : list (objid * obj)) (seen : list str) : bool :=
  match l with
  | [] => true
  | (_, o) :: r => if is_empty (o_short o) then check_consistency r seen
                   else if mem_str (o_short o) seen then false else check_consistency r (o_short o :: seen)
  end.
(* option::check / multi_option::check with no value and the environment variable unset:
   a default, or optional(), or parsing_error; toggle::check never raises then *)
Definition check_one (x : objid * obj) : bool :=
  match id_kind (fst x) with KToggle => true | _ => o_default (snd x) || o_optional (snd x) end.
Definition parse_empty (p : parser) : presult :=
  let l := for_each_option p in
  if negb (check_consistency l []) then PDev else if forallb check_one l then POk else PUser.

(* ---- which objects a token reaches: try_parse_as_option(options) || try_parse_as_option(multi) ||
   try_parse_as_toggle; `f` is base::matches for the probe token *)
Definition matches_name (n : str) (x : objid * obj) : bool := if str_eq_dec (id_name (fst x)) n then true else false.
(* has_short_name() && as_short_list() = {c} counts short_name() *)
Definition matches_letter (c : str) (x : objid * obj) : bool :=
  negb (is_empty (o_short (snd x))) && (if str_eq_dec (o_short (snd x)) c then true else false).
Definition try_option (f : objid * obj -> bool) (l : list (objid * obj)) : option objid :=
  match filter f l with x :: _ => Some (fst x) | [] => None end.          (* the first match consumes the token *)
Definition try_toggles (f : objid * obj -> bool) (l : list (objid * obj)) : list objid :=
  map fst (filter f l).                                                    (* every matching toggle is updated *)
Definition resolve (f : objid * obj -> bool) (p : parser) : list objid :=
  match try_option f (get_all KOpt p) with
  | Some i => [i]
  | None => match try_option f (get_all KMulti p) with
            | Some i => [i]
            | None => try_toggles f (get_all KToggle p)
            end
  end.
Definition resolve_name (p : parser) (n : str) : list objid := resolve (matches_name n) p.
Definition resolve_letter (p : parser) (c : str) : list objid := resolve (matches_letter c) p.

(* known finding K1: the token --no-<t> also addresses a toggle <t>; name probes skip such names *)
Definition no_prefix : str := [x6e; x6f; x2d].
Definition k1_name (p : parser) (n : str) : bool :=
  existsb (fun x => if str_eq_dec (no_prefix ++ id_name (fst x)) n then true else false) (get_all KToggle p).

(* group().usage(s) then every group of group_order_: the option blocks in order_ order *)
Definition display_order (p : parser) : list (kind * str) := flat_map g_order p.

(* ---- one operation *)
(* the setter part of the fluent form, applied to the object i that the declaration returned *)
Definition set_on (p1 : parser) (i : objid) (x : setter) : parser * outcome :=
  match lookup p1 i with
  | None => (p1, RDev)                           (* unreachable: the object exists *)
  | Some ob => match apply_setter x ob with
               | None => (p1, RDevSet i)
               | Some ob' => (store p1 i ob', ROk i)
               end
  end.
Definition step (p : parser) (o : op) : parser * outcome :=
  match o with
  | OGroup g => (parser_group p g, RGroup g)
  | ODecl g k n => match declare p g k n with (p1, Some i) => (p1, ROk i) | (p1, None) => (p1, RDev) end
  | OSet g k n x =>
      match declare p g k n with
      | (p1, None) => (p1, RDev)
      | (p1, Some i) => set_on p1 i x
      end
  | OHDecl g k n xo =>
      match gfind p g with
      | None => (p, RNoHandle)                   (* no group& for g was ever handed out *)
      | Some _ =>
          match group_declare p g k n, xo with
          | (p1, None), _ => (p1, RDev)
          | (p1, Some i), None => (p1, ROk i)
          | (p1, Some i), Some x => set_on p1 i x
          end
      end
  | OHSet i x =>
      match lookup p i with
      | None => (p, RNoHandle)                   (* the object was never handed out *)
      | Some _ => set_on p i x
      end
  | OMove => (p, RMoved)             (* groups_, group_order_ move with their nodes; adopt_groups re-points parser_ *)
  | OParse => (p, RParse (parse_empty p))
  end.

Fixpoint run_from (p : parser) (ops : list op) : parser * list outcome :=
  match ops with
  | [] => (p, [])
  | o :: r => let (p1, x) := step p o in let (p2, xs) := run_from p1 r in (p2, x :: xs)
  end.
Definition run (ops : list op) : parser * list outcome := run_from new_parser ops.
Definition state_after (ops : list op) : parser := fst (run ops).
Definition declared (p : parser) (i : objid) : Prop := lookup p i <> None.

(* Decl/DeclApiProofs.v — proofs for property C13 (declarations stay unambiguous).
   Plan: (1) facts about the association lists and the group list of the model; (2) the flat list of the
   specification and its invariant SInv (group keys distinct, long names distinct, every entry's group exists);
   (3) a simulation relation R between a model parser and a flat state (same group keys, same lookup for every
   identity, each group's order_ = its entries in creation order, keys distinct inside each map), shown to be
   preserved by every operation together with equal outcomes; (4) the merged maps of the model are a permutation
   of the flat list, hence the consistency check, the validation and the token resolution agree; (5) the
   theorems of Properties_C13.v for all operation lists. *)
From Coq Require Import List Arith Bool Lia Permutation.
From Coq Require Import Init.Byte.
From Nitro Require Import Base.Bytes Decl.DeclApiModel Decl.DeclApiSpec.
Import ListNotations.
Local Open Scope list_scope.

Arguments objid_eq_dec : simpl never.
Arguments str_eq_dec : simpl never.
Ltac sdec := repeat match goal with
  | |- context [str_eq_dec ?a ?b] => destruct (str_eq_dec a b); subst; try congruence
  | |- context [kind_eq_dec ?a ?b] => destruct (kind_eq_dec a b); subst; try congruence
  | |- context [objid_eq_dec ?a ?b] => destruct (objid_eq_dec a b); subst; try congruence
  end.

(* ---------- association lists *)
Definition keys (m : amap) : list str := map fst m.

Lemma afind_none_iff m n : afind m n = None <-> ~ In n (keys m).
Proof.
  induction m as [|[k v] m IH]; simpl; [tauto|].
  destruct (str_eq_dec k n); subst.
  - split; [discriminate | intros H; exfalso; apply H; now left].
  - rewrite IH. tauto.
Qed.
Lemma afind_app m n o n' :
  afind (m ++ [(n, o)]) n' = match afind m n' with Some x => Some x | None => if str_eq_dec n n' then Some o else None end.
Proof. induction m as [|[k v] m IH]; simpl; [reflexivity|]. destruct (str_eq_dec k n'); auto. Qed.
Lemma afind_aset m n v n' :
  afind (aset m n v) n' = if str_eq_dec n n' then match afind m n' with Some _ => Some v | None => None end else afind m n'.
Proof.
  induction m as [|[k x] m IH]; simpl; [now destruct (str_eq_dec n n')|].
  destruct (str_eq_dec k n); subst; simpl.
  - destruct (str_eq_dec n n'); subst; [reflexivity|]. reflexivity.
  - destruct (str_eq_dec k n'); subst.
    + destruct (str_eq_dec n n'); congruence.
    + exact IH.
Qed.
Lemma keys_aset m n v : keys (aset m n v) = keys m.
Proof. induction m as [|[k x] m IH]; simpl; [reflexivity|]. destruct (str_eq_dec k n); simpl; [reflexivity | now f_equal]. Qed.
Lemma afind_in m n o : afind m n = Some o -> In (n, o) m.
Proof.
  induction m as [|[k v] m IH]; simpl; [discriminate|].
  destruct (str_eq_dec k n); subst; [intros [= ->]; now left | intros H; right; auto].
Qed.
Lemma in_afind m n o : NoDup (keys m) -> In (n, o) m -> afind m n = Some o.
Proof.
  induction m as [|[k v] m IH]; simpl; [intros _ []|].
  intros ND [E|H]; inversion ND; subst.
  - injection E as -> ->. now destruct (str_eq_dec n n).
  - destruct (str_eq_dec k n); subst; [|auto].
    exfalso. apply H2. change n with (fst (n, o)). now apply in_map.
Qed.

(* ---------- groups *)
Lemma gfind_name p gn g : gfind p gn = Some g -> g_name g = gn.
Proof. induction p as [|x p IH]; simpl; [discriminate|]. destruct (str_eq_dec (g_name x) gn); [intros [= <-]; auto | auto]. Qed.
Lemma gfind_in p gn g : gfind p gn = Some g -> In g p.
Proof. induction p as [|x p IH]; simpl; [discriminate|]. destruct (str_eq_dec (g_name x) gn); [intros [= <-]; now left | right; auto]. Qed.
Lemma gfind_none_iff p gn : gfind p gn = None <-> ~ In gn (map g_name p).
Proof.
  induction p as [|x p IH]; simpl; [tauto|].
  destruct (str_eq_dec (g_name x) gn).
  - split; [discriminate | intros H; exfalso; apply H; now left].
  - rewrite IH. tauto.
Qed.
Lemma gfind_some_iff p gn : (exists g, gfind p gn = Some g) <-> In gn (map g_name p).
Proof.
  destruct (gfind p gn) eqn:E.
  - split; [intros _|eauto]. apply gfind_in in E as H. apply gfind_name in E. subst. now apply in_map.
  - split; [intros [g H]; discriminate|]. intros H. apply gfind_none_iff in E. contradiction.
Qed.
Lemma in_gfind p g : NoDup (map g_name p) -> In g p -> gfind p (g_name g) = Some g.
Proof.
  induction p as [|x p IH]; simpl; [intros _ []|].
  intros ND [->|H]; inversion ND; subst.
  - now destruct (str_eq_dec (g_name g) (g_name g)).
  - destruct (str_eq_dec (g_name x) (g_name g)) as [E|]; [|auto].
    exfalso. apply H2. rewrite E. now apply in_map.
Qed.
Lemma gfind_app p g gn :
  gfind (p ++ [g]) gn = match gfind p gn with Some x => Some x | None => if str_eq_dec (g_name g) gn then Some g else None end.
Proof. induction p as [|x p IH]; simpl; [reflexivity|]. destruct (str_eq_dec (g_name x) gn); auto. Qed.
Lemma gfind_gset p gn g' gn' : g_name g' = gn ->
  gfind (gset p gn g') gn' = if str_eq_dec gn gn' then match gfind p gn with Some _ => Some g' | None => None end else gfind p gn'.
Proof.
  intros Hn. induction p as [|x p IH]; simpl; [now destruct (str_eq_dec gn gn')|].
  destruct (str_eq_dec (g_name x) gn) as [E|NE]; simpl.
  - rewrite Hn. destruct (str_eq_dec gn gn') as [E2|NE2]; [reflexivity|].
    destruct (str_eq_dec (g_name x) gn'); congruence.
  - destruct (str_eq_dec (g_name x) gn') as [E2|NE2].
    + destruct (str_eq_dec gn gn'); congruence.
    + exact IH.
Qed.
Lemma names_gset p gn g' : g_name g' = gn -> map g_name (gset p gn g') = map g_name p.
Proof.
  intros Hn. induction p as [|x p IH]; simpl; [reflexivity|].
  destruct (str_eq_dec (g_name x) gn); simpl; [congruence | now f_equal].
Qed.
Lemma in_gset p gn g' x : NoDup (map g_name p) -> In x (gset p gn g') -> x = g' \/ (In x p /\ g_name x <> gn).
Proof.
  induction p as [|y p IH]; simpl; [intros _ []|].
  intros ND. inversion ND; subst.
  destruct (str_eq_dec (g_name y) gn) as [E|NE]; simpl.
  - intros [<-|H]; [now left|]. right. split; [now right|]. intros E2. apply H1. rewrite E, <- E2. now apply in_map.
  - intros [<-|H]; [right; split; [now left | exact NE]|]. destruct (IH H2 H) as [->|[A B]]; [now left | right; split; [now right | exact B]].
Qed.

Lemma kmap_with_kmap k k' g m : kmap k' (with_kmap k g m) = if kind_eq_dec k k' then m else kmap k' g.
Proof. destruct k, k'; reflexivity. Qed.
Lemma kmap_push_order k g e : kmap k (push_order g e) = kmap k g.
Proof. destruct k; reflexivity. Qed.
Lemma name_with_kmap k g m : g_name (with_kmap k g m) = g_name g.
Proof. destruct k; reflexivity. Qed.
Lemma order_with_kmap k g m : g_order (with_kmap k g m) = g_order g.
Proof. destruct k; reflexivity. Qed.

(* ---------- lookup through the updates *)
Lemma lookup_gset p gn g g' j : gfind p gn = Some g -> g_name g' = gn ->
  lookup (gset p gn g') j = if str_eq_dec gn (id_grp j) then afind (kmap (id_kind j) g') (id_name j) else lookup p j.
Proof.
  intros Hg Hn. unfold lookup. rewrite (gfind_gset _ _ _ _ Hn), Hg.
  destruct (str_eq_dec gn (id_grp j)); reflexivity.
Qed.
Lemma lookup_store p i ob ob' j : lookup p i = Some ob ->
  lookup (store p i ob') j = if objid_eq_dec i j then Some ob' else lookup p j.
Proof.
  intros H. unfold store. unfold lookup in H. destruct (gfind p (id_grp i)) as [g|] eqn:Hg; [|discriminate].
  rewrite (lookup_gset _ _ g); [|exact Hg | rewrite name_with_kmap; eapply gfind_name; eauto].
  destruct i as [[gi ki] ni], j as [[gj kj] nj]; unfold id_grp, id_kind, id_name in *; simpl in *.
  destruct (str_eq_dec gi gj); subst.
  - rewrite kmap_with_kmap. destruct (kind_eq_dec ki kj); subst.
    + rewrite afind_aset. destruct (str_eq_dec ni nj); subst.
      * rewrite H. now destruct (objid_eq_dec (gj, kj, nj) (gj, kj, nj)).
      * unfold lookup, id_grp, id_kind, id_name; simpl. rewrite Hg. destruct (objid_eq_dec (gj, kj, ni) (gj, kj, nj)); congruence.
    + unfold lookup, id_grp, id_kind, id_name; simpl. rewrite Hg. destruct (objid_eq_dec (gj, ki, ni) (gj, kj, nj)); congruence.
  - destruct (objid_eq_dec (gi, ki, ni) (gj, kj, nj)); congruence.
Qed.
Lemma lookup_parser_group p gn j : lookup (parser_group p gn) j = lookup p j.
Proof.
  unfold parser_group. destruct (gfind p gn) eqn:E; [reflexivity|].
  unfold lookup. rewrite gfind_app. destruct (gfind p (id_grp j)); [reflexivity|].
  simpl. destruct (str_eq_dec gn (id_grp j)); [|reflexivity]. now destruct (id_kind j).
Qed.
(* ---------- lists *)
Lemma NoDup_app_intro {A} (a b : list A) : NoDup a -> NoDup b -> (forall x, In x a -> ~ In x b) -> NoDup (a ++ b).
Proof.
  induction a as [|x a IH]; simpl; [auto|]. intros Ha Hb D. inversion Ha; subst. constructor.
  - intros H. apply in_app_or in H as [H|H]; [contradiction | apply (D x); [now left | exact H]].
  - apply IH; [assumption | assumption |]. intros y Hy. apply D. now right.
Qed.
Lemma filter_none {A} (f : A -> bool) (l : list A) : (forall x, In x l -> f x = false) -> filter f l = [].
Proof. induction l as [|x l IH]; simpl; [reflexivity|]. intros H. rewrite (H x (or_introl eq_refl)). apply IH. intros y Hy. apply H. now right. Qed.

(* ---------- the flat list *)
Definition sname (x : objid * obj) : str := id_name (fst x).
Definition has_id (i : objid) (x : objid * obj) : bool := if objid_eq_dec (fst x) i then true else false.
Definition lfind (l : list (objid * obj)) (i : objid) : option obj :=
  match List.find (has_id i) l with Some x => Some (snd x) | None => None end.
Definition kn (x : objid * obj) : kind * str := (id_kind (fst x), id_name (fst x)).
Definition in_grp (g : str) (x : objid * obj) : bool := if str_eq_dec (id_grp (fst x)) g then true else false.
Definition restore (i : objid) (o : obj) (x : objid * obj) : objid * obj := if objid_eq_dec (fst x) i then (i, o) else x.

Lemma s_lookup_lfind ss i : s_lookup ss i = lfind (s_decls ss) i.
Proof. reflexivity. Qed.

Lemma lfind_cons x l j : lfind (x :: l) j = if objid_eq_dec (fst x) j then Some (snd x) else lfind l j.
Proof. unfold lfind; simpl. unfold has_id. destruct (objid_eq_dec (fst x) j); reflexivity. Qed.
Lemma lfind_app l i o j :
  lfind (l ++ [(i, o)]) j = match lfind l j with Some x => Some x | None => if objid_eq_dec i j then Some o else None end.
Proof.
  induction l as [|x l IH]; simpl app.
  - rewrite lfind_cons. reflexivity.
  - rewrite !lfind_cons, IH. destruct (objid_eq_dec (fst x) j); reflexivity.
Qed.
Lemma lfind_restore l i o j :
  lfind (map (restore i o) l) j = if objid_eq_dec i j then match lfind l j with Some _ => Some o | None => None end else lfind l j.
Proof.
  induction l as [|x l IH]; simpl map.
  - unfold lfind; simpl. destruct (objid_eq_dec i j); reflexivity.
  - rewrite !lfind_cons, IH. unfold restore. destruct (objid_eq_dec (fst x) i) as [E|NE]; simpl fst; simpl snd.
    + destruct (objid_eq_dec i j) as [E2|NE2].
      * rewrite E, E2. destruct (objid_eq_dec j j); [reflexivity | congruence].
      * destruct (objid_eq_dec (fst x) j); [congruence | reflexivity].
    + destruct (objid_eq_dec (fst x) j), (objid_eq_dec i j); try congruence; reflexivity.
Qed.
Lemma lfind_in l i o : lfind l i = Some o -> In (i, o) l.
Proof.
  induction l as [|x l IH]; [discriminate|]. rewrite lfind_cons.
  destruct (objid_eq_dec (fst x) i) as [E|NE].
  - intros [= <-]. left. destruct x; simpl in *; congruence.
  - intros H. right. auto.
Qed.
Lemma lfind_none l i : lfind l i = None <-> ~ In i (map fst l).
Proof.
  induction l as [|x l IH]; [simpl; unfold lfind; simpl; tauto|]. rewrite lfind_cons. simpl.
  destruct (objid_eq_dec (fst x) i).
  - split; [discriminate | intros H; exfalso; apply H; now left].
  - rewrite IH. tauto.
Qed.
Lemma in_lfind l i o : NoDup (map fst l) -> In (i, o) l -> lfind l i = Some o.
Proof.
  induction l as [|x l IH]; simpl; [intros _ []|].
  intros ND H. inversion ND; subst. rewrite lfind_cons. destruct H as [->|H]; simpl.
  - now destruct (objid_eq_dec i i).
  - destruct (objid_eq_dec (fst x) i) as [E|]; [|auto].
    exfalso. apply H2. rewrite E. change i with (fst (i, o)). now apply in_map.
Qed.
Lemma find_called_none l n : List.find (called n) l = None <-> ~ In n (map sname l).
Proof.
  induction l as [|x l IH]; simpl; [tauto|].
  unfold called at 1, sname at 1. destruct (str_eq_dec (id_name (fst x)) n).
  - split; [discriminate | intros H; exfalso; apply H; now left].
  - rewrite IH. tauto.
Qed.
Lemma find_called_some l n x : List.find (called n) l = Some x -> In x l /\ sname x = n.
Proof.
  intros H. apply List.find_some in H as [H1 H2]. split; [exact H1|].
  unfold called in H2. unfold sname. destruct (str_eq_dec (id_name (fst x)) n); [assumption | discriminate].
Qed.
Lemma nodup_names_ids l : NoDup (map sname l) -> NoDup (map fst l).
Proof. intros H. apply (NoDup_map_inv id_name). now rewrite map_map. Qed.
Lemma names_unique_in l x y : NoDup (map sname l) -> In x l -> In y l -> sname x = sname y -> x = y.
Proof.
  induction l as [|z l IH]; simpl; [intros _ []|].
  intros ND Hx Hy E. inversion ND; subst.
  destruct Hx as [->|Hx], Hy as [->|Hy]; auto.
  - exfalso. apply H1. rewrite E. now apply in_map.
  - exfalso. apply H1. rewrite <- E. now apply in_map.
Qed.
Lemma map_fst_restore l i o : map fst (map (restore i o) l) = map fst l.
Proof.
  rewrite map_map. apply map_ext. intros x. unfold restore. destruct (objid_eq_dec (fst x) i); [simpl; congruence | reflexivity].
Qed.
Lemma map_sname_restore l i o : map sname (map (restore i o) l) = map sname l.
Proof. unfold sname. rewrite <- !(map_map fst id_name), map_fst_restore. reflexivity. Qed.
Lemma filter_grp_restore l i o g : map kn (filter (in_grp g) (map (restore i o) l)) = map kn (filter (in_grp g) l).
Proof.
  induction l as [|x l IH]; simpl; [reflexivity|].
  assert (E : fst (restore i o x) = fst x) by (unfold restore; destruct (objid_eq_dec (fst x) i); [simpl; congruence | reflexivity]).
  assert (G : in_grp g (restore i o x) = in_grp g x) by (unfold in_grp; now rewrite E).
  rewrite G. destruct (in_grp g x); simpl; [|exact IH]. rewrite IH. f_equal. unfold kn. now rewrite E.
Qed.

(* ---------- invariant of the specification and the simulation relation *)
Record SInv (ss : sstate) : Prop := mkSInv {
  si_groups : NoDup (s_groups ss);
  si_names : NoDup (map sname (s_decls ss));
  si_grp : forall x, In x (s_decls ss) -> In (id_grp (fst x)) (s_groups ss);
  si_default : In default_key (s_groups ss) }.
Record R (p : parser) (ss : sstate) : Prop := mkR {
  r_groups : map g_name p = s_groups ss;
  r_lookup : forall i, lookup p i = s_lookup ss i;
  r_order : forall g, In g p -> g_order g = map kn (filter (in_grp (g_name g)) (s_decls ss));
  r_keys : forall g k, In g p -> NoDup (keys (kmap k g)) }.

Lemma SInv_init : SInv s_init.
Proof. constructor; simpl; [repeat constructor; intros [] | constructor | intros _ [] | now left]. Qed.
Lemma R_init : R new_parser s_init.
Proof.
  constructor; simpl; [reflexivity | | |].
  - intros [[g k] n]. unfold lookup, id_grp, id_kind, id_name; simpl. destruct (str_eq_dec default_key g); [now destruct k | reflexivity].
  - intros g [<-|[]]. reflexivity.
  - intros g k [<-|[]]. destruct k; constructor.
Qed.

Lemma sim_group p ss g : R p ss -> SInv ss -> R (parser_group p g) (s_group ss g) /\ SInv (s_group ss g).
Proof.
  intros HR HS. unfold parser_group, s_group.
  destruct (in_dec str_eq_dec g (s_groups ss)) as [Hin|Hnin].
  - rewrite <- (r_groups _ _ HR) in Hin. apply gfind_some_iff in Hin as [x ->]. auto.
  - assert (E : gfind p g = None) by (apply gfind_none_iff; now rewrite (r_groups _ _ HR)).
    rewrite E. split.
    + constructor; simpl.
      * rewrite map_app, (r_groups _ _ HR). reflexivity.
      * intros i. pose proof (lookup_parser_group p g i) as L. unfold parser_group in L. rewrite E in L.
        rewrite L. exact (r_lookup _ _ HR i).
      * intros x Hx. apply in_app_or in Hx as [Hx|[<-|[]]]; [now apply (r_order _ _ HR)|]. simpl.
        assert (F : filter (in_grp g) (s_decls ss) = []); [|now rewrite F].
        apply filter_none. intros y Hy. unfold in_grp. destruct (str_eq_dec (id_grp (fst y)) g) as [<-|]; [|reflexivity].
        exfalso. apply Hnin. now apply (si_grp _ HS).
      * intros x k Hx. apply in_app_or in Hx as [Hx|[<-|[]]]; [now apply (r_keys _ _ HR)|]. destruct k; constructor.
    + constructor; simpl.
      * apply NoDup_app_intro; [apply (si_groups _ HS) | repeat constructor; intros [] | intros y Hy [<-|[]]; contradiction].
      * apply (si_names _ HS).
      * intros x Hx. apply in_or_app. left. now apply (si_grp _ HS).
      * apply in_or_app. left. apply (si_default _ HS).
Qed.
(* ---------- has_option_with_name *)
Lemma all_count_one k p n : all_count k p n = 1 <-> exists g, In g p /\ afind (kmap k g) n <> None.
Proof.
  unfold all_count.
  destruct (existsb (fun g => match afind (kmap k g) n with Some _ => true | None => false end) p) eqn:E.
  - split; [intros _|reflexivity]. apply existsb_exists in E as [g [H1 H2]]. exists g. split; [exact H1|].
    destruct (afind (kmap k g) n); [discriminate | discriminate].
  - split; [discriminate|]. intros [g [H1 H2]]. exfalso.
    assert (T : existsb (fun g => match afind (kmap k g) n with Some _ => true | None => false end) p = true).
    { apply existsb_exists. exists g. split; [exact H1|]. destruct (afind (kmap k g) n); congruence. }
    congruence.
Qed.
Lemma all_count_le k p n : all_count k p n = 0 \/ all_count k p n = 1.
Proof. unfold all_count. destruct (existsb _ p); auto. Qed.
Lemma has_name_model p n : has_option_with_name p n = true <-> exists k g, In g p /\ afind (kmap k g) n <> None.
Proof.
  unfold has_option_with_name. rewrite negb_true_iff, Nat.eqb_neq. split.
  - intros H.
    assert (T : all_count KMulti p n = 1 \/ all_count KOpt p n = 1 \/ all_count KToggle p n = 1)
      by (destruct (all_count_le KMulti p n), (all_count_le KOpt p n), (all_count_le KToggle p n); lia).
    destruct T as [T|[T|T]]; apply all_count_one in T as [g Hg]; eexists _, g; exact Hg.
  - intros [k [g Hg]]. assert (T : all_count k p n = 1) by (apply all_count_one; eauto). destruct k; lia.
Qed.

Lemma R_nodup_groups p ss : R p ss -> SInv ss -> NoDup (map g_name p).
Proof. intros HR HS. rewrite (r_groups _ _ HR). apply (si_groups _ HS). Qed.

Lemma lookup_of_group p g k n : NoDup (map g_name p) -> In g p -> lookup p (g_name g, k, n) = afind (kmap k g) n.
Proof. intros ND H. unfold lookup, id_grp, id_kind, id_name; simpl. now rewrite (in_gfind _ _ ND H). Qed.

Lemma has_name_iff p ss n : R p ss -> SInv ss -> (has_option_with_name p n = true <-> In n (map sname (s_decls ss))).
Proof.
  intros HR HS. rewrite has_name_model. split.
  - intros [k [g [Hg Hf]]]. destruct (afind (kmap k g) n) as [o|] eqn:E; [|congruence].
    rewrite <- (lookup_of_group p g k n (R_nodup_groups _ _ HR HS) Hg), (r_lookup _ _ HR), s_lookup_lfind in E.
    apply lfind_in in E. change n with (sname ((g_name g, k, n), o)). now apply in_map.
  - intros H. apply in_map_iff in H as [[[[gx kx] nx] o] [E Hx]]. unfold sname in E; simpl in E; subst nx.
    assert (L : lookup p (gx, kx, n) = Some o).
    { rewrite (r_lookup _ _ HR), s_lookup_lfind. apply in_lfind; [apply nodup_names_ids, (si_names _ HS) | exact Hx]. }
    unfold lookup, id_grp, id_kind, id_name in L; simpl in L. destruct (gfind p gx) as [g|] eqn:Eg; [|discriminate].
    exists kx, g. split; [eapply gfind_in; eauto | congruence].
Qed.

(* ---------- one declaration *)
Lemma sim_group_declare p ss gn k n : R p ss -> SInv ss -> In gn (s_groups ss) ->
  match List.find (called n) (s_decls ss) with
  | None => exists p', group_declare p gn k n = (p', Some (gn, k, n)) /\
                       R p' (mkS (s_groups ss) (s_decls ss ++ [((gn, k, n), new_obj)])) /\
                       SInv (mkS (s_groups ss) (s_decls ss ++ [((gn, k, n), new_obj)]))
  | Some x => if objid_eq_dec (fst x) (gn, k, n) then group_declare p gn k n = (p, Some (gn, k, n))
              else group_declare p gn k n = (p, None)
  end.
Proof.
  intros HR HS Hg.
  assert (Hex : exists g, gfind p gn = Some g) by (apply gfind_some_iff; now rewrite (r_groups _ _ HR)).
  destruct Hex as [g Eg].
  assert (La : afind (kmap k g) n = s_lookup ss (gn, k, n)).
  { rewrite <- (r_lookup _ _ HR). unfold lookup, id_grp, id_kind, id_name; simpl. now rewrite Eg. }
  unfold group_declare. rewrite Eg.
  destruct (List.find (called n) (s_decls ss)) as [x|] eqn:F.
  - apply find_called_some in F as [Hx Hn].
    assert (Hh : has_option_with_name p n = true)
      by (apply (has_name_iff _ _ _ HR HS); rewrite <- Hn; now apply in_map).
    rewrite Hh. destruct (objid_eq_dec (fst x) (gn, k, n)) as [E|NE].
    + assert (L : s_lookup ss (gn, k, n) = Some (snd x)).
      { rewrite s_lookup_lfind. apply in_lfind; [apply nodup_names_ids, (si_names _ HS)|]. rewrite <- E. now destruct x. }
      rewrite La, L. reflexivity.
    + assert (L : s_lookup ss (gn, k, n) = None).
      { destruct (s_lookup ss (gn, k, n)) as [o|] eqn:L; [|reflexivity]. exfalso. rewrite s_lookup_lfind in L. apply lfind_in in L.
        apply NE. assert (T : x = ((gn, k, n), o)) by (apply (names_unique_in _ _ _ (si_names _ HS) Hx L); exact Hn). rewrite T. reflexivity. }
      rewrite La, L. reflexivity.
  - apply find_called_none in F as Hnot.
    assert (Hh : has_option_with_name p n = false).
    { destruct (has_option_with_name p n) eqn:Hh; [|reflexivity]. apply (has_name_iff _ _ _ HR HS) in Hh. contradiction. }
    assert (Ln : s_lookup ss (gn, k, n) = None).
    { destruct (s_lookup ss (gn, k, n)) as [o|] eqn:L; [|reflexivity]. exfalso. rewrite s_lookup_lfind in L. apply lfind_in in L.
      apply Hnot. change n with (sname ((gn, k, n), o)). now apply in_map. }
    rewrite Hh, La, Ln. simpl. eexists. split; [reflexivity|].
    pose proof (gfind_name _ _ _ Eg) as Ng. pose proof (gfind_in _ _ _ Eg) as Ig.
    pose proof (R_nodup_groups _ _ HR HS) as ND.
    set (g' := push_order (with_kmap k g (kmap k g ++ [(n, new_obj)])) (k, n)).
    assert (Ng' : g_name g' = gn) by (unfold g'; simpl; now rewrite name_with_kmap).
    split.
    + constructor.
      * simpl. rewrite (names_gset _ _ _ Ng'). apply (r_groups _ _ HR).
      * intros j. rewrite (lookup_gset _ _ g _ _ Eg Ng'). rewrite s_lookup_lfind. simpl s_decls.
        rewrite lfind_app, <- s_lookup_lfind, <- (r_lookup _ _ HR).
        destruct j as [[gj kj] nj]; unfold id_grp, id_kind, id_name; simpl.
        destruct (str_eq_dec gn gj) as [<-|NEg].
        -- unfold g'. rewrite kmap_push_order, kmap_with_kmap.
           assert (Lj : lookup p (gn, kj, nj) = afind (kmap kj g) nj)
             by (unfold lookup, id_grp, id_kind, id_name; simpl; now rewrite Eg).
           rewrite Lj. destruct (kind_eq_dec k kj) as [<-|NEk].
           ++ rewrite afind_app. destruct (afind (kmap k g) nj); [reflexivity|].
              destruct (str_eq_dec n nj) as [En|NEn]; destruct (objid_eq_dec (gn, k, n) (gn, k, nj)); try congruence; reflexivity.
           ++ destruct (afind (kmap kj g) nj); [reflexivity|].
              destruct (objid_eq_dec (gn, k, n) (gn, kj, nj)); [congruence | reflexivity].
        -- destruct (lookup p (gj, kj, nj)); [reflexivity|].
           destruct (objid_eq_dec (gn, k, n) (gj, kj, nj)); [congruence | reflexivity].
      * intros x Hx. simpl s_decls. rewrite filter_app, map_app.
        assert (Fl : forall gx, filter (in_grp gx) [((gn, k, n), new_obj)] = if str_eq_dec gn gx then [((gn, k, n), new_obj)] else []).
        { intros gx. simpl. unfold in_grp, id_grp; simpl. destruct (str_eq_dec gn gx); reflexivity. }
        rewrite Fl.
        apply (in_gset _ _ _ _ ND) in Hx as [->|[Hx Hne]].
        -- rewrite Ng'. destruct (str_eq_dec gn gn); [|congruence]. unfold g'; simpl.
           rewrite order_with_kmap, (r_order _ _ HR g Ig), Ng. reflexivity.
        -- destruct (str_eq_dec gn (g_name x)); [congruence|]. simpl. rewrite app_nil_r. now apply (r_order _ _ HR).
      * intros x k' Hx. apply (in_gset _ _ _ _ ND) in Hx as [->|[Hx _]]; [|now apply (r_keys _ _ HR)].
        unfold g'. rewrite kmap_push_order, kmap_with_kmap. destruct (kind_eq_dec k k') as [<-|]; [|now apply (r_keys _ _ HR)].
        unfold keys. rewrite map_app. simpl. apply NoDup_app_intro; [now apply (r_keys _ _ HR) | repeat constructor; intros [] |].
        intros y Hy [<-|[]]. rewrite <- La in Ln. apply afind_none_iff in Ln. contradiction.
    + constructor; simpl.
      * apply (si_groups _ HS).
      * rewrite map_app. simpl. apply NoDup_app_intro; [apply (si_names _ HS) | repeat constructor; intros [] |].
        intros y Hy [<-|[]]. contradiction.
      * intros x Hx. apply in_app_or in Hx as [Hx|[<-|[]]]; [now apply (si_grp _ HS) | exact Hg].
      * apply (si_default _ HS).
Qed.

Lemma sim_store p ss i ob ob' : R p ss -> SInv ss -> lookup p i = Some ob ->
  R (store p i ob') (s_store ss i ob') /\ SInv (s_store ss i ob').
Proof.
  intros HR HS L.
  assert (D : s_decls (s_store ss i ob') = map (restore i ob') (s_decls ss)) by reflexivity.
  pose proof (R_nodup_groups _ _ HR HS) as ND.
  split.
  - pose proof L as L'. unfold lookup in L'. destruct (gfind p (id_grp i)) as [g|] eqn:Eg; [|discriminate].
    pose proof (gfind_name _ _ _ Eg) as Ng. pose proof (gfind_in _ _ _ Eg) as Ig.
    constructor.
    + unfold store. rewrite Eg. rewrite names_gset; [apply (r_groups _ _ HR) | now rewrite name_with_kmap].
    + intros j. rewrite (lookup_store _ _ ob _ _ L). rewrite s_lookup_lfind, D, lfind_restore, <- s_lookup_lfind, <- (r_lookup _ _ HR).
      destruct (objid_eq_dec i j) as [<-|]; [now rewrite L | reflexivity].
    + intros x Hx. rewrite D, filter_grp_restore. unfold store in Hx. rewrite Eg in Hx.
      apply (in_gset _ _ _ _ ND) in Hx as [->|[Hx _]]; [|now apply (r_order _ _ HR)].
      rewrite order_with_kmap, name_with_kmap. now apply (r_order _ _ HR).
    + intros x k Hx. unfold store in Hx. rewrite Eg in Hx.
      apply (in_gset _ _ _ _ ND) in Hx as [->|[Hx _]]; [|now apply (r_keys _ _ HR)].
      rewrite kmap_with_kmap. destruct (kind_eq_dec (id_kind i) k) as [<-|]; [|now apply (r_keys _ _ HR)].
      rewrite keys_aset. now apply (r_keys _ _ HR).
  - constructor.
    + apply (si_groups _ HS).
    + rewrite D, map_sname_restore. apply (si_names _ HS).
    + intros x Hx. rewrite D in Hx. apply in_map_iff in Hx as [y [<- Hy]].
      assert (E : fst (restore i ob' y) = fst y) by (unfold restore; destruct (objid_eq_dec (fst y) i); [simpl; congruence | reflexivity]).
      rewrite E. now apply (si_grp _ HS).
    + apply (si_default _ HS).
Qed.

Lemma setter_eq x o : apply_setter x o = s_setter x o.
Proof.
  destruct x as [s|e|m| |]; simpl; [| |reflexivity|reflexivity|reflexivity].
  - unfold obj_short_name, short_ok.
    destruct (is_empty (o_short o)), (str_eq_dec (o_short o) s), (length s =? 1); reflexivity.
  - unfold obj_env, env_ok. destruct (is_empty (o_env o)), (str_eq_dec (o_env o) e); reflexivity.
Qed.

Lemma sim_select p ss g : R p ss -> SInv ss ->
  snd (select p g) = gkey g /\ R (fst (select p g)) (s_select ss g) /\ SInv (s_select ss g) /\ In (gkey g) (s_groups (s_select ss g)).
Proof.
  intros HR HS. destruct g as [|gn]; simpl.
  - split; [reflexivity|]. split; [exact HR|]. split; [exact HS|]. apply (si_default _ HS).
  - destruct (sim_group p ss gn HR HS) as [A B]. split; [reflexivity|]. split; [exact A|]. split; [exact B|].
    unfold s_group. destruct (in_dec str_eq_dec gn (s_groups ss)); [assumption | simpl; apply in_or_app; right; now left].
Qed.

Lemma sim_declare p ss g k n : R p ss -> SInv ss ->
  snd (declare p g k n) = snd (s_declare ss g k n) /\
  R (fst (declare p g k n)) (fst (s_declare ss g k n)) /\ SInv (fst (s_declare ss g k n)).
Proof.
  intros HR HS. destruct (sim_select p ss g HR HS) as (E1 & R1 & S1 & I1).
  unfold declare, s_declare, s_gdeclare. destruct (select p g) as [p1 gn]; simpl in E1, R1. subst gn.
  pose proof (sim_group_declare p1 (s_select ss g) (gkey g) k n R1 S1 I1) as H.
  destruct (List.find (called n) (s_decls (s_select ss g))) as [x|].
  - destruct (objid_eq_dec (fst x) (gkey g, k, n)); rewrite H; simpl; auto.
  - destruct H as (p' & -> & R2 & S2). simpl. auto.
Qed.
(* ---------- the merged maps and the flat list hold the same objects *)
Lemma in_get_all k p i o :
  In (i, o) (get_all k p) <-> id_kind i = k /\ exists g, In g p /\ g_name g = id_grp i /\ In (id_name i, o) (kmap k g).
Proof.
  unfold get_all. rewrite in_flat_map. split.
  - intros [g [Hg H]]. apply in_map_iff in H as [[n o'] [E Hin]]. unfold tag in E; simpl in E. injection E as <- <-.
    unfold id_kind, id_grp, id_name; simpl. split; [reflexivity|]. exists g. auto.
  - intros [Ek [g (Hg & Hn & Hin)]]. exists g. split; [exact Hg|]. apply in_map_iff. exists (id_name i, o). split; [|exact Hin].
    unfold tag; simpl. destruct i as [[gi ki] ni]; unfold id_kind, id_grp, id_name in *; simpl in *. now subst.
Qed.
Lemma kind_get_all k p i : In i (map fst (get_all k p)) -> id_kind i = k.
Proof. intros H. apply in_map_iff in H as [[j o] [<- H]]. now apply in_get_all in H as [H _]. Qed.

Lemma in_for_each p i o : NoDup (map g_name p) -> (forall g k, In g p -> NoDup (keys (kmap k g))) ->
  (In (i, o) (for_each_option p) <-> lookup p i = Some o).
Proof.
  intros ND NK. unfold for_each_option. rewrite !in_app_iff, !in_get_all. split.
  - intros H. assert (T : exists g, In g p /\ g_name g = id_grp i /\ In (id_name i, o) (kmap (id_kind i) g)).
    { destruct H as [[Ek H]|[[Ek H]|[Ek H]]]; rewrite Ek; exact H. }
    destruct T as [g (Hg & Hn & Hin)]. unfold lookup. rewrite <- Hn, (in_gfind _ _ ND Hg). apply in_afind; auto.
  - intros L. unfold lookup in L. destruct (gfind p (id_grp i)) as [g|] eqn:Eg; [|discriminate]. apply afind_in in L.
    assert (T : exists g, In g p /\ g_name g = id_grp i /\ In (id_name i, o) (kmap (id_kind i) g)).
    { exists g. split; [eapply gfind_in; eauto|]. split; [eapply gfind_name; eauto | exact L]. }
    destruct (id_kind i); [left | right; left | right; right]; (split; [reflexivity | exact T]).
Qed.

Lemma nodup_get_all k p : NoDup (map g_name p) -> (forall g, In g p -> NoDup (keys (kmap k g))) -> NoDup (map fst (get_all k p)).
Proof.
  induction p as [|g p IH]; simpl; [constructor|]. intros ND NK. inversion ND; subst. rewrite map_app. apply NoDup_app_intro.
  - replace (map fst (map (tag (g_name g) k) (kmap k g))) with (map (fun n => (g_name g, k, n)) (keys (kmap k g)))
      by (unfold keys; rewrite !map_map; reflexivity).
    apply FinFun.Injective_map_NoDup; [intros a b [= ->]; reflexivity | apply NK; now left].
  - apply IH; [assumption|]. intros x Hx. apply NK. now right.
  - intros x Hx Hy. apply in_map_iff in Hx as [[i o] [E Hx]]. simpl in E. subst i.
    apply in_map_iff in Hx as [[n o'] [E Hx]]. unfold tag in E; simpl in E. injection E as <- <-.
    apply in_map_iff in Hy as [[j o2] [E Hy]]. simpl in E. subst j.
    apply in_get_all in Hy as [_ [g2 (Hg2 & Hn2 & _)]]. unfold id_grp in Hn2; simpl in Hn2.
    apply H1. rewrite <- Hn2. now apply in_map.
Qed.
Lemma nodup_for_each p : NoDup (map g_name p) -> (forall g k, In g p -> NoDup (keys (kmap k g))) ->
  NoDup (map fst (for_each_option p)).
Proof.
  intros ND NK. unfold for_each_option. rewrite !map_app.
  apply NoDup_app_intro; [apply nodup_get_all; auto | apply NoDup_app_intro; [apply nodup_get_all; auto | apply nodup_get_all; auto |] |].
  - intros x Hx Hy. apply kind_get_all in Hx. apply kind_get_all in Hy. congruence.
  - intros x Hx Hy. apply kind_get_all in Hx. apply in_app_or in Hy as [Hy|Hy]; apply kind_get_all in Hy; congruence.
Qed.

Lemma perm_for_each p ss : R p ss -> SInv ss -> Permutation (for_each_option p) (s_decls ss).
Proof.
  intros HR HS. pose proof (R_nodup_groups _ _ HR HS) as ND.
  assert (NK : forall g k, In g p -> NoDup (keys (kmap k g))) by (intros; now apply (r_keys _ _ HR)).
  apply NoDup_Permutation.
  - apply (NoDup_map_inv fst). now apply nodup_for_each.
  - apply (NoDup_map_inv fst), nodup_names_ids, (si_names _ HS).
  - intros [i o]. rewrite (in_for_each _ _ _ ND NK), (r_lookup _ _ HR), s_lookup_lfind. split; [apply lfind_in|].
    apply in_lfind, nodup_names_ids, (si_names _ HS).
Qed.

Lemma perm_filter {A} (f : A -> bool) l l' : Permutation l l' -> Permutation (filter f l) (filter f l').
Proof.
  induction 1; simpl.
  - constructor.
  - destruct (f x); [now constructor | assumption].
  - destruct (f x), (f y); try apply Permutation_refl. apply perm_swap.
  - eapply Permutation_trans; eauto.
Qed.
Lemma perm_single {A} (l1 l2 : list A) : Permutation l1 l2 -> length l2 <= 1 -> l1 = l2.
Proof.
  intros P L. destruct l2 as [|a [|b t]]; simpl in L; [| |lia].
  - apply Permutation_sym in P. now apply Permutation_nil in P.
  - apply Permutation_sym in P. now apply Permutation_length_1_inv in P.
Qed.

(* ---------- parse of the empty vector *)
Lemma mem_str_iff s l : mem_str s l = true <-> In s l.
Proof.
  induction l as [|x l IH]; simpl; [split; [discriminate | intros []]|].
  destruct (str_eq_dec x s); [split; auto | rewrite IH; split; [auto | intros [H|H]; [contradiction | exact H]]].
Qed.
Lemma letters_cons x l : letters (x :: l) = if is_empty (o_short (snd x)) then letters l else o_short (snd x) :: letters l.
Proof. unfold letters; simpl. now destruct (is_empty (o_short (snd x))). Qed.
Lemma check_consistency_iff l seen :
  check_consistency l seen = true <-> NoDup (letters l) /\ forall s, In s (letters l) -> ~ In s seen.
Proof.
  revert seen; induction l as [|[i o] l IH]; intros seen.
  - simpl. split; [intros _; split; [constructor | intros s []] | reflexivity].
  - rewrite letters_cons. simpl. destruct (is_empty (o_short o)) eqn:Ee; [apply IH|].
    destruct (mem_str (o_short o) seen) eqn:M.
    + split; [discriminate|]. intros [_ H]. exfalso. apply (H (o_short o)); [now left | now apply mem_str_iff].
    + rewrite IH. split.
      * intros [ND H]. split.
        -- constructor; [|exact ND]. intros Hin. apply (H _ Hin). now left.
        -- intros s [<-|Hs] Hseen; [apply mem_str_iff in Hseen; congruence | apply (H _ Hs); now right].
      * intros [ND H]. inversion ND; subst. split; [assumption|].
        intros s Hs [<-|Hseen]; [contradiction | apply (H s); [now right | exact Hseen]].
Qed.
Lemma nodupb_iff l : nodupb l = true <-> NoDup l.
Proof.
  induction l as [|x l IH]; simpl; [split; [constructor | reflexivity]|].
  destruct (in_dec str_eq_dec x l); simpl.
  - split; [discriminate | intros H; inversion H; contradiction].
  - rewrite IH. split; [now constructor | intros H; now inversion H].
Qed.
Lemma perm_letters l l' : Permutation l l' -> Permutation (letters l) (letters l').
Proof. intros P. unfold letters. apply perm_filter, Permutation_map, P. Qed.

Lemma consistency_eq p ss : R p ss -> SInv ss -> check_consistency (for_each_option p) [] = s_consistent ss.
Proof.
  intros HR HS. apply eq_true_iff_eq. unfold s_consistent. rewrite check_consistency_iff, nodupb_iff.
  pose proof (perm_letters _ _ (perm_for_each _ _ HR HS)) as P. split.
  - intros [ND _]. eapply Permutation_NoDup; eauto.
  - intros ND. split; [eapply Permutation_NoDup; [apply Permutation_sym; eauto | exact ND] | intros s _ []].
Qed.
Lemma check_one_needs l : forallb check_one l = negb (existsb needs_value l).
Proof.
  induction l as [|x l IH]; simpl; [reflexivity|]. rewrite IH, negb_orb. f_equal.
  unfold check_one, needs_value. destruct (id_kind (fst x)); [now rewrite negb_involutive | now rewrite negb_involutive | reflexivity].
Qed.
Lemma existsb_perm {A} (f : A -> bool) l l' : Permutation l l' -> existsb f l = existsb f l'.
Proof.
  intros P. apply eq_true_iff_eq. rewrite !existsb_exists. split; intros [x [H1 H2]]; exists x; split; auto.
  - eapply Permutation_in; eauto.
  - eapply Permutation_in; [apply Permutation_sym|]; eauto.
Qed.
Lemma parse_eq p ss : R p ss -> SInv ss -> parse_empty p = s_parse ss.
Proof.
  intros HR HS. unfold parse_empty, s_parse. rewrite (consistency_eq _ _ HR HS), check_one_needs.
  rewrite (existsb_perm _ _ _ (perm_for_each _ _ HR HS)).
  destruct (s_consistent ss); simpl; [|reflexivity]. now destruct (existsb needs_value (s_decls ss)).
Qed.

(* ---------- which objects a token reaches *)
Lemma resolve_filter f p : length (filter f (for_each_option p)) <= 1 -> resolve f p = map fst (filter f (for_each_option p)).
Proof.
  unfold resolve, for_each_option, try_option, try_toggles. rewrite !filter_app, !app_length.
  destruct (filter f (get_all KOpt p)) as [|x [|y t]]; simpl.
  - destruct (filter f (get_all KMulti p)) as [|x' [|y' t']]; simpl; intros L.
    + reflexivity.
    + destruct (filter f (get_all KToggle p)); [reflexivity | simpl in L; lia].
    + lia.
  - intros L. destruct (filter f (get_all KMulti p)); [|simpl in L; lia].
    destruct (filter f (get_all KToggle p)); [reflexivity | simpl in L; lia].
  - intros L. lia.
Qed.
Lemma called_unique l n : NoDup (map sname l) -> length (filter (called n) l) <= 1.
Proof.
  induction l as [|x l IH]; simpl; [lia|]. intros ND. inversion ND; subst.
  unfold called at 1. destruct (str_eq_dec (id_name (fst x)) n) as [E|]; [|auto]. simpl.
  rewrite filter_none; [simpl; lia|]. intros y Hy. unfold called. destruct (str_eq_dec (id_name (fst y)) n) as [E2|]; [|reflexivity].
  exfalso. apply H1. unfold sname at 1. rewrite E, <- E2. apply (in_map sname _ _ Hy).
Qed.
Lemma carries_unique l c : NoDup (letters l) -> length (filter (carries c) l) <= 1.
Proof.
  induction l as [|x l IH]; simpl; [lia|]. rewrite letters_cons. intros ND.
  unfold carries at 1. destruct (is_empty c) eqn:Ec; simpl.
  - apply IH. destruct (is_empty (o_short (snd x))); [exact ND | now inversion ND].
  - destruct (str_eq_dec (o_short (snd x)) c) as [E|].
    + simpl. rewrite E, Ec in ND. inversion ND as [|? ? Hni Hnd]. rewrite filter_none; [simpl; lia|].
      intros y Hy. unfold carries. rewrite Ec. simpl. destruct (str_eq_dec (o_short (snd y)) c) as [E2|]; [|reflexivity].
      exfalso. apply Hni. unfold letters. apply filter_In. split; [rewrite <- E2; apply (in_map (fun z => o_short (snd z)) _ _ Hy) | now rewrite Ec].
    + apply IH. destruct (is_empty (o_short (snd x))); [exact ND | now inversion ND].
Qed.
Lemma matches_letter_carries c x : matches_letter c x = carries c x.
Proof.
  unfold matches_letter, carries. destruct (str_eq_dec (o_short (snd x)) c) as [->|]; [reflexivity|].
  now rewrite !andb_false_r.
Qed.

Lemma resolve_name_eq p ss n : R p ss -> SInv ss -> resolve_name p n = s_resolve_name ss n.
Proof.
  intros HR HS. unfold resolve_name, s_resolve_name. change (matches_name n) with (called n).
  pose proof (perm_filter (called n) _ _ (perm_for_each _ _ HR HS)) as P.
  pose proof (called_unique _ n (si_names _ HS)) as L.
  rewrite resolve_filter; [|rewrite (Permutation_length P); exact L].
  now rewrite (perm_single _ _ P L).
Qed.
Lemma resolve_letter_eq p ss c : R p ss -> SInv ss -> s_consistent ss = true -> resolve_letter p c = s_resolve_letter ss c.
Proof.
  intros HR HS HC. unfold resolve_letter, s_resolve_letter.
  assert (E : forall l, filter (matches_letter c) l = filter (carries c) l) by (intros l; apply filter_ext, matches_letter_carries).
  pose proof (perm_filter (carries c) _ _ (perm_for_each _ _ HR HS)) as P.
  apply nodupb_iff in HC. pose proof (carries_unique _ c HC) as L.
  rewrite resolve_filter; rewrite E; [|rewrite (Permutation_length P); exact L].
  now rewrite (perm_single _ _ P L).
Qed.
Lemma k1_eq p ss n : R p ss -> SInv ss -> k1_name p n = s_k1_name ss n.
Proof.
  intros HR HS. pose proof (perm_for_each _ _ HR HS) as P.
  apply eq_true_iff_eq. unfold k1_name, s_k1_name. rewrite !existsb_exists. split.
  - intros [[i o] [H1 H2]]. exists (i, o). split.
    + eapply Permutation_in; [exact P|]. unfold for_each_option. apply in_or_app. right. apply in_or_app. now right.
    + apply in_get_all in H1 as [Ek _]. simpl in *. now rewrite Ek.
  - intros [[i o] [H1 H2]]. exists (i, o). simpl in H2. destruct (id_kind i) eqn:Ek; try discriminate. split; [|exact H2].
    apply (Permutation_in _ (Permutation_sym P)) in H1. unfold for_each_option in H1.
    apply in_app_or in H1 as [H1|H1]; [apply in_get_all in H1 as [E _]; congruence|].
    apply in_app_or in H1 as [H1|H1]; [apply in_get_all in H1 as [E _]; congruence | exact H1].
Qed.
Lemma display_eq p ss : R p ss -> display_order p = s_display_order ss.
Proof.
  intros HR. unfold display_order, s_display_order. rewrite <- (r_groups _ _ HR).
  assert (T : forall q, (forall g, In g q -> In g p) ->
    flat_map g_order q = flat_map (fun g => map kn (filter (in_grp g) (s_decls ss))) (map g_name q)).
  { induction q as [|g q IH]; simpl; [reflexivity|]. intros H. rewrite IH; [|intros; apply H; now right].
    f_equal. apply (r_order _ _ HR). apply H. now left. }
  apply T. auto.
Qed.
(* ---------- simulation of one operation and of a whole run *)
Lemma sim_set_on p ss i x : R p ss -> SInv ss ->
  snd (set_on p i x) = snd (s_set_on ss i x) /\ R (fst (set_on p i x)) (fst (s_set_on ss i x)) /\ SInv (fst (s_set_on ss i x)).
Proof.
  intros HR HS. unfold set_on, s_set_on. rewrite (r_lookup _ _ HR i).
  destruct (s_lookup ss i) as [ob|] eqn:L; simpl; [|auto].
  rewrite setter_eq. destruct (s_setter x ob) as [ob'|]; simpl; [|auto].
  rewrite <- (r_lookup _ _ HR) in L. destruct (sim_store p ss i ob ob' HR HS L). auto.
Qed.
Lemma sim_gdeclare p ss gn k n : R p ss -> SInv ss -> In gn (s_groups ss) ->
  snd (group_declare p gn k n) = snd (s_gdeclare ss gn k n) /\
  R (fst (group_declare p gn k n)) (fst (s_gdeclare ss gn k n)) /\ SInv (fst (s_gdeclare ss gn k n)).
Proof.
  intros HR HS Hg. pose proof (sim_group_declare p ss gn k n HR HS Hg) as H. unfold s_gdeclare.
  destruct (List.find (called n) (s_decls ss)) as [x|].
  - destruct (objid_eq_dec (fst x) (gn, k, n)); rewrite H; simpl; auto.
  - destruct H as (p' & -> & R2 & S2). simpl. auto.
Qed.
Lemma sim_step p ss o : R p ss -> SInv ss ->
  snd (step p o) = snd (s_step ss o) /\ R (fst (step p o)) (fst (s_step ss o)) /\ SInv (fst (s_step ss o)).
Proof.
  intros HR HS. destruct o as [g|g k n|g k n x|g k n xo|i x| |]; simpl.
  - destruct (sim_group p ss g HR HS). auto.
  - destruct (sim_declare p ss g k n HR HS) as (E & R1 & S1).
    destruct (declare p g k n) as [p1 r], (s_declare ss g k n) as [s1 r']; simpl in *. subst r'. destruct r; simpl; auto.
  - destruct (sim_declare p ss g k n HR HS) as (E & R1 & S1).
    destruct (declare p g k n) as [p1 r], (s_declare ss g k n) as [s1 r']; simpl in *. subst r'. destruct r as [i|]; simpl; [|auto].
    now apply sim_set_on.
  - destruct (in_dec str_eq_dec g (s_groups ss)) as [Hin|Hnin].
    + pose proof Hin as Hin'. rewrite <- (r_groups _ _ HR) in Hin'. apply gfind_some_iff in Hin' as [g0 ->].
      destruct (sim_gdeclare p ss g k n HR HS Hin) as (E & R1 & S1).
      destruct (group_declare p g k n) as [p1 r], (s_gdeclare ss g k n) as [s1 r']; simpl in *. subst r'.
      destruct r as [i|]; simpl; [|auto]. destruct xo as [x|]; simpl; [now apply sim_set_on | auto].
    + assert (E : gfind p g = None) by (apply gfind_none_iff; now rewrite (r_groups _ _ HR)).
      rewrite E. simpl. auto.
  - rewrite (r_lookup _ _ HR i). destruct (s_lookup ss i) eqn:L; simpl; [|auto].
    pose proof (sim_set_on p ss i x HR HS) as H. exact H.
  - auto.
  - rewrite (parse_eq _ _ HR HS). auto.
Qed.
Lemma sim_run ops : forall p ss, R p ss -> SInv ss ->
  snd (run_from p ops) = snd (s_run_from ss ops) /\
  R (fst (run_from p ops)) (fst (s_run_from ss ops)) /\ SInv (fst (s_run_from ss ops)).
Proof.
  induction ops as [|a ops IH]; simpl; [auto|]. intros p ss HR HS.
  destruct (sim_step p ss a HR HS) as (E & R1 & S1).
  destruct (step p a) as [p1 x], (s_step ss a) as [s1 x']; simpl in *. subst x'.
  destruct (IH p1 s1 R1 S1) as (E2 & R2 & S2).
  destruct (run_from p1 ops) as [p2 xs], (s_run_from s1 ops) as [s2 xs']; simpl in *. subst xs'. auto.
Qed.
Lemma reach ops : R (state_after ops) (fst (s_run ops)) /\ SInv (fst (s_run ops)).
Proof. destruct (sim_run ops _ _ R_init SInv_init) as (_ & A & B). auto. Qed.

(* ---------- the model behaves exactly as the flat-list specification *)
Theorem model_refines_spec ops names letters : model_observe ops names letters = spec_observe ops names letters.
Proof.
  unfold model_observe, spec_observe, run, s_run.
  destruct (sim_run ops _ _ R_init SInv_init) as (E & HR & HS).
  destruct (run_from new_parser ops) as [p outs], (s_run_from s_init ops) as [ss outs']; simpl in *. subst outs'.
  rewrite (parse_eq _ _ HR HS), (display_eq _ _ HR).
  assert (T : map (lookup p) (returned_ids outs) = map (s_lookup ss) (returned_ids outs))
    by (apply map_ext; intros; apply (r_lookup _ _ HR)).
  rewrite T. f_equal. f_equal. f_equal.
  unfold s_parse. destruct (s_consistent ss) eqn:C; simpl; [|reflexivity].
  assert (U : Some (map (fun n => if k1_name p n then None else Some (resolve_name p n)) names, map (resolve_letter p) letters) =
              Some (map (fun n => if s_k1_name ss n then None else Some (s_resolve_name ss n)) names, map (s_resolve_letter ss) letters)).
  { f_equal. f_equal.
    - apply map_ext. intros n. now rewrite (k1_eq _ _ _ HR HS), (resolve_name_eq _ _ _ HR HS).
    - apply map_ext. intros c. now apply resolve_letter_eq. }
  now destruct (existsb needs_value (s_decls ss)).
Qed.

(* ---------- consequences on the model, for every operation sequence *)
Lemma declared_in p ss i o : R p ss -> SInv ss -> (lookup p i = Some o <-> In (i, o) (s_decls ss)).
Proof.
  intros HR HS. rewrite (r_lookup _ _ HR), s_lookup_lfind. split; [apply lfind_in|].
  apply in_lfind, nodup_names_ids, (si_names _ HS).
Qed.

Theorem names_unique_model ops i j :
  declared (state_after ops) i -> declared (state_after ops) j -> id_name i = id_name j -> i = j.
Proof.
  destruct (reach ops) as [HR HS]. unfold declared. intros Hi Hj E.
  destruct (lookup (state_after ops) i) as [o|] eqn:Li; [|congruence].
  destruct (lookup (state_after ops) j) as [o'|] eqn:Lj; [|congruence].
  apply (declared_in _ _ _ _ HR HS) in Li. apply (declared_in _ _ _ _ HR HS) in Lj.
  pose proof (names_unique_in _ _ _ (si_names _ HS) Li Lj E) as T. congruence.
Qed.

Lemma declare_same p g k n : declared p (gkey g, k, n) -> declare p g k n = (p, Some (gkey g, k, n)).
Proof.
  unfold declared, lookup, id_grp, id_kind, id_name; simpl. destruct (gfind p (gkey g)) as [g0|] eqn:Eg; [|congruence].
  intros H. unfold declare.
  assert (S : select p g = (p, gkey g)).
  { destruct g as [|gn]; simpl; [reflexivity|]. unfold parser_group. simpl in Eg. now rewrite Eg. }
  rewrite S. unfold group_declare. rewrite Eg. destruct (afind (kmap k g0) n); [|congruence]. now rewrite andb_false_r.
Qed.
Theorem redeclare_same p g k n : declared p (gkey g, k, n) -> step p (ODecl g k n) = (p, ROk (gkey g, k, n)).
Proof. intros H. simpl. now rewrite (declare_same _ _ _ _ H). Qed.

Lemma select_lookup p g j : lookup (fst (select p g)) j = lookup p j.
Proof. destruct g; simpl; [reflexivity | apply lookup_parser_group]. Qed.

Theorem redeclare_other_rejected ops g k n j :
  let p := state_after ops in
  declared p j -> id_name j = n -> j <> (gkey g, k, n) ->
  step p (ODecl g k n) = (fst (select p g), RDev) /\ forall i, lookup (fst (select p g)) i = lookup p i.
Proof.
  intros p Hj Hn Hne. split; [|intros; apply select_lookup].
  destruct (reach ops) as [HR HS]. fold p in HR.
  destruct (sim_select p _ g HR HS) as (E1 & R1 & S1 & I1).
  pose proof (sim_group_declare (fst (select p g)) _ (gkey g) k n R1 S1 I1) as H.
  unfold declared in Hj. rewrite <- (select_lookup p g) in Hj.
  destruct (lookup (fst (select p g)) j) as [o|] eqn:Lj; [|congruence].
  apply (declared_in _ _ _ _ R1 S1) in Lj.
  destruct (List.find (called n) (s_decls (s_select (fst (s_run ops)) g))) as [x|] eqn:F.
  - apply find_called_some in F as [Hx Hnx].
    assert (T : x = (j, o)) by (apply (names_unique_in _ _ _ (si_names _ S1) Hx Lj); unfold sname in *; simpl; congruence).
    subst x. simpl in H. destruct (objid_eq_dec j (gkey g, k, n)); [contradiction|].
    simpl. unfold declare. destruct (select p g) as [p1 gn]; simpl in *. subst gn. now rewrite H.
  - exfalso. apply find_called_none in F. apply F. rewrite <- Hn. change (id_name j) with (sname (j, o)). now apply in_map.
Qed.

Theorem fresh_accepted ops g k n :
  let p := state_after ops in
  (forall j, declared p j -> id_name j <> n) ->
  exists p', step p (ODecl g k n) = (p', ROk (gkey g, k, n)) /\ lookup p' (gkey g, k, n) = Some new_obj /\
             forall j, j <> (gkey g, k, n) -> lookup p' j = lookup p j.
Proof.
  intros p Hfresh. destruct (reach ops) as [HR HS]. fold p in HR.
  destruct (sim_select p _ g HR HS) as (E1 & R1 & S1 & I1).
  pose proof (sim_group_declare (fst (select p g)) _ (gkey g) k n R1 S1 I1) as H.
  destruct (List.find (called n) (s_decls (s_select (fst (s_run ops)) g))) as [x|] eqn:F.
  - exfalso. apply find_called_some in F as [Hx Hnx]. destruct x as [j o].
    apply (declared_in _ _ _ _ R1 S1) in Hx. rewrite select_lookup in Hx.
    apply (Hfresh j); [unfold declared; congruence | exact Hnx].
  - destruct H as (p' & Hd & R2 & S2). exists p'. split; [|split].
    + simpl. unfold declare. destruct (select p g) as [p1 gn]; simpl in *. subst gn. now rewrite Hd.
    + rewrite (r_lookup _ _ R2), s_lookup_lfind. simpl s_decls. rewrite lfind_app.
      apply find_called_none in F.
      assert (N : lfind (s_decls (s_select (fst (s_run ops)) g)) (gkey g, k, n) = None).
      { apply lfind_none. intros Hin. apply F. apply in_map_iff in Hin as [[i o] [E Hin]]. simpl in E. subst i.
        change n with (sname ((gkey g, k, n), o)). now apply in_map. }
      rewrite N. now destruct (objid_eq_dec (gkey g, k, n) (gkey g, k, n)).
    + intros j Hj. rewrite (r_lookup _ _ R2), s_lookup_lfind. simpl s_decls. rewrite lfind_app, <- s_lookup_lfind, <- (r_lookup _ _ R1), select_lookup.
      destruct (lookup p j); [reflexivity|]. destruct (objid_eq_dec (gkey g, k, n) j); [congruence | reflexivity].
Qed.

Lemma short_ok_iff old s : short_ok old s = true <-> length s = 1 /\ (old = [] \/ old = s).
Proof.
  unfold short_ok. rewrite andb_true_iff, Nat.eqb_eq, orb_true_iff. split; intros [A B]; (split; [exact A|]).
  - destruct B as [B|B]; [left; now destruct old | right; now destruct (str_eq_dec old s)].
  - destruct B as [-> | ->]; [now left | right; now destruct (str_eq_dec s s)].
Qed.
Theorem short_name_rules p g k n s ob :
  let i := (gkey g, k, n) in
  lookup p i = Some ob ->
  let ob' := mkObj s (o_env ob) (o_metavar ob) (o_default ob) (o_optional ob) in
  (length s = 1 /\ (o_short ob = [] \/ o_short ob = s) ->
     step p (OSet g k n (SShort s)) = (store p i ob', ROk i) /\ lookup (store p i ob') i = Some ob' /\
     forall j, j <> i -> lookup (store p i ob') j = lookup p j) /\
  (~ (length s = 1 /\ (o_short ob = [] \/ o_short ob = s)) -> step p (OSet g k n (SShort s)) = (p, RDevSet i)).
Proof.
  intros i L ob'.
  assert (D : declare p g k n = (p, Some i)) by (apply declare_same; unfold declared; fold i; congruence).
  assert (St : step p (OSet g k n (SShort s)) =
               if short_ok (o_short ob) s then (store p i ob', ROk i) else (p, RDevSet i)).
  { simpl. rewrite D. unfold set_on. rewrite L. rewrite setter_eq. simpl.
    now destruct (short_ok (o_short ob) s). }
  split.
  - intros H. apply short_ok_iff in H. rewrite H in St. split; [exact St|]. split.
    + rewrite (lookup_store _ _ ob _ _ L). now destruct (objid_eq_dec i i).
    + intros j Hj. rewrite (lookup_store _ _ ob _ _ L). destruct (objid_eq_dec i j); [congruence | reflexivity].
  - intros H. destruct (short_ok (o_short ob) s) eqn:E; [apply short_ok_iff in E; contradiction | exact St].
Qed.

Lemma letter_in l i o : In (i, o) l -> o_short o <> [] -> In (o_short o) (letters l).
Proof.
  intros H N. unfold letters. apply filter_In. split; [apply (in_map (fun x => o_short (snd x)) _ _ H)|].
  destruct (o_short o); [congruence | reflexivity].
Qed.
Lemma letters_inj l : NoDup (letters l) -> forall x y, In x l -> In y l ->
  o_short (snd x) = o_short (snd y) -> o_short (snd x) <> [] -> x = y.
Proof.
  induction l as [|z l IH]; [intros _ x y []|]. rewrite letters_cons. intros ND x y Hx Hy E N.
  assert (K : forall w, In w l -> o_short (snd w) = o_short (snd z) -> o_short (snd z) <> [] -> False).
  { intros [i o] Hw Ew Nz. simpl in Ew. destruct (is_empty (o_short (snd z))) eqn:Ee; [destruct (o_short (snd z)); [congruence | discriminate]|].
    inversion ND as [|? ? Hni _]. apply Hni. rewrite <- Ew. apply (letter_in _ i o Hw). congruence. }
  destruct Hx as [<-|Hx], Hy as [<-|Hy].
  - reflexivity.
  - exfalso. apply (K y Hy); congruence.
  - exfalso. apply (K x Hx); congruence.
  - apply IH; auto. destruct (is_empty (o_short (snd z))); [exact ND | now inversion ND].
Qed.
Lemma shares_iff l : NoDup (map fst l) -> (nodupb (letters l) = false <-> shares_letter l).
Proof.
  intros NF. split.
  - induction l as [|z l IH]; [discriminate|]. rewrite letters_cons. simpl in NF. inversion NF as [|? ? Hz NF']; subst.
    assert (Up : shares_letter l -> shares_letter (z :: l)).
    { intros (i & j & o & o' & Hi & Hj & R0). exists i, j, o, o'. split; [now right|]. split; [now right | exact R0]. }
    destruct (is_empty (o_short (snd z))) eqn:Ee; [intros H; apply Up, IH; assumption|].
    simpl. destruct (in_dec str_eq_dec (o_short (snd z)) (letters l)) as [Hin|Hnin]; simpl; [intros _ | intros H; apply Up, IH; assumption].
    unfold letters in Hin. apply filter_In in Hin as [Hin _]. apply in_map_iff in Hin as [[j o'] [E Hy]]. simpl in E.
    destruct z as [i o]. exists i, j, o, o'. split; [now left|]. split; [now right|]. split.
    + intros ->. apply Hz. exact (in_map fst _ _ Hy).
    + simpl in *. split; [congruence|]. destruct (o_short o); [discriminate | congruence].
  - intros (i & j & o & o' & Hi & Hj & Hne & E & N). destruct (nodupb (letters l)) eqn:B; [|reflexivity].
    apply nodupb_iff in B. pose proof (letters_inj _ B (i, o) (j, o') Hi Hj E N) as T. congruence.
Qed.

Theorem parse_refuses_shared_letter ops :
  let p := state_after ops in
  parse_empty p = PDev <->
  exists i j o o', lookup p i = Some o /\ lookup p j = Some o' /\ i <> j /\ o_short o = o_short o' /\ o_short o <> [].
Proof.
  intros p. destruct (reach ops) as [HR HS]. fold p in HR. set (ss := fst (s_run ops)) in *.
  rewrite (parse_eq _ _ HR HS).
  assert (A : s_parse ss = PDev <-> nodupb (letters (s_decls ss)) = false).
  { unfold s_parse, s_consistent. destruct (nodupb (letters (s_decls ss))); simpl.
    - split; [destruct (existsb needs_value (s_decls ss)); discriminate | discriminate].
    - split; reflexivity. }
  rewrite A, (shares_iff _ (nodup_names_ids _ (si_names _ HS))).
  split; intros (i & j & o & o' & Hi & Hj & R0); exists i, j, o, o'.
  - split; [now apply (declared_in _ _ _ _ HR HS)|]. split; [now apply (declared_in _ _ _ _ HR HS) | exact R0].
  - split; [now apply (declared_in _ _ _ _ HR HS)|]. split; [now apply (declared_in _ _ _ _ HR HS) | exact R0].
Qed.
Theorem resolution_unique ops :
  let p := state_after ops in
  (forall n, length (resolve_name p n) <= 1 /\ forall i, In i (resolve_name p n) <-> declared p i /\ id_name i = n) /\
  (parse_empty p <> PDev ->
   forall c, length (resolve_letter p c) <= 1 /\
             forall i, In i (resolve_letter p c) <-> c <> [] /\ exists o, lookup p i = Some o /\ o_short o = c).
Proof.
  intros p. destruct (reach ops) as [HR HS]. fold p in HR. set (ss := fst (s_run ops)) in *. split.
  - intros n. rewrite (resolve_name_eq _ _ _ HR HS). unfold s_resolve_name. rewrite map_length. split; [apply called_unique, (si_names _ HS)|].
    intros i. rewrite in_map_iff. split.
    + intros [[j o] [E H]]. simpl in E. subst j. apply filter_In in H as [H1 H2].
      apply (declared_in _ _ _ _ HR HS) in H1. split; [unfold declared; congruence|].
      unfold called in H2. simpl in H2. now destruct (str_eq_dec (id_name i) n).
    + intros [D E]. unfold declared in D. destruct (lookup p i) as [o|] eqn:L; [|congruence]. exists (i, o). split; [reflexivity|].
      apply filter_In. split; [now apply (declared_in _ _ _ _ HR HS)|]. unfold called; simpl. now destruct (str_eq_dec (id_name i) n).
  - intros NP c.
    assert (C : s_consistent ss = true).
    { rewrite (parse_eq _ _ HR HS) in NP. unfold s_parse in NP. destruct (s_consistent ss); [reflexivity | simpl in NP; congruence]. }
    rewrite (resolve_letter_eq _ _ _ HR HS C). unfold s_resolve_letter. rewrite map_length.
    split; [apply carries_unique, nodupb_iff, C|].
    intros i. rewrite in_map_iff. split.
    + intros [[j o] [E H]]. simpl in E. subst j. apply filter_In in H as [H1 H2].
      apply (declared_in _ _ _ _ HR HS) in H1. unfold carries in H2. simpl in H2. apply andb_true_iff in H2 as [H2 H3].
      split; [destruct c; [discriminate | congruence]|]. exists o. split; [exact H1|]. now destruct (str_eq_dec (o_short o) c).
    + intros [N [o [L E]]]. exists (i, o). split; [reflexivity|]. apply filter_In. split; [now apply (declared_in _ _ _ _ HR HS)|].
      unfold carries; simpl. apply andb_true_iff. split; [destruct c; [congruence | reflexivity] | now destruct (str_eq_dec (o_short o) c)].
Qed.

Lemma run_from_app p a b :
  run_from p (a ++ b) = let (p1, o1) := run_from p a in let (p2, o2) := run_from p1 b in (p2, o1 ++ o2).
Proof.
  revert p; induction a as [|x a IH]; intros p; simpl.
  - now destruct (run_from p b).
  - destruct (step p x) as [p1 r]. rewrite IH. destruct (run_from p1 a) as [p2 o1]. now destruct (run_from p2 b).
Qed.
(* moving the parser between any two operations changes neither the final state nor any outcome *)
Theorem move_identity a b :
  exists p o1 o2, length o1 = length a /\ run (a ++ b) = (p, o1 ++ o2) /\ run (a ++ OMove :: b) = (p, o1 ++ RMoved :: o2).
Proof.
  unfold run. rewrite !run_from_app. simpl.
  assert (Len : forall ops p, length (snd (run_from p ops)) = length ops).
  { induction ops as [|x ops IH]; intros p; simpl; [reflexivity|]. destruct (step p x) as [p1 r]. specialize (IH p1).
    destruct (run_from p1 ops); simpl in *. now rewrite IH. }
  specialize (Len a new_parser). destruct (run_from new_parser a) as [p1 o1]. destruct (run_from p1 b) as [p2 o2].
  exists p2, o1, o2. auto.
Qed.

(* ---------- held handles are just names *)
Theorem held_object_is_name p gn k n x :
  declared p (gn, k, n) -> step p (OHSet (gn, k, n) x) = step p (OSet (GNamed gn) k n x).
Proof.
  intros D. simpl. rewrite (declare_same p (GNamed gn) k n D). simpl.
  unfold declared in D. destruct (lookup p (gn, k, n)); [reflexivity | congruence].
Qed.
Theorem held_group_is_name p g k n :
  gfind p g <> None ->
  step p (OHDecl g k n None) = step p (ODecl (GNamed g) k n) /\
  forall x, step p (OHDecl g k n (Some x)) = step p (OSet (GNamed g) k n x).
Proof.
  intros H. simpl. unfold declare. simpl. unfold parser_group.
  destruct (gfind p g) as [g0|]; [|congruence].
  destruct (group_declare p g k n) as [p1 [i|]]; split; intros; reflexivity.
Qed.

(* Misc/HashProofs.v — proofs about the model of hash.hpp / tuple_operators.hpp / unordered.hpp (C16). *)
From Coq Require Import List Bool Arith NArith Lia.
From Nitro Require Import Misc.Hash Misc.HashSpec Misc.TupleOrder.
Import ListNotations.
Local Open Scope list_scope.

(* ------------------------------------------------------------------ 64-bit words *)
Section Words.
Local Open Scope N_scope.

Lemma W_pos : 0 < W.
Proof. reflexivity. Qed.

Lemma lt_W_log2 a : a < W -> a <> 0 -> N.log2 a < 64.
Proof. intros H Hn. apply N.log2_lt_pow2; [lia | exact H]. Qed.

Lemma lxor_lt_W a b : a < W -> b < W -> N.lxor a b < W.
Proof.
  intros Ha Hb. destruct (N.eq_dec (N.lxor a b) 0) as [E|E]; [rewrite E; apply W_pos|].
  apply N.log2_lt_pow2; [lia|].
  eapply N.le_lt_trans; [apply N.log2_lxor|].
  apply N.max_lub_lt.
  - destruct (N.eq_dec a 0) as [->|Na]; [reflexivity | apply lt_W_log2; assumption].
  - destruct (N.eq_dec b 0) as [->|Nb]; [reflexivity | apply lt_W_log2; assumption].
Qed.

Lemma lxor_cancel_l s x y : N.lxor s x = N.lxor s y -> x = y.
Proof.
  intros H. apply (f_equal (N.lxor s)) in H.
  rewrite <- !N.lxor_assoc, N.lxor_nilpotent, !N.lxor_0_l in H. exact H.
Qed.

Lemma add_mod_W_inj K v1 v2 : v1 < W -> v2 < W -> (v1 + K) mod W = (v2 + K) mod W -> v1 = v2.
Proof.
  intros H1 H2 E.
  pose proof (N.div_mod' (v1 + K) W) as D1. pose proof (N.div_mod' (v2 + K) W) as D2.
  rewrite E in D1. set (r := (v2 + K) mod W) in *. set (q1 := (v1 + K) / W) in *. set (q2 := (v2 + K) / W) in *.
  assert (Hq : q1 = q2) by nia. subst q1. rewrite Hq in D1. lia.
Qed.

Lemma combine_with_lt_W c a b seed v : seed < W -> combine_with c a b seed v < W.
Proof.
  intros Hs. unfold combine_with. apply lxor_lt_W; [exact Hs|]. apply N.mod_lt. discriminate.
Qed.

(* for a fixed seed, hash_combine is injective in the combined value — whatever the three constants are *)
Lemma combine_with_injective c a b seed v1 v2 :
  v1 < W -> v2 < W -> combine_with c a b seed v1 = combine_with c a b seed v2 -> v1 = v2.
Proof.
  intros H1 H2 E. unfold combine_with in E. apply lxor_cancel_l in E.
  apply (add_mod_W_inj (c + (N.shiftl seed a) mod W + N.shiftr seed b)); try assumption.
  replace (v1 + (c + N.shiftl seed a mod W + N.shiftr seed b)) with (v1 + c + N.shiftl seed a mod W + N.shiftr seed b) by lia.
  replace (v2 + (c + N.shiftl seed a mod W + N.shiftr seed b)) with (v2 + c + N.shiftl seed a mod W + N.shiftr seed b) by lia.
  exact E.
Qed.

Lemma combine_lt_W p seed v : seed < W -> combine p seed v < W.
Proof. apply combine_with_lt_W. Qed.

Lemma combine_injective p seed v1 v2 : v1 < W -> v2 < W -> combine p seed v1 = combine p seed v2 -> v1 = v2.
Proof. apply combine_with_injective. Qed.

(* what `hp_ok` gives: only the two seed bounds are needed by the proofs below (every hash is a word); the bounds
   on the magic number and on the shifts are about faithfulness to the C++ (a literal that is a std::size_t, no
   undefined shift), no theorem depends on them *)
Lemma hp_ok_seeds p : hp_ok p = true -> hp_tuple_seed p < W /\ hp_variant_seed p < W.
Proof.
  unfold hp_ok. intros H. repeat (apply andb_true_iff in H; destruct H as [H ?]).
  split; apply N.ltb_lt; assumption.
Qed.
End Words.

Arguments Hash.combine : simpl never.
Arguments W : simpl never.

(* ------------------------------------------------------------------ induction over nested values *)
Section Ind.
Variable leaf : Type.
Variable P : value leaf -> Prop.
Hypothesis Hleaf : forall a, P (VLeaf a).
Hypothesis Htuple : forall l, Forall P l -> P (VTuple l).
Hypothesis Hpair : forall a b, P a -> P b -> P (VPair a b).
Hypothesis Hvariant : forall k v, P v -> P (VVariant k v).
Hypothesis Hptr : forall o v, P v -> P (VPtr o v).
Hypothesis Hobj : forall l, Forall P l -> P (VObj l).
Hypothesis Hvalueless : P VValueless.
Fixpoint value_ind' (x : value leaf) : P x :=
  match x with
  | VLeaf a => Hleaf a
  | VTuple l => Htuple l ((fix go (l : list (value leaf)) : Forall P l :=
                             match l with [] => Forall_nil P | v :: t => Forall_cons v (value_ind' v) (go t) end) l)
  | VPair a b => Hpair a b (value_ind' a) (value_ind' b)
  | VVariant k v => Hvariant k v (value_ind' v)
  | VPtr o v => Hptr o v (value_ind' v)
  | VObj l => Hobj l ((fix go (l : list (value leaf)) : Forall P l :=
                         match l with [] => Forall_nil P | v :: t => Forall_cons v (value_ind' v) (go t) end) l)
  | VValueless => Hvalueless
  end.
End Ind.

Section Proofs.
Variable leaf : Type.
Variable hp : hparams.
Variable h : leaf -> N.
Variables leqb lltb : leaf -> leaf -> bool.
Hypothesis Hhp : hp_ok hp = true.
Notation value := (value leaf).
Notation hash := (hash leaf hp h).
Notation fold_seed := (fold_seed leaf hp h).
Notation combine := (combine hp).
Notation veqb := (veqb leaf leqb).
Notation vlt2 := (vlt2 leaf lltb).
Notation vltb := (vltb leaf lltb).
Notation cmp_shape := (cmp_shape leaf).
Notation leaf_ok := (leaf_ok leaf h leqb lltb).

(* ---------------- every hash is a 64-bit word (no hypothesis) *)
Lemma fold_seed_lt_W l : forall seed, (seed < W)%N -> (fold_seed seed l < W)%N.
Proof.
  unfold fold_seed. induction l as [|v l IH]; intros seed Hs; simpl; [exact Hs|].
  apply IH. apply combine_lt_W, Hs.
Qed.

Lemma hash_lt_W x : (hash x < W)%N.
Proof.
  induction x using value_ind'; simpl.
  - apply N.mod_lt. discriminate.
  - apply (fold_seed_lt_W l (hp_tuple_seed hp)). apply (hp_ok_seeds hp Hhp).
  - apply combine_lt_W. exact IHx1.
  - apply combine_lt_W. apply (hp_ok_seeds hp Hhp).
  - exact IHx.
  - apply (fold_seed_lt_W l (hp_tuple_seed hp)). apply (hp_ok_seeds hp Hhp).
  - apply (hp_ok_seeds hp Hhp).
Qed.

(* ---------------- the ownership form of a pointer plays no part in hash and == (no hypothesis) *)
Lemma fold_seed_retag f l :
  Forall (fun x => hash (retag f x) = hash x) l -> forall seed, fold_seed seed (map (retag f) l) = fold_seed seed l.
Proof.
  unfold fold_seed. induction 1 as [|x l Hx _ IH]; intros seed; simpl; [reflexivity|]. rewrite Hx. apply IH.
Qed.

Lemma hash_retag f x : hash (retag f x) = hash x.
Proof.
  induction x using value_ind'; simpl.
  - reflexivity.
  - apply (fold_seed_retag f l H).
  - rewrite IHx1, IHx2. reflexivity.
  - rewrite IHx. reflexivity.
  - exact IHx.
  - apply (fold_seed_retag f l H).
  - reflexivity.
Qed.

Lemma hash_same_up_to_ownership x y : erase_own x = erase_own y -> hash x = hash y.
Proof.
  intros E. rewrite <- (hash_retag (fun _ => OwnMake) x), <- (hash_retag (fun _ => OwnMake) y).
  unfold erase_own in E. rewrite E. reflexivity.
Qed.

Lemma all2_retag f l :
  Forall (fun x => forall y, veqb (retag f x) y = veqb x y) l -> forall m, all2 veqb (map (retag f) l) m = all2 veqb l m.
Proof. induction 1 as [|x l Hx _ IH]; intros [|y m]; simpl; try reflexivity. rewrite Hx, IH. reflexivity. Qed.

Lemma veqb_retag_l f x : forall y, veqb (retag f x) y = veqb x y.
Proof.
  induction x using value_ind'; intros [b|m|c d|j w|ow w|m|]; simpl; try reflexivity;
    try (apply (all2_retag f l H)); try (rewrite IHx1, IHx2; reflexivity); try (rewrite IHx; reflexivity); try apply IHx.
Qed.

Hypothesis Hleaf : leaf_ok.

(* ---------------- equal values hash equal *)
Lemma fold_seed_eq l :
  Forall (fun x => forall y, veqb x y = true -> hash x = hash y) l ->
  forall m seed, all2 veqb l m = true -> fold_seed seed l = fold_seed seed m.
Proof.
  unfold fold_seed. induction 1 as [|x l Hx _ IH]; intros [|y m] seed; simpl; try discriminate; auto.
  intros H. apply andb_true_iff in H. destruct H as [H1 H2]. rewrite (Hx y H1). apply IH, H2.
Qed.

Lemma hash_respects_eq x : forall y, veqb x y = true -> hash x = hash y.
Proof.
  induction x using value_ind'; intros [b|m|c d|j w|ow w|m|]; simpl; try discriminate.
  - intros E. rewrite (leaf_hash_eq _ _ _ _ Hleaf _ _ E). reflexivity.
  - intros E. apply (fold_seed_eq l H m (hp_tuple_seed hp) E).
  - intros E. apply andb_true_iff in E. destruct E as [E1 E2]. rewrite (IHx1 c E1), (IHx2 d E2). reflexivity.
  - intros E. apply andb_true_iff in E. destruct E as [_ E]. rewrite (IHx w E). reflexivity.
  - intros E. apply IHx, E.
  - intros E. apply (fold_seed_eq l H m (hp_tuple_seed hp) E).
  - reflexivity.
Qed.

(* ---------------- == is an equivalence *)
Lemma veqb_refl x : veqb x x = true.
Proof.
  induction x using value_ind'; simpl.
  - apply (leaf_eq_refl _ _ _ _ Hleaf).
  - apply all2_refl_local, H.
  - rewrite IHx1, IHx2. reflexivity.
  - rewrite Nat.eqb_refl, IHx. reflexivity.
  - exact IHx.
  - apply all2_refl_local, H.
  - reflexivity.
Qed.

Lemma veqb_sym x : forall y, veqb x y = true -> veqb y x = true.
Proof.
  induction x using value_ind'; intros [b|m|c d|j w|ow w|m|]; simpl; try discriminate.
  - apply (leaf_eq_sym _ _ _ _ Hleaf).
  - apply all2_sym_local, H.
  - intros E. apply andb_true_iff in E. destruct E as [E1 E2]. rewrite (IHx1 c E1), (IHx2 d E2). reflexivity.
  - intros E. apply andb_true_iff in E. destruct E as [E1 E2]. rewrite (IHx w E2), Nat.eqb_sym, E1. reflexivity.
  - apply IHx.
  - apply all2_sym_local, H.
  - reflexivity.
Qed.

Lemma veqb_trans x : forall y z, veqb x y = true -> veqb y z = true -> veqb x z = true.
Proof.
  induction x using value_ind'; intros [b|m|c d|j w|ow w|m|] [b'|m'|c' d'|j' w'|ow' w'|m'|]; simpl; try discriminate.
  - apply (leaf_eq_trans _ _ _ _ Hleaf).
  - apply all2_trans_local, H.
  - intros E F. apply andb_true_iff in E. apply andb_true_iff in F. destruct E as [E1 E2], F as [F1 F2].
    rewrite (IHx1 c c' E1 F1), (IHx2 d d' E2 F2). reflexivity.
  - intros E F. apply andb_true_iff in E. apply andb_true_iff in F. destruct E as [E1 E2], F as [F1 F2].
    apply Nat.eqb_eq in E1. apply Nat.eqb_eq in F1. subst. rewrite Nat.eqb_refl, (IHx w w' E2 F2). reflexivity.
  - apply IHx.
  - apply all2_trans_local, H.
  - reflexivity.
Qed.

(* ---------------- the two directions computed by vlt2 are each other's mirror *)
Lemma vlt2_swap x : forall y, vlt2 y x = swap (vlt2 x y).
Proof.
  induction x using value_ind'; intros [b|m|c d|j w|ow w|m|]; simpl; try reflexivity.
  - apply lex2_swap_local, H.
  - rewrite IHx1, IHx2. destruct (vlt2 x1 c), (vlt2 x2 d). reflexivity.
  - rewrite IHx. destruct (vlt2 x w). simpl. rewrite (Nat.eqb_sym j k). reflexivity.
  - apply lex2_swap_local, H.
Qed.

Lemma vltb_swap x y : vltb y x = snd (vlt2 x y).
Proof. unfold Hash.vltb. rewrite vlt2_swap. reflexivity. Qed.

Lemma cmp_shape_sym x : forall y, cmp_shape x y = true -> cmp_shape y x = true.
Proof.
  induction x using value_ind'; intros [b|m|c d|j w|ow w|m|]; simpl; try discriminate; auto.
  - apply all2_sym_local, H.
  - intros E. apply andb_true_iff in E. destruct E as [E1 E2]. rewrite (IHx1 c E1), (IHx2 d E2). reflexivity.
  - rewrite (Nat.eqb_sym j k). destruct (k =? j)%nat; auto.
  - apply all2_sym_local, H.
Qed.

(* pairs are two-element tuples for == and < *)
Lemma vlt2_pair a b c d : vlt2 (VPair a b) (VPair c d) = lex2 vlt2 [a; b] [c; d].
Proof. simpl. destruct (vlt2 a c) as [l1 g1], (vlt2 b d) as [l2 g2]. rewrite !andb_false_r, !orb_false_r. reflexivity. Qed.
Lemma veqb_pair a b c d : veqb (VPair a b) (VPair c d) = all2 veqb [a; b] [c; d].
Proof. simpl. rewrite andb_true_r. reflexivity. Qed.
Lemma cmp_shape_pair a b c d : cmp_shape (VPair a b) (VPair c d) = all2 cmp_shape [a; b] [c; d].
Proof. simpl. rewrite andb_true_r. reflexivity. Qed.

(* ---------------- exactly one of <, ==, > *)
Lemma vtri x : forall y, cmp_shape x y = true -> exactly_one (fst (vlt2 x y)) (veqb x y) (snd (vlt2 x y)).
Proof.
  induction x using value_ind'; intros [b|m|c d|j w|ow w|m|]; try (simpl; discriminate).
  - intros _. simpl. apply (leaf_total _ _ _ _ Hleaf).
  - simpl. apply lex2_tri_local, H.
  - rewrite cmp_shape_pair, vlt2_pair, veqb_pair. apply lex2_tri_local. constructor; [assumption|]. constructor; [assumption|]. constructor.
  - simpl. intros S. specialize (IHx w). destruct (vlt2 x w) as [l1 g1]. simpl in *.
    destruct (Nat.lt_trichotomy k j) as [L|[E|G]].
    + assert ((k <? j)%nat = true) as -> by (apply Nat.ltb_lt; lia).
      assert ((k =? j)%nat = false) as -> by (apply Nat.eqb_neq; lia).
      assert ((j <? k)%nat = false) as -> by (apply Nat.ltb_ge; lia). simpl. left; auto.
    + subst j. rewrite Nat.eqb_refl in *. rewrite Nat.ltb_irrefl. simpl. apply IHx, S.
    + assert ((k <? j)%nat = false) as -> by (apply Nat.ltb_ge; lia).
      assert ((k =? j)%nat = false) as -> by (apply Nat.eqb_neq; lia).
      assert ((j <? k)%nat = true) as -> by (apply Nat.ltb_lt; lia). simpl. right; right; auto.
  - (* a variant holding a value against a valueless one *) intros _. simpl. right; right; auto.
  - simpl. apply lex2_tri_local, H.
  - (* valueless against a variant holding a value *) intros _. simpl. left; auto.
  - (* both valueless *) intros _. simpl. right; left; auto.
Qed.

(* ---------------- transitivity and its mixed forms *)
Lemma leaf_rules a b c : order_rules (fun a b => lltb a b = true) (fun a b => leqb a b = true) a b c.
Proof.
  destruct Hleaf as [R S T Tot Tr _]. unfold order_rules. repeat split; intros H1 H2.
  - eapply Tr; eassumption.
  - (* a == b, b < c *)
    destruct (Tot a c) as [(? & ? & ?)|[(_ & E & _)|(_ & _ & G)]]; [assumption| |].
    + pose proof (T _ _ _ (S _ _ H1) E) as E'. destruct (Tot b c) as [(? & ? & ?)|[(? & ? & ?)|(? & ? & ?)]]; congruence.
    + pose proof (Tr _ _ _ H2 G) as L. destruct (Tot a b) as [(? & ? & ?)|[(? & ? & ?)|(? & ? & ?)]]; congruence.
  - (* a < b, b == c *)
    destruct (Tot a c) as [(? & ? & ?)|[(_ & E & _)|(_ & _ & G)]]; [assumption| |].
    + pose proof (T _ _ _ E (S _ _ H2)) as E'. destruct (Tot a b) as [(? & ? & ?)|[(? & ? & ?)|(? & ? & ?)]]; congruence.
    + pose proof (Tr _ _ _ G H1) as L. destruct (Tot b c) as [(? & ? & ?)|[(? & ? & ?)|(? & ? & ?)]]; congruence.
  - eapply T; eassumption.
Qed.

Lemma variant_lt k v j w :
  fst (vlt2 (VVariant k v) (VVariant j w)) = ((k <? j)%nat || ((k =? j)%nat && fst (vlt2 v w))).
Proof. simpl. destruct (vlt2 v w). reflexivity. Qed.

Ltac natb :=
  repeat match goal with
  | |- context [(?a <? ?b)%nat] =>
      let E := fresh "E" in destruct (a <? b)%nat eqn:E; [apply Nat.ltb_lt in E | apply Nat.ltb_ge in E]
  | |- context [(?a =? ?b)%nat] =>
      let E := fresh "E" in destruct (a =? b)%nat eqn:E; [apply Nat.eqb_eq in E | apply Nat.eqb_neq in E]
  | H : context [(?a =? ?b)%nat] |- _ =>
      let E := fresh "E" in destruct (a =? b)%nat eqn:E; [apply Nat.eqb_eq in E | apply Nat.eqb_neq in E]
  end.

Lemma vrules x : forall y z, cmp_shape x y = true -> cmp_shape y z = true -> cmp_shape x z = true ->
  order_rules (Lt value vlt2) (Eq value veqb) x y z.
Proof.
  induction x using value_ind'; intros [b|m|c d|j w|ow w|m|] [b'|m'|c' d'|j' w'|ow' w'|m'|]; try (simpl; discriminate);
    (* variants against valueless variants: every comparison involved is a constant *)
    try (intros _ _ _; unfold order_rules, Lt, Eq; simpl; repeat split; intros; try discriminate; try reflexivity; fail).
  - intros _ _ _. apply leaf_rules.
  - simpl. apply (lex2_rules_local value vlt2 veqb cmp_shape vtri l H m m').
  - rewrite !cmp_shape_pair. unfold order_rules, Lt, Eq. rewrite !vlt2_pair, !veqb_pair.
    apply (lex2_rules_local value vlt2 veqb cmp_shape vtri [x1; x2]).
    constructor; [assumption|]. constructor; [assumption|]. constructor.
  - simpl cmp_shape. intros S1 S2 S3. unfold order_rules, Lt, Eq. rewrite !variant_lt. simpl veqb.
    specialize (IHx w w'). unfold order_rules, Lt, Eq in IHx.
    natb; simpl; try (repeat split; intros; try discriminate; try lia; fail);
      subst; destruct (IHx S1 S2 S3) as (Q1 & Q2 & Q3 & Q4); repeat split; intros; try discriminate; try lia; eauto.
  - simpl. apply (lex2_rules_local value vlt2 veqb cmp_shape vtri l H m m').
Qed.

(* ---------------- the six operators of tuple_operators<T> are the lexicographic predicates on the member lists *)
Notation spec_lt := (spec_lt leaf leqb lltb).
Notation spec_eq := (spec_eq leaf leqb).
Notation op_lt := (op_lt leaf lltb).
Notation op_gt := (op_gt leaf lltb).
Notation op_le := (op_le leaf lltb).
Notation op_ge := (op_ge leaf lltb).
Notation op_eq := (op_eq leaf leqb).
Notation op_ne := (op_ne leaf leqb).

Lemma tuple_lt_spec l m : all2 cmp_shape l m = true -> (tuple_lt leaf lltb l m = true <-> spec_lt l m).
Proof. intros S. apply (lex2_spec value vlt2 veqb cmp_shape vtri l m S). Qed.

Lemma tuple_eq_spec l m : tuple_eq leaf leqb l m = true <-> spec_eq l m.
Proof. apply (all2_spec value vlt2 veqb cmp_shape). Qed.

Lemma all2_cmp_shape_sym l m : all2 cmp_shape l m = true -> all2 cmp_shape m l = true.
Proof. apply all2_sym_local. apply Forall_forall. intros x _. apply cmp_shape_sym. Qed.

Lemma tuple_lt_swap l m : tuple_lt leaf lltb m l = snd (lex2 vlt2 l m).
Proof.
  unfold tuple_lt. rewrite (lex2_swap_local value vlt2 l); [reflexivity|].
  apply Forall_forall. intros x _. apply vlt2_swap.
Qed.

Lemma tuple_tri l m : all2 cmp_shape l m = true ->
  exactly_one (tuple_lt leaf lltb l m) (tuple_eq leaf leqb l m) (tuple_lt leaf lltb m l).
Proof. intros S. rewrite (tuple_lt_swap l m). apply (lex2_tri value vlt2 veqb cmp_shape vtri l m S). Qed.

Lemma six_operators_lexicographic l m : cmp_shape (VObj l) (VObj m) = true ->
  (op_lt (VObj l) (VObj m) = true <-> spec_lt l m) /\
  (op_le (VObj l) (VObj m) = true <-> spec_lt l m \/ spec_eq l m) /\
  (op_gt (VObj l) (VObj m) = true <-> spec_lt m l) /\
  (op_ge (VObj l) (VObj m) = true <-> spec_lt m l \/ spec_eq l m) /\
  (op_eq (VObj l) (VObj m) = true <-> spec_eq l m) /\
  (op_ne (VObj l) (VObj m) = true <-> ~ spec_eq l m).
Proof.
  simpl cmp_shape. intros S. pose proof (all2_cmp_shape_sym l m S) as S'.
  pose proof (tuple_lt_spec l m S) as L. pose proof (tuple_lt_spec m l S') as G.
  pose proof (tuple_eq_spec l m) as E. pose proof (tuple_tri l m S) as T.
  unfold Hash.op_lt, Hash.op_le, Hash.op_gt, Hash.op_ge, Hash.op_eq, Hash.op_ne. simpl members.
  destruct (tuple_lt leaf lltb l m), (tuple_eq leaf leqb l m), (tuple_lt leaf lltb m l);
    destruct T as [(? & ? & ?)|[(? & ? & ?)|(? & ? & ?)]]; try discriminate; simpl;
    repeat split; intros; try tauto; try discriminate;
    try (exfalso; (apply L + apply G + apply E)); intuition (try discriminate; tauto).
Qed.

(* exactly one of <, ==, > for any two comparable values; in particular for tuple_operators objects *)
Lemma trichotomy x y : cmp_shape x y = true -> exactly_one (vltb x y) (veqb x y) (vltb y x).
Proof. intros S. rewrite (vltb_swap x y). apply vtri, S. Qed.

Lemma op_trichotomy l m : cmp_shape (VObj l) (VObj m) = true ->
  exactly_one (op_lt (VObj l) (VObj m)) (op_eq (VObj l) (VObj m)) (op_gt (VObj l) (VObj m)).
Proof. simpl cmp_shape. apply tuple_tri. Qed.

Lemma lt_transitive x y z : cmp_shape x y = true -> cmp_shape y z = true -> cmp_shape x z = true ->
  vltb x y = true -> vltb y z = true -> vltb x z = true.
Proof. intros S1 S2 S3. destruct (vrules x y z S1 S2 S3) as (Q1 & _). exact Q1. Qed.

Lemma op_lt_transitive l m n :
  cmp_shape (VObj l) (VObj m) = true -> cmp_shape (VObj m) (VObj n) = true -> cmp_shape (VObj l) (VObj n) = true ->
  op_lt (VObj l) (VObj m) = true -> op_lt (VObj m) (VObj n) = true -> op_lt (VObj l) (VObj n) = true.
Proof. apply (lt_transitive (VObj l) (VObj m) (VObj n)). Qed.

Lemma le_iff_lt_or_eq l m : cmp_shape (VObj l) (VObj m) = true ->
  op_le (VObj l) (VObj m) = op_lt (VObj l) (VObj m) || op_eq (VObj l) (VObj m).
Proof.
  simpl cmp_shape. intros S. pose proof (tuple_tri l m S) as T.
  unfold Hash.op_le, Hash.op_lt, Hash.op_eq. simpl members.
  destruct T as [(-> & -> & ->)|[(-> & -> & ->)|(-> & -> & ->)]]; reflexivity.
Qed.

(* the decidable spec used by the oracle is the same predicate *)
Lemma spec_ltb_iff l m : spec_ltb leaf leqb lltb l m = true <-> spec_lt l m.
Proof. apply (spec_lex_ltb_iff value veqb vltb l m). Qed.

Lemma spec_eqb_iff l : forall m, spec_eqb leaf leqb l m = true <-> spec_eq l m.
Proof.
  unfold HashSpec.spec_eqb, HashSpec.spec_eq, lex_eq.
  induction l as [|x l IH]; intros [|y m]; simpl; split; intros E; try discriminate; try constructor; try (inversion E; fail).
  - apply andb_true_iff in E. apply E.
  - apply IH. apply andb_true_iff in E. apply E.
  - inversion E; subst. apply andb_true_iff. split; [assumption | apply IH; assumption].
Qed.

(* ---------------- what "depends on every component" means exactly *)
Lemma fold_seed_app seed l r : fold_seed seed (l ++ r) = fold_seed (fold_seed seed l) r.
Proof. unfold Hash.fold_seed. apply fold_left_app. Qed.

Lemma hash_tuple_fold l : hash (VTuple l) = fold_seed (hp_tuple_seed hp) l.
Proof. reflexivity. Qed.
Lemma hash_obj_fold l : hash (VObj l) = fold_seed (hp_tuple_seed hp) l.
Proof. reflexivity. Qed.

(* changing the component at one position changes the running seed after that position *)
Lemma seed_after_component_differs seed l x y : hash x <> hash y ->
  fold_seed seed (l ++ [x]) <> fold_seed seed (l ++ [y]).
Proof.
  intros D E. rewrite !fold_seed_app in E. unfold Hash.fold_seed in E at 1 3. simpl in E.
  apply combine_injective in E; [contradiction | apply hash_lt_W | apply hash_lt_W].
Qed.

(* hence changing the LAST component always changes the hash *)
Lemma last_component_sensitive l x y : hash x <> hash y ->
  hash (VTuple (l ++ [x])) <> hash (VTuple (l ++ [y])) /\ hash (VObj (l ++ [x])) <> hash (VObj (l ++ [y])).
Proof. intros D. rewrite !hash_tuple_fold, !hash_obj_fold. split; apply seed_after_component_differs, D. Qed.

Lemma pair_second_sensitive a x y : hash x <> hash y -> hash (VPair a x) <> hash (VPair a y).
Proof. intros D E. simpl in E. apply combine_injective in E; [contradiction | apply hash_lt_W | apply hash_lt_W]. Qed.

Lemma variant_value_sensitive k x y : hash x <> hash y -> hash (VVariant k x) <> hash (VVariant k y).
Proof. intros D E. simpl in E. apply combine_injective in E; [contradiction | apply hash_lt_W | apply hash_lt_W]. Qed.

(* a change at any position: the two hashes are the same function (fold of the remaining components) of two
   DIFFERENT running seeds; that they stay different through the remaining components is not claimed *)
Lemma component_changes_running_seed l x y r : hash x <> hash y ->
  exists s1 s2, s1 <> s2 /\
    hash (VTuple (l ++ x :: r)) = fold_seed s1 r /\ hash (VTuple (l ++ y :: r)) = fold_seed s2 r /\
    hash (VObj (l ++ x :: r)) = fold_seed s1 r /\ hash (VObj (l ++ y :: r)) = fold_seed s2 r.
Proof.
  intros D. exists (fold_seed (hp_tuple_seed hp) (l ++ [x])), (fold_seed (hp_tuple_seed hp) (l ++ [y])).
  split; [apply seed_after_component_differs, D|].
  rewrite !hash_tuple_fold, !hash_obj_fold.
  replace (l ++ x :: r) with ((l ++ [x]) ++ r) by (rewrite <- app_assoc; reflexivity).
  replace (l ++ y :: r) with ((l ++ [y]) ++ r) by (rewrite <- app_assoc; reflexivity).
  rewrite !fold_seed_app. auto.
Qed.

(* ---------------- unordered_map: lookups see exactly the inserted keys *)
Notation tfind := (tfind leaf hp h leqb).
Notation tinsert := (tinsert leaf hp h leqb).
Notation tbuild := (tbuild leaf hp h leqb).
Notation spec_lookup := (spec_lookup leaf leqb).

Lemma find_ext' {B} (p q : B -> bool) l : (forall x, p x = q x) -> find p l = find q l.
Proof. intros E. induction l as [|x l IH]; simpl; [reflexivity|]. rewrite E, IH. reflexivity. Qed.

Lemma find_app' {B} (p : B -> bool) l r :
  find p (l ++ r) = match find p l with Some x => Some x | None => find p r end.
Proof. induction l as [|x l IH]; simpl; [reflexivity|]. destruct (p x); [reflexivity | exact IH]. Qed.

(* comparing hash words first changes nothing, because equal keys hash equal *)
Lemma tfind_spec t y : tfind t y = spec_lookup t y.
Proof.
  unfold Hash.tfind, HashSpec.spec_lookup. f_equal. apply find_ext'. intros [k p]. simpl.
  destruct (veqb k y) eqn:E; [|apply andb_false_r].
  rewrite (hash_respects_eq k y E), N.eqb_refl. reflexivity.
Qed.

Lemma spec_lookup_none_neq t k y : spec_lookup t k <> None -> spec_lookup t y = None -> veqb k y = false.
Proof.
  unfold HashSpec.spec_lookup. intros Hk Hy.
  destruct (find (fun kv => veqb (fst kv) k) t) as [[k' p']|] eqn:Fk; [|contradiction Hk; reflexivity].
  destruct (find (fun kv => veqb (fst kv) y) t) as [kv|] eqn:Fy; [discriminate|].
  apply find_some in Fk. destruct Fk as [In1 E1]. simpl in E1.
  pose proof (find_none _ _ Fy _ In1) as E2. simpl in E2.
  destruct (veqb k y) eqn:E; [|reflexivity].
  rewrite (veqb_trans k' k y E1 E) in E2. discriminate.
Qed.

Lemma spec_lookup_snoc t k p y :
  spec_lookup (t ++ [(k, p)]) y =
  match spec_lookup t y with Some q => Some q | None => if veqb k y then Some p else None end.
Proof.
  unfold HashSpec.spec_lookup. rewrite find_app'.
  destruct (find (fun kv => veqb (fst kv) y) t); simpl; [reflexivity|]. destruct (veqb k y); reflexivity.
Qed.

Lemma spec_lookup_cons k p kvs y :
  spec_lookup ((k, p) :: kvs) y = if veqb k y then Some p else spec_lookup kvs y.
Proof. unfold HashSpec.spec_lookup. simpl. destruct (veqb k y); reflexivity. Qed.

Lemma fold_tinsert_lookup kvs : forall t y,
  spec_lookup (fold_left tinsert kvs t) y =
  match spec_lookup t y with Some p => Some p | None => spec_lookup kvs y end.
Proof.
  induction kvs as [|[k p] kvs IH]; intros t y; simpl fold_left.
  - destruct (spec_lookup t y); reflexivity.
  - rewrite IH, spec_lookup_cons. unfold Hash.tinsert. simpl fst. rewrite tfind_spec.
    destruct (spec_lookup t k) as [p0|] eqn:Fk.
    + destruct (spec_lookup t y) eqn:Fy; [reflexivity|].
      assert (N : veqb k y = false) by (apply (spec_lookup_none_neq t k y); [rewrite Fk; discriminate | exact Fy]).
      rewrite N. reflexivity.
    + rewrite spec_lookup_snoc. destruct (spec_lookup t y); [reflexivity|]. destruct (veqb k y); reflexivity.
Qed.

(* a probe finds exactly the payload of the first inserted key equal to it, and nothing when no inserted key is equal *)
Lemma table_lookup kvs y : tfind (tbuild kvs) y = spec_lookup kvs y.
Proof. rewrite tfind_spec. unfold Hash.tbuild. rewrite fold_tinsert_lookup. reflexivity. Qed.

Lemma table_found_iff_inserted kvs y :
  tfind (tbuild kvs) y <> None <-> exists k p, In (k, p) kvs /\ veqb k y = true.
Proof.
  rewrite table_lookup. unfold HashSpec.spec_lookup. split.
  - destruct (find (fun kv => veqb (fst kv) y) kvs) as [[k p]|] eqn:F; [|intros C; contradiction C; reflexivity].
    intros _. apply find_some in F. exists k, p. exact F.
  - intros (k & p & I & E). destruct (find (fun kv => veqb (fst kv) y) kvs) eqn:F; [discriminate|].
    pose proof (find_none _ _ F _ I) as N. simpl in N. congruence.
Qed.

(* ---------------- the hash has no history: it is a function of the current member tuple *)
Notation hrun := (hrun leaf hp h).

(* hashes taken along the way change nothing about the object *)
Lemma hrun_members_ignore_hashes ops : forall l seen seen',
  fst (hrun ops l seen) = fst (hrun (filter (is_mutation leaf) ops) l seen').
Proof.
  induction ops as [|o ops IH]; intros l seen seen'; [reflexivity|].
  destruct o as [|i v|l']; simpl; apply IH.
Qed.

Lemma hrun_seen_app ops : forall l seen, snd (hrun ops l seen) = seen ++ snd (hrun ops l []).
Proof.
  induction ops as [|o ops IH]; intros l seen; [simpl; rewrite app_nil_r; reflexivity|].
  destruct o as [|i v|l']; cbn [Hash.hrun]; try apply IH.
  rewrite (IH l (seen ++ [hash (VObj l)])), (IH l ([] ++ [hash (VObj l)])). rewrite <- app_assoc. reflexivity.
Qed.

(* whatever happened before (hashes taken, members assigned, whole-object assignments): the hash asked for
   at the end is the hash of a freshly built object with the members the object has now *)
Lemma hrun_then_hash ops : forall l seen,
  hrun (ops ++ [HHash]) l seen =
  (fst (hrun ops l seen), snd (hrun ops l seen) ++ [hash (VObj (fst (hrun ops l seen)))]).
Proof.
  induction ops as [|o ops IH]; intros l seen; [reflexivity|].
  destruct o as [|i v|l']; cbn [Hash.hrun app]; apply IH.
Qed.

Lemma hash_after_history ops l :
  fst (hrun (ops ++ [HHash]) l []) = fst (hrun ops l []) /\
  snd (hrun (ops ++ [HHash]) l []) = snd (hrun ops l []) ++ [hash (VObj (fst (hrun ops l [])))].
Proof. rewrite hrun_then_hash. split; reflexivity. Qed.

(* hence it agrees with the hash of every equal value, however that one came to be *)
Lemma hash_after_history_eq ops l y :
  veqb (VObj (fst (hrun ops l []))) y = true ->
  snd (hrun (ops ++ [HHash]) l []) = snd (hrun ops l []) ++ [hash y].
Proof.
  intros E. destruct (hash_after_history ops l) as [_ ->]. rewrite (hash_respects_eq _ _ E). reflexivity.
Qed.

End Proofs.

(* Misc/Hash.v — executable model of include/nitro/lang/hash.hpp, tuple_operators.hpp and unordered.hpp (C16).
   No proofs here.

   A C++ value built from leaves (integers, floating point numbers, strings), std::tuple, std::pair,
   std::variant, unique_ptr/shared_ptr and tuple_operators<T> types is a `value` tree; a tuple_operators type is
   its member tuple (VObj l = the list std::tie(...) returns).  What the model cannot contain is a Section
   variable: the leaf type, std::hash on leaves (h), == and < on leaves (leqb, lltb). *)
From Coq Require Import List Bool Arith NArith.
From Nitro Require Import Base.ListX.
Import ListNotations.
Local Open Scope list_scope.
Local Open Scope N_scope.

(* ---- the two loops of std::tuple's operators (libstdc++ __tuple_compare), over any element type ---- *)
Section ListOps.
Context {A : Type}.
Section All2.
  Variable f : A -> A -> bool.
  (* operator== : get<0>(t) == get<0>(u) && rest *)
  Fixpoint all2 (l m : list A) : bool :=
    match l, m with
    | [], [] => true
    | x :: l', y :: m' => f x y && all2 l' m'
    | _, _ => false
    end.
End All2.
Section Lex2.
  (* f x y = (x < y, y < x).  operator< : get<0>(t) < get<0>(u) || (!(get<0>(u) < get<0>(t)) && rest);
     both directions are computed in one pass so that the recursion is structural in the first list *)
  Variable f : A -> A -> bool * bool.
  Fixpoint lex2 (l m : list A) : bool * bool :=
    match l, m with
    | x :: l', y :: m' =>
        let (lt, gt) := f x y in
        let (tl, tg) := lex2 l' m' in
        (lt || (negb gt && tl), gt || (negb lt && tg))
    | _, _ => (false, false)
    end.
End Lex2.
End ListOps.

(* ---- hash_combine_impl: seed ^= value + 0x9e3779b9 + (seed << 6) + (seed >> 2), in std::size_t ---- *)
Definition W : N := 2 ^ 64.
Definition combine_with (c a b : N) (seed v : N) : N :=
  N.lxor seed ((v + c + (N.shiftl seed a) mod W + N.shiftr seed b) mod W).
(* the five numbers of the code: the literals of hash_combine_impl and the initial seeds of hash(tuple) / hash(variant).
   The model is parametric in them; the instance in use is built from the regenerated Gen/GenHash.v (Misc/HashInst.v),
   i.e. from what include/nitro/lang/hash.hpp says NOW *)
Record hparams : Type := {
  hp_magic : N;          (* 0x9e3779b9 today *)
  hp_shl : N;            (* 6 *)
  hp_shr : N;            (* 2 *)
  hp_tuple_seed : N;     (* hash(tuple): std::size_t seed = 0; *)
  hp_variant_seed : N    (* hash(variant): std::size_t seed = 0; *)
}.
(* admissible: every literal is a std::size_t and both shifts are below the word size (a shift by >= 64 bits is
   undefined behaviour in the code and not what the model computes) *)
Definition hp_ok (p : hparams) : bool :=
  (hp_magic p <? W) && (hp_shl p <? 64) && (hp_shr p <? 64) && (hp_tuple_seed p <? W) && (hp_variant_seed p <? W).
Definition combine (p : hparams) : N -> N -> N := combine_with (hp_magic p) (hp_shl p) (hp_shr p).

(* how a smart pointer came to refer to its pointee (the OWNERSHIP FORM): made by make_unique / make_shared, a copy of
   another shared_ptr, adopted from `new`, a NON-OWNING alias (aliasing constructor with an empty owner: get() != nullptr,
   use_count() == 0), an owning alias (aliasing constructor with a live owner), converted from a unique_ptr, moved from
   another pointer.  hash(p) is hash( *p ) and p == q compares get(): neither looks at the ownership form *)
Inductive own : Type := OwnMake | OwnCopy | OwnNew | OwnAlias | OwnOwningAlias | OwnFromUnique | OwnMoved.

Section Value.
Variable leaf : Type.

Inductive value : Type :=
| VLeaf (a : leaf)                 (* meta::std_hashable types: integral, floating point, the string types *)
| VTuple (l : list value)          (* std::tuple<...> *)
| VPair (a b : value)              (* std::pair *)
| VVariant (k : nat) (v : value)  (* std::variant holding alternative k *)
| VPtr (o : own) (v : value)       (* unique_ptr / shared_ptr to v (non-null), in ownership form o *)
| VObj (l : list value)            (* a tuple_operators<T> type: its as_tuple() *)
| VValueless.                      (* a std::variant that is valueless_by_exception() *)

Variable hp : hparams.                         (* the constants of the code *)
Variable h : leaf -> N.                        (* std::hash<T>()(t) *)
Variables leqb lltb : leaf -> leaf -> bool.     (* == and < of the leaf type *)

(* the overloads of nitro::lang::hash *)
Fixpoint hash (x : value) : N :=
  match x with
  | VLeaf a => h a mod W                                            (* std::hash, a size_t *)
  | VTuple l => fold_left (fun seed v => combine hp seed (hash v)) l (hp_tuple_seed hp)   (* hash_combine_tuple<0> *)
  | VPair a b => combine hp (hash a) (hash b)                          (* seed = hash(first); combine second *)
  | VVariant _ v => combine hp (hp_variant_seed hp) (hash v)                   (* the active alternative; the index is not hashed *)
  | VPtr _ v => hash v                                              (* hash of the pointee, whatever the ownership form *)
  | VObj l => fold_left (fun seed v => combine hp seed (hash v)) l (hp_tuple_seed hp)   (* t.hash() = hash(as_tuple(t)) *)
  | VValueless => hp_variant_seed hp      (* no get_if<I> finds an alternative: the seed is returned as it is *)
  end.

(* running seed of hash_combine_tuple after the components in l, started from `seed` *)
Definition fold_seed (seed : N) (l : list value) : N := fold_left (fun s v => combine hp s (hash v)) l seed.

(* operator== as the standard library defines it on each shape *)
Fixpoint veqb (x y : value) : bool :=
  match x, y with
  | VLeaf a, VLeaf b => leqb a b
  | VTuple l, VTuple m => all2 veqb l m
  | VPair a b, VPair c d => veqb a c && veqb b d
  | VVariant k v, VVariant j w => (k =? j)%nat && veqb v w
  | VPtr _ v, VPtr _ w => veqb v w (* pointee equality; C++ compares addresses (get()), which implies this; ownership plays no part *)
  | VObj l, VObj m => all2 veqb l m (* as_tuple(x) == as_tuple(y) *)
  | VValueless, VValueless => true  (* index() == index() (both variant_npos) && valueless *)
  | _, _ => false
  end.

(* (x < y, y < x) as the standard library defines operator< on each shape *)
Fixpoint vlt2 (x y : value) : bool * bool :=
  match x, y with
  | VLeaf a, VLeaf b => (lltb a b, lltb b a)
  | VTuple l, VTuple m => lex2 vlt2 l m
  | VPair a b, VPair c d =>
      let (l1, g1) := vlt2 a c in
      let (l2, g2) := vlt2 b d in
      (l1 || (negb g1 && l2), g1 || (negb l1 && g2))
  | VVariant k v, VVariant j w =>
      let (l1, g1) := vlt2 v w in
      ((k <? j)%nat || ((k =? j)%nat && l1), (j <? k)%nat || ((k =? j)%nat && g1))
  | VObj l, VObj m => lex2 vlt2 l m   (* as_tuple(x) < as_tuple(y) *)
  | VValueless, VVariant _ _ => (true, false)   (* std::variant operator<: a valueless variant is below every other one *)
  | VVariant _ _, VValueless => (false, true)
  | _, _ => (false, false)            (* pointers order by address: not modelled; valueless vs valueless: equal *)
  end.

Definition vltb (x y : value) : bool := fst (vlt2 x y).

(* the same value with every pointer's ownership form replaced (f old form = new form) *)
Fixpoint retag (f : own -> own) (x : value) : value :=
  match x with
  | VLeaf a => VLeaf a
  | VTuple l => VTuple (map (retag f) l)
  | VPair a b => VPair (retag f a) (retag f b)
  | VVariant k v => VVariant k (retag f v)
  | VPtr o v => VPtr (f o) (retag f v)
  | VObj l => VObj (map (retag f) l)
  | VValueless => VValueless
  end.
(* all ownership forms forgotten *)
Definition erase_own (x : value) : value := retag (fun _ => OwnMake) x.

(* the member tuple *)
Definition members (x : value) : list value :=
  match x with VObj l => l | VTuple l => l | _ => [] end.

(* std::tuple's six operators on two member tuples: ==, <, and the four derived ones *)
Definition tuple_eq (l m : list value) : bool := all2 veqb l m.
Definition tuple_lt (l m : list value) : bool := fst (lex2 vlt2 l m).

(* the six friend operators of tuple_operators<T> *)
Definition op_ne (x y : value) : bool := negb (tuple_eq (members x) (members y)).   (* as_tuple(x) != as_tuple(y) *)
Definition op_eq (x y : value) : bool := tuple_eq (members x) (members y).
Definition op_lt (x y : value) : bool := tuple_lt (members x) (members y).
Definition op_gt (x y : value) : bool := tuple_lt (members y) (members x).          (* t > u  is  u < t *)
Definition op_le (x y : value) : bool := negb (tuple_lt (members y) (members x)).   (* t <= u is !(u < t) *)
Definition op_ge (x y : value) : bool := negb (tuple_lt (members x) (members y)).   (* t >= u is !(t < u) *)

(* ---- unordered_map<Key, nat, hash_wrapper<Key>>: an entry is only compared with the probe when the hash
   words agree (bucket + cached hash code), then by == ---- *)
Definition table := list (value * nat).
Definition tfind (t : table) (y : value) : option nat :=
  option_map snd (find (fun kv => (hash (fst kv) =? hash y)%N && veqb (fst kv) y) t).
(* emplace: no effect when an equal key is present *)
Definition tinsert (t : table) (kv : value * nat) : table :=
  match tfind t (fst kv) with Some _ => t | None => t ++ [kv] end.
Definition tbuild (kvs : list (value * nat)) : table := fold_left tinsert kvs [].

(* ---- an object with a history: t.hash() is computed from the CURRENT member tuple every time it is asked
   for; the object carries nothing but its members, so there is no place where an earlier hash could survive.
   A history is a sequence of "take the hash" (directly, or because a container asks for it), "assign one member
   in place" and "assign the whole object"; `seen` collects the hash words handed out along the way ---- *)
Inductive hop : Type :=
| HHash                          (* nitro::lang::hash(x) / insert, find, count with x as the key *)
| HSet (i : nat) (v : value)     (* x.member_i = v  (also through the reference tuple as_tuple() returns) *)
| HAssign (l : list value).      (* x = y, x = std::move(y): all members replaced *)
Fixpoint hrun (ops : list hop) (members : list value) (seen : list N) : list value * list N :=
  match ops with
  | [] => (members, seen)
  | HHash :: r => hrun r members (seen ++ [hash (VObj members)])
  | HSet i v :: r => hrun r (upd members i (fun _ => v)) seen
  | HAssign l :: r => hrun r l seen
  end.
Definition is_mutation (o : hop) : bool := match o with HHash => false | _ => true end.

End Value.

Arguments VLeaf {leaf}.
Arguments VTuple {leaf}.
Arguments VPair {leaf}.
Arguments VVariant {leaf}.
Arguments VPtr {leaf}.
Arguments VObj {leaf}.
Arguments VValueless {leaf}.
Arguments members {leaf}.
Arguments retag {leaf}.
Arguments erase_own {leaf}.
Arguments HHash {leaf}.
Arguments HSet {leaf}.
Arguments HAssign {leaf}.

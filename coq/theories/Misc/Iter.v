(* Misc/Iter.v — executable model of include/nitro/lang/enumerate.hpp and reverse.hpp (C20).  No proofs here.

   A range is the list of its elements; an iterator of the underlying container is a position 0..length.
   The range-based for statement
        for (auto x : adaptor(c)) body(x);
   is   auto b = r.begin(), e = r.end();  while (b != e) { body( *b ); ++b; }
   and is modelled with explicit fuel; running out of fuel (the loop does not stop within length+1 tests) and
   dereferencing an iterator that does not point at an element are distinct outcomes that the theorems exclude.
   The body may write through what it is given: the container contents are threaded through the loop. *)
From Coq Require Import List Arith Bool.
From Nitro Require Import Base.ListX.
Import ListNotations.
Local Open Scope list_scope.

Inductive outcome (R : Type) : Type :=
| Done (r : R)      (* the loop ended: b == e *)
| OutOfFuel         (* still b != e after length+1 tests *)
| BadDeref.         (* *b evaluated with b not pointing at an element (undefined behaviour in C++) *)
Arguments Done {R}.
Arguments OutOfFuel {R}.
Arguments BadDeref {R}.

Section Iter.
Variable A : Type.

(* ---- enumerate_proxy<Iterator>::iterator : the wrapped iterator it_ and the running index_ ---- *)
Record eiter : Type := { e_pos : nat; e_idx : nat }.
Definition e_begin : eiter := {| e_pos := 0; e_idx := 0 |}.                       (* { begin_, 0 } *)
Definition e_end (c : list A) : eiter := {| e_pos := length c; e_idx := 0 |}.      (* { end_, 0 } *)
Definition e_ne (a b : eiter) : bool := negb (e_pos a =? e_pos b).                (* it_ != other.it_ : index_ plays no part *)
Definition e_incr (a : eiter) : eiter := {| e_pos := S (e_pos a); e_idx := S (e_idx a) |}.   (* ++it_; ++index_; *)
Definition e_deref (c : list A) (a : eiter) : option (nat * A) :=                 (* proxy(index_, *it_) *)
  match nth_error c (e_pos a) with Some v => Some (e_idx a, v) | None => None end.

(* body: x.value() = f x.index() x.value()  (for a read-only loop f i v = v) *)
Fixpoint e_loop (fuel : nat) (f : nat -> A -> A) (c : list A) (b e : eiter) (visits : list (nat * A))
  : outcome (list (nat * A) * list A) :=
  match fuel with
  | 0 => OutOfFuel
  | S fuel' =>
      if e_ne b e then
        match e_deref c b with
        | None => BadDeref
        | Some (i, v) => e_loop fuel' f (upd c (e_pos b) (fun _ => f i v)) (e_incr b) e (visits ++ [(i, v)])
        end
      else Done (visits, c)
  end.

(* for (auto x : enumerate(c)) on an lvalue c: the proxy holds c's own iterators *)
Definition enumerate_for (f : nat -> A -> A) (c : list A) : outcome (list (nat * A) * list A) :=
  e_loop (S (length c)) f c e_begin (e_end c) [].

(* for (auto x : enumerate(std::move(c))) / a temporary — const-qualified or not: a function returning `const C`,
   static_cast<const C&&>, std::move of a const object — / an initializer list: detail::enumerate<T> owns a copy
   (container_), hands out its const iterators, and lives until the loop is over; only the visits are left *)
Definition enumerate_rvalue (c : list A) : outcome (list (nat * A)) :=
  let container_ := c in
  match e_loop (S (length container_)) (fun _ v => v) container_ e_begin (e_end container_) [] with
  | Done (vs, _) => Done vs
  | OutOfFuel => OutOfFuel
  | BadDeref => BadDeref
  end.

(* ---- std::reverse_iterator over positions: base b denotes element b-1 ---- *)
Definition r_begin (c : list A) : nat := length c.    (* rbegin() = reverse_iterator(end()) *)
Definition r_end : nat := 0.                          (* rend()   = reverse_iterator(begin()) *)
Definition r_deref {B} (c : list B) (b : nat) : option B :=
  match b with 0 => None | S p => nth_error c p end.  (* *--copy_of_base *)

Fixpoint r_loop (fuel : nat) (f : A -> A) (c : list A) (b e : nat) (visits : list A) : outcome (list A * list A) :=
  match fuel with
  | 0 => OutOfFuel
  | S fuel' =>
      if negb (b =? e) then
        match r_deref c b with
        | None => BadDeref
        | Some v => r_loop fuel' f (upd c (pred b) (fun _ => f v)) (pred b) e (visits ++ [v])
        end
      else Done (visits, c)
  end.

(* for (auto& x : reverse(c)) on an lvalue c: reverse_proxy(c.rbegin(), c.rend()) *)
Definition reverse_for (f : A -> A) (c : list A) : outcome (list A * list A) :=
  r_loop (S (length c)) f c (r_begin c) r_end [].

(* reverse of a temporary: detail::reverse<T> owns container_, iterates crbegin()..crend() *)
Definition reverse_rvalue (c : list A) : outcome (list A) :=
  let container_ := c in
  match r_loop (S (length container_)) (fun v => v) container_ (r_begin container_) r_end [] with
  | Done (vs, _) => Done vs
  | OutOfFuel => OutOfFuel
  | BadDeref => BadDeref
  end.

(* reverse(T (&c)[Size]): a temporary std::vector<std::reference_wrapper<T>> (c, c + Size) — element k refers to
   c[k] — is reversed as an owned range; each visit reads, and may write, the array element referred to *)
Definition refs_of (c : list A) : list nat := seq 0 (length c).
Fixpoint ra_loop (fuel : nat) (f : A -> A) (c : list A) (refs : list nat) (b e : nat) (visits : list A)
  : outcome (list A * list A) :=
  match fuel with
  | 0 => OutOfFuel
  | S fuel' =>
      if negb (b =? e) then
        match r_deref refs b with
        | None => BadDeref
        | Some p =>
            match nth_error c p with
            | None => BadDeref
            | Some v => ra_loop fuel' f (upd c p (fun _ => f v)) refs (pred b) e (visits ++ [v])
            end
        end
      else Done (visits, c)
  end.
Definition reverse_array_for (f : A -> A) (c : list A) : outcome (list A * list A) :=
  let refs := refs_of c in
  ra_loop (S (length refs)) f c refs (length refs) r_end [].

(* ---- manual iteration.  `it++` is  { iterator orig = this-object; advance this-object; return orig; } : it hands back the old
   iterator and advances exactly like ++it.  A hand-written loop that dereferences the returned old value
   (auto o = it++; use *o) is therefore the loop above; so are for (..; it != e; ++it), for (..; it++),
   std::for_each, and a loop continued with a copy of the iterator (an iterator is a value: position and index) ---- *)
Definition e_post_incr (a : eiter) : eiter * eiter := (a, e_incr a).
Fixpoint e_loop_post (fuel : nat) (f : nat -> A -> A) (c : list A) (b e : eiter) (visits : list (nat * A))
  : outcome (list (nat * A) * list A) :=
  match fuel with
  | 0 => OutOfFuel
  | S fuel' =>
      if e_ne b e then
        let (old, b') := e_post_incr b in
        match e_deref c old with
        | None => BadDeref
        | Some (i, v) => e_loop_post fuel' f (upd c (e_pos old) (fun _ => f i v)) b' e (visits ++ [(i, v)])
        end
      else Done (visits, c)
  end.

(* ---- the same adaptor object used more than once.  An adaptor holds iterators of the range (positions) or
   the owned elements and nothing else: no counter, no "current" position, no cached result; each range-for
   statement starts from begin() = position 0 / index 0 again.  The scenarios below are therefore plain
   compositions of the loops above (read-only bodies: f i v = v) ---- *)
Definition keep_e : nat -> A -> A := fun _ v => v.
Definition keep_r : A -> A := fun v => v.

(* auto e = enumerate(c); for (auto x : e) ...; for (auto x : e) ...; *)
Definition enumerate_twice (c : list A) : outcome (list (nat * A) * list (nat * A)) :=
  match enumerate_for keep_e c with
  | Done (v1, c1) => match enumerate_for keep_e c1 with Done (v2, _) => Done (v1, v2) | OutOfFuel => OutOfFuel | BadDeref => BadDeref end
  | OutOfFuel => OutOfFuel | BadDeref => BadDeref
  end.
Definition reverse_twice (c : list A) : outcome (list A * list A) :=
  match reverse_for keep_r c with
  | Done (v1, c1) => match reverse_for keep_r c1 with Done (v2, _) => Done (v1, v2) | OutOfFuel => OutOfFuel | BadDeref => BadDeref end
  | OutOfFuel => OutOfFuel | BadDeref => BadDeref
  end.

(* auto e = enumerate(c); then the range-for statement over the ONE adaptor object e run once per element of fs, pass j
   with the body  x.value() = (nth j fs) x.index() x.value()  (keep_e for a read-only pass).  The adaptor is not
   changed by begin()/end(): every pass starts from the stored begin_/end_ again *)
Fixpoint enumerate_passes (fs : list (nat -> A -> A)) (c : list A) : outcome (list (list (nat * A)) * list A) :=
  match fs with
  | [] => Done ([], c)
  | f :: r =>
      match enumerate_for f c with
      | Done (v, c1) =>
          match enumerate_passes r c1 with
          | Done (vs, c2) => Done (v :: vs, c2)
          | OutOfFuel => OutOfFuel | BadDeref => BadDeref
          end
      | OutOfFuel => OutOfFuel | BadDeref => BadDeref
      end
  end.
Fixpoint reverse_passes (fs : list (A -> A)) (c : list A) : outcome (list (list A) * list A) :=
  match fs with
  | [] => Done ([], c)
  | f :: r =>
      match reverse_for f c with
      | Done (v, c1) =>
          match reverse_passes r c1 with
          | Done (vs, c2) => Done (v :: vs, c2)
          | OutOfFuel => OutOfFuel | BadDeref => BadDeref
          end
      | OutOfFuel => OutOfFuel | BadDeref => BadDeref
      end
  end.

(* for (auto x : enumerate(c)) for (auto y : enumerate(c)) ...  — the inner statement is run once per outer visit *)
Definition enumerate_nested (c : list A) : outcome (list ((nat * A) * outcome (list (nat * A)))) :=
  match enumerate_for keep_e c with
  | Done (vs, c1) => Done (map (fun p => (p, enumerate_rvalue c1)) vs)
  | OutOfFuel => OutOfFuel | BadDeref => BadDeref
  end.
Definition enumerate_reverse_nested (c : list A) : outcome (list ((nat * A) * outcome (list A))) :=
  match enumerate_for keep_e c with
  | Done (vs, c1) => Done (map (fun p => (p, reverse_rvalue c1)) vs)
  | OutOfFuel => OutOfFuel | BadDeref => BadDeref
  end.

(* auto e = enumerate(c);  every element of c replaced in place by g of it (size unchanged);  for (auto x : e) ...
   — the adaptor's begin/end were taken from the OLD c; positions stay valid because the size is unchanged *)
Definition enumerate_after_modify (g : A -> A) (c : list A) : outcome (list (nat * A) * list A) :=
  let b := e_begin in let e := e_end c in
  e_loop (S (length c)) keep_e (map g c) b e [].
Definition reverse_after_modify (g : A -> A) (c : list A) : outcome (list A * list A) :=
  let b := r_begin c in
  r_loop (S (length c)) keep_r (map g c) b r_end [].

(* e.begin() != e.end(), asked for any number of times *)
Definition enumerate_nonempty_test (c : list A) : bool := e_ne e_begin (e_end c).
Definition reverse_nonempty_test (c : list A) : bool := negb (r_begin c =? r_end).

(* ---- an OWNING adaptor is a value: it consists of the elements it owns (container_) and of nothing that refers
   to another object or to its own address.  Copying or moving it (into a variable, out of a function, into a vector
   or an optional) yields an adaptor owning equal elements; what happens to the source afterwards (destroyed,
   assigned other elements) is invisible to the copy.  `relocate` is that copy/move; `src_after` is whatever the
   source owns later on ---- *)
Definition relocate (owned : list A) : list A := owned.
Definition iterate_copy_and_source_enumerate (owned src_after : list A)
  : outcome (list (nat * A)) * outcome (list (nat * A)) :=
  let copy := relocate owned in (enumerate_rvalue copy, enumerate_rvalue src_after).
Definition iterate_copy_and_source_reverse (owned src_after : list A) : outcome (list A) * outcome (list A) :=
  let copy := relocate owned in (reverse_rvalue copy, reverse_rvalue src_after).

End Iter.

(* ---- TWO ranges alive at once.  The store holds two independent containers a and b; the outer loop runs over
   an adaptor of a, and its body first runs `inner` — any code using b (typically a whole loop over an adaptor of
   b): it returns b's contents afterwards and an observation — then assigns f v through the outer loop's element.
   An adaptor of a refers to a only: nothing `inner` does can redirect it, and the outer loop never touches b ---- *)
Section Two.
Variables A O : Type.
Variable inner : list A -> list A * O.

Fixpoint r_loop2 (fuel : nat) (f : A -> A) (a b : list A) (it e : nat) (visits : list (A * O))
  : outcome (list (A * O) * list A * list A) :=
  match fuel with
  | 0 => OutOfFuel
  | S fuel' =>
      if negb (it =? e) then
        match r_deref a it with
        | None => BadDeref
        | Some v =>
            let (b', o) := inner b in
            r_loop2 fuel' f (upd a (pred it) (fun _ => f v)) b' (pred it) e (visits ++ [(v, o)])
        end
      else Done (visits, a, b)
  end.
(* for (auto& x : reverse(a)) { inner(b); x = f x; } *)
Definition reverse_for2 (f : A -> A) (a b : list A) : outcome (list (A * O) * list A * list A) :=
  r_loop2 (S (length a)) f a b (r_begin A a) r_end [].

Fixpoint e_loop2 (fuel : nat) (f : nat -> A -> A) (a b : list A) (it e : eiter) (visits : list ((nat * A) * O))
  : outcome (list ((nat * A) * O) * list A * list A) :=
  match fuel with
  | 0 => OutOfFuel
  | S fuel' =>
      if e_ne it e then
        match e_deref A a it with
        | None => BadDeref
        | Some (i, v) =>
            let (b', o) := inner b in
            e_loop2 fuel' f (upd a (e_pos it) (fun _ => f i v)) b' (e_incr it) e (visits ++ [((i, v), o)])
        end
      else Done (visits, a, b)
  end.
(* for (auto x : enumerate(a)) { inner(b); x.value() = f x.index() x.value(); } *)
Definition enumerate_for2 (f : nat -> A -> A) (a b : list A) : outcome (list ((nat * A) * O) * list A * list A) :=
  e_loop2 (S (length a)) f a b e_begin (e_end A a) [].
End Two.

(* the expected observations, in list terms *)
Definition spec_enumerate {A} (c : list A) : list (nat * A) := combine (seq 0 (length c)) c.
Definition spec_enumerate_write {A} (f : nat -> A -> A) (c : list A) : list A :=
  map (fun p => f (fst p) (snd p)) (combine (seq 0 (length c)) c).

(* k passes over one adaptor object: pass j visits the range as pass j-1 left it, all of it, from index 0 *)
Fixpoint spec_enumerate_passes {A} (fs : list (nat -> A -> A)) (c : list A) : list (list (nat * A)) * list A :=
  match fs with
  | [] => ([], c)
  | f :: r => let (vs, c') := spec_enumerate_passes r (spec_enumerate_write f c) in (spec_enumerate c :: vs, c')
  end.
Fixpoint spec_reverse_passes {A} (fs : list (A -> A)) (c : list A) : list (list A) * list A :=
  match fs with
  | [] => ([], c)
  | f :: r => let (vs, c') := spec_reverse_passes r (map f c) in (rev c :: vs, c')
  end.

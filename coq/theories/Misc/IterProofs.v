(* Misc/IterProofs.v — proofs about the model of enumerate.hpp / reverse.hpp (C20): every loop ends within its
   fuel, never dereferences a non-element, visits what the specification says and leaves the written-through
   container as the specification says. *)
From Coq Require Import List Arith Bool Lia.
From Nitro Require Import Base.ListX Misc.Iter.
Import ListNotations.
Local Open Scope list_scope.

Section Proofs.
Variable A : Type.

Lemma nth_error_app_exact (pre : list A) v r : nth_error (pre ++ v :: r) (length pre) = Some v.
Proof. rewrite nth_error_app2 by lia. rewrite Nat.sub_diag. reflexivity. Qed.

Lemma upd_app_exact (pre : list A) v r g : upd (pre ++ v :: r) (length pre) g = pre ++ g v :: r.
Proof. induction pre as [|x pre IH]; simpl; [reflexivity | rewrite IH; reflexivity]. Qed.

(* ---------------- enumerate *)
Lemma e_loop_inv (f : nat -> A -> A) rest : forall pre k fuel vis e,
  e_pos e = length pre + length rest -> length rest < fuel ->
  e_loop A fuel f (pre ++ rest) {| e_pos := length pre; e_idx := k |} e vis =
  Done (vis ++ combine (seq k (length rest)) rest,
        pre ++ map (fun p => f (fst p) (snd p)) (combine (seq k (length rest)) rest)).
Proof.
  induction rest as [|v r IH]; intros pre k fuel vis e He Hf.
  - destruct fuel as [|fuel]; [simpl in Hf; lia|]. simpl in *.
    unfold e_ne. simpl. rewrite He, Nat.add_0_r, Nat.eqb_refl. simpl. rewrite !app_nil_r. reflexivity.
  - destruct fuel as [|fuel]; [simpl in Hf; lia|]. simpl in He, Hf. simpl e_loop.
    unfold e_ne. simpl e_pos.
    assert (Hne : (length pre =? e_pos e) = false) by (apply Nat.eqb_neq; lia). rewrite Hne. simpl negb. cbv iota.
    unfold e_deref. simpl e_pos. simpl e_idx. rewrite nth_error_app_exact. rewrite upd_app_exact.
    unfold e_incr. simpl e_pos. simpl e_idx.
    replace (pre ++ f k v :: r) with ((pre ++ [f k v]) ++ r) by (rewrite <- app_assoc; reflexivity).
    replace (S (length pre)) with (length (pre ++ [f k v])) by (rewrite app_length; simpl; lia).
    rewrite IH; [| rewrite app_length; simpl; lia | lia].
    simpl. rewrite <- !app_assoc. reflexivity.
Qed.

Theorem enumerate_for_spec (f : nat -> A -> A) (c : list A) :
  enumerate_for A f c = Done (spec_enumerate c, spec_enumerate_write f c).
Proof.
  unfold enumerate_for, e_begin, spec_enumerate, spec_enumerate_write.
  apply (e_loop_inv f c [] 0 (S (length c)) [] (e_end A c)); simpl; lia.
Qed.

Theorem enumerate_rvalue_spec (c : list A) : enumerate_rvalue A c = Done (spec_enumerate c).
Proof.
  unfold enumerate_rvalue.
  pose proof (enumerate_for_spec (fun _ v => v) c) as H. unfold enumerate_for in H. rewrite H. reflexivity.
Qed.

(* ---------------- reverse *)
Lemma r_loop_inv (f : A -> A) pre : forall suf fuel vis,
  length pre < fuel ->
  r_loop A fuel f (pre ++ suf) (length pre) 0 vis = Done (vis ++ rev pre, map f pre ++ suf).
Proof.
  induction pre as [|x p IH] using rev_ind; intros suf fuel vis Hf.
  - destruct fuel as [|fuel]; [simpl in Hf; lia|]. simpl. rewrite app_nil_r. reflexivity.
  - destruct fuel as [|fuel]; [simpl in Hf; lia|].
    rewrite app_length in *. simpl length in *. rewrite Nat.add_1_r in *.
    simpl r_loop. simpl Nat.eqb. simpl negb. cbv iota.
    unfold r_deref. rewrite <- app_assoc. simpl app. rewrite nth_error_app_exact.
    simpl pred. rewrite upd_app_exact.
    rewrite (IH (f x :: suf) fuel (vis ++ [x])) by lia.
    rewrite rev_app_distr, map_app. simpl. rewrite <- !app_assoc. reflexivity.
Qed.

Theorem reverse_for_spec (f : A -> A) (c : list A) : reverse_for A f c = Done (rev c, map f c).
Proof.
  unfold reverse_for, r_begin, r_end.
  pose proof (r_loop_inv f c [] (S (length c)) [] (Nat.lt_succ_diag_r _)) as H.
  rewrite !app_nil_r in H. exact H.
Qed.

Theorem reverse_rvalue_spec (c : list A) : reverse_rvalue A c = Done (rev c).
Proof.
  unfold reverse_rvalue.
  pose proof (reverse_for_spec (fun v => v) c) as H. unfold reverse_for in H. rewrite H. reflexivity.
Qed.

(* ---------------- reverse of a built-in array through a vector of references *)
Lemma nth_error_seq0 n k : k < n -> nth_error (seq 0 n) k = Some k.
Proof.
  intros H. rewrite (nth_error_nth' _ 0) by (rewrite seq_length; exact H). rewrite seq_nth by exact H. reflexivity.
Qed.

Lemma ra_loop_inv (f : A -> A) pre : forall suf fuel vis n,
  length pre < fuel -> length pre <= n ->
  ra_loop A fuel f (pre ++ suf) (seq 0 n) (length pre) 0 vis = Done (vis ++ rev pre, map f pre ++ suf).
Proof.
  induction pre as [|x p IH] using rev_ind; intros suf fuel vis n Hf Hn.
  - destruct fuel as [|fuel]; [simpl in Hf; lia|]. simpl. rewrite app_nil_r. reflexivity.
  - destruct fuel as [|fuel]; [simpl in Hf; lia|].
    rewrite app_length in *. simpl length in *. rewrite Nat.add_1_r in *.
    simpl ra_loop. simpl Nat.eqb. simpl negb. cbv iota.
    unfold r_deref. rewrite nth_error_seq0 by lia.
    rewrite <- app_assoc. simpl app. rewrite nth_error_app_exact. rewrite upd_app_exact.
    simpl pred. rewrite (IH (f x :: suf) fuel (vis ++ [x]) n) by lia.
    rewrite rev_app_distr, map_app. simpl. rewrite <- !app_assoc. reflexivity.
Qed.

Theorem reverse_array_for_spec (f : A -> A) (c : list A) : reverse_array_for A f c = Done (rev c, map f c).
Proof.
  unfold reverse_array_for, refs_of, r_end. rewrite seq_length.
  pose proof (ra_loop_inv f c [] (S (length c)) [] (length c) (Nat.lt_succ_diag_r _) (Nat.le_refl _)) as H.
  rewrite !app_nil_r in H. exact H.
Qed.

(* ---------------- readable corollaries *)
(* each element exactly once, in order, paired with 0, 1, 2, ... *)
Corollary enumerate_visits_indices (f : nat -> A -> A) c vs c' :
  enumerate_for A f c = Done (vs, c') -> map fst vs = seq 0 (length c) /\ map snd vs = c.
Proof.
  rewrite enumerate_for_spec. intros [= <- _]. unfold spec_enumerate.
  assert (G : forall (l : list A) k, map fst (combine (seq k (length l)) l) = seq k (length l) /\ map snd (combine (seq k (length l)) l) = l).
  { induction l as [|x l IH]; intros k; simpl; [auto|]. destruct (IH (S k)) as [-> ->]. auto. }
  apply G.
Qed.

(* a body that ignores the index and writes f v leaves map f c *)
Corollary enumerate_write_through (g : A -> A) c : spec_enumerate_write (fun _ v => g v) c = map g c.
Proof.
  unfold spec_enumerate_write.
  assert (G : forall (l : list A) k, map (fun p : nat * A => g (snd p)) (combine (seq k (length l)) l) = map g l).
  { induction l as [|x l IH]; intros k; simpl; [reflexivity | rewrite IH; reflexivity]. }
  apply G.
Qed.

Corollary enumerate_read_only c : spec_enumerate_write (fun _ (v : A) => v) c = c.
Proof. rewrite (enumerate_write_through (fun v => v)). apply map_id. Qed.

(* ---------------- the post-increment form is the same loop *)
Theorem e_loop_post_same fuel : forall f c b e visits,
  e_loop_post A fuel f c b e visits = e_loop A fuel f c b e visits.
Proof.
  induction fuel as [|fuel IH]; intros f c b e visits; [reflexivity|].
  simpl. destruct (e_ne b e); [|reflexivity]. destruct (e_deref A c b) as [[i v]|]; [apply IH | reflexivity].
Qed.

(* ---------------- the same adaptor used again: same visits *)
Theorem enumerate_twice_spec c : enumerate_twice A c = Done (spec_enumerate c, spec_enumerate c).
Proof.
  unfold enumerate_twice. rewrite enumerate_for_spec. unfold keep_e. rewrite enumerate_read_only.
  rewrite enumerate_for_spec. reflexivity.
Qed.

Theorem reverse_twice_spec c : reverse_twice A c = Done (rev c, rev c).
Proof. unfold reverse_twice. rewrite reverse_for_spec. unfold keep_r. rewrite map_id, reverse_for_spec. reflexivity. Qed.

(* any number of passes over the one adaptor object: every pass visits the whole range as it is then *)
Theorem enumerate_passes_spec fs : forall c, enumerate_passes A fs c = Done (spec_enumerate_passes fs c).
Proof.
  induction fs as [|f r IH]; intros c; simpl; [reflexivity|].
  rewrite enumerate_for_spec, IH. destruct (spec_enumerate_passes r (spec_enumerate_write f c)); reflexivity.
Qed.
Theorem reverse_passes_spec fs : forall c, reverse_passes A fs c = Done (spec_reverse_passes fs c).
Proof.
  induction fs as [|f r IH]; intros c; simpl; [reflexivity|].
  rewrite reverse_for_spec, IH. destruct (spec_reverse_passes r (map f c)); reflexivity.
Qed.
(* read-only passes: every one of the k passes visits the SAME sequence, and the range is unchanged *)
Theorem enumerate_passes_read_only k : forall c,
  enumerate_passes A (repeat (keep_e A) k) c = Done (repeat (spec_enumerate c) k, c).
Proof.
  induction k as [|k IH]; intros c; simpl; [reflexivity|].
  rewrite enumerate_for_spec. unfold keep_e at 1. rewrite enumerate_read_only, IH. reflexivity.
Qed.
Theorem reverse_passes_read_only k : forall c,
  reverse_passes A (repeat (keep_r A) k) c = Done (repeat (rev c) k, c).
Proof.
  induction k as [|k IH]; intros c; simpl; [reflexivity|].
  rewrite reverse_for_spec. unfold keep_r at 1. rewrite map_id, IH. reflexivity.
Qed.

Theorem enumerate_nested_spec c :
  enumerate_nested A c = Done (map (fun p => (p, Done (spec_enumerate c))) (spec_enumerate c)).
Proof.
  unfold enumerate_nested. rewrite enumerate_for_spec. unfold keep_e. rewrite enumerate_read_only.
  f_equal. apply map_ext. intros p. rewrite enumerate_rvalue_spec. reflexivity.
Qed.

Theorem enumerate_reverse_nested_spec c :
  enumerate_reverse_nested A c = Done (map (fun p => (p, Done (rev c))) (spec_enumerate c)).
Proof.
  unfold enumerate_reverse_nested. rewrite enumerate_for_spec. unfold keep_e. rewrite enumerate_read_only.
  f_equal. apply map_ext. intros p. rewrite reverse_rvalue_spec. reflexivity.
Qed.

Theorem enumerate_after_modify_spec (g : A -> A) c :
  enumerate_after_modify A g c = Done (spec_enumerate (map g c), map g c).
Proof.
  unfold enumerate_after_modify.
  pose proof (enumerate_for_spec (keep_e A) (map g c)) as H. unfold enumerate_for, e_end in H.
  rewrite map_length in H. unfold e_end. rewrite H. unfold keep_e. rewrite enumerate_read_only. reflexivity.
Qed.

Theorem reverse_after_modify_spec (g : A -> A) c :
  reverse_after_modify A g c = Done (rev (map g c), map g c).
Proof.
  unfold reverse_after_modify.
  pose proof (reverse_for_spec (keep_r A) (map g c)) as H. unfold reverse_for, r_begin in H.
  rewrite map_length in H. unfold r_begin. rewrite H. unfold keep_r. rewrite map_id. reflexivity.
Qed.

Theorem nonempty_tests_spec c :
  enumerate_nonempty_test A c = negb (length c =? 0) /\ reverse_nonempty_test A c = negb (length c =? 0).
Proof.
  unfold enumerate_nonempty_test, reverse_nonempty_test, e_ne, e_begin, e_end, r_begin, r_end. simpl.
  split; [rewrite Nat.eqb_sym|]; reflexivity.
Qed.

End Proofs.

(* ---------------- two ranges alive at once: the outer loop sees only its own range *)
Section TwoProofs.
Variables A O : Type.
Variable inner : list A -> list A * O.

Lemma nth_error_app_exact' (pre : list A) v r : nth_error (pre ++ v :: r) (length pre) = Some v.
Proof. rewrite nth_error_app2 by lia. rewrite Nat.sub_diag. reflexivity. Qed.
Lemma upd_app_exact' (pre : list A) v r g : upd (pre ++ v :: r) (length pre) g = pre ++ g v :: r.
Proof. induction pre as [|x pre IH]; simpl; [reflexivity | rewrite IH; reflexivity]. Qed.

(* whatever the body does with b (even write it): the visits are a's elements in opposite order and a ends as map f a *)
Lemma r_loop2_any (f : A -> A) pre : forall suf fuel vis b,
  length pre < fuel ->
  exists vis' b', r_loop2 A O inner fuel f (pre ++ suf) b (length pre) 0 vis = Done (vis ++ vis', map f pre ++ suf, b')
                  /\ map fst vis' = rev pre.
Proof.
  induction pre as [|x p IH] using rev_ind; intros suf fuel vis b Hf.
  - destruct fuel as [|fuel]; [simpl in Hf; lia|]. exists [], b. simpl. rewrite app_nil_r. auto.
  - destruct fuel as [|fuel]; [simpl in Hf; lia|].
    rewrite app_length in *. simpl length in *. rewrite Nat.add_1_r in *.
    simpl r_loop2. unfold r_deref. rewrite <- app_assoc. simpl app. rewrite nth_error_app_exact'.
    simpl pred. rewrite upd_app_exact'. destruct (inner b) as [b1 o].
    destruct (IH (f x :: suf) fuel (vis ++ [(x, o)]) b1) as (vis' & b' & E & M); [lia|].
    exists ((x, o) :: vis'), b'. split.
    + rewrite E. rewrite map_app. simpl. rewrite <- !app_assoc. reflexivity.
    + simpl. rewrite M, rev_app_distr. reflexivity.
Qed.

(* a body that only reads b: b is unchanged and every outer visit sees the same inner observation *)
Lemma r_loop2_readonly (f : A -> A) (RO : forall b, fst (inner b) = b) pre : forall suf fuel vis b,
  length pre < fuel ->
  r_loop2 A O inner fuel f (pre ++ suf) b (length pre) 0 vis =
  Done (vis ++ map (fun v => (v, snd (inner b))) (rev pre), map f pre ++ suf, b).
Proof.
  induction pre as [|x p IH] using rev_ind; intros suf fuel vis b Hf.
  - destruct fuel as [|fuel]; [simpl in Hf; lia|]. simpl. rewrite app_nil_r. reflexivity.
  - destruct fuel as [|fuel]; [simpl in Hf; lia|].
    rewrite app_length in *. simpl length in *. rewrite Nat.add_1_r in *.
    simpl r_loop2. unfold r_deref. rewrite <- app_assoc. simpl app. rewrite nth_error_app_exact'.
    simpl pred. rewrite upd_app_exact'. pose proof (RO b) as R. destruct (inner b) as [b1 o] eqn:EI. simpl in R. subst b1.
    rewrite (IH (f x :: suf) fuel (vis ++ [(x, o)]) b) by lia. rewrite EI. simpl.
    rewrite rev_app_distr, !map_app. simpl. rewrite <- !app_assoc. reflexivity.
Qed.

Theorem reverse_for2_any (f : A -> A) a b :
  exists vis b', reverse_for2 A O inner f a b = Done (vis, map f a, b') /\ map fst vis = rev a.
Proof.
  unfold reverse_for2, r_begin, r_end.
  destruct (r_loop2_any f a [] (S (length a)) [] b (Nat.lt_succ_diag_r _)) as (vis & b' & E & M).
  rewrite !app_nil_r in E. exists vis, b'. auto.
Qed.

Theorem reverse_for2_readonly (f : A -> A) a b : (forall b, fst (inner b) = b) ->
  reverse_for2 A O inner f a b = Done (map (fun v => (v, snd (inner b))) (rev a), map f a, b).
Proof.
  intros RO. unfold reverse_for2, r_begin, r_end.
  pose proof (r_loop2_readonly f RO a [] (S (length a)) [] b (Nat.lt_succ_diag_r _)) as E.
  rewrite !app_nil_r in E. exact E.
Qed.

Lemma e_loop2_any (f : nat -> A -> A) rest : forall pre k fuel vis e b,
  e_pos e = length pre + length rest -> length rest < fuel ->
  exists vis' b', e_loop2 A O inner fuel f (pre ++ rest) b {| e_pos := length pre; e_idx := k |} e vis =
                  Done (vis ++ vis', pre ++ map (fun p => f (fst p) (snd p)) (combine (seq k (length rest)) rest), b')
                  /\ map fst vis' = combine (seq k (length rest)) rest.
Proof.
  induction rest as [|v r IH]; intros pre k fuel vis e b He Hf.
  - destruct fuel as [|fuel]; [simpl in Hf; lia|]. exists [], b. simpl in *.
    unfold e_ne. simpl. rewrite He, Nat.add_0_r, Nat.eqb_refl. simpl. rewrite !app_nil_r. auto.
  - destruct fuel as [|fuel]; [simpl in Hf; lia|]. simpl in He, Hf. simpl e_loop2.
    unfold e_ne. simpl e_pos.
    assert (Hne : (length pre =? e_pos e) = false) by (apply Nat.eqb_neq; lia). rewrite Hne. simpl negb. cbv iota.
    unfold e_deref. simpl e_pos. simpl e_idx. rewrite nth_error_app_exact', upd_app_exact'.
    unfold e_incr. simpl e_pos. simpl e_idx. destruct (inner b) as [b1 o].
    replace (pre ++ f k v :: r) with ((pre ++ [f k v]) ++ r) by (rewrite <- app_assoc; reflexivity).
    replace (S (length pre)) with (length (pre ++ [f k v])) by (rewrite app_length; simpl; lia).
    destruct (IH (pre ++ [f k v]) (S k) fuel (vis ++ [((k, v), o)]) e b1) as (vis' & b' & E & M);
      [rewrite app_length; simpl; lia | lia |].
    exists (((k, v), o) :: vis'), b'. split.
    + rewrite E. simpl. rewrite <- !app_assoc. reflexivity.
    + simpl. rewrite M. reflexivity.
Qed.

Lemma e_loop2_readonly (f : nat -> A -> A) (RO : forall b, fst (inner b) = b) rest : forall pre k fuel vis e b,
  e_pos e = length pre + length rest -> length rest < fuel ->
  e_loop2 A O inner fuel f (pre ++ rest) b {| e_pos := length pre; e_idx := k |} e vis =
  Done (vis ++ map (fun p => (p, snd (inner b))) (combine (seq k (length rest)) rest),
        pre ++ map (fun p => f (fst p) (snd p)) (combine (seq k (length rest)) rest), b).
Proof.
  induction rest as [|v r IH]; intros pre k fuel vis e b He Hf.
  - destruct fuel as [|fuel]; [simpl in Hf; lia|]. simpl in *.
    unfold e_ne. simpl. rewrite He, Nat.add_0_r, Nat.eqb_refl. simpl. rewrite !app_nil_r. reflexivity.
  - destruct fuel as [|fuel]; [simpl in Hf; lia|]. simpl in He, Hf. simpl e_loop2.
    unfold e_ne. simpl e_pos.
    assert (Hne : (length pre =? e_pos e) = false) by (apply Nat.eqb_neq; lia). rewrite Hne. simpl negb. cbv iota.
    unfold e_deref. simpl e_pos. simpl e_idx. rewrite nth_error_app_exact', upd_app_exact'.
    unfold e_incr. simpl e_pos. simpl e_idx.
    pose proof (RO b) as R. destruct (inner b) as [b1 o] eqn:EI. simpl in R. subst b1.
    replace (pre ++ f k v :: r) with ((pre ++ [f k v]) ++ r) by (rewrite <- app_assoc; reflexivity).
    replace (S (length pre)) with (length (pre ++ [f k v])) by (rewrite app_length; simpl; lia).
    rewrite IH; [| rewrite app_length; simpl; lia | lia]. rewrite EI.
    simpl. rewrite <- !app_assoc. reflexivity.
Qed.

Theorem enumerate_for2_any (f : nat -> A -> A) a b :
  exists vis b', enumerate_for2 A O inner f a b = Done (vis, spec_enumerate_write f a, b') /\ map fst vis = spec_enumerate a.
Proof.
  unfold enumerate_for2, e_begin, spec_enumerate, spec_enumerate_write.
  destruct (e_loop2_any f a [] 0 (S (length a)) [] (e_end A a) b) as (vis & b' & E & M); simpl; try lia.
  exists vis, b'. auto.
Qed.

Theorem enumerate_for2_readonly (f : nat -> A -> A) a b : (forall b, fst (inner b) = b) ->
  enumerate_for2 A O inner f a b =
  Done (map (fun p => (p, snd (inner b))) (spec_enumerate a), spec_enumerate_write f a, b).
Proof.
  intros RO. unfold enumerate_for2, e_begin, spec_enumerate, spec_enumerate_write.
  apply (e_loop2_readonly f RO a [] 0 (S (length a)) [] (e_end A a) b); simpl; lia.
Qed.
End TwoProofs.

(* Misc/HashSpec.v — the C16 property in simple terms: lexicographic order on member lists (the textbook
   definition, independent of the `<`-only loop of std::tuple), exactly-one, comparable shapes, and the
   association-list meaning of an unordered_map.  No proofs here. *)
From Coq Require Import List Bool Arith NArith.
From Nitro Require Import Misc.Hash.
Import ListNotations.
Local Open Scope list_scope.

Section LexSpec.
Variable A : Type.
Variables eqA ltA : A -> A -> Prop.
(* l < m lexicographically: the first position where they are not equal decides *)
Inductive lex_lt : list A -> list A -> Prop :=
| lex_head : forall x y l m, ltA x y -> lex_lt (x :: l) (y :: m)
| lex_tail : forall x y l m, eqA x y -> lex_lt l m -> lex_lt (x :: l) (y :: m).
Definition lex_eq : list A -> list A -> Prop := Forall2 eqA.
End LexSpec.

Section LexSpecBool.
Variable A : Type.
Variables eqb ltb : A -> A -> bool.
(* the same, decidable (used by the oracle) *)
Fixpoint spec_lex_ltb (l m : list A) : bool :=
  match l, m with
  | x :: l', y :: m' => ltb x y || (eqb x y && spec_lex_ltb l' m')
  | _, _ => false
  end.
Fixpoint spec_lex_eqb (l m : list A) : bool :=
  match l, m with
  | [], [] => true
  | x :: l', y :: m' => eqb x y && spec_lex_eqb l' m'
  | _, _ => false
  end.
End LexSpecBool.

(* exactly one of three booleans *)
Definition exactly_one (a b c : bool) : Prop :=
  (a = true /\ b = false /\ c = false) \/ (a = false /\ b = true /\ c = false) \/ (a = false /\ b = false /\ c = true).

Section ValueSpec.
Variable leaf : Type.
Variable h : leaf -> N.
Variables leqb lltb : leaf -> leaf -> bool.
Notation value := (value leaf).

(* two values of the same C++ type whose operators are value comparisons: same constructor and arity all the
   way down (two variants may hold different alternatives, or be valueless), no pointer inside *)
Fixpoint cmp_shape (x y : value) : bool :=
  match x, y with
  | VLeaf _, VLeaf _ => true
  | VTuple l, VTuple m => all2 cmp_shape l m
  | VPair a b, VPair c d => cmp_shape a c && cmp_shape b d
  | VVariant k v, VVariant j w => if (k =? j)%nat then cmp_shape v w else true
  | VObj l, VObj m => all2 cmp_shape l m
  | VValueless, VValueless | VValueless, VVariant _ _ | VVariant _ _, VValueless => true
  | _, _ => false
  end.

Definition veq (x y : value) : Prop := veqb leaf leqb x y = true.
Definition vlt (x y : value) : Prop := vltb leaf lltb x y = true.

(* the six operators, as lexicographic predicates on the member lists (members compared by their own == and <) *)
Definition spec_lt (l m : list value) : Prop := lex_lt value veq vlt l m.
Definition spec_eq (l m : list value) : Prop := lex_eq value veq l m.

(* decidable forms for the oracle *)
Definition spec_ltb (l m : list value) : bool := spec_lex_ltb value (veqb leaf leqb) (vltb leaf lltb) l m.
Definition spec_eqb (l m : list value) : bool := spec_lex_eqb value (veqb leaf leqb) l m.

(* an unordered_map filled by emplace in the order kvs: the first entry whose key equals the probe *)
Definition spec_lookup (kvs : list (value * nat)) (y : value) : option nat :=
  option_map snd (find (fun kv => veqb leaf leqb (fst kv) y) kvs).

(* number of ==-classes among the keys = size() of the container *)
Fixpoint spec_distinct (keys : list value) : nat :=
  match keys with
  | [] => 0
  | k :: r => if existsb (fun k' => veqb leaf leqb k' k) r then spec_distinct r else S (spec_distinct r)
  end.

(* the assumptions on the leaf types (premises of the theorems) *)
Record leaf_ok : Prop := {
  leaf_eq_refl : forall a, leqb a a = true;
  leaf_eq_sym : forall a b, leqb a b = true -> leqb b a = true;
  leaf_eq_trans : forall a b c, leqb a b = true -> leqb b c = true -> leqb a c = true;
  leaf_total : forall a b, exactly_one (lltb a b) (leqb a b) (lltb b a);
  leaf_lt_trans : forall a b c, lltb a b = true -> lltb b c = true -> lltb a c = true;
  leaf_hash_eq : forall a b, leqb a b = true -> h a = h b
}.

End ValueSpec.

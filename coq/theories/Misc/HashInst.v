(* Misc/HashInst.v — the instance of the parametric hash model that is in use: its five constants are the ones the
   translator read from include/nitro/lang/hash.hpp on THIS run (Gen/GenHash.v).  No proofs here.
   An unreadable constant becomes 0 here, and `params_readable` is false: Tie/Tie_C16.v does not accept that. *)
From Coq Require Import NArith Bool.
From Nitro Require Import Gen.GenHash Misc.Hash.

Definition word_of (w : gen_word) : N := match w with GWord n => n | GWordUnknown _ => 0%N end.
Definition readable (w : gen_word) : bool := match w with GWord _ => true | GWordUnknown _ => false end.

(* evaluated here, so that the extracted model carries the five numbers as plain literals *)
Definition the_params : hparams := Eval vm_compute in
  {| hp_magic := word_of gen_hash_magic;
     hp_shl := word_of gen_hash_shl;
     hp_shr := word_of gen_hash_shr;
     hp_tuple_seed := word_of gen_hash_tuple_seed;
     hp_variant_seed := word_of gen_hash_variant_seed |}.

Definition params_readable : bool :=
  readable gen_hash_magic && readable gen_hash_shl && readable gen_hash_shr &&
  readable gen_hash_tuple_seed && readable gen_hash_variant_seed.

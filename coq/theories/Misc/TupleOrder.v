(* Misc/TupleOrder.v — list-lexicographic facts: the `<`-only loop of std::tuple (lex2) and the `==` loop (all2)
   against the textbook lexicographic order, for an arbitrary element type.  The facts about elements are
   supplied either for the elements of one list only (`Forall`, what a nested induction on values provides)
   or for all elements. *)
From Coq Require Import List Bool Arith Lia.
From Nitro Require Import Misc.Hash Misc.HashSpec.
Import ListNotations.
Local Open Scope list_scope.

Definition swap (p : bool * bool) : bool * bool := (snd p, fst p).

Section Facts.
Variable A : Type.
Variable f : A -> A -> bool * bool.   (* (x < y, y < x) *)
Variable e : A -> A -> bool.          (* x == y *)
Variable s : A -> A -> bool.          (* comparable *)

Definition Lt (x y : A) : Prop := fst (f x y) = true.
Definition Eq (x y : A) : Prop := e x y = true.
Definition LtL (l m : list A) : Prop := fst (lex2 f l m) = true.
Definition EqL (l m : list A) : Prop := all2 e l m = true.

(* the four composition rules of a strict order with its equivalence *)
Definition order_rules {B : Type} (lt eq : B -> B -> Prop) (x y z : B) : Prop :=
  (lt x y -> lt y z -> lt x z) /\ (eq x y -> lt y z -> lt x z) /\
  (lt x y -> eq y z -> lt x z) /\ (eq x y -> eq y z -> eq x z).

Lemma all2_cons_inv (g : A -> A -> bool) x l y m :
  all2 g (x :: l) (y :: m) = true -> g x y = true /\ all2 g l m = true.
Proof. simpl. intros H. apply andb_true_iff in H. exact H. Qed.

Lemma all2_length (g : A -> A -> bool) l : forall m, all2 g l m = true -> length l = length m.
Proof.
  induction l as [|x l IH]; intros [|y m]; simpl; try discriminate; auto.
  intros H. apply andb_true_iff in H. destruct H as [_ H]. f_equal. apply IH, H.
Qed.

Lemma all2_Forall2 (g : A -> A -> bool) l : forall m,
  all2 g l m = true <-> Forall2 (fun x y => g x y = true) l m.
Proof.
  induction l as [|x l IH]; intros [|y m]; simpl; split; intros H; try discriminate; try constructor;
    try (inversion H; fail).
  - apply andb_true_iff in H. tauto.
  - apply IH. apply andb_true_iff in H. tauto.
  - inversion H; subst. apply andb_true_iff. split; [assumption | apply IH; assumption].
Qed.

Lemma all2_refl_local (g : A -> A -> bool) l : Forall (fun x => g x x = true) l -> all2 g l l = true.
Proof. induction 1; simpl; auto. apply andb_true_iff; auto. Qed.

Lemma all2_sym_local (g : A -> A -> bool) l :
  Forall (fun x => forall y, g x y = true -> g y x = true) l -> forall m, all2 g l m = true -> all2 g m l = true.
Proof.
  induction 1 as [|x l Hx _ IH]; intros [|y m]; simpl; try discriminate; auto.
  intros H. apply andb_true_iff in H. destruct H as [H1 H2]. apply andb_true_iff. auto.
Qed.

Lemma all2_trans_local (g : A -> A -> bool) l :
  Forall (fun x => forall y z, g x y = true -> g y z = true -> g x z = true) l ->
  forall m n, all2 g l m = true -> all2 g m n = true -> all2 g l n = true.
Proof.
  induction 1 as [|x l Hx _ IH]; intros [|y m] [|z n]; simpl; try discriminate; auto.
  intros H1 H2. apply andb_true_iff in H1. apply andb_true_iff in H2.
  destruct H1 as [H1 H1'], H2 as [H2 H2']. apply andb_true_iff. eauto.
Qed.

(* swapping the arguments swaps the two directions *)
Lemma lex2_swap_local l :
  Forall (fun x => forall y, f y x = swap (f x y)) l -> forall m, lex2 f m l = swap (lex2 f l m).
Proof.
  induction 1 as [|x l Hx _ IH]; intros [|y m]; simpl; try reflexivity.
  rewrite Hx, IH. destruct (f x y) as [a b], (lex2 f l m) as [t u]. reflexivity.
Qed.

(* exactly one of <, ==, > on lists when it holds on the aligned elements *)
Lemma lex2_tri_local l :
  Forall (fun x => forall y, s x y = true -> exactly_one (fst (f x y)) (e x y) (snd (f x y))) l ->
  forall m, all2 s l m = true -> exactly_one (fst (lex2 f l m)) (all2 e l m) (snd (lex2 f l m)).
Proof.
  induction 1 as [|x l Hx _ IH]; intros [|y m]; simpl; try discriminate.
  - intros _. right; left. auto.
  - intros H. apply andb_true_iff in H. destruct H as [H1 H2].
    specialize (Hx y H1). specialize (IH m H2).
    destruct (f x y) as [a b], (lex2 f l m) as [t u]. simpl in *.
    destruct Hx as [(-> & -> & ->)|[(-> & -> & ->)|(-> & -> & ->)]]; simpl.
    + left; auto.
    + exact IH.
    + right; right; auto.
Qed.

(* the composition rules on lists from the rules on the aligned elements *)
Lemma lex2_rules_local
  (Htri : forall x y, s x y = true -> exactly_one (fst (f x y)) (e x y) (snd (f x y))) l :
  Forall (fun x => forall y z, s x y = true -> s y z = true -> s x z = true -> order_rules Lt Eq x y z) l ->
  forall m n, all2 s l m = true -> all2 s m n = true -> all2 s l n = true -> order_rules LtL EqL l m n.
Proof.
  unfold order_rules, LtL, EqL, Lt, Eq.
  induction 1 as [|x l Hx _ IH]; intros [|y m] [|z n]; simpl; try discriminate.
  - intros _ _ _. repeat split; auto; discriminate.
  - intros S1 S2 S3.
    apply andb_true_iff in S1; destruct S1 as [S1 S1'].
    apply andb_true_iff in S2; destruct S2 as [S2 S2'].
    apply andb_true_iff in S3; destruct S3 as [S3 S3'].
    specialize (Hx y z S1 S2 S3). specialize (IH m n S1' S2' S3').
    pose proof (Htri x y S1) as T1. pose proof (Htri y z S2) as T2. pose proof (Htri x z S3) as T3.
    destruct (f x y) as [a1 b1], (f y z) as [a2 b2], (f x z) as [a3 b3].
    destruct (lex2 f l m) as [t1 u1], (lex2 f m n) as [t2 u2], (lex2 f l n) as [t3 u3].
    destruct (e x y) as [|], (e y z) as [|], (e x z) as [|]; simpl in *;
    destruct T1 as [(? & ? & ?)|[(? & ? & ?)|(? & ? & ?)]]; try discriminate;
    destruct T2 as [(? & ? & ?)|[(? & ? & ?)|(? & ? & ?)]]; try discriminate;
    destruct T3 as [(? & ? & ?)|[(? & ? & ?)|(? & ? & ?)]]; try discriminate;
    subst; simpl in *; intuition (try discriminate; auto).
Qed.

Section Global.
Hypothesis Htri : forall x y, s x y = true -> exactly_one (fst (f x y)) (e x y) (snd (f x y)).

Lemma lex2_tri l m : all2 s l m = true -> exactly_one (fst (lex2 f l m)) (all2 e l m) (snd (lex2 f l m)).
Proof. apply lex2_tri_local. apply Forall_forall. intros x _ y. apply Htri. Qed.

(* the `<`-only loop decides the textbook lexicographic order *)
Lemma lex2_spec_bool l : forall m, all2 s l m = true ->
  fst (lex2 f l m) = spec_lex_ltb A e (fun x y => fst (f x y)) l m.
Proof.
  induction l as [|x l IH]; intros [|y m]; simpl; try reflexivity.
  intros H. apply andb_true_iff in H. destruct H as [H1 H2].
  specialize (IH m H2). pose proof (Htri x y H1) as T.
  destruct (f x y) as [a b], (lex2 f l m) as [t u]. simpl in *. rewrite <- IH.
  destruct T as [(-> & -> & ->)|[(-> & -> & ->)|(-> & -> & ->)]]; reflexivity.
Qed.

Lemma spec_lex_ltb_iff (ltb : A -> A -> bool) l : forall m,
  spec_lex_ltb A e ltb l m = true <-> lex_lt A Eq (fun x y => ltb x y = true) l m.
Proof.
  induction l as [|x l IH]; intros [|y m]; simpl; split; intros H; try discriminate; try (inversion H; fail).
  - apply orb_true_iff in H. destruct H as [H|H]; [apply lex_head; exact H|].
    apply andb_true_iff in H. destruct H as [H1 H2]. apply lex_tail; [exact H1 | apply IH, H2].
  - apply orb_true_iff. inversion H; subst; [left; assumption | right]. apply andb_true_iff. split; [assumption | apply IH; assumption].
Qed.

Lemma lex2_spec l m : all2 s l m = true -> (LtL l m <-> lex_lt A Eq Lt l m).
Proof.
  intros H. unfold LtL. rewrite (lex2_spec_bool l m H). apply spec_lex_ltb_iff.
Qed.

Lemma all2_spec l m : EqL l m <-> lex_eq A Eq l m.
Proof. apply all2_Forall2. Qed.

End Global.
End Facts.

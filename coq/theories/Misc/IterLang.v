(* Misc/IterLang.v — the small language into which gen/tr_enumerate.py translates the members of
   nitro::lang::detail::enumerate_proxy<Iterator> and of its nested `iterator` (include/nitro/lang/enumerate.hpp) from
   clang's AST on every run, and its meaning over the model of Misc/Iter.v (an underlying iterator is a position).
   Tie/Tie_C20.v proves that the translated members ARE e_begin, e_end, e_ne, e_incr, e_deref.  No proofs here.

   Fields are named by declaration order inside their class, constructor parameters by position, so renamings do not
   matter:  iterator { F1 = it_ ; F2 = index_ }   enumerate_proxy { G1 = begin_ ; G2 = end_ }. *)
From Coq Require Import List Arith Bool.
From Nitro Require Import Base.ListX Misc.Iter.
Import ListNotations.
Local Open Scope list_scope.

Inductive ifield :=
| F1 | F2            (* this->it_, this->index_   (inside iterator) *)
| O1 | O2            (* other.it_, other.index_   (the parameter of operator!=) *)
| G1 | G2            (* this->begin_, this->end_  (inside enumerate_proxy) *)
| P1 | P2            (* first / second constructor parameter *)
| FUnknown.

Inductive cmeth := CBegin | CEnd | CRBegin | CREnd.

Inductive iexpr :=
| IField (f : ifield) | ILit (n : nat)
| IDeref (e : iexpr)                 (* *e *)
| INe (a b : iexpr)                  (* a != b *)
| IMake (a b : iexpr)                (* iterator(a, b)  /  { a, b }  where an iterator is expected *)
| IProxy (a b : iexpr)               (* proxy<...>(a, b) *)
| ICont (m : cmeth)                  (* container_.begin() / .end() / .crbegin() / .crend()  (owning adaptors) *)
| IUnknown.

Inductive istmt :=
| IInc (f : ifield)                  (* ++field *)
| ISaveThis                          (* iterator orig = ( *this) *)
| IIncThis                           (* ++( *this)  /  operator++() *)
| IRetThis | IRetSaved | IRet (e : iexpr)
| IUnknownS.

Section Sem.
Variable A : Type.

Inductive ival :=
| VPos (p : nat)                     (* an iterator of the underlying container *)
| VNum (n : nat)
| VBool (b : bool)
| VElem (v : A) | VBad               (* the result of *it: an element, or undefined behaviour *)
| VIter (i : eiter)
| VRPos (b : nat)                     (* a reverse iterator of the underlying container, by its base position *)
| VProxy (i : nat) (v : A).

(* the member initialiser list of a two-parameter constructor: which parameter initialises which field *)
Definition inits := list (ifield * ifield).
Fixpoint init_of (l : inits) (f : ifield) : option ifield :=
  match l with
  | [] => None
  | (g, p) :: r => if (match f, g with F1, F1 | F2, F2 | G1, G1 | G2, G2 => true | _, _ => false end) then Some p else init_of r f
  end.

(* iterator(a, b): run the constructor's initialiser list on the arguments (a position and a number) *)
Definition make_iter (ctor : inits) (a b : ival) : option ival :=
  let arg p := match p with P1 => Some a | P2 => Some b | _ => None end in
  match init_of ctor F1, init_of ctor F2 with
  | Some p1, Some p2 =>
      match arg p1, arg p2 with
      | Some (VPos p), Some (VNum n) => Some (VIter {| e_pos := p; e_idx := n |})
      | _, _ => None
      end
  | _, _ => None
  end.

Record ictx := { x_this : eiter; x_other : eiter; x_g1 : nat; x_g2 : nat; x_cont : list A }.

Fixpoint ieval (ctor : inits) (x : ictx) (e : iexpr) : option ival :=
  match e with
  | IField F1 => Some (VPos (e_pos (x_this x)))
  | IField F2 => Some (VNum (e_idx (x_this x)))
  | IField O1 => Some (VPos (e_pos (x_other x)))
  | IField O2 => Some (VNum (e_idx (x_other x)))
  | IField G1 => Some (VPos (x_g1 x))
  | IField G2 => Some (VPos (x_g2 x))
  | IField _ => None
  | ILit n => Some (VNum n)
  | IDeref a => match ieval ctor x a with
                | Some (VPos p) => match nth_error (x_cont x) p with Some v => Some (VElem v) | None => Some VBad end
                | _ => None end
  | INe a b => match ieval ctor x a, ieval ctor x b with
               | Some (VPos p), Some (VPos q) => Some (VBool (negb (p =? q)))
               | Some (VNum p), Some (VNum q) => Some (VBool (negb (p =? q)))
               | _, _ => None end
  | IMake a b => match ieval ctor x a, ieval ctor x b with
                 | Some va, Some vb => make_iter ctor va vb
                 | _, _ => None end
  | IProxy a b => match ieval ctor x a, ieval ctor x b with
                  | Some (VNum i), Some (VElem v) => Some (VProxy i v)
                  | Some (VNum _), Some VBad => Some VBad
                  | _, _ => None end
  | ICont CBegin => Some (VPos 0)
  | ICont CEnd => Some (VPos (length (x_cont x)))
  | ICont CRBegin => Some (VRPos (r_begin A (x_cont x)))
  | ICont CREnd => Some (VRPos r_end)
  | IUnknown => None
  end.

(* what a member function of iterator hands back *)
Inductive iret := RThis | RSaved (i : eiter) | RVal (v : ival).

Definition inc_field (t : eiter) (f : ifield) : option eiter :=
  match f with
  | F1 => Some {| e_pos := S (e_pos t); e_idx := e_idx t |}
  | F2 => Some {| e_pos := e_pos t; e_idx := S (e_idx t) |}
  | _ => None
  end.

Definition with_this (x : ictx) (t : eiter) : ictx :=
  {| x_this := t; x_other := x_other x; x_g1 := x_g1 x; x_g2 := x_g2 x; x_cont := x_cont x |}.

(* a member function body; None = stuck, or falls off the end without returning.
   pre = the body of operator++() for `++( *this)` (itself run with pre = None: no recursion) *)
Fixpoint iexec (ctor : inits) (pre : option (eiter -> option eiter)) (body : list istmt) (x : ictx) (saved : option eiter)
  : option (eiter * iret) :=
  match body with
  | [] => None
  | s :: rest =>
    match s with
    | IInc f => match inc_field (x_this x) f with
                | Some t => iexec ctor pre rest (with_this x t) saved
                | None => None end
    | ISaveThis => iexec ctor pre rest x (Some (x_this x))
    | IIncThis => match pre with
                  | Some run_pre => match run_pre (x_this x) with
                                    | Some t => iexec ctor pre rest (with_this x t) saved
                                    | None => None end
                  | None => None end
    | IRetThis => Some (x_this x, RThis)
    | IRetSaved => match saved with Some o => Some (x_this x, RSaved o) | None => None end
    | IRet e => match ieval ctor x e with Some v => Some (x_this x, RVal v) | None => None end
    | IUnknownS => None
    end
  end.

(* operator++() as a function on the iterator, for use as `pre` *)
Definition run_preinc (ctor : inits) (pre_body : list istmt) (x : ictx) (t : eiter) : option eiter :=
  match iexec ctor None pre_body (with_this x t) None with
  | Some (t', RThis) => Some t'
  | _ => None
  end.
End Sem.

(* Tie/Tie_C17.v — obligations over the function bodies regenerated from include/nitro/lang/string.hpp on every run
   (Gen/GenString.v, written by gen/tr_string.py from clang's AST).  For ALL byte strings: running the translated body of
   split / replace_all / starts_with / join with the interpreter of Str/StrLang.v gives exactly the function of
   Str/StrModel.v that the C17 theorems are about.  A construct the translator does not know is SUnknown/EUnknown, on which
   the interpreter is stuck, so none of these can then be proved. *)
From Coq Require Import List Arith Bool Lia.
From Coq Require Import Init.Byte.
From Nitro Require Import Base.Bytes Base.ListX Str.StrModel Str.StrSpec Str.StrProofs Str.StrLang Gen.GenString.
Import ListNotations.
Local Open Scope list_scope.

(* what a caller observes *)
Definition ret_val (o : outcome) : option val := match o with OReturn _ (Some v) => Some v | _ => None end.
Definition raised (o : outcome) : bool := match o with ORaise => true | _ => false end.
(* for a void function: the final text of the by-reference parameter in slot x *)
Definition final_slot (x : nat) (o : outcome) : option val :=
  match o with ONormal e | OReturn e None => get e x | _ => None end.

Lemma exec_while fuel c body e : exec fuel (SWhile c body) e = while_loop fuel c body fuel e.
Proof. reflexivity. Qed.
Lemma exec_each fuel x src body e l : get e src = Some (VL l) ->
  exec fuel (SForEach x src body) e = each_loop fuel x body l e.
Proof. intros H. cbn [exec]. rewrite H. reflexivity. Qed.

Ltac ltb_case :=
  match goal with
  | |- context [?a <? ?b] => destruct (Nat.ltb_spec a b); try lia
  end.

Lemma skipn_app_plus {A} (d r : list A) j : skipn (length d + j) (d ++ r) = skipn j r.
Proof. induction d as [|x d IH]; simpl; [reflexivity | exact IH]. Qed.

(* ---------------------------------------------------------------- the translator's normal form
   gen/tr_string.py rewrites the statement it has read with the rules below before printing it, so that re-arrangements such
   as an inverted `if`, an early `break` without `else`, or `continue` against a guarded block give the same generated body.
   Each rule preserves the meaning of the little language: *)
Fixpoint leaves (s : stmt) : bool :=
  match s with
  | SBreak | SContinue | SReturn _ | SReturnVoid | SRaise => true
  | SSeq a b => leaves a || leaves b
  | SIf _ a b => leaves a && leaves b
  | _ => false
  end.
Lemma leaves_not_normal fuel s : leaves s = true -> forall e, match exec fuel s e with ONormal _ => False | _ => True end.
Proof.
  induction s; cbn [leaves]; try discriminate; intros H env0; cbn [exec]; try exact I.
  - apply orb_true_iff in H as [H|H].
    + specialize (IHs1 H env0). destruct (exec fuel s1 env0); try exact I. contradiction.
    + destruct (exec fuel s1 env0); try exact I. apply IHs2, H.
  - apply andb_true_iff in H as [Ha Hb].
    match goal with |- context [eval env0 ?c] => destruct (eval env0 c) as [[e1 [| | |[|]|]]|] end; try exact I; [apply IHs1, Ha | apply IHs2, Hb].
  - match goal with |- context [eval env0 ?c] => destruct (eval env0 c) as [[? ?]|] end; exact I.
Qed.
Lemma norm_seq_skip_l fuel s e : exec fuel (SSeq SSkip s) e = exec fuel s e.
Proof. reflexivity. Qed.
Lemma norm_seq_skip_r fuel s e : exec fuel (SSeq s SSkip) e = exec fuel s e.
Proof. cbn [exec]. destruct (exec fuel s e); reflexivity. Qed.
Lemma norm_seq_assoc fuel a b c e : exec fuel (SSeq (SSeq a b) c) e = exec fuel (SSeq a (SSeq b c)) e.
Proof. cbn [exec]. destruct (exec fuel a e); reflexivity. Qed.
Lemma norm_if_then_leaves fuel c a r e : leaves a = true ->
  exec fuel (SSeq (SIf c a SSkip) r) e = exec fuel (SIf c a r) e.
Proof.
  intros H. cbn [exec]. destruct (eval e c) as [[e1 [| | |[|]|]]|]; try reflexivity.
  pose proof (leaves_not_normal fuel a H e1) as N. destruct (exec fuel a e1); try reflexivity. contradiction.
Qed.
Lemma norm_if_else_leaves fuel c a r e : leaves a = true ->
  exec fuel (SSeq (SIf c SSkip a) r) e = exec fuel (SIf c r a) e.
Proof.
  intros H. cbn [exec]. destruct (eval e c) as [[e1 [| | |[|]|]]|]; try reflexivity.
  pose proof (leaves_not_normal fuel a H e1) as N. destruct (exec fuel a e1); try reflexivity. contradiction.
Qed.
Lemma norm_if_not fuel c a b e : exec fuel (SIf (ENot c) a b) e = exec fuel (SIf c b a) e.
Proof. cbn [exec eval]. destruct (eval e c) as [[e1 [| | |[|]|]]|]; reflexivity. Qed.
Lemma norm_if_eq fuel x y a b e : exec fuel (SIf (EEq x y) a b) e = exec fuel (SIf (ENe x y) b a) e.
Proof.
  cbn [exec eval]. destruct (eval e x) as [[e1 vx]|]; [|reflexivity].
  destruct (eval e1 y) as [[e2 vy]|]; [|reflexivity]. destruct (val_eq vx vy) as [[|]|]; reflexivity.
Qed.
(* a loop does not distinguish a body that ends normally from one that ends in `continue` *)
Definition as_loop_sees (o : outcome) : outcome := match o with OContinue e => ONormal e | o => o end.
Lemma loop_body_equiv_while fuel c b1 b2 : (forall e, as_loop_sees (exec fuel b1 e) = as_loop_sees (exec fuel b2 e)) ->
  forall k e, while_loop fuel c b1 k e = while_loop fuel c b2 k e.
Proof.
  intros H. induction k as [|k IH]; intros e; [reflexivity|]. cbn [while_loop].
  destruct (eval e c) as [[e1 [| | |[|]|]]|]; try reflexivity.
  specialize (H e1). destruct (exec fuel b1 e1), (exec fuel b2 e1); cbn [as_loop_sees] in H; try discriminate H; try (inversion H; subst); try reflexivity; apply IH.
Qed.
Lemma loop_body_equiv_each fuel x b1 b2 : (forall e, as_loop_sees (exec fuel b1 e) = as_loop_sees (exec fuel b2 e)) ->
  forall l e, each_loop fuel x b1 l e = each_loop fuel x b2 l e.
Proof.
  intros H. induction l as [|p l IH]; intros e; [reflexivity|]. cbn [each_loop].
  specialize (H (upd e x (VS p))).
  destruct (exec fuel b1 (upd e x (VS p))), (exec fuel b2 (upd e x (VS p))); cbn [as_loop_sees] in H; try discriminate H; try (inversion H; subst); try reflexivity; apply IH.
Qed.
Lemma norm_tail_continue fuel e : as_loop_sees (exec fuel SContinue e) = as_loop_sees (exec fuel SSkip e).
Proof. reflexivity. Qed.
Lemma norm_tail_seq fuel a b1 b2 : (forall e, as_loop_sees (exec fuel b1 e) = as_loop_sees (exec fuel b2 e)) ->
  forall e, as_loop_sees (exec fuel (SSeq a b1) e) = as_loop_sees (exec fuel (SSeq a b2) e).
Proof. intros H e. cbn [exec]. destruct (exec fuel a e); try reflexivity. apply H. Qed.
Lemma norm_tail_if fuel c a1 a2 b1 b2 :
  (forall e, as_loop_sees (exec fuel a1 e) = as_loop_sees (exec fuel a2 e)) ->
  (forall e, as_loop_sees (exec fuel b1 e) = as_loop_sees (exec fuel b2 e)) ->
  forall e, as_loop_sees (exec fuel (SIf c a1 b1) e) = as_loop_sees (exec fuel (SIf c a2 b2) e).
Proof. intros Ha Hb e. cbn [exec]. destruct (eval e c) as [[e1 [| | |[|]|]]|]; try reflexivity; [apply Ha | apply Hb]. Qed.

(* ---------------------------------------------------------------- starts_with *)
Theorem tie_C17_starts_with : forall full p,
  ret_val (run 0 gen_starts_with [VS full; VS p]) = Some (VB (starts_with full p)).
Proof.
  intros full p. cbn. unfold find_from, starts_with. cbn.
  destruct (prefixb p full) eqn:P;
    [apply find_zero_iff in P; rewrite P; reflexivity
    |destruct (find p full) as [[|i]|] eqn:F; try reflexivity; apply find_zero_iff in F; congruence].
Qed.

(* ---------------------------------------------------------------- split *)
(* the loop of the generated body: the first while statement on the spine *)
Fixpoint first_while (s : stmt) : option (expr * stmt) :=
  match s with
  | SWhile c b => Some (c, b)
  | SSeq a b | SIf _ a b => match first_while a with Some r => Some r | None => first_while b end
  | _ => None
  end.

Definition loop_post (x : nat) (o : outcome) (r : option val) : Prop :=
  match r, o with
  | Some v, ONormal e' => get e' x = Some v
  | None, OFuel => True
  | _, _ => False
  end.

Lemma split_loop fuel h n c b : first_while (fn_body gen_split) = Some (c, b) -> n <> [] ->
  forall k start res p0, start <= length h ->
  loop_post 2 (while_loop fuel c b k [VS h; VS n; VL res; VN start; p0])
              (option_map (fun l => VL (res ++ l)) (split_f k n (skipn start h))).
Proof.
  intros Hw Hn. cbv in Hw. injection Hw as <- <-.
  induction k as [|k IH]; intros start res p0 Hs; [exact I|].
  cbn [while_loop split_f]. cbn [eval].
  cbn [exec eval get nth_error upd]. unfold find_from.
  ltb_case.
  destruct (find n (skipn start h)) as [i|] eqn:F.
  - (* an occurrence at start + i *)
    apply find_some in F as (_ & Hlen & _). rewrite skipn_length in Hlen.
    cbn [val_eq negb exec eval get nth_error upd].
    destruct i as [|i].
    + ltb_case. cbn [exec eval get nth_error upd nonempty].
      specialize (IH (start + 0 + length n) (res ++ [[]]) (VN (start + 0)) ltac:(lia)).
      rewrite skipn_skipn'. simpl firstn. rewrite Nat.add_assoc.
      destruct (split_f k n (skipn (start + 0 + length n) h)) as [l|] eqn:E; cbn [option_map] in *;
        [rewrite <- app_assoc in IH; exact IH | exact IH].
    + ltb_case. cbn [exec eval get nth_error upd].
      repeat ltb_case. cbn [exec eval get nth_error upd].
      replace (start + S i - start) with (S i) by lia.
      specialize (IH (start + S i + length n) (res ++ [firstn (S i) (skipn start h)]) (VN (start + S i)) ltac:(lia)).
      rewrite skipn_skipn'. rewrite Nat.add_assoc.
      destruct (split_f k n (skipn (start + S i + length n) h)) as [l|] eqn:E; cbn [option_map] in *;
        [rewrite <- app_assoc in IH; exact IH | exact IH].
  - (* no further occurrence: the rest is the last piece *)
    cbn [val_eq negb exec eval get nth_error upd].
    ltb_case. cbn [exec eval get nth_error upd option_map loop_post]. reflexivity.
Qed.

Theorem tie_C17_split : forall needle s,
  let o := run (S (length s)) gen_split [VS s; VS needle] in
  match split needle s with
  | Some l => ret_val o = Some (VL l)
  | None => raised o = true
  end.
Proof.
  intros needle s o. subst o. unfold split.
  destruct needle as [|a needle]; [reflexivity|].
  destruct (first_while (fn_body gen_split)) as [[c b]|] eqn:Hw; [|discriminate Hw].
  pose proof (split_loop (S (length s)) s (a :: needle) c b Hw ltac:(discriminate) (S (length s)) 0 [] (VN 0) ltac:(lia)) as L.
  cbv in Hw. injection Hw as <- <-.
  unfold run. cbn [length Nat.eqb fn_params gen_split fn_body fn_locals init_env repeat app].
  match goal with |- context [SWhile ?c ?b] => set (Wh := SWhile c b) end.
  cbn [exec eval get nth_error upd nonempty negb].
  subst Wh. rewrite exec_while.
  match goal with |- context [while_loop ?f ?c ?b ?k ?e] => set (W := while_loop f c b k e) in * end.
  change (skipn 0 s) with s in L. cbn [app] in L.
  destruct (split_f (S (length s)) (a :: needle) s) as [l|] eqn:E.
  - cbn [option_map loop_post] in L. destruct W; try contradiction. cbn [exec eval get nth_error] in L |- *. rewrite L. reflexivity.
  - exfalso. destruct (split_f_total (S (length s)) (a :: needle) s ltac:(discriminate) ltac:(lia)) as [l Hl]. congruence.
Qed.

(* ---------------------------------------------------------------- replace_all *)
(* two loop shapes are recognised: (A) `while ((pos = str.find(pat, pos)) != npos) { replace; pos += |with| }` — the search sits in
   the condition — and (B) its rotation `for (m = str.find(pat, 0); m != npos; m = str.find(pat, m + |with|)) replace` — the
   search result is already in the variable at the loop head *)
Definition search_in_condition (c : expr) : bool := match c with ENe (EAssign _ _) _ => true | _ => false end.

Lemma replace_loop_A fuel pat rep c b : first_while (fn_body gen_replace_all) = Some (c, b) -> search_in_condition c = true ->
  pat <> [] -> forall k done rest a1 a2,
  loop_post 0 (while_loop fuel c b k [VS (done ++ rest); a1; a2; VS pat; VS rep; VN (length done)])
              (option_map VS (replace_f k pat rep done rest)).
Proof.
  intros Hw. cbv in Hw. injection Hw as <- <-. intros HA.
  first [discriminate HA | clear HA; intros Hp;
  induction k as [|k IH]; intros done rest a1 a2; [exact I|];
  cbn [while_loop replace_f]; cbn [eval get nth_error upd]; unfold find_from;
  rewrite app_length; ltb_case;
  rewrite skipn_app_exact;
  destruct (find pat rest) as [i|] eqn:F;
  [ apply find_some in F as (_ & Hlen & _);
    cbn [val_eq negb eval get nth_error upd exec];
    rewrite app_length; ltb_case;
    cbn [exec eval get nth_error upd];
    specialize (IH (done ++ firstn i rest ++ rep) (skipn (i + length pat) rest) a1 a2);
    rewrite firstn_app_2; rewrite <- Nat.add_assoc, skipn_app_plus;
    assert (Hl : length (done ++ firstn i rest ++ rep) = length done + i + length rep)
      by (rewrite !app_length, firstn_length_le by lia; lia);
    rewrite Hl in IH; rewrite <- !app_assoc in IH; rewrite <- !app_assoc; exact IH
  | cbn [val_eq negb option_map loop_post get nth_error]; reflexivity ] ].
Qed.

Lemma replace_loop_B fuel pat rep c b : first_while (fn_body gen_replace_all) = Some (c, b) -> search_in_condition c = false ->
  pat <> [] -> forall k done rest a1 a2,
  loop_post 0 (while_loop fuel c b k [VS (done ++ rest); a1; a2; VS pat; VS rep; find_from (done ++ rest) pat (length done)])
              (option_map VS (replace_f k pat rep done rest)).
Proof.
  intros Hw. cbv in Hw. injection Hw as <- <-. intros HA.
  first [discriminate HA | clear HA; intros Hp;
  induction k as [|k IH]; intros done rest a1 a2; [exact I|];
  cbn [while_loop replace_f]; cbn [eval get nth_error upd]; unfold find_from at 1 2;
  rewrite app_length; ltb_case;
  rewrite skipn_app_exact;
  destruct (find pat rest) as [i|] eqn:F;
  [ apply find_some in F as (_ & Hlen & _);
    cbn [val_eq negb eval get nth_error upd exec];
    rewrite app_length; ltb_case;
    cbn [exec eval get nth_error upd];
    specialize (IH (done ++ firstn i rest ++ rep) (skipn (i + length pat) rest) a1 a2);
    rewrite firstn_app_2; rewrite <- Nat.add_assoc, skipn_app_plus;
    assert (Hl : length (done ++ firstn i rest ++ rep) = length done + i + length rep)
      by (rewrite !app_length, firstn_length_le by lia; lia);
    rewrite Hl in IH; rewrite <- !app_assoc in IH; rewrite <- !app_assoc; replace (length done + (i + length rep)) with (length done + i + length rep) by lia; exact IH
  | cbn [val_eq negb option_map loop_post get nth_error]; reflexivity ] ].
Qed.

Theorem tie_C17_replace_all : forall pat rep s,
  final_slot 0 (run (S (length s)) gen_replace_all [VS s; VS pat; VS rep]) = option_map VS (replace_all pat rep s).
Proof.
  intros pat rep s. unfold replace_all.
  destruct pat as [|a pat]; [reflexivity|].
  destruct (first_while (fn_body gen_replace_all)) as [[c b]|] eqn:Hw; [|discriminate Hw].
  assert (L : exists e0, loop_post 0 (while_loop (S (length s)) c b (S (length s)) e0)
                                  (option_map VS (replace_f (S (length s)) (a :: pat) rep [] s))
              /\ e0 = (if search_in_condition c
                       then [VS s; VS (a :: pat); VS rep; VS (a :: pat); VS rep; VN 0]
                       else [VS s; VS (a :: pat); VS rep; VS (a :: pat); VS rep; find_from s (a :: pat) 0])).
  { destruct (search_in_condition c) eqn:HA; eexists; (split; [|reflexivity]).
    - exact (replace_loop_A (S (length s)) (a :: pat) rep c b Hw HA ltac:(discriminate) (S (length s)) [] s (VS (a :: pat)) (VS rep)).
    - exact (replace_loop_B (S (length s)) (a :: pat) rep c b Hw HA ltac:(discriminate) (S (length s)) [] s (VS (a :: pat)) (VS rep)). }
  destruct L as (e0 & L & He0).
  cbv in Hw. injection Hw as <- <-. cbn [search_in_condition] in He0. subst e0.
  unfold run. cbn [length Nat.eqb fn_params gen_replace_all fn_body fn_locals init_env repeat app].
  match goal with |- context [SWhile ?c ?b] => set (Wh := SWhile c b) end.
  cbn [exec eval get nth_error upd nonempty negb].
  subst Wh. rewrite exec_while.
  match goal with |- context [while_loop ?f ?c ?b ?k ?e] => set (W := while_loop f c b k e) in * end.
  destruct (replace_f (S (length s)) (a :: pat) rep [] s) as [r|] eqn:E.
  - cbn [option_map loop_post] in L. destruct W; try contradiction. cbn [final_slot]. exact L.
  - cbn [option_map loop_post] in L. destruct W; try contradiction. reflexivity.
Qed.

(* ---------------------------------------------------------------- join *)
Fixpoint first_each (s : stmt) : option (nat * nat * stmt) :=
  match s with
  | SForEach x src b => Some (x, src, b)
  | SSeq a b | SIf _ a b => match first_each a with Some r => Some r | None => first_each b end
  | _ => None
  end.

Lemma join_loop fuel infix x src b : first_each (fn_body gen_join) = Some (x, src, b) ->
  forall l l0 result elem,
  match each_loop fuel x b l [VL l0; VS infix; VS result; elem] with
  | ONormal e' => get e' 2 = Some (VS (fold_left (join_step infix) l result))
  | _ => False
  end.
Proof.
  intros Hw. cbv in Hw. injection Hw as <- <- <-.
  induction l as [|p l IH]; intros l0 result elem; [reflexivity|].
  cbn [each_loop fold_left upd]. unfold join_step at 2.
  destruct p as [|c p].
  - cbn [exec eval get nth_error upd nonempty negb]. apply IH.
  - cbn [exec eval get nth_error upd nonempty negb].
    destruct result as [|r result]; cbn [exec eval get nth_error upd nonempty negb app]; rewrite <- ?app_assoc; apply IH.
Qed.

Theorem tie_C17_join : forall infix l,
  ret_val (run 0 gen_join [VL l; VS infix]) = Some (VS (join infix l)).
Proof.
  intros infix l. unfold join.
  destruct (first_each (fn_body gen_join)) as [[[x src] b]|] eqn:Hw; [|discriminate Hw].
  pose proof (join_loop 0 infix x src b Hw l l [] (VN 0)) as L.
  cbv in Hw. injection Hw as <- <- <-.
  unfold run. cbn [length Nat.eqb fn_params gen_join fn_body fn_locals init_env repeat app].
  match goal with |- context [SForEach ?x ?s ?b] => set (Fe := SForEach x s b) end.
  cbn [exec eval get nth_error upd].
  subst Fe. rewrite (exec_each _ _ _ _ _ l) by reflexivity.
  match goal with |- context [each_loop ?f ?x ?b ?l ?e] => set (W := each_loop f x b l e) in * end.
  destruct W; try contradiction. cbn [exec eval get nth_error] in L |- *. rewrite L. reflexivity.
Qed.

(* ---------------------------------------------------------------- the overloads of join
   the vector overload only forwards [begin, end) and its infix to the iterator overload, and both default the infix to one
   blank — the value the differential driver and the model use for the calls without an infix *)
Theorem tie_C17_join_overloads :
  gen_join_vector_forwards = true /\ gen_join_default_infix_iter = Some [x20] /\ gen_join_default_infix_vec = Some [x20].
Proof. vm_compute. repeat split; reflexivity. Qed.

(* Tie/Tie_C18.v — obligations over the members of nitro::lang::optional<T> as regenerated from
   include/nitro/lang/optional.hpp on every run (Gen/GenOptional.v, written by gen/tr_optional.py from clang's AST).
   For ALL heaps, objects and arguments the translated members are the functions ctor_copy, ctor_val, assign_opt, assign_val
   and the two readers of Own/Optional.v — the ones the C18 theorems on optional (a value, never aliases, every cell freed
   exactly once) are about.  Anything the translator does not recognise is OUnknown / CUnknown / SUnknownSrc, on which
   the interpreter is stuck. *)
From Coq Require Import List Arith Bool.
From Nitro Require Import Base.Bytes Own.Count Own.Optional Own.OptLang Gen.GenOptional.
Import ListNotations.
Local Open Scope list_scope.

(* the class has the nine user-declared members the model covers (a further overload would change the count), the default
   constructor is defaulted and data_ starts out null *)
Theorem tie_C18_optional_members : gen_opt_members = 9 /\ gen_opt_default_ctor = true.
Proof. vm_compute. split; reflexivity. Qed.

(* optional(const optional& other): a constructor falls off its end; the object is then ctor_copy *)
Theorem tie_C18_optional_copy_ctor : forall cs other v,
  run_ctor other v gen_opt_copy_ctor cs = ONorm (ctor_copy cs other).
Proof. intros cs [c|] v; reflexivity. Qed.

(* optional(const T&) and optional(T&&) *)
Theorem tie_C18_optional_value_ctors : forall cs other v,
  run_ctor other v gen_opt_ctor_cref cs = ONorm (ctor_val cs v) /\
  run_ctor other v gen_opt_ctor_rref cs = ONorm (ctor_val cs v).
Proof. intros cs other v. split; reflexivity. Qed.

(* operator=(const optional&): returns the object itself, which is then assign_opt — in particular assigning an empty
   optional empties the target and frees its cell (repair D10) *)
Theorem tie_C18_optional_assign_opt : forall cs self other v,
  oexec other v gen_opt_assign_opt (cs, self) = ORet (assign_opt cs self other) RThis.
Proof. intros cs self [c|] v; reflexivity. Qed.

(* operator=(const T&) and operator=(T&&) *)
Theorem tie_C18_optional_assign_val : forall cs self other v,
  oexec other v gen_opt_assign_cref (cs, self) = ORet (assign_val cs self v) RThis /\
  oexec other v gen_opt_assign_rref (cs, self) = ORet (assign_val cs self v) RThis.
Proof. intros cs self other v. split; reflexivity. Qed.

(* explicit operator bool and operator*: for the optional in slot i of a pool these are opt_bool and opt_read, and
   neither changes anything *)
Theorem tie_C18_optional_readers : forall st i self other v, nth_error (opts st) i = Some self ->
  oexec other v gen_opt_bool (cells st, self) = ORet (cells st, self) (RB (opt_bool st i)) /\
  oexec other v gen_opt_deref (cells st, self) =
    match opt_read st i with
    | RRaise => ORaised
    | r => ORet (cells st, self) (RRead r)
    end.
Proof.
  intros st i self other v H. unfold opt_bool, opt_read. rewrite H.
  destruct self as [c|]; split; try reflexivity.
  cbn. destruct (nth_error (cells st) c) as [x|]; [destruct (calive x)|]; reflexivity.
Qed.

(* Tie/Tie_C03.v — the bodies of option / multi_option / toggle :: update_value / prepare / check, as read from
   src/options/*.cpp by gen/tr_objects.py (clang AST, every run), compute exactly the model's functions, FOR ALL states,
   declarations, environments and tokens.  These nine functions hold the source ranking of C03, the counting and reversal
   rules of C11 and the reset of C14; the refinement theorem (parse_refines) is about the model functions on the right-hand sides.
   Every proof is the symbolic executor `obj_run` (Opt/ObjLangFacts.v): it runs the translated body, splitting on each condition,
   so an equivalent re-arrangement of a body (nested instead of conjoined conditions, early return instead of else, …) still proves. *)
From Coq Require Import List Arith Bool ZArith Lia.
From Coq Require Import Init.Byte.
From Nitro Require Import Base.Bytes Base.Res Opt.Token Opt.Decl Opt.ParserModel Opt.ObjLang Opt.ObjLangFacts Gen.GenObjects.
Import ListNotations.
Local Open Scope list_scope.

(* ---------------- option ---------------- *)
Theorem Tie_C03_option_update_value : forall c s,
  view ost_of (exec c gen_option_update_value s) = Some (opt_update_g (ost_of s) (x_arg c)).
Proof. intros c s. unfold gen_option_update_value, opt_update_g. obj_run. Qed.

Theorem Tie_C03_option_prepare : forall c s, view ost_of (exec c gen_option_prepare s) = Some (Ok fresh_o).
Proof. intros c s. unfold gen_option_prepare, fresh_o. obj_run. Qed.

Theorem Tie_C03_option_check : forall c s,
  view ost_of (exec c gen_option_check s) = Some (check_opt (x_getenv c) (odecl_of c) (ost_of s)).
Proof. intros c s. unfold gen_option_check, check_opt. obj_run. Qed.

(* ---------------- multi_option ---------------- *)
Theorem Tie_C03_multi_update_value : forall c s,
  view mst_of (exec c gen_multi_option_update_value s) = Some (multi_update_g (mst_of s) (x_arg c)).
Proof. intros c s. unfold gen_multi_option_update_value, multi_update_g. obj_run. Qed.

Theorem Tie_C03_multi_prepare : forall c s, view mst_of (exec c gen_multi_option_prepare s) = Some (Ok fresh_m).
Proof. intros c s. unfold gen_multi_option_prepare, fresh_m. obj_run. Qed.

Theorem Tie_C03_multi_check : forall c s,
  view mst_of (exec c gen_multi_option_check s) = Some (check_multi (x_getenv c) (mdecl_of c) (mst_of s)).
Proof. intros c s. unfold gen_multi_option_check, check_multi. obj_run. Qed.

(* ---------------- toggle ---------------- *)
Theorem Tie_C03_toggle_update_value : forall c s,
  view tst_of (exec c gen_toggle_update_value s) = Some (toggle_update_g (tdecl_of c) (tst_of s) (x_arg c)).
Proof. intros c s. unfold gen_toggle_update_value, toggle_update_g. obj_run. Qed.

Theorem Tie_C03_toggle_prepare : forall c s, view tst_of (exec c gen_toggle_prepare s) = Some (Ok fresh_t).
Proof. intros c s. unfold gen_toggle_prepare, fresh_t. obj_run. Qed.

Theorem Tie_C03_toggle_check : forall c s,
  view tst_of (exec c gen_toggle_check s) = Some (check_toggle (x_tr c) (x_fa c) (x_getenv c) (tdecl_of c) (tst_of s)).
Proof. intros c s. unfold gen_toggle_check, check_toggle. obj_run. Qed.

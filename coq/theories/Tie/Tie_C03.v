(* Tie/Tie_C03.v — the bodies of option / multi_option / toggle :: update_value / prepare / check, as read from
   src/options/*.cpp by gen/tr_objects.py (clang AST, every run), compute exactly the model's functions, FOR ALL states,
   declarations, environments and tokens.  These nine functions hold the source ranking of C03, the counting and reversal
   rules of C11 and the reset of C14; the refinement theorem (parse_refines) is about the model functions on the right-hand sides. *)
From Coq Require Import List Arith Bool ZArith Lia.
From Coq Require Import Init.Byte.
From Nitro Require Import Base.Bytes Base.Res Opt.Token Opt.Decl Opt.ParserModel Opt.ObjLang Opt.ObjLangFacts Gen.GenObjects.
Import ListNotations.
Local Open Scope list_scope.

Lemma env_get_no_env c : has_env_b c = false -> env_get (x_getenv c) (x_env c) = [].
Proof. unfold has_env_b, env_get. destruct (x_env c) as [[|b n]|]; [reflexivity | discriminate | reflexivity]. Qed.

(* ---------------- option ---------------- *)
Theorem Tie_C03_option_update_value : forall c s,
  view ost_of (exec c gen_option_update_value s) = Some (opt_update_g (ost_of s) (x_arg c)).
Proof.
  intros c s. unfold gen_option_update_value, opt_update_g. cbn.
  destruct (q_val s); [reflexivity|]. cbn.
  destruct (tok_value (x_arg c)); reflexivity.
Qed.

Theorem Tie_C03_option_prepare : forall c s, view ost_of (exec c gen_option_prepare s) = Some (Ok fresh_o).
Proof. reflexivity. Qed.

Theorem Tie_C03_option_check : forall c s,
  view ost_of (exec c gen_option_check s) = Some (check_opt (x_getenv c) (odecl_of c) (ost_of s)).
Proof.
  intros c s. unfold gen_option_check, check_opt. cbn.
  destruct (q_val s) as [v|]; [reflexivity|]. cbn.
  destruct (has_env_b c) eqn:He; cbn.
  - destruct (nonempty (env_get (x_getenv c) (x_env c))); cbn; [reflexivity|].
    destruct (x_def_o c); cbn; [reflexivity|]. destruct (x_optional c); reflexivity.
  - rewrite (env_get_no_env c He). cbn.
    destruct (x_def_o c); cbn; [reflexivity|]. destruct (x_optional c); reflexivity.
Qed.

(* ---------------- multi_option ---------------- *)
Theorem Tie_C03_multi_update_value : forall c s,
  view mst_of (exec c gen_multi_option_update_value s) = Some (multi_update_g (mst_of s) (x_arg c)).
Proof.
  intros c s. unfold gen_multi_option_update_value, multi_update_g. cbn.
  destruct (tok_value (x_arg c)); reflexivity.
Qed.

Theorem Tie_C03_multi_prepare : forall c s, view mst_of (exec c gen_multi_option_prepare s) = Some (Ok fresh_m).
Proof. reflexivity. Qed.

(* the getline loop: every piece is pushed, dirty_ is set as soon as there is one *)
Lemma each_line_spec c : forall pieces s, exists s',
  each_exec c [SAssignDirty true; SVecPushElem] pieces s = ONormal s' /\ q_vec s' = q_vec s ++ pieces /\
  q_dirty s' = (match pieces with [] => q_dirty s | _ => true end).
Proof.
  induction pieces as [|p r IH]; intros s.
  - exists s. cbn. rewrite app_nil_r. repeat split; reflexivity.
  - cbn. destruct (IH (set_vec (set_dirty (set_elem s p) true) (q_vec s ++ [p]))) as (s' & E & Hv & Hd).
    exists s'. cbn in *. rewrite E. repeat split; auto.
    + rewrite Hv, <- app_assoc. reflexivity.
    + rewrite Hd. destruct r; reflexivity.
Qed.

Lemma getlines_nonempty sep : forall s cur started, (started = true \/ s <> []) -> getlines sep s cur started <> [].
Proof.
  induction s as [|ch r IH]; intros cur started H; cbn.
  - destruct H as [->|H]; [discriminate | congruence].
  - destruct (beq ch sep); [discriminate|]. apply IH. left. reflexivity.
Qed.

Theorem Tie_C03_multi_check : forall c s,
  view mst_of (exec c gen_multi_option_check s) = Some (check_multi (x_getenv c) (mdecl_of c) (mst_of s)).
Proof.
  intros c s. unfold gen_multi_option_check, check_multi.
  rewrite exec_cons, exec1_if. cbn [evalb mst_of ms_val ms_dirty].
  destruct (q_vec s) as [|v l] eqn:Ev; [|reflexivity].
  rewrite exec_cons, exec1_if. cbn [evalb mdecl_of m_env m_def m_opt].
  destruct (has_env_b c) eqn:He.
  - rewrite exec_cons. cbn [exec1]. rewrite exec_cons, exec1_if. cbn [evalb set_envv q_envv].
    set (ev := env_get (x_getenv c) (x_env c)).
    destruct (nonempty ev) eqn:Ne; cbn [negb].
    + rewrite exec_cons, exec1_for. cbn [set_envv q_envv].
      destruct (each_line_spec c (getlines x3b ev [] false) (set_envv s ev)) as (s' & E & Hv & Hd).
      rewrite E. cbn. unfold mst_of. cbn in Hv. rewrite Hv, Ev, Hd. cbn.
      assert (Hn : getlines x3b ev [] false <> []) by (apply getlines_nonempty; right; destruct ev; [discriminate | discriminate]).
      destruct (getlines x3b ev [] false); [congruence | reflexivity].
    + cbn. destruct (x_def_m c); cbn; [rewrite ?Ev; reflexivity|]. destruct (x_optional c); cbn; rewrite ?Ev; reflexivity.
  - cbn. fold (env_get (x_getenv c) (x_env c)). rewrite (env_get_no_env c He). cbn.
    destruct (x_def_m c); cbn; [rewrite ?Ev; reflexivity|]. destruct (x_optional c); cbn; rewrite ?Ev; reflexivity.
Qed.

(* ---------------- toggle ---------------- *)
Local Arguments has_prefix : simpl never.
Local Arguments has_value : simpl never.
Local Arguments is_short : simpl never.
Local Arguments name_without_prefix : simpl never.
Local Arguments as_short_list : simpl never.
Local Arguments seq_eqb : simpl never.
Local Arguments count_short : simpl never.
Local Arguments nonempty : simpl never.
Local Arguments env_get : simpl never.
Local Arguments parse_env_word : simpl never.
Local Arguments Z.add : simpl never.
Local Arguments Z.eqb : simpl never.

Theorem Tie_C03_toggle_update_value : forall c s,
  view tst_of (exec c gen_toggle_update_value s) = Some (toggle_update_g (tdecl_of c) (tst_of s) (x_arg c)).
Proof.
  intros c s. unfold gen_toggle_update_value, toggle_update_g. cbn.
  destruct (has_value (x_arg c)); [reflexivity|]. cbn.
  destruct (has_prefix (x_arg c)); cbn.
  - destruct (name_without_prefix (x_arg c)) as [n|er]; cbn; [|reflexivity].
    destruct (seq_eqb n (x_name c)); cbn.
    + destruct (x_rev c); cbn; [|reflexivity].
      destruct (q_dirty s); cbn; [|reflexivity]. destruct (q_given s =? 0)%Z; reflexivity.
    + destruct (q_dirty s); cbn.
      * destruct (q_given s =? 0)%Z; cbn; [reflexivity|].
        destruct (is_short (x_arg c)); cbn; [destruct (as_short_list (x_arg c)); reflexivity | reflexivity].
      * destruct (is_short (x_arg c)); cbn; [destruct (as_short_list (x_arg c)); reflexivity | reflexivity].
  - destruct (q_dirty s); cbn.
    + destruct (q_given s =? 0)%Z; cbn; [reflexivity|].
      destruct (is_short (x_arg c)); cbn; [destruct (as_short_list (x_arg c)); reflexivity | reflexivity].
    + destruct (is_short (x_arg c)); cbn; [destruct (as_short_list (x_arg c)); reflexivity | reflexivity].
Qed.

Theorem Tie_C03_toggle_prepare : forall c s, view tst_of (exec c gen_toggle_prepare s) = Some (Ok fresh_t).
Proof. reflexivity. Qed.

Theorem Tie_C03_toggle_check : forall c s,
  view tst_of (exec c gen_toggle_check s) = Some (check_toggle (x_tr c) (x_fa c) (x_getenv c) (tdecl_of c) (tst_of s)).
Proof.
  intros c s. unfold gen_toggle_check, check_toggle. cbn.
  destruct (has_env_b c) eqn:He; cbn.
  - destruct (q_dirty s) eqn:Ed; cbn; [rewrite ?Ed; cbn; unfold tst_of; cbn; rewrite ?Ed; reflexivity|].
    destruct (nonempty (env_get (x_getenv c) (x_env c))); cbn.
    + destruct (parse_env_word (x_tr c) (x_fa c) (env_get (x_getenv c) (x_env c))) as [[|]|]; reflexivity.
    + rewrite ?Ed; cbn; unfold tst_of; cbn; rewrite ?Ed; reflexivity.
  - destruct (q_dirty s) eqn:Ed; cbn; [rewrite ?Ed; cbn; unfold tst_of; cbn; rewrite ?Ed; reflexivity|].
    rewrite (env_get_no_env c He). cbn. rewrite ?Ed; cbn; unfold tst_of; cbn; rewrite ?Ed; reflexivity.
Qed.

(* Tie/Tie_C05.v — obligations over the tables regenerated from /repo on every run (Gen/GenSeverity.v):
   the severity order and the two comparisons the model of C05/C10 builds in are the ones the code has. *)
From Coq Require Import List String ZArith Bool Arith.
From Nitro Require Import Gen.GenSeverity Log.LogModel Log.LogSpec.
Import ListNotations.
Local Open Scope string_scope.

Definition sev_name (s : sev) : string :=
  match s with Trace => "trace" | Debug => "debug" | Info => "info" | Warn => "warn" | Error => "error" | Fatal => "fatal" end.

Definition all_sevs : list sev := [Trace; Debug; Info; Warn; Error; Fatal].

(* the enumerators are exactly trace < debug < info < warn < error < fatal with underlying values 0..5 *)
Theorem tie_severity_order :
  gen_severities = GEnum (map (fun s => (sev_name s, Z.of_nat (rank s))) all_sevs).
Proof. vm_compute. reflexivity. Qed.

Theorem tie_gate_op : gen_gate_op = GGe.
Proof. vm_compute. reflexivity. Qed.

Theorem tie_filter_op : gen_filter_op = GGe.
Proof. vm_compute. reflexivity. Qed.

(* condition true selects smart_stream, false selects null_stream *)
Theorem tie_gate_streams : gen_gate_true_stream = "smart_stream" /\ gen_gate_false_stream = "null_stream".
Proof. vm_compute. split; reflexivity. Qed.

(* every severity_filter threshold starts at trace *)
Theorem tie_filter_initial : gen_filter_initial = sev_name (init_thresholds 0 0).
Proof. vm_compute. reflexivity. Qed.

(* the threshold is a static data member of the class template severity_filter<Record, N>: one per record type AND index,
   as in LogModel.thresholds *)
Theorem tie_filter_storage : gen_filter_storage = "static member of severity_filter<Record, N>".
Proof. vm_compute. reflexivity. Qed.

(* logger::trace() … logger::fatal() instantiate the stream of their own severity *)
Theorem tie_logger_functions : gen_logger_functions = map (fun s => (sev_name s, sev_name s)) all_sevs.
Proof. vm_compute. reflexivity. Qed.

(* the same, semantically: evaluating the generated comparison on the generated underlying values gives the
   model's gate and the model's threshold test for all 36 pairs *)
Definition gen_value (name : string) : option Z :=
  match gen_severities with
  | GEnum l => option_map snd (find (fun p => String.eqb (fst p) name) l)
  | GEnumUnknown _ => None
  end.
Definition cmp_sem (c : gen_cmp) (a b : Z) : option bool :=
  match c with
  | GGe => Some (Z.geb a b) | GGt => Some (Z.gtb a b) | GLe => Some (Z.leb a b) | GLt => Some (Z.ltb a b)
  | GEq => Some (Z.eqb a b) | GNe => Some (negb (Z.eqb a b)) | GCmpUnknown => None
  end.
Definition gen_compare (c : gen_cmp) (a b : sev) : option bool :=
  match gen_value (sev_name a), gen_value (sev_name b) with
  | Some x, Some y => cmp_sem c x y
  | _, _ => None
  end.

Theorem tie_gate_semantics : forall min sv,
  gen_compare gen_gate_op sv min = Some (gate_open min sv)
  /\ (stream_kind min sv = KSmart <-> gate_open min sv = true).
Proof. intros min sv. destruct min, sv; vm_compute; (split; [reflexivity | split; congruence]). Qed.

Theorem tie_filter_semantics : forall thr sv, gen_compare gen_filter_op sv thr = Some (sev_ge sv thr).
Proof. intros thr sv. destruct thr, sv; vm_compute; reflexivity. Qed.

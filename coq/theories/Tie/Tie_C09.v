(* Tie/Tie_C09.v — obligations over Gen/GenSinks.v (regenerated from /repo on every run by gen/tr_sinks.py):
   the bodies of stdout_mt::sink and StdErrThreaded::sink, as the translator reads them today, satisfy the
   hypotheses of the C09 theorems; then the theorems are instantiated for exactly those bodies.
   Each obligation is a finite computation (vm_compute).  If one fails the check reports it and tries
   high-contention cases on the real code (props/C09.py: tie_break_cases). *)
From Coq Require Import List Arith Bool.
From Coq Require Import Init.Byte.
From Nitro Require Import Base.Bytes Sched.SchedModel Sched.SchedSpec Sched.SchedProofs Gen.GenSinks.
Import ListNotations.

(* ---------------------------------------------------------------- stdout_mt *)
(* a guard on a mutex shared by all instances is alive at every insertion and flush, nothing unrecognised *)
Lemma tie_stdout_mt_well_locked : well_locked gen_stdout_mt_body = true.
Proof. vm_compute. reflexivity. Qed.
(* every guard of the body locks a static (function-local static / static member) mutex *)
Lemma tie_stdout_mt_mutex_static : gen_stdout_mt_mutex_static = true.
Proof. vm_compute. reflexivity. Qed.
(* the record is inserted exactly once *)
Lemma tie_stdout_mt_single_insert : single_insert gen_stdout_mt_body = true.
Proof. vm_compute. reflexivity. Qed.
(* never waits for a mutex while holding one *)
Lemma tie_stdout_mt_solo : solo false gen_stdout_mt_body = true.
Proof. vm_compute. reflexivity. Qed.

Lemma tie_stdout_mt_body_ok : body_ok gen_stdout_mt_body = true.
Proof. unfold body_ok. rewrite tie_stdout_mt_well_locked, tie_stdout_mt_single_insert. reflexivity. Qed.

Theorem C09_stdout_mt_never_corrupt : forall ths sched, st_corrupt (run gen_stdout_mt_body ths sched) = false.
Proof. exact (corrupt_free _ tie_stdout_mt_well_locked). Qed.

Theorem C09_stdout_mt_partial_output : forall ths sched,
  valid_partial_output (map snd ths) (st_out (run gen_stdout_mt_body ths sched)).
Proof. exact (partial_output _ tie_stdout_mt_body_ok). Qed.

Theorem C09_stdout_mt_complete_output : forall ths sched, finished (run gen_stdout_mt_body ths sched) = true ->
  valid_output (map snd ths) (st_out (run gen_stdout_mt_body ths sched)).
Proof. exact (complete_valid_output _ tie_stdout_mt_body_ok). Qed.

Theorem C09_stdout_mt_no_deadlock : forall ths sched, exists more,
  finished (run gen_stdout_mt_body ths (sched ++ more)) = true.
Proof. exact (no_deadlock _ tie_stdout_mt_solo). Qed.

(* ---------------------------------------------------------------- stderr_mt (class StdErrThreaded) *)
Lemma tie_stderr_mt_well_locked : well_locked gen_stderr_mt_body = true.
Proof. vm_compute. reflexivity. Qed.
Lemma tie_stderr_mt_mutex_static : gen_stderr_mt_mutex_static = true.
Proof. vm_compute. reflexivity. Qed.
Lemma tie_stderr_mt_single_insert : single_insert gen_stderr_mt_body = true.
Proof. vm_compute. reflexivity. Qed.
Lemma tie_stderr_mt_solo : solo false gen_stderr_mt_body = true.
Proof. vm_compute. reflexivity. Qed.

Lemma tie_stderr_mt_body_ok : body_ok gen_stderr_mt_body = true.
Proof. unfold body_ok. rewrite tie_stderr_mt_well_locked, tie_stderr_mt_single_insert. reflexivity. Qed.

Theorem C09_stderr_mt_never_corrupt : forall ths sched, st_corrupt (run gen_stderr_mt_body ths sched) = false.
Proof. exact (corrupt_free _ tie_stderr_mt_well_locked). Qed.

Theorem C09_stderr_mt_partial_output : forall ths sched,
  valid_partial_output (map snd ths) (st_out (run gen_stderr_mt_body ths sched)).
Proof. exact (partial_output _ tie_stderr_mt_body_ok). Qed.

Theorem C09_stderr_mt_complete_output : forall ths sched, finished (run gen_stderr_mt_body ths sched) = true ->
  valid_output (map snd ths) (st_out (run gen_stderr_mt_body ths sched)).
Proof. exact (complete_valid_output _ tie_stderr_mt_body_ok). Qed.

Theorem C09_stderr_mt_no_deadlock : forall ths sched, exists more,
  finished (run gen_stderr_mt_body ths (sched ++ more)) = true.
Proof. exact (no_deadlock _ tie_stderr_mt_solo). Qed.

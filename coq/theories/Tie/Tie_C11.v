From Nitro Require Import Opt.Run.

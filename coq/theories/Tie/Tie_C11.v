(* Tie/Tie_C11.v — obligations over the table regenerated from toggle::parse_env_value on every run *)
From Coq Require Import List Bool.
From Nitro Require Import Base.Bytes Opt.ParserModel Opt.Vocab Opt.VocabTie Opt.Run Gen.GenVocab.
Import ListNotations.

(* no match ends in the user-input error *)
Theorem Tie_C11_fallthrough_raises_user_error : gen_fallthrough = FRaiseUser.
Proof. reflexivity. Qed.

(* the code's word table computes exactly the documented vocabulary, for every word *)
Theorem Tie_C11_vocabulary : forall w, eval_clauses gen_clauses w = env_word w.
Proof. apply table_ok_sound. vm_compute. reflexivity. Qed.

(* 15 + 15 words, no duplicates *)
Theorem Tie_C11_counts : length gen_clauses = 30 /\ length truthy = 15 /\ length falsy = 15.
Proof. vm_compute. repeat split. Qed.

(* Tie/Tie_C04.v — the token predicates read from include/nitro/options/user_input.hpp by gen/tr_token.py (clang AST, every run)
   compute exactly the model's functions (Opt/Token.v), FOR ALL byte strings.  Serves C01, C02, C04, C12: the token layer of the
   parser model is regenerated from the source, not only compared on samples. *)
From Coq Require Import List Arith Bool Lia.
From Coq Require Import Init.Byte.
From Nitro Require Import Base.Bytes Opt.Token Opt.TokenTie Gen.GenToken.
Import ListNotations.

Definition F := 3.   (* call depth: has_value -> is_value; is_argument -> is_short/is_named; validate -> predicates *)

(* one proof for all predicates: evaluate the translated expression (callees inlined by `eval`), split the name into its first
   four bytes and every byte comparison into its two outcomes; an equivalent re-arrangement of a predicate still proves *)
Ltac tok_split :=
  match goal with
  | |- context [beq ?x ?y] => destruct (beq x y) eqn:?
  | |- context [match value_of ?a with _ => _ end] => destruct (value_of a) eqn:?
  end.
Ltac tok_crush :=
  intros a; unfold is_value, is_double_dash, is_short, is_named, is_argument, has_value, has_prefix, is_value, is_short, is_named;
  unfold dash, eqc; cbn; try reflexivity;
  destruct (name_of a) as [|c0 [|c1 [|c2 [|c3 r]]]]; cbn; try reflexivity;
  repeat (tok_split; cbn; try reflexivity); try congruence.

Theorem Tie_C04_is_value : forall a, eval F gen_pred a (gen_pred PnIsValue) = Some (is_value a).
Proof. tok_crush. Qed.

Theorem Tie_C04_is_double_dash : forall a, eval F gen_pred a (gen_pred PnIsDoubleDash) = Some (is_double_dash a).
Proof. tok_crush. Qed.

Theorem Tie_C04_is_short : forall a, eval F gen_pred a (gen_pred PnIsShort) = Some (is_short a).
Proof. tok_crush. Qed.

Theorem Tie_C04_is_named : forall a, eval F gen_pred a (gen_pred PnIsNamed) = Some (is_named a).
Proof. tok_crush. Qed.

Theorem Tie_C04_is_argument : forall a, eval F gen_pred a (gen_pred PnIsArgument) = Some (is_argument a).
Proof. tok_crush. Qed.

Theorem Tie_C04_has_value : forall a, eval F gen_pred a (gen_pred PnHasValue) = Some (has_value a).
Proof. tok_crush. Qed.

Theorem Tie_C04_has_prefix : forall a, eval F gen_pred a (gen_pred PnHasPrefix) = Some (has_prefix a).
Proof. tok_crush. Qed.

(* validate() *)
Lemma run_of_count a : run_of dash a = count_dashes a.
Proof. induction a as [|c r IH]; simpl; [reflexivity|]. destruct (beq c dash); [rewrite IH|]; reflexivity. Qed.

Lemma skipn_nth (a : str) d : match skipn d a with c :: _ => negb (beq c eqc) | [] => false end
                               = negb (length a <=? d) && negb (beq (nth d a x00) eqc).
Proof.
  revert a; induction d as [|d IH]; intros a; destruct a as [|c r]; simpl; try reflexivity.
  apply IH.
Qed.

Lemma not_value_starts_with_dash a : is_value a = false -> 1 <= count_dashes a.
Proof.
  unfold is_value, name_of. destruct a as [|c r]; simpl; [discriminate|].
  destruct (beq c eqc) eqn:E; simpl; [discriminate|].
  destruct (split_eq r) as [n v]. simpl. destruct (beq c dash); simpl; [lia | discriminate].
Qed.

(* the guard of validate(), in whatever spelling (`!v && !d` around the scan, or an early `if (v || d) return;`), is
   "neither a value nor the double dash" *)
Definition guard_of (v : vshape) : pexpr := match v with VScan g _ _ _ => g | VUnknown => PUnknown end.
Lemma validate_guard : forall a,
  eval F gen_pred a (guard_of gen_validate) = Some (negb (is_value a) && negb (is_double_dash a)).
Proof.
  intros a. unfold gen_validate, guard_of, is_value, is_double_dash. unfold dash, eqc. cbn.
  destruct (name_of a) as [|c0 r]; cbn;
    repeat (tok_split; cbn); try reflexivity; destruct (seq_eqb a _); reflexivity.
Qed.

Theorem Tie_C04_validate : forall a, eval_validate F gen_pred gen_validate a = Some (well_formed a).
Proof.
  intros a. pose proof (validate_guard a) as G. unfold gen_validate, guard_of in G. unfold gen_validate, eval_validate.
  rewrite G.
  unfold well_formed. destruct (is_value a) eqn:V; cbn [negb andb orb]; [reflexivity|].
  destruct (is_double_dash a); cbn [negb andb orb]; [reflexivity|].
  change x2d with dash. change x3d with eqc. rewrite run_of_count. f_equal.
  pose proof (not_value_starts_with_dash a V) as H1.
  rewrite skipn_nth. set (d := count_dashes a) in *.
  replace (1 <=? d) with true by (symmetry; apply Nat.leb_le; exact H1).
  rewrite Nat.ltb_antisym.
  destruct (length a <=? d); destruct (d <=? 2); destruct (beq (nth d a x00) eqc); reflexivity.
Qed.

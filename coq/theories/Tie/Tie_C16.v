(* Tie/Tie_C16.v — obligations over the constants regenerated from /repo on every run (Gen/GenHash.v): the
   statement of hash_combine_impl has the shape the model follows, and its three literals and the two initial
   seeds are the ones the exact-value model (Misc/Hash.v) computes with. *)
From Coq Require Import NArith String.
From Nitro Require Import Gen.GenHash Misc.Hash.
Local Open Scope N_scope.

Theorem tie_C16_magic : gen_hash_magic = GWord magic.
Proof. vm_compute. reflexivity. Qed.

Theorem tie_C16_shifts : gen_hash_shl = GWord shl_amt /\ gen_hash_shr = GWord shr_amt.
Proof. vm_compute. split; reflexivity. Qed.

Theorem tie_C16_seeds : gen_hash_tuple_seed = GWord tuple_seed /\ gen_hash_variant_seed = GWord variant_seed.
Proof. vm_compute. split; reflexivity. Qed.

(* the combine step built from the generated literals is the model's combine, on every seed and value *)
Definition gen_combine (seed v : N) : option N :=
  match gen_hash_magic, gen_hash_shl, gen_hash_shr with
  | GWord c, GWord a, GWord b => Some (combine_with c a b seed v)
  | _, _, _ => None
  end.

Theorem tie_C16_combine : forall seed v, gen_combine seed v = Some (combine seed v).
Proof. intros seed v. reflexivity. Qed.

(* the literals are representable: the magic number is a 64-bit word and both shifts are below the word size
   (a shift by >= 64 would be undefined behaviour in the code and is not what the model computes) *)
Theorem tie_C16_ranges : magic < W /\ shl_amt < 64 /\ shr_amt < 64.
Proof. vm_compute. repeat split. Qed.

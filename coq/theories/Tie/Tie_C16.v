(* Tie/Tie_C16.v — obligations over the constants regenerated from /repo on every run (Gen/GenHash.v).
   The model (Misc/Hash.v) is parametric in the magic number, the two shift amounts and the two initial seeds, and
   the instance in use (Misc/HashInst.v: the_params) is BUILT FROM the generated values; nothing here compares them
   with hand-written numbers.  What is required: the statement of hash_combine_impl has the shape the model follows
   (otherwise the translator emits GWordUnknown and `params_readable` is false), the combine step built from the
   generated literals is the instance's combine on every input, and the values are admissible. *)
From Coq Require Import NArith String Bool.
From Nitro Require Import Gen.GenHash Misc.Hash Misc.HashInst.
Local Open Scope N_scope.

(* every constant was read, from a statement / initialisation of the expected shape *)
Theorem tie_C16_shape_readable : params_readable = true.
Proof. vm_compute. reflexivity. Qed.

(* the combine step built from the generated literals is the model instance's combine, on every seed and value *)
Definition gen_combine (seed v : N) : option N :=
  match gen_hash_magic, gen_hash_shl, gen_hash_shr with
  | GWord c, GWord a, GWord b => Some (combine_with c a b seed v)
  | _, _, _ => None
  end.

Theorem tie_C16_combine : forall seed v, gen_combine seed v = Some (combine the_params seed v).
Proof. intros seed v. reflexivity. Qed.

(* the same for the two initial seeds *)
Theorem tie_C16_seeds : gen_hash_tuple_seed = GWord (hp_tuple_seed the_params) /\ gen_hash_variant_seed = GWord (hp_variant_seed the_params).
Proof. vm_compute. split; reflexivity. Qed.

(* admissible: the magic number and the seeds are 64-bit words, both shifts are below the word size — the premise
   `hp_ok` of the property theorems, for the instance in use *)
Theorem tie_C16_ranges : hp_ok the_params = true.
Proof. vm_compute. reflexivity. Qed.

(* Tie/Tie_C20.v — obligations over the members of enumerate_proxy<Iterator> and enumerate_proxy<Iterator>::iterator as
   regenerated from include/nitro/lang/enumerate.hpp on every run (Gen/GenEnumerate.v, written by gen/tr_enumerate.py from
   clang's AST).  For ALL containers and iterator states the translated members are the functions e_begin, e_end, e_ne,
   e_incr, e_deref of Misc/Iter.v — the ones the loop theorems of C20 (enumerate visits = combine (seq 0 n) l, in place) are
   about.  Anything the translator does not recognise is IUnknown / IUnknownS, on which the interpreter is stuck. *)
From Coq Require Import List Arith Bool.
From Nitro Require Import Base.ListX Misc.Iter Misc.IterLang Gen.GenEnumerate.
Import ListNotations.
Local Open Scope list_scope.

Section Tie.
Variable A : Type.

Definition ctx (c : list A) (t o : eiter) (g1 g2 : nat) : ictx A :=
  {| x_this := t; x_other := o; x_g1 := g1; x_g2 := g2; x_cont := c |}.

(* enumerate_proxy(Iterator begin, Iterator end): the fields begin_ / end_ after construction from (b, e) *)
Definition proxy_fields (ctor : inits) (b e : nat) : option (nat * nat) :=
  let arg p := match p with P1 => Some b | P2 => Some e | _ => None end in
  match init_of ctor G1, init_of ctor G2 with
  | Some p1, Some p2 => match arg p1, arg p2 with Some x, Some y => Some (x, y) | _, _ => None end
  | _, _ => None
  end.

(* iterator(Iterator it, std::size_t index) stores its arguments in it_ and index_ *)
Theorem tie_C20_iterator_ctor : forall p n,
  make_iter A gen_iter_ctor (VPos A p) (VNum A n) = Some (VIter A {| e_pos := p; e_idx := n |}).
Proof. intros p n. reflexivity. Qed.

(* enumerate_proxy(begin, end) stores begin in begin_ and end in end_ *)
Theorem tie_C20_proxy_ctor : forall b e, proxy_fields gen_proxy_ctor b e = Some (b, e).
Proof. intros b e. reflexivity. Qed.

(* begin() = { begin_, 0 } and end() = { end_, 0 }: for the proxy built over a container c these are e_begin and e_end c *)
Theorem tie_C20_begin_end : forall (c : list A) t o,
  ieval A gen_iter_ctor (ctx c t o 0 (length c)) gen_begin = Some (VIter A e_begin) /\
  ieval A gen_iter_ctor (ctx c t o 0 (length c)) gen_end = Some (VIter A (e_end A c)).
Proof. intros c t o. split; reflexivity. Qed.

(* operator!= compares the wrapped iterators only *)
Theorem tie_C20_ne : forall (c : list A) t o g1 g2,
  ieval A gen_iter_ctor (ctx c t o g1 g2) gen_ne = Some (VBool A (e_ne t o)).
Proof. intros c t o g1 g2. reflexivity. Qed.

(* operator* (both overloads) = proxy(index_, *it_) *)
Definition deref_val (c : list A) (t : eiter) : ival A :=
  match e_deref A c t with Some (i, v) => VProxy A i v | None => VBad A end.
Theorem tie_C20_deref : forall (c : list A) t o g1 g2,
  ieval A gen_iter_ctor (ctx c t o g1 g2) gen_deref = Some (deref_val c t) /\
  ieval A gen_iter_ctor (ctx c t o g1 g2) gen_deref_const = Some (deref_val c t).
Proof.
  intros c t o g1 g2. unfold deref_val, e_deref. cbn.
  destruct (nth_error c (e_pos t)); split; reflexivity.
Qed.

(* operator++() advances the wrapped iterator and the index, and returns the object itself *)
Theorem tie_C20_preinc : forall x : ictx A,
  iexec A gen_iter_ctor None gen_preinc x None = Some (e_incr (x_this A x), RThis A).
Proof. intros x. reflexivity. Qed.

(* operator++(int) advances the same way and returns the value the object had before *)
Theorem tie_C20_postinc : forall x : ictx A,
  iexec A gen_iter_ctor (Some (run_preinc A gen_iter_ctor gen_preinc x)) gen_postinc x None
  = Some (e_incr (x_this A x), RSaved A (x_this A x)).
Proof. intros x. reflexivity. Qed.
End Tie.

(* ---- the owning adaptor detail::enumerate<T> (temporaries, initializer lists) and the two reverse adaptors ---- *)
Section TieOwn.
Variable A : Type.

(* detail::enumerate<T>::begin()/end() = iterator(container_.begin(), 0) / iterator(container_.end(), 0): e_begin and e_end
   of the owned copy *)
Theorem tie_C20_owning_begin_end : forall (c : list A) t o g1 g2,
  ieval A gen_iter_ctor (ctx A c t o g1 g2) gen_own_begin = Some (VIter A e_begin) /\
  ieval A gen_iter_ctor (ctx A c t o g1 g2) gen_own_end = Some (VIter A (e_end A c)).
Proof. intros c t o g1 g2. split; reflexivity. Qed.

(* reverse_proxy(begin, end) stores its arguments, begin() returns the first and end() the second: for
   reverse_proxy(c.rbegin(), c.rend()) these are c.rbegin() and c.rend() *)
Theorem tie_C20_reverse_proxy : forall (c : list A) t o b e,
  proxy_fields gen_rev_ctor b e = Some (b, e) /\
  ieval A gen_iter_ctor (ctx A c t o b e) gen_rev_begin = Some (VPos A b) /\
  ieval A gen_iter_ctor (ctx A c t o b e) gen_rev_end = Some (VPos A e).
Proof. intros c t o b e. repeat split; reflexivity. Qed.

(* detail::reverse<T>::begin()/end() = container_.crbegin() / container_.crend() of the owned copy *)
Theorem tie_C20_reverse_owning : forall (c : list A) t o g1 g2,
  ieval A gen_iter_ctor (ctx A c t o g1 g2) gen_rev_own_begin = Some (VRPos A (r_begin A c)) /\
  ieval A gen_iter_ctor (ctx A c t o g1 g2) gen_rev_own_end = Some (VRPos A r_end).
Proof. intros c t o g1 g2. split; reflexivity. Qed.
End TieOwn.

From Coq Require Import Extraction ExtrOcamlBasic.
From Nitro Require Import Base.Bytes Decl.DeclApiModel Decl.DeclApiSpec.
Extraction "decl_model.ml" model_observe spec_observe.

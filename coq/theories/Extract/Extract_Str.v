From Coq Require Import Extraction ExtrOcamlBasic.
From Nitro Require Import Base.Bytes Str.StrModel Str.StrSpec.
Extraction "str_model.ml" split replace_all starts_with join spec_replace spec_join count_nonoverlapping intercalate prefixb contains.

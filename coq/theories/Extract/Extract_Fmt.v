From Coq Require Import Extraction ExtrOcamlBasic.
From Nitro Require Import Base.Bytes Str.StrModel Str.StrSpec Fmt.FormatModel Fmt.FormatSpec.
Extraction "fmt_model.ml" dual conv_text forget_conv quoted localize render_loc reloc_chain stream_chain spec_stream format_seq stateless format_chain format_str exception_what render print_dec read_dec spec_format spec_message flatten_ops placeholder_count pieces interleave template subst intercalate contains.

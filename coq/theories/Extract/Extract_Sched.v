From Coq Require Import Extraction ExtrOcamlBasic.
From Nitro Require Import Base.Bytes Sched.SchedModel Sched.SchedSpec Gen.GenSinks.
Extraction "sched_model.ml" run run_from init_state finished step_thread round_robin adversary corrupts_under_adversary two_threads well_locked body_ok solo single_insert expand valid_orderb stdout_mt_body stderr_mt_body gen_stdout_mt_body gen_stderr_mt_body gen_stdout_mt_mutex_static gen_stderr_mt_mutex_static.

From Coq Require Import Extraction ExtrOcamlBasic.
From Nitro Require Import Base.Bytes Misc.Hash Misc.HashSpec Misc.Iter.
Extraction "misc_model.ml" seq_eqb hash veqb vltb op_lt op_le op_gt op_ge op_eq op_ne tfind tbuild hrun spec_ltb spec_eqb spec_lookup spec_distinct cmp_shape enumerate_for enumerate_rvalue reverse_for reverse_rvalue reverse_array_for reverse_for2 enumerate_for2 enumerate_twice reverse_twice enumerate_nested enumerate_reverse_nested enumerate_after_modify reverse_after_modify enumerate_nonempty_test reverse_nonempty_test spec_enumerate spec_enumerate_write.

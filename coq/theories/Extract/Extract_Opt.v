From Coq Require Import Extraction ExtrOcamlBasic.
From Nitro Require Import Base.Bytes Base.Res Opt.Token Opt.Decl Opt.ParserModel Opt.ParserCore Opt.ParserSpec Opt.Vocab Opt.Run.
Extraction "opt_model.ml" parse history spec assign env_word explain wf_items render arg_get wf_decl no_prefix_clash consistent init_st well_formed as_long dec_text.

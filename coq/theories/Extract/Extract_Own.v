From Coq Require Import Extraction ExtrOcamlBasic.
From Nitro Require Import Base.Bytes Own.Count Own.Quaint Own.Optional Own.Env Own.Dl.
Extraction "own_model.ml" q_init q_step q_applicable q_finish q_state_ok all_destroyed_once must_be_empty slot_is_null vec_must_be_null vec_is_null heap_extends count_type count_destroyed_by o_init o_step o_finish opt_read opt_bool views live_cells o_spec_step o_spec_read engaged_count view_is_value env_run env_spec_ok env_lookup env_set env_unset d_init d_step d_finish x_init x_step d_state_ok all_closed_once slot_empty slot_owner.

From Coq Require Import Extraction ExtrOcamlBasic.
From Nitro Require Import Base.Bytes Str.StrModel Usage.UsageModel Usage.UsageSpec.
Extraction "usage_model.ml" usage format_padded long_toggles is_long_toggle tokens lines syn_tokens body_tokens check_tokens check_width check_fp_tokens check_fp_width usage_line_ok dev_lines usage_long_words one_line_inputs.

From Coq Require Import Extraction ExtrOcamlBasic.
From Nitro Require Import Base.Bytes Log.LogModel Log.LogSpec.
Extraction "log_model.ml" exec_prog init_world run spec_prog init_sworld spec_run stream_kind gate_open harness_fmt named_ops min_severity
  filt holds log_record delivery.

From Coq Require Import Extraction ExtrOcamlBasic.
From Nitro Require Import Base.Bytes Log.LogModel Log.LogSpec.
Extraction "log_model.ml" run spec_run stream_kind gate_open harness_fmt init_world exec_prog named_ops.

From Coq Require Import Extraction ExtrOcamlBasic.
From Nitro Require Import Vec.FixedVecModel Vec.BoundedListSpec.
Extraction "vec_model.ml" pstep pget empty_pool index at_ get_I front back data_at iterate riterate sstep aget aset bl_at glue_byte_anchor.

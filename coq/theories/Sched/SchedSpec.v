(* Sched/SchedSpec.v — property C09 in the simplest terms, independent of locks and schedules.

   `recs` : the records of every thread in program order (thread t logs `nth t recs []`).
   `out`  : the bytes the stream buffer received.
   An `order` is a list of (thread, record): the sequence in which whole records reached the output. *)
From Coq Require Import List Arith Bool.
From Coq Require Import Init.Byte.
From Nitro Require Import Base.Bytes.
Import ListNotations.
Local Open Scope list_scope.

Definition from (t : nat) (p : nat * str) : bool := fst p =? t.

(* contiguity: the output is the records of `order`, whole, one after the other — no byte of one record
   lies between two bytes of another *)
Definition explains (order : list (nat * str)) (out : str) : Prop := out = concat (map snd order).

(* exactly once and in program order: what `order` contains for thread t is precisely t's record list
   (nothing lost, nothing twice, nothing foreign, nothing swapped) *)
Definition exactly_once_in_program_order (recs : list (list str)) (order : list (nat * str)) : Prop :=
  forall t, map snd (filter (from t) order) = nth t recs [].

Definition valid_output (recs : list (list str)) (out : str) : Prop :=
  exists order, explains order out /\ exactly_once_in_program_order recs order.

(* at an arbitrary moment: whole records of finished insertions, then a prefix of the one record being
   written, and per thread the records so far are an initial segment of its program *)
Definition valid_partial_output (recs : list (list str)) (out : str) : Prop :=
  exists order part,
    out = concat (map snd order) ++ part /\
    (part = [] \/ exists t r k, nth_error (nth t recs []) k = Some r /\ prefixb part r = true /\
                          length (filter (from t) order) = k) /\
    forall t, exists later, map snd (filter (from t) order) ++ later = nth t recs [].

(* executable checker for an observed order (run by the oracle on what the real threads produced) *)
Fixpoint strs_eqb (a b : list str) : bool :=
  match a, b with
  | [], [] => true
  | x :: a', y :: b' => seq_eqb x y && strs_eqb a' b'
  | _, _ => false
  end.

Definition valid_orderb (recs : list (list str)) (order : list (nat * str)) : bool :=
  forallb (fun p => fst p <? length recs) order &&
  forallb (fun t => strs_eqb (map snd (filter (from t) order)) (nth t recs [])) (seq 0 (length recs)).

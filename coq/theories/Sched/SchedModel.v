(* Sched/SchedModel.v — executable model for property C09 (thread-safe sinks).

   What is modelled (include/nitro/log/sink/stdout_mt.hpp, stderr_mt.hpp):

       void sink(severity_level, const std::string& formatted_record)
       {
           std::lock_guard<std::mutex> my_lock(std_out_mutex());   // function-local static mutex
           std::cout << formatted_record << std::flush;             // stderr_mt: std::cerr << formatted_record;
       }

   The body of `sink` is a statement sequence (`sink_body`); the translator gen/tr_sinks.py re-reads
   it from /repo on every run (Gen/GenSinks.v).  A sink call by a thread is the body expanded into
   lock-level operations (`expand`), executed one scheduling slot at a time by `step_thread`; a
   stream insertion takes one slot to enter the stream buffer, one slot per byte and one slot to leave,
   so other threads can be scheduled in between.  The stream buffer is NOT thread-safe: entering it (or
   flushing it) while another thread is between Enter and Leave sets `st_corrupt`.

   No proofs in this file. *)
From Coq Require Import List Arith Bool.
From Coq Require Import Init.Byte.
From Nitro Require Import Base.Bytes.
Import ListNotations.
Local Open Scope list_scope.

(* ---------------------------------------------------------------- the statements of a sink body *)

(* which mutex object a guard locks:
   MStatic k — the k-th mutex with static storage duration named in the body (a function-local static of
               a non-template member function, a static data member, a namespace-scope object): ONE object
               for all instances of the sink class;
   MMember k — the k-th non-static data member: one object PER INSTANCE of the sink class (every logger
               type has its own sink base sub-object, see logger.hpp: `class logger : Sink, ...`). *)
Inductive mutex_ref := MStatic (k : nat) | MMember (k : nat).

(* a statement sequence; every constructor but SEnd is "statement; rest of the enclosing block".
   SEnd is the closing brace: guards declared in the block unlock there (reverse order of declaration). *)
Inductive sink_body :=
| SEnd
| SLockGuard (m : mutex_ref) (rest : sink_body)   (* std::lock_guard / unique_lock / scoped_lock  g(<mutex>); *)
| SInsert (rest : sink_body)                      (* <stream> << formatted_record *)
| SFlush (rest : sink_body)                       (* <stream> << std::flush   or   <stream>.flush() *)
| SBlock (inner : sink_body) (rest : sink_body)   (* { inner } *)
| SUnknown (rest : sink_body).                    (* anything the translator does not recognise *)

(* the two bodies as they are in the tree today (hand-written reading; the translator's reading is
   Gen/GenSinks.v and Tie/Tie_C09.v checks what the theorems need of it) *)
Definition stdout_mt_body : sink_body := SLockGuard (MStatic 0) (SInsert (SFlush SEnd)).
Definition stderr_mt_body : sink_body := SLockGuard (MStatic 0) (SInsert SEnd).

(* ---------------------------------------------------------------- static checks on a body *)

(* every insertion/flush of b happens while a guard on the static mutex m is alive (declared earlier in the
   same or an enclosing block); m is never locked again while held; nothing unrecognised *)
Fixpoint covered (m : nat) (held : bool) (b : sink_body) : bool :=
  match b with
  | SEnd => true
  | SLockGuard (MStatic k) r => if k =? m then negb held && covered m true r else covered m held r
  | SLockGuard (MMember _) r => covered m held r
  | SInsert r => held && covered m held r
  | SFlush r => held && covered m held r
  | SBlock i r => covered m held i && covered m held r
  | SUnknown _ => false
  end.

Fixpoint static_guards (b : sink_body) : list nat :=
  match b with
  | SEnd => []
  | SLockGuard (MStatic k) r => k :: static_guards r
  | SLockGuard (MMember _) r => static_guards r
  | SInsert r | SFlush r | SUnknown r => static_guards r
  | SBlock i r => static_guards i ++ static_guards r
  end.

Definition well_locked (b : sink_body) : bool := existsb (fun m => covered m false b) (static_guards b).

Fixpoint insert_count (b : sink_body) : nat :=
  match b with
  | SEnd => 0
  | SInsert r => S (insert_count r)
  | SLockGuard _ r | SFlush r | SUnknown r => insert_count r
  | SBlock i r => insert_count i + insert_count r
  end.

(* the record is inserted exactly once per call *)
Definition single_insert (b : sink_body) : bool := insert_count b =? 1.

(* a guard is only declared while no other guard of this call is alive (so a thread never waits for a
   mutex while holding one: no lock-order deadlock, no self-deadlock) *)
Fixpoint solo (alive : bool) (b : sink_body) : bool :=
  match b with
  | SEnd => true
  | SLockGuard _ r => negb alive && solo true r
  | SInsert r | SFlush r | SUnknown r => solo alive r
  | SBlock i r => solo alive i && solo alive r
  end.

Definition body_ok (b : sink_body) : bool := well_locked b && single_insert b.

(* ---------------------------------------------------------------- expansion into lock-level operations *)

(* a run-time lock object *)
Inductive lockid := LGlobal (k : nat) | LInst (inst k : nat).

Definition lockid_eqb (a b : lockid) : bool :=
  match a, b with
  | LGlobal x, LGlobal y => x =? y
  | LInst i x, LInst j y => (i =? j) && (x =? y)
  | _, _ => false
  end.

Definition resolve (inst : nat) (m : mutex_ref) : lockid :=
  match m with MStatic k => LGlobal k | MMember k => LInst inst k end.

Inductive op :=
| OAcquire (l : lockid)     (* mutex.lock(): does not progress while somebody holds l *)
| ORelease (l : lockid)     (* guard destructor *)
| OInsert                   (* Enter; PutByte b ...; Leave — several scheduling slots, see step_thread *)
| OFlush                    (* pubsync() on the buffer *)
| OWild.                    (* an unrecognised statement: assumed to do the worst *)

(* `pending`: guards alive in the current block, innermost first *)
Fixpoint expand_block (inst : nat) (b : sink_body) (pending : list lockid) : list op :=
  match b with
  | SEnd => map ORelease pending
  | SLockGuard m r => OAcquire (resolve inst m) :: expand_block inst r (resolve inst m :: pending)
  | SInsert r => OInsert :: expand_block inst r pending
  | SFlush r => OFlush :: expand_block inst r pending
  | SBlock i r => expand_block inst i [] ++ expand_block inst r pending
  | SUnknown r => OWild :: expand_block inst r pending
  end.

Definition expand (inst : nat) (b : sink_body) : list op := expand_block inst b [].

(* ---------------------------------------------------------------- threads, state, one scheduling slot *)

Record thread := mkThread {
  th_inst : nat;              (* which sink instance (logger type) this thread logs through *)
  th_ops  : list op;          (* rest of the current sink call ([] between calls) *)
  th_rec  : str;              (* the record of the current sink call *)
  th_wr   : option str;       (* Some rest: inside the stream buffer, `rest` still to be written *)
  th_todo : list str          (* records not yet handed to the sink, in program order *)
}.

Record state := mkState {
  st_threads : list thread;
  st_held    : list (lockid * nat);    (* (lock, holder) *)
  st_inside  : option nat;             (* the thread between Enter and Leave, if any *)
  st_out     : str;                    (* bytes received by the stream buffer, in order of arrival *)
  st_order   : list (nat * str);       (* history variable: (thread, record) appended at every Leave *)
  st_corrupt : bool                    (* two threads were inside the buffer at once (or Wild ran) *)
}.

Definition new_thread (p : nat * list str) : thread := mkThread (fst p) [] [] None (snd p).

(* one (instance, records) pair per thread *)
Definition init_state (ths : list (nat * list str)) : state :=
  mkState (map new_thread ths) [] None [] [] false.

Fixpoint holder (held : list (lockid * nat)) (l : lockid) : option nat :=
  match held with
  | [] => None
  | (l', t) :: r => if lockid_eqb l' l then Some t else holder r l
  end.

Fixpoint unhold (held : list (lockid * nat)) (l : lockid) (t : nat) : list (lockid * nat) :=
  match held with
  | [] => []
  | (l', t') :: r => if lockid_eqb l' l && (t' =? t) then unhold r l t else (l', t') :: unhold r l t
  end.

Fixpoint set_nth {A} (l : list A) (i : nat) (x : A) : list A :=
  match l, i with
  | [], _ => []
  | _ :: r, 0 => x :: r
  | y :: r, S j => y :: set_nth r j x
  end.

Definition is_some {A} (o : option A) : bool := match o with Some _ => true | None => false end.

Definition set_thread (st : state) (t : nat) (th : thread) : state :=
  mkState (set_nth (st_threads st) t th) (st_held st) (st_inside st) (st_out st) (st_order st) (st_corrupt st).

Definition with_ops (th : thread) (ops : list op) : thread :=
  mkThread (th_inst th) ops (th_rec th) (th_wr th) (th_todo th).
Definition with_wr (th : thread) (w : option str) : thread :=
  mkThread (th_inst th) (th_ops th) (th_rec th) w (th_todo th).

(* thread t gets one scheduling slot *)
Definition step_thread (body : sink_body) (t : nat) (st : state) : state :=
  match nth_error (st_threads st) t with
  | None => st                                          (* no such thread: the slot is wasted *)
  | Some th =>
    match th_wr th with
    | Some (b :: rest) =>                               (* PutByte b *)
        mkState (set_nth (st_threads st) t (with_wr th (Some rest))) (st_held st) (st_inside st)
                (st_out st ++ [b]) (st_order st) (st_corrupt st)
    | Some [] =>                                        (* Leave *)
        mkState (set_nth (st_threads st) t (mkThread (th_inst th) (tl (th_ops th)) (th_rec th) None (th_todo th)))
                (st_held st) None (st_out st) (st_order st ++ [(t, th_rec th)]) (st_corrupt st)
    | None =>
      match th_ops th with
      | [] =>
        match th_todo th with
        | [] => st                                      (* finished: stutters *)
        | r :: rs =>                                    (* the next log statement calls Sink::sink *)
            set_thread st t (mkThread (th_inst th) (expand (th_inst th) body) r None rs)
        end
      | OAcquire l :: ops =>
        match holder (st_held st) l with
        | Some _ => st                                  (* blocked: no progress *)
        | None => mkState (set_nth (st_threads st) t (with_ops th ops)) ((l, t) :: st_held st) (st_inside st)
                          (st_out st) (st_order st) (st_corrupt st)
        end
      | ORelease l :: ops =>
          mkState (set_nth (st_threads st) t (with_ops th ops)) (unhold (st_held st) l t) (st_inside st)
                  (st_out st) (st_order st) (st_corrupt st)
      | OInsert :: _ =>                                 (* Enter (OInsert stays at the head until Leave) *)
          mkState (set_nth (st_threads st) t (with_wr th (Some (th_rec th)))) (st_held st) (Some t)
                  (st_out st) (st_order st) (st_corrupt st || is_some (st_inside st))
      | OFlush :: ops =>
          mkState (set_nth (st_threads st) t (with_ops th ops)) (st_held st) (st_inside st)
                  (st_out st) (st_order st) (st_corrupt st || is_some (st_inside st))
      | OWild :: ops =>
          mkState (set_nth (st_threads st) t (with_ops th ops)) (st_held st) (st_inside st)
                  (st_out st) (st_order st) true
      end
    end
  end.

(* a schedule is a list of thread ids *)
Definition run_from (body : sink_body) (sched : list nat) (st : state) : state :=
  fold_left (fun s t => step_thread body t s) sched st.

Definition run (body : sink_body) (ths : list (nat * list str)) (sched : list nat) : state :=
  run_from body sched (init_state ths).

Definition thread_finished (th : thread) : bool :=
  match th_ops th, th_wr th, th_todo th with [], None, [] => true | _, _, _ => false end.

Definition finished (st : state) : bool := forallb thread_finished (st_threads st).

(* ---------------------------------------------------------------- helpers used by the drivers *)

(* round-robin over n threads, k rounds *)
Fixpoint round_robin (n k : nat) : list nat :=
  match k with 0 => [] | S k' => seq 0 n ++ round_robin n k' end.

(* two threads on two sink instances, one two-byte record each *)
Definition two_threads : list (nat * list str) := [(0, [[x61; x62]]); (1, [[x63; x64]])].

(* the standard adversary: alternate the two threads long enough for both calls to finish *)
Definition adversary (body : sink_body) : list nat := round_robin 2 (8 + 2 * length (expand 0 body)).

Definition corrupts_under_adversary (body : sink_body) : bool :=
  st_corrupt (run body two_threads (adversary body)).

(* Sched/SchedProofs.v — proofs for property C09: invariants of the scheduler model over ALL schedules,
   any number of threads, any records. *)
From Coq Require Import List Arith Bool Lia.
From Coq Require Import Init.Byte.
From Nitro Require Import Base.Bytes Sched.SchedModel Sched.SchedSpec.
Import ListNotations.
Local Open Scope list_scope.

(* ------------------------------------------------------------------ small facts *)

Lemma lockid_eqb_true a b : lockid_eqb a b = true <-> a = b.
Proof.
  destruct a as [x|i x], b as [y|j y]; simpl; try (split; [discriminate|discriminate]).
  - rewrite Nat.eqb_eq. split; [intros ->; reflexivity | intros [= ->]; reflexivity].
  - rewrite andb_true_iff, !Nat.eqb_eq. split; [intros [-> ->]; reflexivity | intros [= -> ->]; auto].
Qed.
Lemma lockid_eqb_refl a : lockid_eqb a a = true.
Proof. apply lockid_eqb_true; reflexivity. Qed.
Lemma lockid_eqb_false a b : lockid_eqb a b = false <-> a <> b.
Proof.
  split.
  - intros H E. apply lockid_eqb_true in E. congruence.
  - intros H. destruct (lockid_eqb a b) eqn:E; [apply lockid_eqb_true in E; contradiction | reflexivity].
Qed.

Lemma set_nth_length {A} (l : list A) i x : length (set_nth l i x) = length l.
Proof. revert i; induction l as [|y l IH]; intros [|i]; simpl; auto. Qed.

Lemma nth_error_set_nth_eq {A} (l : list A) i x : i < length l -> nth_error (set_nth l i x) i = Some x.
Proof. revert i; induction l as [|y l IH]; intros [|i] H; simpl in *; try lia; auto. apply IH; lia. Qed.

Lemma nth_error_set_nth_neq {A} (l : list A) i j x : i <> j -> nth_error (set_nth l i x) j = nth_error l j.
Proof.
  revert i j; induction l as [|y l IH]; intros [|i] [|j] H; simpl; auto; try congruence.
Qed.

Lemma nth_error_set_nth_inv {A} (l : list A) i j x y :
  nth_error (set_nth l i x) j = Some y ->
  (j = i /\ y = x /\ i < length l) \/ (j <> i /\ nth_error l j = Some y).
Proof.
  intros H. destruct (Nat.eq_dec j i) as [->|N].
  - left. assert (Hi : i < length l).
    { rewrite <- (set_nth_length l i x). apply nth_error_Some. congruence. }
    rewrite nth_error_set_nth_eq in H by exact Hi. injection H as <-. auto.
  - right. split; [exact N|]. rewrite nth_error_set_nth_neq in H by congruence. exact H.
Qed.

Lemma nth_error_lt {A} (l : list A) i x : nth_error l i = Some x -> i < length l.
Proof. intros H. apply nth_error_Some. congruence. Qed.

(* ------------------------------------------------------------------ who holds a lock *)

Definition holdsb (held : list (lockid * nat)) (L : lockid) (t : nat) : bool :=
  existsb (fun p => lockid_eqb (fst p) L && (snd p =? t)) held.

Lemma holdsb_cons held l t L t' :
  holdsb ((l, t) :: held) L t' = (lockid_eqb l L && (t =? t')) || holdsb held L t'.
Proof. reflexivity. Qed.

Lemma holder_none_holdsb held L : holder held L = None -> forall t, holdsb held L t = false.
Proof.
  induction held as [|[l u] held IH]; simpl; intros H t; [reflexivity|].
  destruct (lockid_eqb l L) eqn:E; [discriminate|]. simpl. apply IH. exact H.
Qed.

Lemma holdsb_holder held L t : holdsb held L t = true -> holder held L <> None.
Proof. intros H N. rewrite (holder_none_holdsb _ _ N) in H. discriminate. Qed.

Lemma holdsb_unhold held l t L t' :
  holdsb (unhold held l t) L t' = holdsb held L t' && negb (lockid_eqb l L && (t =? t')).
Proof.
  induction held as [|[l0 u] held IH]; simpl; [reflexivity|].
  destruct (lockid_eqb l0 l) eqn:E1; simpl.
  - apply lockid_eqb_true in E1. subst l0.
    destruct (u =? t) eqn:E2; simpl.
    + apply Nat.eqb_eq in E2. subst u. rewrite IH.
      destruct (lockid_eqb l L); simpl; [|reflexivity].
      destruct (t =? t'); simpl; [rewrite andb_false_r; reflexivity | reflexivity].
    + fold (holdsb (unhold held l t) L t'). rewrite IH. fold (holdsb held L t').
      destruct (lockid_eqb l L) eqn:E3; simpl; [|reflexivity].
      destruct (u =? t') eqn:E4; simpl; [|reflexivity].
      apply Nat.eqb_eq in E4. subst u. rewrite Nat.eqb_sym in E2. rewrite E2. simpl. reflexivity.
  - fold (holdsb (unhold held l t) L t'). rewrite IH. fold (holdsb held L t').
    destruct (lockid_eqb l0 L) eqn:E3; simpl; [|reflexivity].
    destruct (u =? t') eqn:E4; simpl; [|reflexivity].
    apply lockid_eqb_true in E3. subst l0.
    assert (lockid_eqb l L = false) as ->.
    { apply lockid_eqb_false. intros ->. rewrite lockid_eqb_refl in E1. discriminate. }
    reflexivity.
Qed.

(* ------------------------------------------------------------------ guarded operation lists *)

(* along `ops`, starting with `holds` (does the thread hold L now?), every insertion and flush happens
   while L is held, nothing wild happens, and L is released at the end *)
Fixpoint guardedb (L : lockid) (holds : bool) (ops : list op) : bool :=
  match ops with
  | [] => negb holds
  | OAcquire l :: r => guardedb L (holds || lockid_eqb l L) r
  | ORelease l :: r => guardedb L (holds && negb (lockid_eqb l L)) r
  | OInsert :: r => holds && guardedb L holds r
  | OFlush :: r => holds && guardedb L holds r
  | OWild :: _ => false
  end.

Fixpoint memb (L : lockid) (l : list lockid) : bool :=
  match l with [] => false | x :: r => lockid_eqb x L || memb L r end.

Lemma guardedb_releases L h pending k :
  guardedb L h (map ORelease pending ++ k) = guardedb L (h && negb (memb L pending)) k.
Proof.
  revert h; induction pending as [|x p IH]; intros h; simpl.
  - rewrite andb_true_r. reflexivity.
  - rewrite IH. f_equal. rewrite negb_orb. rewrite andb_assoc. reflexivity.
Qed.

Lemma covered_guarded m inst b : forall h pending k,
  covered m h b = true ->
  guardedb (LGlobal m) h (expand_block inst b pending ++ k) = guardedb (LGlobal m) (h && negb (memb (LGlobal m) pending)) k.
Proof.
  induction b as [|mr r IH|r IH|r IH|i IHi r IHr|r IH]; intros h pending k C; simpl in *.
  - apply guardedb_releases.
  - destruct mr as [k0|k0]; simpl.
    + destruct (k0 =? m) eqn:E.
      * apply andb_true_iff in C as [Hh C]. apply negb_true_iff in Hh. subst h. simpl.
        rewrite (IH true _ k C). simpl. rewrite E. simpl. reflexivity.
      * replace (h || false) with h by (destruct h; reflexivity).
        rewrite (IH h _ k C). simpl. rewrite E. simpl. reflexivity.
    + replace (h || false) with h by (destruct h; reflexivity).
      rewrite (IH h _ k C). simpl. reflexivity.
  - apply andb_true_iff in C as [-> C]. simpl. apply (IH _ _ _ C).
  - apply andb_true_iff in C as [-> C]. simpl. apply (IH _ _ _ C).
  - apply andb_true_iff in C as [Ci Cr]. rewrite <- app_assoc. rewrite (IHi _ _ _ Ci). simpl.
    rewrite andb_true_r. apply (IHr _ _ _ Cr).
  - discriminate.
Qed.

Lemma covered_expand_guarded m inst b :
  covered m false b = true -> guardedb (LGlobal m) false (expand inst b) = true.
Proof.
  intros C. unfold expand. rewrite <- (app_nil_r (expand_block inst b [])).
  rewrite (covered_guarded m inst b false [] [] C). reflexivity.
Qed.

Lemma well_locked_covered b : well_locked b = true -> exists m, In m (static_guards b) /\ covered m false b = true.
Proof. unfold well_locked. intros H. apply existsb_exists in H. exact H. Qed.

(* ------------------------------------------------------------------ invariant 1: mutual exclusion *)

Arguments holdsb : simpl never.

Section Safety.
Variable body : sink_body.
Variable m : nat.
Hypothesis Hcov : covered m false body = true.
Let L := LGlobal m.

Definition thread_ok (st : state) (t : nat) (th : thread) : Prop :=
  guardedb L (holdsb (st_held st) L t) (th_ops th) = true /\
  (forall w, th_wr th = Some w -> st_inside st = Some t /\ exists r, th_ops th = OInsert :: r).

Record Inv1 (st : state) : Prop := mkInv1 {
  i1_corrupt : st_corrupt st = false;
  i1_unique : forall t t', holdsb (st_held st) L t = true -> holdsb (st_held st) L t' = true -> t = t';
  i1_threads : forall t th, nth_error (st_threads st) t = Some th -> thread_ok st t th;
  i1_inside : forall t, st_inside st = Some t ->
                exists th w, nth_error (st_threads st) t = Some th /\ th_wr th = Some w
}.

Lemma inside_holds st t : Inv1 st -> st_inside st = Some t -> holdsb (st_held st) L t = true.
Proof.
  intros I Hi. destruct (i1_inside st I t Hi) as (th & w & Ht & Hw).
  destruct (i1_threads st I t th Ht) as [G W]. destruct (W w Hw) as [_ [r Hr]].
  rewrite Hr in G. simpl in G. apply andb_true_iff in G as [G _]. exact G.
Qed.

(* a thread that holds L and is not itself inside finds the buffer empty *)
Lemma nobody_inside st t th :
  Inv1 st -> nth_error (st_threads st) t = Some th -> th_wr th = None ->
  holdsb (st_held st) L t = true -> st_inside st = None.
Proof.
  intros I Ht Hw Hh. destruct (st_inside st) as [t'|] eqn:Hi; [|reflexivity]. exfalso.
  pose proof (inside_holds st t' I Hi) as Hh'.
  assert (t = t') by (apply (i1_unique st I); assumption). subst t'.
  destruct (i1_inside st I t Hi) as (th' & w & Ht' & Hw'). congruence.
Qed.

Lemma inside_kept threads t thn (inside : option nat) :
  (forall t0, inside = Some t0 -> exists th w, nth_error threads t0 = Some th /\ th_wr th = Some w) ->
  t < length threads ->
  (inside = Some t -> exists w, th_wr thn = Some w) ->
  forall t0, inside = Some t0 -> exists th w, nth_error (set_nth threads t thn) t0 = Some th /\ th_wr th = Some w.
Proof.
  intros Hold Hlt Hn t0 H0. destruct (Nat.eq_dec t0 t) as [->|N].
  - destruct (Hn H0) as [w Hw]. exists thn, w. split; [apply nth_error_set_nth_eq; exact Hlt | exact Hw].
  - destruct (Hold t0 H0) as (th & w & A & B). exists th, w. split; [|exact B].
    rewrite nth_error_set_nth_neq by congruence. exact A.
Qed.

Lemma not_inside_self st t th :
  Inv1 st -> nth_error (st_threads st) t = Some th -> th_wr th = None -> st_inside st <> Some t.
Proof.
  intros I Ht Hw Hi. destruct (i1_inside st I t Hi) as (th' & w & Ht' & Hw'). congruence.
Qed.

Lemma inv1_step st t : Inv1 st -> Inv1 (step_thread body t st).
Proof.
  intros I. unfold step_thread.
  destruct (nth_error (st_threads st) t) as [th|] eqn:Ht; [|exact I].
  pose proof (nth_error_lt _ _ _ Ht) as Hlt.
  destruct (i1_threads st I t th Ht) as [G W].
  destruct (th_wr th) as [[|b rest]|] eqn:Ew.
  - (* Leave *)
    destruct (W [] eq_refl) as [Hin [r Hr]].
    constructor; simpl.
    + apply (i1_corrupt st I).
    + apply (i1_unique st I).
    + intros t' th' H'. apply nth_error_set_nth_inv in H' as [(-> & -> & _)|(N & H')]; unfold thread_ok; simpl.
      * split; [|discriminate]. rewrite Hr in G. simpl in G. apply andb_true_iff in G as [_ G]. rewrite Hr. exact G.
      * destruct (i1_threads st I t' th' H') as [G' W']. split; [exact G'|].
        intros w Hw. destruct (W' w Hw) as [Hin' _]. congruence.
    + discriminate.
  - (* PutByte *)
    constructor; simpl.
    + apply (i1_corrupt st I).
    + apply (i1_unique st I).
    + intros t' th' H'. apply nth_error_set_nth_inv in H' as [(-> & -> & _)|(N & H')]; unfold thread_ok; simpl.
      * split; [exact G|]. intros w _. apply (W _ eq_refl).
      * exact (i1_threads st I t' th' H').
    + apply inside_kept; [apply (i1_inside st I) | exact Hlt | intros _; simpl; eauto].
  - destruct (th_ops th) as [|o ops] eqn:Eo.
    + destruct (th_todo th) as [|r rs] eqn:Et; [exact I|].
      (* the next sink call starts *)
      simpl in G. apply negb_true_iff in G.
      constructor; simpl.
      * apply (i1_corrupt st I).
      * apply (i1_unique st I).
      * intros t' th' H'. apply nth_error_set_nth_inv in H' as [(-> & -> & _)|(N & H')]; unfold thread_ok; simpl.
        -- split; [|discriminate]. rewrite G. apply covered_expand_guarded. exact Hcov.
        -- exact (i1_threads st I t' th' H').
      * apply inside_kept; [apply (i1_inside st I) | exact Hlt |].
        intros Hi. exfalso. exact (not_inside_self st t th I Ht Ew Hi).
    + destruct o as [l|l| | |].
      * (* Acquire *)
        destruct (holder (st_held st) l) as [u|] eqn:Eh; [exact I|].
        constructor; simpl.
        -- apply (i1_corrupt st I).
        -- intros t1 t2. rewrite !holdsb_cons. destruct (lockid_eqb l L) eqn:El; simpl.
           ++ apply lockid_eqb_true in El. subst l.
              rewrite !(holder_none_holdsb _ _ Eh). rewrite !orb_false_r.
              rewrite !Nat.eqb_eq. congruence.
           ++ apply (i1_unique st I).
        -- intros t' th' H'. apply nth_error_set_nth_inv in H' as [(-> & -> & _)|(N & H')]; unfold thread_ok; simpl.
           ++ split; [|rewrite Ew; discriminate]. rewrite holdsb_cons, Nat.eqb_refl, andb_true_r.
              simpl in G. rewrite orb_comm. exact G.
           ++ destruct (i1_threads st I t' th' H') as [G' W']. split; [|exact W'].
              rewrite holdsb_cons. assert (t =? t' = false) as -> by (apply Nat.eqb_neq; congruence).
              rewrite andb_false_r. simpl. exact G'.
        -- apply inside_kept; [apply (i1_inside st I) | exact Hlt |].
           intros Hi. exfalso. exact (not_inside_self st t th I Ht Ew Hi).
      * (* Release *)
        constructor; simpl.
        -- apply (i1_corrupt st I).
        -- intros t1 t2. rewrite !holdsb_unhold. intros H1 H2.
           apply andb_true_iff in H1 as [H1 _]. apply andb_true_iff in H2 as [H2 _]. apply (i1_unique st I); assumption.
        -- intros t' th' H'. apply nth_error_set_nth_inv in H' as [(-> & -> & _)|(N & H')]; unfold thread_ok; simpl.
           ++ split; [|rewrite Ew; discriminate]. rewrite holdsb_unhold, Nat.eqb_refl, andb_true_r.
              simpl in G. exact G.
           ++ destruct (i1_threads st I t' th' H') as [G' W']. split; [|exact W'].
              rewrite holdsb_unhold. assert (t =? t' = false) as -> by (apply Nat.eqb_neq; congruence).
              rewrite andb_false_r. simpl. rewrite andb_true_r. exact G'.
        -- apply inside_kept; [apply (i1_inside st I) | exact Hlt |].
           intros Hi. exfalso. exact (not_inside_self st t th I Ht Ew Hi).
      * (* Enter *)
        simpl in G. apply andb_true_iff in G as [Hh G].
        pose proof (nobody_inside st t th I Ht Ew Hh) as Hnone.
        constructor; simpl.
        -- rewrite Hnone. simpl. rewrite orb_false_r. apply (i1_corrupt st I).
        -- apply (i1_unique st I).
        -- intros t' th' H'. apply nth_error_set_nth_inv in H' as [(-> & -> & _)|(N & H')]; unfold thread_ok; simpl.
           ++ rewrite Eo. simpl. rewrite G, Hh. split; [reflexivity|]. intros w _. split; [reflexivity|eauto].
           ++ destruct (i1_threads st I t' th' H') as [G' W']. split; [exact G'|].
              intros w Hw. destruct (W' w Hw) as [Hin' _]. congruence.
        -- intros t0 [= <-]. eexists. eexists. split; [apply nth_error_set_nth_eq; exact Hlt | reflexivity].
      * (* Flush *)
        simpl in G. apply andb_true_iff in G as [Hh G].
        pose proof (nobody_inside st t th I Ht Ew Hh) as Hnone.
        constructor; simpl.
        -- rewrite Hnone. simpl. rewrite orb_false_r. apply (i1_corrupt st I).
        -- apply (i1_unique st I).
        -- intros t' th' H'. apply nth_error_set_nth_inv in H' as [(-> & -> & _)|(N & H')]; unfold thread_ok; simpl.
           ++ split; [exact G | rewrite Ew; discriminate].
           ++ exact (i1_threads st I t' th' H').
        -- rewrite Hnone. discriminate.
      * (* Wild *) simpl in G. discriminate.
Qed.

Lemma inv1_init ths : Inv1 (init_state ths).
Proof.
  constructor; simpl.
  - reflexivity.
  - discriminate.
  - intros t th H. unfold thread_ok; simpl. apply nth_error_In in H. apply in_map_iff in H as [p [<- _]].
    simpl. split; [reflexivity | discriminate].
  - discriminate.
Qed.

Lemma inv1_run_from sched : forall st, Inv1 st -> Inv1 (run_from body sched st).
Proof.
  unfold run_from. induction sched as [|t s IH]; intros st I; simpl; [exact I|].
  apply IH. apply inv1_step. exact I.
Qed.

End Safety.

(* ------------------------------------------------------------------ invariant 2: what the output is *)

Fixpoint n_ins (ops : list op) : nat :=
  match ops with [] => 0 | OInsert :: r => S (n_ins r) | _ :: r => n_ins r end.

Lemma n_ins_app a b : n_ins (a ++ b) = n_ins a + n_ins b.
Proof. induction a as [|o a IH]; simpl; [reflexivity|]. destruct o; simpl; rewrite IH; reflexivity. Qed.

Lemma n_ins_releases p : n_ins (map ORelease p) = 0.
Proof. induction p; simpl; auto. Qed.

Lemma n_ins_expand_block inst b : forall pending, n_ins (expand_block inst b pending) = insert_count b.
Proof.
  induction b as [|mr r IH|r IH|r IH|i IHi r IHr|r IH]; intros pending; simpl.
  - apply n_ins_releases.
  - apply IH.
  - rewrite IH. reflexivity.
  - apply IH.
  - rewrite n_ins_app, IHi, IHr. reflexivity.
  - apply IH.
Qed.

(* the records a thread still owes to the output *)
Definition pend (th : thread) : list str :=
  (if 0 <? n_ins (th_ops th) then [th_rec th] else []) ++ th_todo th.

Lemma filter_from_snoc_same t r order :
  map snd (filter (from t) (order ++ [(t, r)])) = map snd (filter (from t) order) ++ [r].
Proof. rewrite filter_app, map_app. simpl. unfold from at 2. simpl. rewrite Nat.eqb_refl. reflexivity. Qed.

Lemma filter_from_snoc_other t t' (r : str) order : t <> t' ->
  filter (from t') (order ++ [(t, r)]) = filter (from t') order.
Proof.
  intros N. rewrite filter_app. simpl. unfold from at 2. simpl.
  assert (t =? t' = false) as -> by (apply Nat.eqb_neq; exact N). apply app_nil_r.
Qed.

Section Output.
Variable body : sink_body.
Variable m : nat.
Hypothesis Hcov : covered m false body = true.
Hypothesis Hone : insert_count body = 1.
Variable recs : list (list str).
Let L := LGlobal m.

Definition prog_ok (order : list (nat * str)) (t : nat) (th : thread) : Prop :=
  n_ins (th_ops th) <= 1 /\ map snd (filter (from t) order) ++ pend th = nth t recs [].

Definition out_ok (threads : list thread) (inside : option nat) (order : list (nat * str)) (out : str) : Prop :=
  match inside with
  | None => out = concat (map snd order)
  | Some t => exists th done rest, nth_error threads t = Some th /\ th_wr th = Some rest /\
                                   th_rec th = done ++ rest /\ out = concat (map snd order) ++ done
  end.

Record Inv2 (st : state) : Prop := mkInv2 {
  i2_len : length (st_threads st) = length recs;
  i2_prog : forall t th, nth_error (st_threads st) t = Some th -> prog_ok (st_order st) t th;
  i2_bound : forall p, In p (st_order st) -> fst p < length recs;
  i2_out : out_ok (st_threads st) (st_inside st) (st_order st) (st_out st)
}.

Lemma out_ok_other threads inside order out t thn :
  out_ok threads inside order out -> inside <> Some t -> out_ok (set_nth threads t thn) inside order out.
Proof.
  unfold out_ok. destruct inside as [t0|]; [|auto].
  intros (th & done & rest & A & B & C & D) N. exists th, done, rest. repeat split; auto.
  rewrite nth_error_set_nth_neq by congruence. exact A.
Qed.

(* replacing thread t by one that owes the same records *)
Lemma prog_ok_update st t th thn order :
  (forall t' th', nth_error (st_threads st) t' = Some th' -> prog_ok order t' th') ->
  nth_error (st_threads st) t = Some th ->
  n_ins (th_ops thn) <= 1 -> pend thn = pend th ->
  forall t' th', nth_error (set_nth (st_threads st) t thn) t' = Some th' -> prog_ok order t' th'.
Proof.
  intros Hold Ht Hn Hp t' th' H'. apply nth_error_set_nth_inv in H' as [(-> & -> & _)|(N & H')].
  - destruct (Hold t th Ht) as [_ P]. split; [exact Hn | rewrite Hp; exact P].
  - exact (Hold t' th' H').
Qed.

Lemma inv2_step st t : Inv1 m st -> Inv2 st -> Inv2 (step_thread body t st).
Proof.
  intros I J. unfold step_thread.
  destruct (nth_error (st_threads st) t) as [th|] eqn:Ht; [|exact J].
  pose proof (nth_error_lt _ _ _ Ht) as Hlt.
  destruct (i1_threads m st I t th Ht) as [G W].
  destruct (i2_prog st J t th Ht) as [Hn Hp].
  destruct (th_wr th) as [[|b rest]|] eqn:Ew.
  - (* Leave *)
    destruct (W [] eq_refl) as [Hin [r Hr]].
    rewrite Hr in Hn. simpl in Hn. assert (Hr0 : n_ins r = 0) by lia.
    constructor; simpl.
    + rewrite set_nth_length. apply (i2_len st J).
    + intros t' th' H'. apply nth_error_set_nth_inv in H' as [(-> & -> & _)|(N & H')]; unfold prog_ok.
      * simpl. rewrite Hr. simpl. split; [lia|].
        rewrite filter_from_snoc_same. unfold pend in *. simpl. rewrite Hr in Hp. simpl in Hp.
        rewrite Hr0. simpl. rewrite <- app_assoc. exact Hp.
      * rewrite filter_from_snoc_other by congruence. exact (i2_prog st J t' th' H').
    + intros p Hp'. apply in_app_or in Hp' as [Hp'|[<-|[]]]; [apply (i2_bound st J); exact Hp'|].
      simpl. rewrite <- (i2_len st J). exact Hlt.
    + pose proof (i2_out st J) as O. unfold out_ok in O. rewrite Hin in O.
      destruct O as (th0 & done & rest & A & B & C & D). assert (th0 = th) by congruence. subst th0.
      assert (rest = []) by congruence. subst rest. rewrite app_nil_r in C.
      rewrite map_app, concat_app. simpl. rewrite app_nil_r. rewrite C. exact D.
  - (* PutByte *)
    destruct (W _ eq_refl) as [Hin [r Hr]].
    constructor; simpl.
    + rewrite set_nth_length. apply (i2_len st J).
    + apply (prog_ok_update st t th); [apply (i2_prog st J) | exact Ht | exact Hn | reflexivity].
    + apply (i2_bound st J).
    + pose proof (i2_out st J) as O. unfold out_ok in *. rewrite Hin in *.
      destruct O as (th0 & done & rest0 & A & B & C & D). assert (th0 = th) by congruence. subst th0.
      assert (rest0 = b :: rest) by congruence. subst rest0.
      eexists. exists (done ++ [b]), rest. split; [apply nth_error_set_nth_eq; exact Hlt|].
      simpl. split; [reflexivity|]. split; [rewrite <- app_assoc; exact C|].
      rewrite D. rewrite <- app_assoc. reflexivity.
  - pose proof (not_inside_self m st t th I Ht Ew) as Hns.
    destruct (th_ops th) as [|o ops] eqn:Eo.
    + destruct (th_todo th) as [|r rs] eqn:Et; [exact J|].
      constructor; simpl.
      * rewrite set_nth_length. apply (i2_len st J).
      * apply (prog_ok_update st t th); [apply (i2_prog st J) | exact Ht | |].
        -- simpl. unfold expand. rewrite n_ins_expand_block, Hone. lia.
        -- unfold pend. simpl. unfold expand. rewrite n_ins_expand_block, Hone, Eo, Et. reflexivity.
      * apply (i2_bound st J).
      * apply out_ok_other; [apply (i2_out st J) | exact Hns].
    + destruct o as [l|l| | |].
      * destruct (holder (st_held st) l) as [u|] eqn:Eh; [exact J|].
        constructor; simpl.
        -- rewrite set_nth_length. apply (i2_len st J).
        -- apply (prog_ok_update st t th); [apply (i2_prog st J) | exact Ht | simpl in *; lia |].
           unfold pend. simpl. rewrite Eo. reflexivity.
        -- apply (i2_bound st J).
        -- apply out_ok_other; [apply (i2_out st J) | exact Hns].
      * constructor; simpl.
        -- rewrite set_nth_length. apply (i2_len st J).
        -- apply (prog_ok_update st t th); [apply (i2_prog st J) | exact Ht | simpl in *; lia |].
           unfold pend. simpl. rewrite Eo. reflexivity.
        -- apply (i2_bound st J).
        -- apply out_ok_other; [apply (i2_out st J) | exact Hns].
      * (* Enter *)
        simpl in G. apply andb_true_iff in G as [Hh G].
        pose proof (nobody_inside m st t th I Ht Ew Hh) as Hnone.
        constructor; simpl.
        -- rewrite set_nth_length. apply (i2_len st J).
        -- apply (prog_ok_update st t th); [apply (i2_prog st J) | exact Ht | simpl; rewrite Eo; exact Hn |].
           reflexivity.
        -- apply (i2_bound st J).
        -- pose proof (i2_out st J) as O. unfold out_ok in *. rewrite Hnone in O.
           eexists. exists [], (th_rec th). split; [apply nth_error_set_nth_eq; exact Hlt|].
           simpl. repeat split. rewrite app_nil_r. exact O.
      * (* Flush *)
        constructor; simpl.
        -- rewrite set_nth_length. apply (i2_len st J).
        -- apply (prog_ok_update st t th); [apply (i2_prog st J) | exact Ht | simpl in *; lia |].
           unfold pend. simpl. rewrite Eo. reflexivity.
        -- apply (i2_bound st J).
        -- apply out_ok_other; [apply (i2_out st J) | exact Hns].
      * simpl in G. discriminate.
Qed.

Lemma inv2_run_from sched : forall st, Inv1 m st -> Inv2 st -> Inv2 (run_from body sched st).
Proof.
  unfold run_from. induction sched as [|t s IH]; intros st I J; simpl; [exact J|].
  apply IH; [apply inv1_step; assumption | apply inv2_step; assumption].
Qed.

End Output.

Lemma inv2_init ths : Inv2 (map snd ths) (init_state ths).
Proof.
  constructor; simpl.
  - rewrite !map_length. reflexivity.
  - intros t th H. rewrite nth_error_map in H. destruct (nth_error ths t) as [p|] eqn:E; [|discriminate].
    injection H as <-. unfold prog_ok, pend; simpl. split; [lia|].
    rewrite (nth_error_nth (map snd ths) t [] (x := snd p)); [reflexivity|].
    rewrite nth_error_map, E. reflexivity.
  - intros p [].
  - reflexivity.
Qed.

Lemma filter_from_none (order : list (nat * str)) n t :
  (forall p, In p order -> fst p < n) -> n <= t -> filter (from t) order = [].
Proof.
  intros Hb Hn. induction order as [|p o IH]; simpl; [reflexivity|].
  assert (fst p < n) by (apply Hb; left; reflexivity).
  unfold from at 1. assert (fst p =? t = false) as -> by (apply Nat.eqb_neq; lia).
  apply IH. intros q Hq. apply Hb. right. exact Hq.
Qed.

Lemma forallb_nth_error {A} (f : A -> bool) l i x : forallb f l = true -> nth_error l i = Some x -> f x = true.
Proof. intros H E. rewrite forallb_forall in H. apply H. eapply nth_error_In. exact E. Qed.

(* ------------------------------------------------------------------ the theorems over all schedules *)

Theorem corrupt_free body : well_locked body = true ->
  forall ths sched, st_corrupt (run body ths sched) = false.
Proof.
  intros WL ths sched. destruct (well_locked_covered body WL) as (m & _ & C).
  apply (i1_corrupt m). unfold run. apply (inv1_run_from body m C). apply inv1_init.
Qed.

(* the thread inside the stream buffer is the one holder of the body's static mutex *)
Theorem inside_is_holder body : well_locked body = true ->
  forall ths sched, exists m, In m (static_guards body) /\
    forall t, st_inside (run body ths sched) = Some t ->
      holdsb (st_held (run body ths sched)) (LGlobal m) t = true /\
      forall t', holdsb (st_held (run body ths sched)) (LGlobal m) t' = true -> t' = t.
Proof.
  intros WL ths sched. destruct (well_locked_covered body WL) as (m & Hm & C).
  exists m. split; [exact Hm|]. intros t Hi.
  assert (I : Inv1 m (run body ths sched)) by (unfold run; apply (inv1_run_from body m C); apply inv1_init).
  pose proof (inside_holds m _ t I Hi) as Hh. split; [exact Hh|].
  intros t' Ht'. apply (i1_unique m _ I); assumption.
Qed.

Lemma body_ok_parts body : body_ok body = true ->
  exists m, In m (static_guards body) /\ covered m false body = true /\ insert_count body = 1.
Proof.
  unfold body_ok, single_insert. intros H. apply andb_true_iff in H as [WL SI].
  destruct (well_locked_covered body WL) as (m & Hm & C). apply Nat.eqb_eq in SI. eauto.
Qed.

Lemma invariants body m ths sched : covered m false body = true -> insert_count body = 1 ->
  Inv1 m (run body ths sched) /\ Inv2 (map snd ths) (run body ths sched).
Proof.
  intros C O. unfold run. split.
  - apply (inv1_run_from body m C). apply inv1_init.
  - apply (inv2_run_from body m C O); [apply inv1_init | apply inv2_init].
Qed.

Theorem partial_output body : body_ok body = true ->
  forall ths sched, valid_partial_output (map snd ths) (st_out (run body ths sched)).
Proof.
  intros OK ths sched. destruct (body_ok_parts body OK) as (m & _ & C & O).
  destruct (invariants body m ths sched C O) as [I J]. set (st := run body ths sched) in *.
  assert (Hprefix : forall t, exists later, map snd (filter (from t) (st_order st)) ++ later = nth t (map snd ths) []).
  { intros t. destruct (nth_error (st_threads st) t) as [th|] eqn:E.
    - destruct (i2_prog _ st J t th E) as [_ P]. eexists. exact P.
    - apply nth_error_None in E. rewrite (i2_len _ st J) in E.
      rewrite (filter_from_none _ _ t (i2_bound _ st J) E). rewrite nth_overflow by exact E. exists []. reflexivity. }
  pose proof (i2_out _ st J) as Out. unfold out_ok in Out.
  destruct (st_inside st) as [t|] eqn:Hin.
  - destruct Out as (th & done & rest & A & B & Cc & D).
    exists (st_order st), done. split; [exact D|]. split; [|exact Hprefix].
    right. exists t, (th_rec th), (length (filter (from t) (st_order st))).
    destruct (i1_threads m st I t th A) as [_ W]. destruct (W rest B) as [_ [r Hr]].
    destruct (i2_prog _ st J t th A) as [_ P]. unfold pend in P. rewrite Hr in P. simpl in P.
    split; [|split; [|reflexivity]].
    + rewrite <- P. rewrite nth_error_app2 by (rewrite map_length; lia).
      rewrite map_length, Nat.sub_diag. reflexivity.
    + rewrite Cc. apply prefixb_app.
  - exists (st_order st), []. split; [rewrite app_nil_r; exact Out|]. split; [left; reflexivity | exact Hprefix].
Qed.

Theorem complete_output body : body_ok body = true ->
  forall ths sched, finished (run body ths sched) = true ->
    explains (st_order (run body ths sched)) (st_out (run body ths sched)) /\
    exactly_once_in_program_order (map snd ths) (st_order (run body ths sched)).
Proof.
  intros OK ths sched F. destruct (body_ok_parts body OK) as (m & _ & C & O).
  destruct (invariants body m ths sched C O) as [I J]. set (st := run body ths sched) in *.
  unfold finished in F.
  assert (Fin : forall t th, nth_error (st_threads st) t = Some th ->
                 th_ops th = [] /\ th_wr th = None /\ th_todo th = []).
  { intros t th E. pose proof (forallb_nth_error _ _ _ _ F E) as T. unfold thread_finished in T.
    destruct (th_ops th); [|discriminate]. destruct (th_wr th); [discriminate|].
    destruct (th_todo th); [auto|discriminate]. }
  split.
  - pose proof (i2_out _ st J) as Out. unfold out_ok in Out. destruct (st_inside st) as [t|] eqn:Hin; [|exact Out].
    destruct Out as (th & done & rest & A & B & _). destruct (Fin t th A) as (_ & W & _). congruence.
  - intros t. destruct (nth_error (st_threads st) t) as [th|] eqn:E.
    + destruct (i2_prog _ st J t th E) as [_ P]. destruct (Fin t th E) as (A & _ & B).
      unfold pend in P. rewrite A, B in P. simpl in P. rewrite app_nil_r in P. exact P.
    + apply nth_error_None in E. rewrite (i2_len _ st J) in E.
      rewrite (filter_from_none _ _ t (i2_bound _ st J) E). rewrite nth_overflow by exact E. reflexivity.
Qed.

Corollary complete_valid_output body : body_ok body = true ->
  forall ths sched, finished (run body ths sched) = true ->
    valid_output (map snd ths) (st_out (run body ths sched)).
Proof.
  intros OK ths sched F. exists (st_order (run body ths sched)). apply complete_output; assumption.
Qed.

(* ------------------------------------------------------------------ the executable order checker *)

Lemma strs_eqb_true a b : strs_eqb a b = true <-> a = b.
Proof.
  revert b; induction a as [|x a IH]; intros [|y b]; simpl; try (split; [discriminate|discriminate]).
  - split; reflexivity.
  - rewrite andb_true_iff, seq_eqb_true, IH. split; [intros [-> ->]; reflexivity | intros [= -> ->]; auto].
Qed.

Lemma valid_orderb_iff recs order :
  valid_orderb recs order = true <-> exactly_once_in_program_order recs order.
Proof.
  unfold valid_orderb, exactly_once_in_program_order. rewrite andb_true_iff, !forallb_forall. split.
  - intros [Hb He] t. destruct (Nat.lt_ge_cases t (length recs)) as [Hl|Hg].
    + apply strs_eqb_true. apply He. apply in_seq. lia.
    + rewrite (filter_from_none order (length recs) t); [rewrite nth_overflow by exact Hg; reflexivity | | exact Hg].
      intros p Hp. apply Nat.ltb_lt. apply Hb. exact Hp.
  - intros H. split.
    + intros p Hp. apply Nat.ltb_lt. destruct (Nat.lt_ge_cases (fst p) (length recs)) as [Hl|Hg]; [exact Hl|exfalso].
      specialize (H (fst p)). rewrite nth_overflow in H by exact Hg.
      assert (In p (filter (from (fst p)) order)) as Hin by (apply filter_In; split; [exact Hp | unfold from; apply Nat.eqb_refl]).
      destruct (filter (from (fst p)) order); [destruct Hin | discriminate].
    + intros t _. apply strs_eqb_true. apply H.
Qed.

Theorem model_accepted body : body_ok body = true ->
  forall ths sched, finished (run body ths sched) = true ->
    valid_orderb (map snd ths) (st_order (run body ths sched)) = true /\
    st_out (run body ths sched) = concat (map snd (st_order (run body ths sched))).
Proof.
  intros OK ths sched F. destruct (complete_output body OK ths sched F) as [E P].
  split; [apply valid_orderb_iff; exact P | exact E].
Qed.

(* ------------------------------------------------------------------ invariant 3: no deadlock *)

(* along `ops` the thread holds at most one lock at a time (h: the lock it holds now) and holds none at the end *)
Fixpoint olb (h : option lockid) (ops : list op) : bool :=
  match ops with
  | [] => negb (is_some h)
  | OAcquire l :: r => negb (is_some h) && olb (Some l) r
  | ORelease l :: r => match h with Some l' => lockid_eqb l' l && olb None r | None => false end
  | _ :: r => olb h r
  end.

Lemma solo_olb inst b : forall h pending k,
  solo (is_some h) b = true ->
  (pending = [] \/ exists l, pending = [l] /\ h = Some l) ->
  olb h (expand_block inst b pending ++ k) = olb (match pending with [] => h | _ => None end) k.
Proof.
  induction b as [|mr r IH|r IH|r IH|i IHi r IHr|r IH]; intros h pending k S P; simpl in *.
  - destruct P as [->|(l & -> & ->)]; simpl; [reflexivity|]. rewrite lockid_eqb_refl. reflexivity.
  - apply andb_true_iff in S as [Hn S]. destruct h as [l0|]; [discriminate|].
    destruct P as [->|(l & _ & E)]; [|discriminate]. simpl.
    rewrite (IH (Some (resolve inst mr)) [resolve inst mr] k S); [reflexivity|].
    right. eauto.
  - apply (IH h pending k S P).
  - apply (IH h pending k S P).
  - apply andb_true_iff in S as [Si Sr]. rewrite <- app_assoc.
    rewrite (IHi h [] _ Si (or_introl eq_refl)). apply (IHr h pending k Sr P).
  - apply (IH h pending k S P).
Qed.

Definition op_cost (rec : str) (o : op) : nat := match o with OInsert => length rec + 2 | _ => 1 end.
Definition ops_cost (rec : str) (ops : list op) : nat := list_sum (map (op_cost rec) ops).

Section Progress.
Variable body : sink_body.
Hypothesis Hsolo : solo false body = true.

(* scheduling slots thread th still needs *)
Definition work (th : thread) : nat :=
  (match th_wr th with
   | Some r => 1 + length r + ops_cost (th_rec th) (tl (th_ops th))
   | None => ops_cost (th_rec th) (th_ops th)
   end) + list_sum (map (fun r => 1 + ops_cost r (expand (th_inst th) body)) (th_todo th)).

Definition total_work (st : state) : nat := list_sum (map work (st_threads st)).

Definition enabled (st : state) (th : thread) : bool :=
  match th_wr th with
  | Some _ => true
  | None => match th_ops th with
            | [] => match th_todo th with [] => false | _ => true end
            | OAcquire l :: _ => negb (is_some (holder (st_held st) l))
            | _ => true
            end
  end.

Lemma list_sum_set_nth {A} (f : A -> nat) l t x y :
  nth_error l t = Some x -> f y < f x -> list_sum (map f (set_nth l t y)) < list_sum (map f l).
Proof.
  revert t; induction l as [|z l IH]; intros [|t] E H; simpl in *; try discriminate.
  - injection E as ->. lia.
  - specialize (IH t E H). lia.
Qed.

Lemma enabled_decreases st t th :
  nth_error (st_threads st) t = Some th -> enabled st th = true ->
  (forall w, th_wr th = Some w -> exists r, th_ops th = OInsert :: r) ->
  total_work (step_thread body t st) < total_work st.
Proof.
  intros Ht En Hw. unfold step_thread. rewrite Ht. unfold enabled in En. unfold total_work.
  destruct (th_wr th) as [[|b rest]|] eqn:Ew.
  - simpl. apply (list_sum_set_nth work _ t th); [exact Ht|]. unfold work; simpl. rewrite Ew. simpl. lia.
  - simpl. apply (list_sum_set_nth work _ t th); [exact Ht|]. unfold work; simpl. rewrite Ew. simpl. lia.
  - destruct (th_ops th) as [|o ops] eqn:Eo.
    + destruct (th_todo th) as [|r rs] eqn:Et; [discriminate|].
      simpl. apply (list_sum_set_nth work _ t th); [exact Ht|]. unfold work; simpl. rewrite Ew, Eo, Et. simpl.
      unfold ops_cost. lia.
    + destruct o as [l|l| | |].
      * destruct (holder (st_held st) l); [discriminate|].
        simpl. apply (list_sum_set_nth work _ t th); [exact Ht|]. unfold work; simpl. rewrite Ew, Eo. simpl.
        unfold ops_cost. simpl. lia.
      * simpl. apply (list_sum_set_nth work _ t th); [exact Ht|]. unfold work; simpl. rewrite Ew, Eo. simpl.
        unfold ops_cost. simpl. lia.
      * simpl. apply (list_sum_set_nth work _ t th); [exact Ht|]. unfold work; simpl. rewrite Ew, Eo. simpl.
        unfold ops_cost. simpl. lia.
      * simpl. apply (list_sum_set_nth work _ t th); [exact Ht|]. unfold work; simpl. rewrite Ew, Eo. simpl.
        unfold ops_cost. simpl. lia.
      * simpl. apply (list_sum_set_nth work _ t th); [exact Ht|]. unfold work; simpl. rewrite Ew, Eo. simpl.
        unfold ops_cost. simpl. lia.
Qed.

Definition thread_ok3 (st : state) (t : nat) (th : thread) : Prop :=
  (exists h, olb h (th_ops th) = true /\ forall l, holdsb (st_held st) l t = true <-> h = Some l) /\
  (forall w, th_wr th = Some w -> exists r, th_ops th = OInsert :: r).

Record Inv3 (st : state) : Prop := mkInv3 {
  i3_threads : forall t th, nth_error (st_threads st) t = Some th -> thread_ok3 st t th;
  i3_holders : forall l u, holdsb (st_held st) l u = true -> exists th, nth_error (st_threads st) u = Some th
}.

Lemma holders_kept (threads : list thread) (held : list (lockid * nat)) t thn :
  (forall l u, holdsb held l u = true -> exists th, nth_error threads u = Some th) ->
  forall l u, holdsb held l u = true -> exists th, nth_error (set_nth threads t thn) u = Some th.
Proof.
  intros H l u Hu. destruct (H l u Hu) as [th E]. pose proof (nth_error_lt _ _ _ E) as Hlt.
  destruct (nth_error (set_nth threads t thn) u) eqn:E'; [eauto|].
  apply nth_error_None in E'. rewrite set_nth_length in E'. lia.
Qed.

Lemma inv3_step st t : Inv3 st -> Inv3 (step_thread body t st).
Proof.
  intros I. unfold step_thread.
  destruct (nth_error (st_threads st) t) as [th|] eqn:Ht; [|exact I].
  pose proof (nth_error_lt _ _ _ Ht) as Hlt.
  destruct (i3_threads st I t th Ht) as [(h & Ho & Hh) W].
  destruct (th_wr th) as [[|b rest]|] eqn:Ew.
  - destruct (W [] eq_refl) as [r Hr].
    constructor; simpl.
    + intros t' th' H'. apply nth_error_set_nth_inv in H' as [(-> & -> & _)|(N & H')]; unfold thread_ok3; simpl.
      * split; [|discriminate]. exists h. rewrite Hr in *. simpl in *. split; assumption.
      * exact (i3_threads st I t' th' H').
    + apply holders_kept. apply (i3_holders st I).
  - constructor; simpl.
    + intros t' th' H'. apply nth_error_set_nth_inv in H' as [(-> & -> & _)|(N & H')]; unfold thread_ok3; simpl.
      * split; [exists h; split; assumption|]. intros w _. apply (W _ eq_refl).
      * exact (i3_threads st I t' th' H').
    + apply holders_kept. apply (i3_holders st I).
  - destruct (th_ops th) as [|o ops] eqn:Eo.
    + destruct (th_todo th) as [|r rs] eqn:Et; [exact I|].
      simpl in Ho. destruct h as [l0|]; [discriminate|].
      constructor; simpl.
      * intros t' th' H'. apply nth_error_set_nth_inv in H' as [(-> & -> & _)|(N & H')]; unfold thread_ok3; simpl.
        -- split; [|discriminate]. exists None. split; [|exact Hh].
           unfold expand. rewrite <- (app_nil_r (expand_block _ body [])).
           rewrite (solo_olb _ body None [] [] Hsolo (or_introl eq_refl)). reflexivity.
        -- exact (i3_threads st I t' th' H').
      * apply holders_kept. apply (i3_holders st I).
    + destruct o as [l|l| | |].
      * destruct (holder (st_held st) l) as [u|] eqn:Eh; [exact I|].
        simpl in Ho. apply andb_true_iff in Ho as [Hn Ho]. destruct h as [l0|]; [discriminate|].
        constructor; simpl.
        -- intros t' th' H'. apply nth_error_set_nth_inv in H' as [(-> & -> & _)|(N & H')]; unfold thread_ok3; simpl.
           ++ split; [|rewrite Ew; discriminate]. exists (Some l). split; [exact Ho|].
              intros l1. rewrite holdsb_cons, Nat.eqb_refl, andb_true_r.
              assert (holdsb (st_held st) l1 t = false) as ->.
              { destruct (holdsb (st_held st) l1 t) eqn:E; [|reflexivity]. apply Hh in E. discriminate. }
              rewrite orb_false_r. rewrite lockid_eqb_true. split; [intros ->; reflexivity | intros [= ->]; reflexivity].
           ++ destruct (i3_threads st I t' th' H') as [(h' & Ho' & Hh') W']. split; [|exact W'].
              exists h'. split; [exact Ho'|]. intros l1. rewrite holdsb_cons.
              assert (t =? t' = false) as -> by (apply Nat.eqb_neq; congruence).
              rewrite andb_false_r. simpl. apply Hh'.
        -- intros l1 u. rewrite holdsb_cons. intros Hu. apply orb_true_iff in Hu as [Hu|Hu].
           ++ apply andb_true_iff in Hu as [_ Hu]. apply Nat.eqb_eq in Hu. subst u.
              eexists. apply nth_error_set_nth_eq. exact Hlt.
           ++ eapply holders_kept; [apply (i3_holders st I) | exact Hu].
      * simpl in Ho. destruct h as [l0|]; [|discriminate]. apply andb_true_iff in Ho as [El Ho].
        apply lockid_eqb_true in El. subst l0.
        constructor; simpl.
        -- intros t' th' H'. apply nth_error_set_nth_inv in H' as [(-> & -> & _)|(N & H')]; unfold thread_ok3; simpl.
           ++ split; [|rewrite Ew; discriminate]. exists None. split; [exact Ho|].
              intros l1. rewrite holdsb_unhold, Nat.eqb_refl, andb_true_r. split; [|discriminate].
              intros H. apply andb_true_iff in H as [H1 H2]. apply Hh in H1. injection H1 as <-.
              rewrite lockid_eqb_refl in H2. discriminate.
           ++ destruct (i3_threads st I t' th' H') as [(h' & Ho' & Hh') W']. split; [|exact W'].
              exists h'. split; [exact Ho'|]. intros l1. rewrite holdsb_unhold.
              assert (t =? t' = false) as -> by (apply Nat.eqb_neq; congruence).
              rewrite andb_false_r. simpl. rewrite andb_true_r. apply Hh'.
        -- intros l1 u. rewrite holdsb_unhold. intros Hu. apply andb_true_iff in Hu as [Hu _].
           eapply holders_kept; [apply (i3_holders st I) | exact Hu].
      * constructor; simpl.
        -- intros t' th' H'. apply nth_error_set_nth_inv in H' as [(-> & -> & _)|(N & H')]; unfold thread_ok3; simpl.
           ++ rewrite Eo. split; [exists h; split; assumption | eauto].
           ++ exact (i3_threads st I t' th' H').
        -- apply holders_kept. apply (i3_holders st I).
      * constructor; simpl.
        -- intros t' th' H'. apply nth_error_set_nth_inv in H' as [(-> & -> & _)|(N & H')]; unfold thread_ok3; simpl.
           ++ split; [exists h; split; assumption | rewrite Ew; discriminate].
           ++ exact (i3_threads st I t' th' H').
        -- apply holders_kept. apply (i3_holders st I).
      * constructor; simpl.
        -- intros t' th' H'. apply nth_error_set_nth_inv in H' as [(-> & -> & _)|(N & H')]; unfold thread_ok3; simpl.
           ++ split; [exists h; split; assumption | rewrite Ew; discriminate].
           ++ exact (i3_threads st I t' th' H').
        -- apply holders_kept. apply (i3_holders st I).
Qed.

Lemma inv3_init ths : Inv3 (init_state ths).
Proof.
  constructor; simpl.
  - intros t th H. apply nth_error_In in H. apply in_map_iff in H as [p [<- _]].
    unfold thread_ok3; simpl. split; [|discriminate]. exists None. split; [reflexivity|].
    intros l. split; discriminate.
  - discriminate.
Qed.

Lemma inv3_run_from sched : forall st, Inv3 st -> Inv3 (run_from body sched st).
Proof.
  unfold run_from. induction sched as [|t s IH]; intros st I; simpl; [exact I|].
  apply IH. apply inv3_step. exact I.
Qed.

Lemma holder_some_holdsb held l u : holder held l = Some u -> holdsb held l u = true.
Proof.
  induction held as [|[l0 v] held IH]; simpl; [discriminate|].
  unfold holdsb. simpl. destruct (lockid_eqb l0 l) eqn:E.
  - intros [= ->]. rewrite Nat.eqb_refl. reflexivity.
  - intros H. simpl. apply IH. exact H.
Qed.

Lemma forallb_false_nth {A} (f : A -> bool) l : forallb f l = false -> exists i x, nth_error l i = Some x /\ f x = false.
Proof.
  induction l as [|y l IH]; simpl; [discriminate|]. destruct (f y) eqn:E; simpl.
  - intros H. destruct (IH H) as (i & x & E1 & E2). exists (S i), x. auto.
  - intros _. exists 0, y. auto.
Qed.

(* some thread can always move: no deadlock *)
Lemma exists_enabled st : Inv3 st -> finished st = false ->
  exists t th, nth_error (st_threads st) t = Some th /\ enabled st th = true.
Proof.
  intros I F. unfold finished in F. apply forallb_false_nth in F as (t & th & Ht & Hf).
  destruct (enabled st th) eqn:En; [eauto|].
  unfold enabled in En. unfold thread_finished in Hf.
  destruct (th_wr th) eqn:Ew; [discriminate|].
  destruct (th_ops th) as [|o ops] eqn:Eo.
  - destruct (th_todo th); discriminate.
  - destruct o as [l| | | |]; try discriminate.
    destruct (holder (st_held st) l) as [u|] eqn:Eh; [|discriminate].
    (* t waits for l, held by u; u holds one lock, so u is not waiting *)
    pose proof (holder_some_holdsb _ _ _ Eh) as Hu.
    destruct (i3_holders st I l u Hu) as [thu Eu].
    exists u, thu. split; [exact Eu|].
    destruct (i3_threads st I u thu Eu) as [(h & Ho & Hh) _].
    apply Hh in Hu. subst h. unfold enabled.
    destruct (th_wr thu); [reflexivity|].
    destruct (th_ops thu) as [|o' ops']; [simpl in Ho; discriminate|].
    destruct o'; try reflexivity. simpl in Ho. discriminate.
Qed.

Lemma completes_from : forall n st, total_work st <= n -> Inv3 st ->
  exists sched, finished (run_from body sched st) = true.
Proof.
  induction n as [|n IH]; intros st Hn I.
  - destruct (finished st) eqn:F; [exists []; exact F|].
    destruct (exists_enabled st I F) as (t & th & Ht & En).
    pose proof (enabled_decreases st t th Ht En (proj2 (i3_threads st I t th Ht))). lia.
  - destruct (finished st) eqn:F; [exists []; exact F|].
    destruct (exists_enabled st I F) as (t & th & Ht & En).
    pose proof (enabled_decreases st t th Ht En (proj2 (i3_threads st I t th Ht))) as D.
    destruct (IH (step_thread body t st)) as [s Hs]; [lia | apply inv3_step; exact I|].
    exists (t :: s). exact Hs.
Qed.

End Progress.

Theorem no_deadlock body : solo false body = true ->
  forall ths sched, exists more, finished (run body ths (sched ++ more)) = true.
Proof.
  intros S ths sched.
  destruct (completes_from body S _ (run body ths sched) (le_n _)) as [more Hm].
  { unfold run. apply inv3_run_from; [exact S | apply inv3_init]. }
  exists more. unfold run, run_from in *. rewrite fold_left_app. exact Hm.
Qed.

(* ------------------------------------------------------------------ what goes wrong without the lock
   (finite witnesses; these are also the candidate schedules tried on the implementation when Tie_C09 breaks:
   two threads, both enter the buffer before either leaves) *)

(* no guard at all *)
Lemma unlocked_refuted :
  exists ths sched, st_corrupt (run (SInsert (SFlush SEnd)) ths sched) = true.
Proof. exists two_threads, [0; 1; 0; 1]. vm_compute. reflexivity. Qed.

(* the guard is declared after the insertion *)
Lemma lock_after_insert_refuted :
  exists ths sched, st_corrupt (run (SInsert (SLockGuard (MStatic 0) (SFlush SEnd))) ths sched) = true.
Proof. exists two_threads, [0; 1; 0; 1]. vm_compute. reflexivity. Qed.

(* the guard lives in an inner block that has ended (or is a temporary destroyed at once) *)
Lemma ended_guard_refuted :
  exists ths sched, st_corrupt (run (SBlock (SLockGuard (MStatic 0) SEnd) (SInsert SEnd)) ths sched) = true.
Proof. exists two_threads, [0; 0; 0; 0; 1; 1; 1; 1]. vm_compute. reflexivity. Qed.

(* the mutex is a per-instance member and the two threads log through different instances (logger types) *)
Lemma member_mutex_refuted :
  exists ths sched, st_corrupt (run (SLockGuard (MMember 0) (SInsert SEnd)) ths sched) = true.
Proof. exists two_threads, [0; 1; 0; 1; 0; 1]. vm_compute. reflexivity. Qed.

(* and the bytes really interleave: the output is not a concatenation of the records in any order *)
Lemma unlocked_interleaves :
  exists ths sched, finished (run (SInsert SEnd) ths sched) = true /\
    st_out (run (SInsert SEnd) ths sched) = [x61; x63; x62; x64].
Proof. exists two_threads, [0; 1; 0; 1; 0; 1; 0; 1; 0; 1]. vm_compute. split; reflexivity. Qed.

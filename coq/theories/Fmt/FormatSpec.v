(* Fmt/FormatSpec.v — what format and the exception message are supposed to be, stated without the
   iterator loop of the implementation: cut the format at its placeholders (split), put the arguments
   between the pieces.  Arguments are the already rendered texts (list str). *)
From Coq Require Import List Arith Bool ZArith.
From Coq Require Decimal.
From Coq Require Import Init.Byte.
From Nitro Require Import Base.Bytes Str.StrModel Str.StrSpec Fmt.FormatModel.
Import ListNotations.
Local Open Scope list_scope.

(* number of placeholders: left-to-right non-overlapping occurrences of "{}" in the format *)
Definition placeholder_count (fmt : str) : nat := count_nonoverlapping ph fmt.

(* the text outside the placeholders: the pieces of the format cut at "{}".  split never returns None
   for a non-empty separator (Str.StrProofs.split_lossless); the second branch is never taken. *)
Definition pieces (fmt : str) : list str :=
  match split ph fmt with Some l => l | None => [fmt] end.

(* p0 a0 p1 a1 ... pk  (one piece more than arguments) *)
Fixpoint interleave (ps : list str) (args : list str) : str :=
  match ps with
  | [] => []
  | p :: ps' => match args with
                | [] => p
                | a :: args' => p ++ a ++ interleave ps' args'
                end
  end.

Definition spec_format (fmt : str) (args : list str) : res :=
  if length args =? placeholder_count fmt then Ok (interleave (pieces fmt) args)
  else Raise (if length args <? placeholder_count fmt then LessArgs else MoreArgs).

(* the same result described with opaque markers: a template computed from the format alone, in which
   the i-th placeholder has become the marker Arg i; the arguments are substituted afterwards and are
   therefore never looked at by whatever located the placeholders *)
Inductive item := Lit (s : str) | Arg (i : nat).
Fixpoint template_of (ps : list str) (i : nat) : list item :=
  match ps with
  | [] => []
  | [p] => [Lit p]
  | p :: ps' => Lit p :: Arg i :: template_of ps' (S i)
  end.
Definition template (fmt : str) : list item := template_of (pieces fmt) 0.
Definition subst (t : list item) (args : list str) : str :=
  concat (map (fun it => match it with Lit s => s | Arg i => nth i args [] end) t).
(* the same substitution with the text of marker i given as a function of i *)
Definition subst_fn (t : list item) (text : nat -> str) : str :=
  concat (map (fun it => match it with Lit s => s | Arg i => text i end) t).
Definition markers (t : list item) : list nat :=
  concat (map (fun it => match it with Lit _ => [] | Arg i => [i] end) t).

(* all arguments a chain of % / args(...) calls supplies, in the order written *)
Definition flatten_ops (ops : list op) : list arg :=
  concat (map (fun o => match o with Pct a => [a] | Args l => l end) ops).

(* streaming a formatter into a stream that holds `pre` and has a pending width/fill/adjustment, then a
   sentinel: with the right number of arguments the whole text is one padded item and the sentinel is not
   padded; otherwise NOTHING of the formatter reaches the stream (and the width is still pending for the
   sentinel) *)
Definition spec_stream (pre : str) (w : nat) (c : byte) (left : bool) (fmt : str) (args : list str)
    (sentinel : str) : str * bool :=
  match spec_format fmt args with
  | Ok text => (pre ++ pad w c left text ++ sentinel, true)
  | Raise _ => (pre ++ pad w c left sentinel, false)
  end.

(* message of a raised exception: the argument texts one after the other — the STREAM texts (render); the
   conversion text an argument may also have (ADual) does not occur in the specification *)
Definition spec_message (rendered : list str) : str := concat rendered.

(* a chain with the conversion texts of its arguments removed / replaced *)
Definition map_op (g : arg -> arg) (o : op) : op :=
  match o with Pct a => Pct (g a) | Args l => Args (map g l) end.

(* reading a decimal numeral back (for the round trip of print_dec) *)
Definition digit_of (b : byte) : option (Decimal.uint -> Decimal.uint) :=
  match b with
  | x30 => Some Decimal.D0 | x31 => Some Decimal.D1 | x32 => Some Decimal.D2 | x33 => Some Decimal.D3
  | x34 => Some Decimal.D4 | x35 => Some Decimal.D5 | x36 => Some Decimal.D6 | x37 => Some Decimal.D7
  | x38 => Some Decimal.D8 | x39 => Some Decimal.D9
  | _ => None
  end.
Fixpoint parse_uint (s : str) : option Decimal.uint :=
  match s with
  | [] => Some Decimal.Nil
  | b :: s' => match digit_of b, parse_uint s' with
               | Some d, Some u => Some (d u)
               | _, _ => None
               end
  end.
Definition read_dec (s : str) : option Z :=
  match s with
  | x2d :: s' => option_map (fun u => Z.of_int (Decimal.Neg u)) (parse_uint s')
  | _ => option_map (fun u => Z.of_int (Decimal.Pos u)) (parse_uint s)
  end.

(* Fmt/FormatProofs.v — the model of format.hpp / exception.hpp satisfies property C08, for all
   format strings and all argument lists. *)
From Coq Require Import List Arith Lia Bool ZArith.
From Coq Require Decimal DecimalZ.
From Coq Require Import Init.Byte.
From Nitro Require Import Base.Bytes Base.ListX Str.StrModel Str.StrSpec Str.StrProofs.
From Nitro Require Import Fmt.FormatModel Fmt.FormatSpec.
Import ListNotations.
Local Open Scope list_scope.

Lemma ph_nonempty : ph <> [].
Proof. discriminate. Qed.

Definition map_ok (f : str -> str) (r : res) : res :=
  match r with Ok s => Ok (f s) | Raise e => Raise e end.

(* ---------- the loop, seen from the unread rest of the format ---------- *)

(* what str() does with the rest of the format that has not been copied yet *)
Fixpoint fmt_rel (rest : str) (args : list str) : res :=
  match args with
  | [] => match find ph rest with None => Ok rest | Some _ => Raise LessArgs end
  | a :: args' =>
    match find ph rest with
    | None => Raise MoreArgs
    | Some i => map_ok (fun r => firstn i rest ++ a ++ r) (fmt_rel (skipn (i + length ph) rest) args')
    end
  end.

Lemma map_ok_map_ok f g r : map_ok f (map_ok g r) = map_ok (fun s => f (g s)) r.
Proof. destruct r; reflexivity. Qed.

Lemma map_ok_ext f g r : (forall s, f s = g s) -> map_ok f r = map_ok g r.
Proof. intros H. destruct r; simpl; [rewrite H|]; reflexivity. Qed.

(* loop invariant: `input` is where copying resumes, the regex iterator holds the first match at or
   after `input`, `result` is what has been produced so far *)
Lemma str_loop_rel args : forall fmt input result,
  str_loop fmt args (option_map (fun i => input + i) (find ph (skipn input fmt))) input result
  = map_ok (app result) (fmt_rel (skipn input fmt) args).
Proof.
  induction args as [|a args IH]; intros fmt input result; cbn [str_loop fmt_rel].
  - destruct (find ph (skipn input fmt)) as [i|]; reflexivity.
  - destruct (find ph (skipn input fmt)) as [i|] eqn:F; cbn [option_map map_ok]; [|reflexivity].
    unfold re_next.
    replace (skipn (i + length ph) (skipn input fmt)) with (skipn (input + i + length ph) fmt)
      by (rewrite skipn_skipn'; f_equal; lia).
    rewrite (IH fmt (input + i + length ph)).
    rewrite map_ok_map_ok. apply map_ok_ext. intros s.
    unfold substr. replace (input + i - input) with i by lia.
    rewrite <- !app_assoc. reflexivity.
Qed.

Lemma format_str_rel fmt args : format_str fmt args = fmt_rel fmt args.
Proof.
  unfold format_str, re_first.
  pose proof (str_loop_rel args fmt 0 []) as H. simpl skipn in H.
  replace (option_map (fun i => 0 + i) (find ph fmt)) with (find ph fmt) in H
    by (destruct (find ph fmt); reflexivity).
  rewrite H. destruct (fmt_rel fmt args); reflexivity.
Qed.

(* ---------- pieces and the placeholder count ---------- *)

Lemma pieces_split fmt : split ph fmt = Some (pieces fmt).
Proof.
  unfold pieces. destruct (split_total ph fmt ph_nonempty) as [l ->]. reflexivity.
Qed.

Lemma pieces_none fmt : find ph fmt = None -> pieces fmt = [fmt].
Proof.
  intros F. unfold pieces. rewrite (split_unfold ph fmt ph_nonempty), F. reflexivity.
Qed.

Lemma pieces_some fmt i : find ph fmt = Some i ->
  pieces fmt = firstn i fmt :: pieces (skipn (i + length ph) fmt).
Proof.
  intros F. unfold pieces at 1. rewrite (split_unfold ph fmt ph_nonempty), F.
  rewrite pieces_split. reflexivity.
Qed.

Lemma count_none fmt : find ph fmt = None -> placeholder_count fmt = 0.
Proof. apply count_scan_none. Qed.

Lemma count_some fmt i : find ph fmt = Some i ->
  placeholder_count fmt = S (placeholder_count (skipn (i + length ph) fmt)).
Proof. apply count_scan_some. exact ph_nonempty. Qed.

Theorem pieces_lossless fmt : intercalate ph (pieces fmt) = fmt.
Proof.
  destruct (split_lossless ph fmt ph_nonempty) as (l & H1 & H2).
  rewrite pieces_split in H1. injection H1 as ->. exact H2.
Qed.

Theorem pieces_clean fmt : Forall (clean ph) (pieces fmt).
Proof. apply (split_pieces_clean ph fmt). apply pieces_split. Qed.

Theorem pieces_count fmt : length (pieces fmt) = S (placeholder_count fmt).
Proof. apply (split_count ph fmt). apply pieces_split. Qed.

(* ---------- the loop equals the split-based formula ---------- *)

Lemma fmt_rel_spec n : forall rest args, length rest <= n -> fmt_rel rest args = spec_format rest args.
Proof.
  induction n as [|n IH]; intros rest args Hn.
  - (* the empty format *)
    destruct rest; [|simpl in Hn; lia].
    destruct args; reflexivity.
  - destruct args as [|a args]; cbn [fmt_rel]; unfold spec_format.
    + destruct (find ph rest) as [i|] eqn:F.
      * rewrite (count_some _ _ F). reflexivity.
      * rewrite (count_none _ F), (pieces_none _ F). reflexivity.
    + destruct (find ph rest) as [i|] eqn:F.
      * rewrite (count_some _ _ F), (pieces_some _ _ F).
        rewrite IH.
        -- unfold spec_format. cbn [length].
           set (c := placeholder_count (skipn (i + length ph) rest)).
           change (S (length args) =? S c) with (length args =? c).
           change (S (length args) <? S c) with (length args <? c).
           destruct (length args =? c); reflexivity.
        -- apply find_some in F as (_ & H2 & _). rewrite skipn_length. simpl length in *. lia.
      * rewrite (count_none _ F). reflexivity.
Qed.

Theorem format_spec fmt args : format_str fmt args = spec_format fmt args.
Proof. rewrite format_str_rel. apply (fmt_rel_spec (length fmt)). lia. Qed.

(* ---------- arity ---------- *)

Theorem format_arity fmt args :
  (exists r, format_str fmt args = Ok r) <-> length args = placeholder_count fmt.
Proof.
  rewrite format_spec. unfold spec_format.
  destruct (length args =? placeholder_count fmt) eqn:E.
  - apply Nat.eqb_eq in E. split; [intros _; exact E | intros _; eexists; reflexivity].
  - apply Nat.eqb_neq in E. split; [intros [r H]; discriminate | intros H; contradiction].
Qed.

Theorem format_less_args fmt args :
  length args < placeholder_count fmt -> format_str fmt args = Raise LessArgs.
Proof.
  intros H. rewrite format_spec. unfold spec_format.
  destruct (length args =? placeholder_count fmt) eqn:E; [apply Nat.eqb_eq in E; lia|].
  destruct (length args <? placeholder_count fmt) eqn:L; [reflexivity | apply Nat.ltb_ge in L; lia].
Qed.

Theorem format_more_args fmt args :
  placeholder_count fmt < length args -> format_str fmt args = Raise MoreArgs.
Proof.
  intros H. rewrite format_spec. unfold spec_format.
  destruct (length args =? placeholder_count fmt) eqn:E; [apply Nat.eqb_eq in E; lia|].
  destruct (length args <? placeholder_count fmt) eqn:L; [apply Nat.ltb_lt in L; lia | reflexivity].
Qed.

(* ---------- everything outside the placeholders is preserved ---------- *)

Theorem format_outside_preserved fmt args r : format_str fmt args = Ok r ->
  exists ps, length ps = S (length args) /\ intercalate ph ps = fmt /\ Forall (clean ph) ps
             /\ r = interleave ps args.
Proof.
  intros H. assert (Hl : length args = placeholder_count fmt) by (apply format_arity; eauto).
  rewrite format_spec in H. unfold spec_format in H. rewrite Hl, Nat.eqb_refl in H. injection H as <-.
  exists (pieces fmt). rewrite pieces_count, Hl. repeat split.
  - apply pieces_lossless.
  - apply pieces_clean.
Qed.

Lemma interleave_repeat sep ps : interleave ps (repeat sep (pred (length ps))) = intercalate sep ps.
Proof.
  induction ps as [|p ps IH]; [reflexivity|].
  destruct ps as [|q ps]; [reflexivity|].
  change (pred (length (p :: q :: ps))) with (S (length ps)).
  change (pred (length (q :: ps))) with (length ps) in IH.
  change (interleave (p :: q :: ps) (repeat sep (S (length ps))))
    with (p ++ sep ++ interleave (q :: ps) (repeat sep (length ps))).
  rewrite IH. reflexivity.
Qed.

(* putting "{}" back for every placeholder gives the format back *)
Theorem format_identity fmt : format_str fmt (repeat ph (placeholder_count fmt)) = Ok fmt.
Proof.
  rewrite format_spec. unfold spec_format. rewrite repeat_length, Nat.eqb_refl.
  f_equal. pose proof (interleave_repeat ph (pieces fmt)) as H.
  rewrite pieces_count in H. cbn [pred] in H.
  rewrite H. apply pieces_lossless.
Qed.

(* ---------- arguments are inserted verbatim and never rescanned ---------- *)

(* one-step laws: the first argument goes, unchanged, where the first placeholder of the FORMAT was;
   what follows is the format of the rest of the format string with the other arguments *)
Theorem format_nil fmt : format_str fmt [] = if contains ph fmt then Raise LessArgs else Ok fmt.
Proof.
  rewrite format_str_rel. simpl. unfold contains. destruct (find ph fmt); reflexivity.
Qed.

Theorem format_cons fmt a args :
  format_str fmt (a :: args) =
  match find ph fmt with
  | None => Raise MoreArgs
  | Some i => match format_str (skipn (i + 2) fmt) args with
              | Ok r => Ok (firstn i fmt ++ a ++ r)
              | Raise e => Raise e
              end
  end.
Proof.
  rewrite format_str_rel. simpl. destruct (find ph fmt) as [i|]; [|reflexivity].
  rewrite format_str_rel. reflexivity.
Qed.

Lemma subst_template_of ps : forall i pre args, length pre = i -> length ps = S (length args) ->
  subst (template_of ps i) (pre ++ args) = interleave ps args.
Proof.
  induction ps as [|p ps IH]; intros i pre args Hi Hl; [reflexivity|].
  destruct ps as [|q ps].
  - destruct args as [|a args]; [|simpl in Hl; lia].
    unfold subst. simpl. apply app_nil_r.
  - destruct args as [|a args]; [simpl in Hl; lia|].
    change (template_of (p :: q :: ps) i) with (Lit p :: Arg i :: template_of (q :: ps) (S i)).
    unfold subst. cbn [map concat].
    rewrite app_nth2 by lia. rewrite Hi, Nat.sub_diag. cbn [nth].
    pose proof (IH (S i) (pre ++ [a]) args) as H. unfold subst in H.
    rewrite <- app_assoc in H. simpl app in H. rewrite H.
    + reflexivity.
    + rewrite app_length. simpl. lia.
    + simpl in *. lia.
Qed.

(* the result is the template of the FORMAT (markers instead of placeholders, computed without the
   arguments) with the arguments substituted afterwards *)
Theorem args_verbatim fmt args : length args = placeholder_count fmt ->
  format_str fmt args = Ok (subst (template fmt) args).
Proof.
  intros Hl. rewrite format_spec. unfold spec_format. rewrite Hl, Nat.eqb_refl. f_equal.
  symmetry. apply (subst_template_of (pieces fmt) 0 [] args); [reflexivity|].
  rewrite pieces_count, Hl. reflexivity.
Qed.

Lemma markers_template_of ps : forall i, markers (template_of ps i) = seq i (pred (length ps)).
Proof.
  induction ps as [|p ps IH]; intros i; [reflexivity|].
  destruct ps as [|q ps]; [reflexivity|].
  change (template_of (p :: q :: ps) i) with (Lit p :: Arg i :: template_of (q :: ps) (S i)).
  unfold markers in *. cbn [map concat app]. rewrite IH. reflexivity.
Qed.

(* the template has one marker per placeholder, numbered 0, 1, 2, ... from left to right *)
Theorem template_markers fmt : markers (template fmt) = seq 0 (placeholder_count fmt).
Proof. unfold template. rewrite markers_template_of, pieces_count. reflexivity. Qed.

(* ---------- both entry points build the same argument list ---------- *)

Lemma args_call_spec l : forall f,
  format_ (args_call f l) = format_ f /\ args_ (args_call f l) = args_ f ++ map render l.
Proof.
  induction l as [|a l IH]; intros f; simpl.
  - split; [reflexivity | symmetry; apply app_nil_r].
  - destruct (IH (percent f a)) as [H1 H2]. rewrite H1, H2. simpl.
    split; [reflexivity | rewrite <- app_assoc; reflexivity].
Qed.

Lemma args_call_fold l f : args_call f l = fold_left percent l f.
Proof. revert f; induction l as [|a l IH]; intros f; simpl; [reflexivity | apply IH]. Qed.

Lemma apply_ops_spec ops : forall f,
  format_ (apply_ops f ops) = format_ f /\ args_ (apply_ops f ops) = args_ f ++ map render (flatten_ops ops).
Proof.
  unfold apply_ops, flatten_ops.
  induction ops as [|o ops IH]; intros f; simpl.
  - split; [reflexivity | symmetry; apply app_nil_r].
  - destruct (IH (apply_op f o)) as [H1 H2]. rewrite H1, H2.
    destruct o as [a|l]; simpl.
    + split; [reflexivity | rewrite <- app_assoc; reflexivity].
    + destruct (args_call_spec l f) as [G1 G2]. rewrite G1, G2, map_app, app_assoc. split; reflexivity.
Qed.

Theorem percent_and_args_agree fmt ops :
  format_chain fmt ops = format_str fmt (map render (flatten_ops ops)).
Proof.
  unfold format_chain, str_of. destruct (apply_ops_spec ops (mk fmt)) as [H1 H2].
  rewrite H1, H2. reflexivity.
Qed.

Corollary args_is_percent_chain fmt l : format_chain fmt [Args l] = format_chain fmt (map Pct l).
Proof.
  rewrite !percent_and_args_agree. f_equal. f_equal. unfold flatten_ops. simpl. rewrite app_nil_r.
  induction l as [|a l IH]; simpl; [reflexivity | f_equal; exact IH].
Qed.

(* ---------- every argument is rendered on its own; no state between arguments or formatters ---------- *)

Lemma subst_subst_fn t args : subst t args = subst_fn t (fun i => nth i args []).
Proof. reflexivity. Qed.

Lemma subst_fn_ext t f g : (forall i, f i = g i) -> subst_fn t f = subst_fn t g.
Proof.
  intros H. unfold subst_fn. f_equal. apply map_ext. intros [s|i]; [reflexivity | apply H].
Qed.

(* marker i of the template receives render (argument i): a function of that argument alone, whatever
   the other arguments are and however the arguments were supplied *)
Theorem args_independent fmt ops : length (flatten_ops ops) = placeholder_count fmt ->
  format_chain fmt ops = Ok (subst_fn (template fmt) (fun i => render (nth i (flatten_ops ops) (AStr [])))).
Proof.
  intros Hl. rewrite percent_and_args_agree, args_verbatim by (rewrite map_length; exact Hl).
  f_equal. rewrite subst_subst_fn. apply subst_fn_ext. intros i.
  change (@nil byte) with (render (AStr [])). apply map_nth.
Qed.

Lemma nth_error_map_render l : forall i, nth_error (map render l) i = option_map render (nth_error l i).
Proof. induction l as [|a l IH]; intros [|i]; simpl; auto. Qed.

(* the text supplied for position i is the same in any two argument lists that have the same i-th argument *)
Theorem arg_text_alone l1 l2 i : nth_error l1 i = nth_error l2 i ->
  nth_error (map render l1) i = nth_error (map render l2) i.
Proof. intros H. rewrite !nth_error_map_render, H. reflexivity. Qed.

(* a manipulator passed as an argument contributes the empty text and nothing else *)
Theorem manip_renders_empty m : render (AManip m) = [].
Proof. reflexivity. Qed.

(* formatters used one after the other do not influence each other *)
Theorem format_seq_independent l k f ops : nth_error l k = Some (f, ops) ->
  nth_error (format_seq l) k = Some (format_chain f ops).
Proof. intros H. unfold format_seq. rewrite (map_nth_error _ _ _ H). reflexivity. Qed.

Theorem format_seq_length l : length (format_seq l) = length l.
Proof. apply map_length. Qed.

(* ---------- the formatter object is a value ---------- *)

(* relocating the formatter between two groups of arguments changes nothing *)
Theorem reloc_chain_value fmt pre post : reloc_chain fmt pre post = format_chain fmt (pre ++ post).
Proof. unfold reloc_chain, relocate, format_chain, apply_ops. rewrite fold_left_app. reflexivity. Qed.

Theorem reloc_chain_spec fmt pre post :
  reloc_chain fmt pre post = spec_format fmt (map render (flatten_ops (pre ++ post))).
Proof. rewrite reloc_chain_value, percent_and_args_agree. apply format_spec. Qed.

(* ---------- operator<< : all or nothing, one item ---------- *)

Theorem stream_out_raise_unchanged o f e : str_of f = Raise e -> stream_out o f = (o, Some e).
Proof. intros H. unfold stream_out. rewrite H. reflexivity. Qed.

Theorem stream_out_ok o f text : str_of f = Ok text ->
  stream_out o f = (insert_str o text, None)
  /\ content (insert_str o text) = content o ++ pad (width o) (fill o) (adjust_left o) text
  /\ width (insert_str o text) = 0.
Proof. intros H. unfold stream_out. rewrite H. repeat split. Qed.

(* a wrong number of arguments leaves the caller's stream exactly as it was *)
Theorem stream_out_wrong_arity o fmt ops : length (flatten_ops ops) <> placeholder_count fmt ->
  fst (stream_out o (apply_ops (mk fmt) ops)) = o.
Proof.
  intros Hl. unfold stream_out.
  change (str_of (apply_ops (mk fmt) ops)) with (format_chain fmt ops).
  rewrite percent_and_args_agree, format_spec. unfold spec_format. rewrite map_length.
  destruct (length (flatten_ops ops) =? placeholder_count fmt) eqn:E; [apply Nat.eqb_eq in E; contradiction|].
  reflexivity.
Qed.

Theorem pad_length w c left text : length (pad w c left text) = Nat.max w (length text).
Proof.
  unfold pad. destruct left; rewrite app_length, repeat_length; lia.
Qed.

Theorem pad_narrow w c left text : w <= length text -> pad w c left text = text.
Proof.
  intros H. unfold pad. replace (w - length text) with 0 by lia. simpl.
  destruct left; [apply app_nil_r | reflexivity].
Qed.

(* the whole observation of the stream equals the specification *)
Theorem stream_chain_spec pre w c left fmt ops sentinel :
  stream_chain {| content := pre; width := w; fill := c; adjust_left := left |} fmt ops sentinel
  = spec_stream pre w c left fmt (map render (flatten_ops ops)) sentinel.
Proof.
  unfold stream_chain, stream_then, stream_out, spec_stream.
  change (str_of (apply_ops (mk fmt) ops)) with (format_chain fmt ops).
  rewrite percent_and_args_agree, format_spec.
  destruct (spec_format fmt (map render (flatten_ops ops))) as [text|e];
    cbn [fst snd insert_str content width fill adjust_left].
  - rewrite (pad_narrow 0) by lia. rewrite <- app_assoc. reflexivity.
  - reflexivity.
Qed.

(* ---------- exception message ---------- *)

Lemma make_exception_concat args : forall msg,
  make_exception msg args = msg ++ spec_message (map render args).
Proof.
  unfold spec_message.
  induction args as [|a args IH]; intros msg; [symmetry; apply app_nil_r|].
  destruct args as [|b args].
  - simpl. rewrite app_nil_r. reflexivity.
  - change (make_exception msg (a :: b :: args)) with (make_exception (msg ++ render a) (b :: args)).
    rewrite IH. simpl. rewrite <- app_assoc. reflexivity.
Qed.

Theorem exception_message_concat args : forallb stateless args = true ->
  exception_what args = spec_message (map render args).
Proof. intros _. unfold exception_what, make_string. apply make_exception_concat. Qed.

(* ---------- the conversion text of an argument is never used ---------- *)

Lemma render_with_conv c a : render (with_conv c a) = render a.
Proof. destruct a; reflexivity. Qed.
Lemma render_forget_conv a : render (forget_conv a) = render a.
Proof. destruct a; reflexivity. Qed.
Lemma map_render_with_conv c l : map render (map (with_conv c) l) = map render l.
Proof. rewrite map_map. apply map_ext. apply render_with_conv. Qed.
Lemma map_render_forget_conv l : map render (map forget_conv l) = map render l.
Proof. rewrite map_map. apply map_ext. apply render_forget_conv. Qed.

Lemma exception_what_concat args : exception_what args = spec_message (map render args).
Proof. unfold exception_what, make_string. apply make_exception_concat. Qed.

(* the message is a function of the stream texts alone, for every number of arguments *)
Theorem message_by_stream_text args1 args2 : map render args1 = map render args2 ->
  exception_what args1 = exception_what args2.
Proof. intros H. rewrite !exception_what_concat, H. reflexivity. Qed.

Theorem message_ignores_conversion args : exception_what (map forget_conv args) = exception_what args.
Proof. apply message_by_stream_text, map_render_forget_conv. Qed.

(* at every arity and every position: changing the conversion text of one argument changes nothing *)
Theorem message_conversion_irrelevant_at pre shown c1 c2 post :
  exception_what (pre ++ ADual shown c1 :: post) = exception_what (pre ++ ADual shown c2 :: post).
Proof. apply message_by_stream_text. rewrite !map_app. reflexivity. Qed.

(* a single argument: the message is its stream text, whatever it converts to *)
Theorem message_single_dual shown conv : exception_what [ADual shown conv] = shown.
Proof. reflexivity. Qed.

(* one argument alone gives what it gives after an empty first argument: raise(x) = raise("", x) *)
Theorem message_single_is_pair a : exception_what [a] = exception_what [AStr []; a].
Proof. rewrite !exception_what_concat. reflexivity. Qed.

Lemma flatten_map_op g ops : flatten_ops (map (map_op g) ops) = map g (flatten_ops ops).
Proof.
  unfold flatten_ops. induction ops as [|o ops IH]; [reflexivity|].
  cbn [map concat]. rewrite map_app, <- IH. destruct o; reflexivity.
Qed.

Theorem format_ignores_conversion fmt ops :
  format_chain fmt (map (map_op forget_conv) ops) = format_chain fmt ops.
Proof. rewrite !percent_and_args_agree, flatten_map_op, map_render_forget_conv. reflexivity. Qed.

Theorem format_conversion_irrelevant fmt ops c :
  format_chain fmt (map (map_op (with_conv c)) ops) = format_chain fmt ops.
Proof. rewrite !percent_and_args_agree, flatten_map_op, map_render_with_conv. reflexivity. Qed.

(* the stream texts of the kinds the driver passes *)
Theorem dual_stream_texts s :
  render (dual KTagged s) = x3c :: s ++ [x3e] /\ render (dual KPath s) = quoted s
  /\ render (dual KCstr s) = x5b :: s ++ [x5d] /\ render (dual KExplicit s) = x28 :: s ++ [x29]
  /\ render (dual KView s) = s /\ render (dual KArray s) = s /\ render (dual KStreamOnly s) = x23 :: s.
Proof. repeat split. Qed.

(* ---------- the decimal printer ---------- *)

Lemma parse_render_uint u : parse_uint (render_uint u) = Some u.
Proof. induction u; simpl; try rewrite IHu; reflexivity. Qed.

Lemma render_uint_not_minus u : match render_uint u with x2d :: _ => False | _ => True end.
Proof. destruct u; exact I. Qed.

Theorem print_dec_roundtrip z : read_dec (print_dec z) = Some z.
Proof.
  unfold print_dec. rewrite <- (DecimalZ.of_to z) at 2.
  destruct (Z.to_int z) as [u|u]; unfold render_int, read_dec.
  - pose proof (render_uint_not_minus u) as H. pose proof (parse_render_uint u) as P.
    destruct (render_uint u) as [|b r]; [rewrite P; reflexivity|].
    destruct b; try contradiction; rewrite P; reflexivity.
  - rewrite parse_render_uint. reflexivity.
Qed.

(* ---------- digit grouping only inserts separators ---------- *)

Definition not_sep (b : byte) : bool := negb (beq b x2c).

Lemma filter_group_rev ds : forall n, filter not_sep (group_rev ds n) = filter not_sep ds.
Proof.
  induction ds as [|d r IH]; intros n; [reflexivity|].
  cbn [group_rev].
  destruct n as [|[|[|[|n]]]]; cbn [filter]; rewrite IH; reflexivity.
Qed.

Lemma filter_rev {A} (p : A -> bool) l : filter p (rev l) = rev (filter p l).
Proof.
  induction l as [|x l IH]; [reflexivity|]. simpl. rewrite filter_app, IH. simpl.
  destruct (p x); simpl; [reflexivity | rewrite app_nil_r; reflexivity].
Qed.

(* removing the separators from a grouped numeral gives the digits back *)
Theorem group3_ungroup digits : filter not_sep (group3 digits) = filter not_sep digits.
Proof.
  unfold group3. rewrite filter_rev, filter_group_rev, <- filter_rev, rev_involutive. reflexivity.
Qed.

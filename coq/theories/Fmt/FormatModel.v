(* Fmt/FormatModel.v — executable model of include/nitro/format/format.hpp (detail::formatter) and of
   the message assembly of include/nitro/except/exception.hpp / raise.hpp, following the C++ statement
   by statement.  No proofs here. *)
From Coq Require Import List Arith Bool ZArith.
From Coq Require Decimal Hexadecimal.
From Coq Require Import Init.Byte.
From Nitro Require Import Base.Bytes.
Import ListNotations.
Local Open Scope list_scope.

(* ---------- stream representation of an argument (str << arg) ----------
   Arguments reach the formatter only through   stream_type str; str << arg;   with a stream that is
   constructed for that one argument (operator% declares it locally), so the text of an argument is what
   a FRESH stringstream (dec, no boolalpha/showbase, precision 6, fill ' ', width 0) produces for it and
   is a function of that argument alone.  The kinds of argument of the model:
     AStr s        std::string (const or non-const lvalue, temporary), const char*, char: written byte for byte.
                   Arguments are VALUES: operator% / args(...) only read them (std::forward into operator<<), the
                   caller's variable is never modified, so the same variable may feed several placeholders and
                   later formatters (the driver passes every value category and checks the variables afterwards)
     AInt z        long
     ADbl z        double with integer value z, |z| < 10^6 (precision 6 prints all digits, no exponent)
     ABool b       bool (no boolalpha on a fresh stream: 1 / 0)
     AHalf z       double z + 1/2, |z| < 10^5
   user-defined types whose operator<< changes the formatting state of the stream and does not restore it:
     AHexer z      os << std::hex << v                       (unsigned long v = z >= 0)
     AFixer z      os << std::fixed << std::setprecision(2) << v      (double v = z, |z| < 10^6)
     APadder z     os << std::setfill('*') << std::left << std::setw(6) << v      (long v = z)
     ABoolAlpha b  os << std::boolalpha << b
   and iostream manipulators passed as arguments (AManip): they only change the state of the stream they
   are inserted into, which is discarded, so they render as the empty text.
     ADual shown conv   an argument of a type that has BOTH an operator<< (printing `shown`) and, optionally, a
                   conversion to a string type (giving `conv`): std::filesystem::path (<< prints it quoted, the
                   conversion is the bare text), a user type with operator std::string() / operator const char*()
                   / an explicit conversion operator and a decorating operator<<, std::string_view and a char
                   array (both texts the same), a type that can only be streamed (conv = None).  The library
                   reaches arguments through operator<< ONLY (str << arg in operator%, msg << arg in
                   make_exception), so `conv` is carried along and never read (see `dual` below for the kinds
                   the driver passes).
   The printers stand for libstdc++'s operator<<; that correspondence is only exercised by the driver,
   not proved. *)
Inductive manip :=
  | MHex | MBoolalpha | MShowbase | MShowpos | MUppercase | MFixed | MLeft
  | MSetprecision (n : nat) | MSetw (n : nat) | MSetfill (c : byte).

Inductive arg :=
  | AStr (s : str) | AInt (z : Z) | ADbl (z : Z) | ABool (b : bool) | AHalf (z : Z)
  | AHexer (z : Z) | AFixer (z : Z) | APadder (z : Z) | ABoolAlpha (b : bool)
  | AManip (m : manip)
  | ADual (shown : str) (conv : option str).

Fixpoint render_uint (u : Decimal.uint) : str :=
  match u with
  | Decimal.Nil => []
  | Decimal.D0 u => x30 :: render_uint u | Decimal.D1 u => x31 :: render_uint u
  | Decimal.D2 u => x32 :: render_uint u | Decimal.D3 u => x33 :: render_uint u
  | Decimal.D4 u => x34 :: render_uint u | Decimal.D5 u => x35 :: render_uint u
  | Decimal.D6 u => x36 :: render_uint u | Decimal.D7 u => x37 :: render_uint u
  | Decimal.D8 u => x38 :: render_uint u | Decimal.D9 u => x39 :: render_uint u
  end.
Definition render_int (i : Decimal.int) : str :=
  match i with Decimal.Pos u => render_uint u | Decimal.Neg u => x2d :: render_uint u end.
(* decimal digits, most significant first, '-' in front of negative numbers, "0" for zero *)
Definition print_dec (z : Z) : str := render_int (Z.to_int z).

Fixpoint render_hex_uint (u : Hexadecimal.uint) : str :=
  match u with
  | Hexadecimal.Nil => []
  | Hexadecimal.D0 u => x30 :: render_hex_uint u | Hexadecimal.D1 u => x31 :: render_hex_uint u
  | Hexadecimal.D2 u => x32 :: render_hex_uint u | Hexadecimal.D3 u => x33 :: render_hex_uint u
  | Hexadecimal.D4 u => x34 :: render_hex_uint u | Hexadecimal.D5 u => x35 :: render_hex_uint u
  | Hexadecimal.D6 u => x36 :: render_hex_uint u | Hexadecimal.D7 u => x37 :: render_hex_uint u
  | Hexadecimal.D8 u => x38 :: render_hex_uint u | Hexadecimal.D9 u => x39 :: render_hex_uint u
  | Hexadecimal.Da u => x61 :: render_hex_uint u | Hexadecimal.Db u => x62 :: render_hex_uint u
  | Hexadecimal.Dc u => x63 :: render_hex_uint u | Hexadecimal.Dd u => x64 :: render_hex_uint u
  | Hexadecimal.De u => x65 :: render_hex_uint u | Hexadecimal.Df u => x66 :: render_hex_uint u
  end.
(* lower-case hexadecimal digits of a non-negative number (a '-' for negative ones, which the
   unsigned C++ value never is) *)
Definition print_hex (z : Z) : str :=
  match Z.to_hex_int z with
  | Hexadecimal.Pos u => render_hex_uint u
  | Hexadecimal.Neg u => x2d :: render_hex_uint u
  end.

Definition print_bool (b : bool) : str := if b then [x31] else [x30].
Definition print_boolalpha (b : bool) : str :=
  if b then [x74; x72; x75; x65] else [x66; x61; x6c; x73; x65].
(* z + 1/2 with six significant digits: "z.5";  for negative z the value is -((-z-1) + 1/2) *)
Definition print_half (z : Z) : str :=
  if (0 <=? z)%Z then print_dec z ++ [x2e; x35]
  else x2d :: print_dec (- z - 1)%Z ++ [x2e; x35].
(* left-adjusted in a field of six, filled with '*' *)
Definition print_padded (z : Z) : str :=
  let d := print_dec z in d ++ repeat x2a (6 - length d).

Definition render (a : arg) : str :=
  match a with
  | AStr s => s
  | AInt z => print_dec z
  | ADbl z => print_dec z
  | ABool b => print_bool b
  | AHalf z => print_half z
  | AHexer z => print_hex z
  | AFixer z => print_dec z ++ [x2e; x30; x30]
  | APadder z => print_padded z
  | ABoolAlpha b => print_boolalpha b
  | AManip _ => []
  | ADual shown _ => shown
  end.

(* ---------- arguments with a conversion text besides their stream text ----------
   The kinds of such arguments the driver passes, each built from one payload text s:
     KTagged      struct with  operator std::string() const  (implicit) -> s ;  operator<< prints <s>
     KPath        std::filesystem::path(s): implicit conversion to std::string -> s ;  operator<< prints std::quoted(s)
     KCstr        struct with  operator const char*() const  (implicit) -> s ;  operator<< prints [s]
     KExplicit    struct with  explicit operator std::string() const -> s ;  operator<< prints (s)
     KView        std::string_view: std::string(v) -> s ;  operator<< prints s
     KArray       char[16] holding s and a NUL: decays to const char* -> s ;  operator<< prints s
     KStreamOnly  struct with an operator<< printing #s and no conversion at all *)
Inductive ckind := KTagged | KPath | KCstr | KExplicit | KView | KArray | KStreamOnly.
(* std::quoted with the default delimiter (double quote, 0x22) and escape (backslash, 0x5c) *)
Definition quoted (s : str) : str :=
  x22 :: flat_map (fun b => match b with x22 | x5c => [x5c; b] | _ => [b] end) s ++ [x22].
Definition dual (k : ckind) (s : str) : arg :=
  match k with
  | KTagged => ADual (x3c :: s ++ [x3e]) (Some s)
  | KPath => ADual (quoted s) (Some s)
  | KCstr => ADual (x5b :: s ++ [x5d]) (Some s)
  | KExplicit => ADual (x28 :: s ++ [x29]) (Some s)
  | KView => ADual s (Some s)
  | KArray => ADual s (Some s)
  | KStreamOnly => ADual (x23 :: s) None
  end.
(* the conversion text of an argument, where it has one (never used by the formatter or the message) *)
Definition conv_text (a : arg) : option str :=
  match a with ADual _ c => c | AStr s => Some s | _ => None end.
(* the same argument without its conversion / with another conversion text *)
Definition forget_conv (a : arg) : arg :=
  match a with ADual shown _ => ADual shown None | _ => a end.
Definition with_conv (c : option str) (a : arg) : arg :=
  match a with ADual shown _ => ADual shown c | _ => a end.

(* ---------- the same under a global locale with digit grouping ----------
   Every stream the library creates (operator%'s stringstream, make_string's) is default-constructed and so
   carries the program's GLOBAL locale; numbers are then written with that locale's numpunct.  The driver
   installs a numpunct with grouping "\3", thousands separator ',' and decimal point ';' for the `loc` cases;
   this is what operator<< of libstdc++ produces with it for the number kinds used there (exercised only). *)
Fixpoint group_rev (ds : str) (n : nat) : str :=     (* ds: least significant digit first; n digits since the last separator *)
  match ds with
  | [] => []
  | d :: r => match n with
              | 3 => x2c :: d :: group_rev r 1
              | _ => d :: group_rev r (S n)
              end
  end.
Definition group3 (digits : str) : str := rev (group_rev (rev digits) 0).
Definition print_dec_grouped (z : Z) : str :=
  match z with
  | Zneg p => x2d :: group3 (print_dec (Zpos p))
  | _ => group3 (print_dec z)
  end.
Definition print_half_grouped (z : Z) : str :=
  if (0 <=? z)%Z then print_dec_grouped z ++ [x3b; x35]
  else x2d :: print_dec_grouped (- z - 1)%Z ++ [x3b; x35].
Definition render_loc (a : arg) : str :=
  match a with
  | AInt z => print_dec_grouped z
  | ADbl z => print_dec_grouped z
  | AHalf z => print_half_grouped z
  | _ => render a
  end.
(* an argument with its text under that locale fixed: used to run the (locale-independent) formatter model
   on a `loc` case *)
Definition localize (a : arg) : arg := AStr (render_loc a).

(* the arguments that leave the formatting state of the stream they are written to unchanged *)
Definition stateless (a : arg) : bool :=
  match a with AStr _ | AInt _ | ADbl _ | ABool _ | AHalf _ | ADual _ _ => true | _ => false end.

(* ---------- formatter ---------- *)

(* the regex  \{\}  : the two bytes '{' '}' *)
Definition ph : str := [x7b; x7d].

Inductive err := MoreArgs | LessArgs.      (* the two raise(...) statements of str() *)
Inductive res := Ok (s : str) | Raise (e : err).

Record formatter := { format_ : str; args_ : list str }.

(* formatter(const string_type& format) *)
Definition mk (fmt : str) : formatter := {| format_ := fmt; args_ := [] |}.

(* operator%:  stream_type str; str << arg; args_.emplace_back(str.str()); returns the object *)
Definition percent (f : formatter) (a : arg) : formatter :=
  {| format_ := format_ f; args_ := args_ f ++ [render a] |}.

(* args(arg, args...):  this-object % arg; this->args(args...);     args(): returns the object *)
Fixpoint args_call (f : formatter) (l : list arg) : formatter :=
  match l with
  | [] => f
  | a :: rest => args_call (percent f a) rest
  end.

(* std::sregex_iterator over format_ for a two-byte literal: the iterator is either the end iterator
   (None) or holds the position of the current match (Some p, p counted from format_.begin()).
   Construction searches from the beginning, ++ searches from the end of the current match (the match
   is never empty, so there is no empty-match special case). *)
Definition re_first (fmt : str) : option nat := find ph fmt.
Definition re_next (fmt : str) (p : nat) : option nat :=
  option_map (fun i => p + length ph + i) (find ph (skipn (p + length ph) fmt)).

(* string_type(first, last) for iterators format_.begin()+from, format_.begin()+to *)
Definition substr (s : str) (from to : nat) : str := firstn (to - from) (skipn from s).

(* the body of str(): the for loop over args_ with the three pieces of state
   placeholder (regex iterator), input (offset into format_), result; then the tail and the second check *)
Fixpoint str_loop (fmt : str) (args : list str) (placeholder : option nat) (input : nat) (result : str) : res :=
  match args with
  | a :: rest =>
    match placeholder with
    | None => Raise MoreArgs                       (* placeholder == placeholders_end *)
    | Some p =>
      let result := result ++ substr fmt input p in          (* result.append(input, begin + position) *)
      let input := p + length ph in                          (* input = begin + position + length *)
      let result := result ++ a in                           (* result.append(it->begin(), it->end()) *)
      str_loop fmt rest (re_next fmt p) input result         (* ++it, ++placeholder *)
    end
  | [] =>
    let result := result ++ skipn input fmt in               (* result.append(input, format_.end()) *)
    match placeholder with
    | Some _ => Raise LessArgs                     (* placeholder != placeholders_end *)
    | None => Ok result
    end
  end.

Definition format_str (fmt : str) (args : list str) : res := str_loop fmt args (re_first fmt) 0 [].

(* formatter::str() const;  operator string_type() and operator<< both return / write str() *)
Definition str_of (f : formatter) : res := format_str (format_ f) (args_ f).

(* ---------- operator<<(std::ostream& s, const formatter& f):  return s << f.str(); ----------
   The caller's stream, as far as inserting a string is concerned: what has been written so far and the
   pending field width, fill character and adjustment (left, or right/internal/none which are the same
   for a string).  Inserting a std::string (libstdc++ __ostream_insert) pads it to the pending width and
   resets the width to 0; fill and adjustment stay. *)
Record ostream := { content : str; width : nat; fill : byte; adjust_left : bool }.

Definition pad (w : nat) (c : byte) (left : bool) (text : str) : str :=
  let n := w - length text in
  if left then text ++ repeat c n else repeat c n ++ text.

Definition insert_str (o : ostream) (text : str) : ostream :=
  {| content := content o ++ pad (width o) (fill o) (adjust_left o) text;
     width := 0; fill := fill o; adjust_left := adjust_left o |}.

(* f.str() is evaluated first; when it raises, the exception leaves operator<< before anything has been
   inserted: the stream is as it was (pending width included).  Otherwise the whole text goes in as ONE
   item. *)
Definition stream_out (o : ostream) (f : formatter) : ostream * option err :=
  match str_of f with
  | Ok text => (insert_str o text, None)
  | Raise e => (o, Some e)
  end.

(* what the driver does with a stream: os << f (catching the exception), then os << sentinel *)
Definition stream_then (o : ostream) (fmt : str) (ops_ : formatter -> formatter) (sentinel : str) : str * bool :=
  let r := stream_out o (ops_ (mk fmt)) in
  (content (insert_str (fst r) sentinel), match snd r with None => true | Some _ => false end).

(* a use of the public interface: a chain of  % arg  and  .args(a, b, ...)  calls on one formatter *)
Inductive op := Pct (a : arg) | Args (l : list arg).
Definition apply_op (f : formatter) (o : op) : formatter :=
  match o with Pct a => percent f a | Args l => args_call f l end.
Definition apply_ops (f : formatter) (ops : list op) : formatter := fold_left apply_op ops f.

(* nitro::format(fmt) followed by the chain, then str() *)
Definition format_chain (fmt : str) (ops : list op) : res := str_of (apply_ops (mk fmt) ops).

(* the same chain streamed with operator<< into the caller's stream o, followed by a sentinel item;
   result: everything the stream holds afterwards, and whether operator<< returned (true) or raised *)
Definition stream_chain (o : ostream) (fmt : str) (ops : list op) (sentinel : str) : str * bool :=
  stream_then o fmt (fun f => apply_ops f ops) sentinel.

(* the formatter OBJECT is a value: its format text and the arguments supplied so far.  The class declares
   no copy/move operation, so copy and move construction and assignment, relocation inside a growing
   std::vector and return by value all give a target holding the source's format and arguments, and
   nothing in the target refers to the source (format_ and args_ own their text) — it may be destroyed
   or reused afterwards. *)
Definition relocate (f : formatter) : formatter := f.
(* arguments `pre` given before the relocation, `post` given to the target afterwards, then str() *)
Definition reloc_chain (fmt : str) (pre post : list op) : res :=
  str_of (apply_ops (relocate (apply_ops (mk fmt) pre)) post).

(* several formatter objects used one after the other on the same thread: the class has no static or
   thread-local member and operator% builds its stream locally, so no state is carried from one
   formatter (or one argument) to the next — each result is that of the formatter alone *)
Definition format_seq (l : list (str * list op)) : list res :=
  map (fun fo => format_chain (fst fo) (snd fo)) l.

(* ---------- exception message ---------- *)

(* NOTE on scope: make_string writes ALL arguments into ONE stringstream, so an argument that changes
   the formatting state (AHexer, AFixer, APadder, ABoolAlpha, AManip) influences how the following
   arguments of the same message are printed (raise(hexer{255}, 16) gives "ff10"; raise("v=", std::hex,
   255) gives "v=ff").  The model below writes each argument's own text and is therefore a model of the
   code only for argument lists whose members are all `stateless`; the theorem about it carries that
   hypothesis and the driver only sends such lists. *)

(* exception has ONE constructor, the variadic template  explicit exception(Args&&... args), for every number
   and type of arguments — also for a single argument that is itself convertible to std::string: that
   argument is streamed like any other (msg << arg), its conversion is not used.
   detail::make_exception<Arg, Args...>::operator():  msg << arg; recurse on the rest.  The recursion
   ends at the one-argument specialisation; a call without any argument does not compile, the []
   case below is never reached through the public interface. *)
Fixpoint make_exception (msg : str) (args : list arg) : str :=
  match args with
  | [] => msg
  | [a] => msg ++ render a
  | a :: rest => make_exception (msg ++ render a) rest
  end.
(* detail::make_string: std::stringstream msg; make_exception(msg, args...); return msg.str() *)
Definition make_string (args : list arg) : str := make_exception [] args.
(* exception(args...) : std::runtime_error(make_string(args...));  raise(args...) throws it;
   what() returns the stored text *)
Definition exception_what (args : list arg) : str := make_string args.

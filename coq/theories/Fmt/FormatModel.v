(* Fmt/FormatModel.v — executable model of include/nitro/format/format.hpp (detail::formatter) and of
   the message assembly of include/nitro/except/exception.hpp / raise.hpp, following the C++ statement
   by statement.  No proofs here. *)
From Coq Require Import List Arith Bool ZArith.
From Coq Require Decimal.
From Coq Require Import Init.Byte.
From Nitro Require Import Base.Bytes.
Import ListNotations.
Local Open Scope list_scope.

(* ---------- stream representation of an argument (str << arg) ----------
   Arguments reach the formatter and the exception only through  stringstream << arg.  The model has
   three kinds of argument: a std::string (written byte for byte), a long, and a double whose value is
   an integer of magnitude < 10^6 (so that the default precision 6 prints all its digits and no
   exponent).  The decimal printer stands for libstdc++'s operator<<; that correspondence is only
   exercised by the driver, not proved. *)
Inductive arg := AStr (s : str) | AInt (z : Z) | ADbl (z : Z).

Fixpoint render_uint (u : Decimal.uint) : str :=
  match u with
  | Decimal.Nil => []
  | Decimal.D0 u => x30 :: render_uint u | Decimal.D1 u => x31 :: render_uint u
  | Decimal.D2 u => x32 :: render_uint u | Decimal.D3 u => x33 :: render_uint u
  | Decimal.D4 u => x34 :: render_uint u | Decimal.D5 u => x35 :: render_uint u
  | Decimal.D6 u => x36 :: render_uint u | Decimal.D7 u => x37 :: render_uint u
  | Decimal.D8 u => x38 :: render_uint u | Decimal.D9 u => x39 :: render_uint u
  end.
Definition render_int (i : Decimal.int) : str :=
  match i with Decimal.Pos u => render_uint u | Decimal.Neg u => x2d :: render_uint u end.
(* decimal digits, most significant first, '-' in front of negative numbers, "0" for zero *)
Definition print_dec (z : Z) : str := render_int (Z.to_int z).

Definition render (a : arg) : str :=
  match a with AStr s => s | AInt z => print_dec z | ADbl z => print_dec z end.

(* ---------- formatter ---------- *)

(* the regex  \{\}  : the two bytes '{' '}' *)
Definition ph : str := [x7b; x7d].

Inductive err := MoreArgs | LessArgs.      (* the two raise(...) statements of str() *)
Inductive res := Ok (s : str) | Raise (e : err).

Record formatter := { format_ : str; args_ : list str }.

(* formatter(const string_type& format) *)
Definition mk (fmt : str) : formatter := {| format_ := fmt; args_ := [] |}.

(* operator%:  stream_type str; str << arg; args_.emplace_back(str.str()); returns the object *)
Definition percent (f : formatter) (a : arg) : formatter :=
  {| format_ := format_ f; args_ := args_ f ++ [render a] |}.

(* args(arg, args...):  this-object % arg; this->args(args...);     args(): returns the object *)
Fixpoint args_call (f : formatter) (l : list arg) : formatter :=
  match l with
  | [] => f
  | a :: rest => args_call (percent f a) rest
  end.

(* std::sregex_iterator over format_ for a two-byte literal: the iterator is either the end iterator
   (None) or holds the position of the current match (Some p, p counted from format_.begin()).
   Construction searches from the beginning, ++ searches from the end of the current match (the match
   is never empty, so there is no empty-match special case). *)
Definition re_first (fmt : str) : option nat := find ph fmt.
Definition re_next (fmt : str) (p : nat) : option nat :=
  option_map (fun i => p + length ph + i) (find ph (skipn (p + length ph) fmt)).

(* string_type(first, last) for iterators format_.begin()+from, format_.begin()+to *)
Definition substr (s : str) (from to : nat) : str := firstn (to - from) (skipn from s).

(* the body of str(): the for loop over args_ with the three pieces of state
   placeholder (regex iterator), input (offset into format_), result; then the tail and the second check *)
Fixpoint str_loop (fmt : str) (args : list str) (placeholder : option nat) (input : nat) (result : str) : res :=
  match args with
  | a :: rest =>
    match placeholder with
    | None => Raise MoreArgs                       (* placeholder == placeholders_end *)
    | Some p =>
      let result := result ++ substr fmt input p in          (* result.append(input, begin + position) *)
      let input := p + length ph in                          (* input = begin + position + length *)
      let result := result ++ a in                           (* result.append(it->begin(), it->end()) *)
      str_loop fmt rest (re_next fmt p) input result         (* ++it, ++placeholder *)
    end
  | [] =>
    let result := result ++ skipn input fmt in               (* result.append(input, format_.end()) *)
    match placeholder with
    | Some _ => Raise LessArgs                     (* placeholder != placeholders_end *)
    | None => Ok result
    end
  end.

Definition format_str (fmt : str) (args : list str) : res := str_loop fmt args (re_first fmt) 0 [].

(* formatter::str() const;  operator string_type() and operator<< both return / write str() *)
Definition str_of (f : formatter) : res := format_str (format_ f) (args_ f).

(* a use of the public interface: a chain of  % arg  and  .args(a, b, ...)  calls on one formatter *)
Inductive op := Pct (a : arg) | Args (l : list arg).
Definition apply_op (f : formatter) (o : op) : formatter :=
  match o with Pct a => percent f a | Args l => args_call f l end.
Definition apply_ops (f : formatter) (ops : list op) : formatter := fold_left apply_op ops f.

(* nitro::format(fmt) followed by the chain, then str() *)
Definition format_chain (fmt : str) (ops : list op) : res := str_of (apply_ops (mk fmt) ops).

(* ---------- exception message ---------- *)

(* detail::make_exception<Arg, Args...>::operator():  msg << arg; recurse on the rest.  The recursion
   ends at the one-argument specialisation; a call without any argument does not compile, the []
   case below is never reached through the public interface. *)
Fixpoint make_exception (msg : str) (args : list arg) : str :=
  match args with
  | [] => msg
  | [a] => msg ++ render a
  | a :: rest => make_exception (msg ++ render a) rest
  end.
(* detail::make_string: std::stringstream msg; make_exception(msg, args...); return msg.str() *)
Definition make_string (args : list arg) : str := make_exception [] args.
(* exception(args...) : std::runtime_error(make_string(args...));  raise(args...) throws it;
   what() returns the stored text *)
Definition exception_what (args : list arg) : str := make_string args.

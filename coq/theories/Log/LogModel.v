(* Log/LogModel.v — executable model of the nitro::log statement (C05, C10).
   Follows include/nitro/log/{stream,logger,severity}.hpp, filter/*.hpp, sink/sequence.hpp,
   detail/set_attribute.hpp statement by statement.  No proofs in this file. *)
From Coq Require Import List Arith Bool ZArith NArith.
From Coq Require Import Init.Byte.
From Nitro Require Import Base.Bytes.
Import ListNotations.
Local Open Scope list_scope.

(* ---------------------------------------------------------------- severity.hpp *)

(* enum class severity_level : char { trace, debug, info, warn, error, fatal } *)
Inductive sev := Trace | Debug | Info | Warn | Error | Fatal.

(* the underlying value of the enumerator = its position in the declaration *)
Definition rank (s : sev) : nat :=
  match s with Trace => 0 | Debug => 1 | Info => 2 | Warn => 3 | Error => 4 | Fatal => 5 end.

(* the built-in `a >= b` on the enum: comparison of the underlying values.  Used twice:
   stream.hpp  actual_stream:            Severity >= severity_level::NITRO_LOG_MIN_SEVERITY
   severity_filter.hpp filter():         r.severity() >= min_severity()                      *)
Definition sev_ge (a b : sev) : bool := rank b <=? rank a.

Definition sev_eqb (a b : sev) : bool := rank a =? rank b.

(* ---------------------------------------------------------------- record.hpp + attributes *)

(* record<tag_attribute, message_attribute, severity_attribute, timestamp_clock_attribute<Clock>>;
   the timestamp is written by ~smart_stream but is not part of any observation (no clock values
   in canonical observations), so it has no field here. *)
Record record := mkRecord { r_sev : sev; r_tag : str; r_msg : str }.

(* `new Record`: strings empty; m_severity is indeterminate until set_severity assigns it
   (the model uses Trace as the placeholder; it is always overwritten before it is read). *)
Definition new_record : record := mkRecord Trace [] [].

(* lang::string_ref is a C string: text ends at the first NUL byte *)
Fixpoint cstr (s : str) : str :=
  match s with
  | [] => []
  | c :: t => if beq c x00 then [] else c :: cstr t
  end.

Definition is_nil (s : str) : bool := match s with [] => true | _ => false end.

(* detail::set_tag -> set_tag_attribute<Record,true>:  if (tag) r.tag() = tag;
   `tag` is string_ref(nullptr) when the statement has no tag argument; operator bool is !empty() *)
Definition set_tag (r : record) (tag : option str) : record :=
  match tag with
  | None => r
  | Some t => if is_nil (cstr t) then r else mkRecord (r_sev r) (cstr t) (r_msg r)
  end.

(* detail::set_severity<Record>()(r, Severity): r.severity() = v (the record has a severity attribute) *)
Definition set_severity (r : record) (v : sev) : record := mkRecord v (r_tag r) (r_msg r).

Definition set_message (r : record) (m : str) : record := mkRecord (r_sev r) (r_tag r) m.

(* ---------------------------------------------------------------- filter/*.hpp *)

(* a Filter<Record> type expression *)
Inductive fexpr :=
| FNull                      (* filter::null_filter<Record> *)
| FThr (k : nat)             (* filter::severity_filter<Record, k>  (its threshold is a static member) *)
| FAnd (a b : fexpr)         (* filter::and_filter<A, B> *)
| FOr (a b : fexpr)          (* filter::or_filter<A, B> *)
| FNot (a : fexpr)           (* filter::not_filter<A> *)
| FTag (accept : bool) (t : str).   (* a user-written filter that reads the record's TAG: accept = true: passes exactly the records
                                       whose tag is t; accept = false: rejects exactly those ("mute tag t") *)

(* std::string == on the tag text *)
Fixpoint str_eqb (a b : str) : bool :=
  match a, b with
  | [], [] => true
  | x :: a', y :: b' => beq x y && str_eqb a' b'
  | _, _ => false
  end.

(* severity_filter<Record,k>::sev is a static data member of a class template over (Record, k): one threshold per
   record type AND index.  ktable: the thresholds of one record type, by index; thresholds: by record type.
   Initial value severity_level::trace. *)
Definition ktable := nat -> sev.
Definition thresholds := nat -> ktable.
Definition init_thresholds : thresholds := fun _ _ => Trace.
(* severity_filter<Record rc, k>::set_severity(s) *)
Definition set_threshold (th : thresholds) (rc k : nat) (s : sev) : thresholds :=
  fun r => if r =? rc then (fun j => if j =? k then s else th r j) else th r.
(* severity_filter<Record rc, k>::min_severity() *)
Definition min_severity (th : thresholds) (rc k : nat) : sev := th rc k.

(* Filter<Record>::filter(r).  `&&` and `||` short-circuit in C++; the operands have no effects,
   so andb/orb are the same.  not_filter<not_filter<F1>> is a partial specialisation deriving
   publicly from F1: its filter() IS F1::filter. *)
Fixpoint filt (th : ktable) (f : fexpr) (r : record) : bool :=
  match f with
  | FNull => true
  | FThr k => sev_ge (r_sev r) (th k)
  | FAnd a b => filt th a r && filt th b r
  | FOr a b => filt th a r || filt th b r
  | FNot (FNot g) => filt th g r
  | FNot g => negb (filt th g r)
  | FTag accept t => if accept then str_eqb (r_tag r) t else negb (str_eqb (r_tag r) t)
  end.

(* ---------------------------------------------------------------- what is streamed *)

(* the C++ shape of a streamed callable.  The model IGNORES it: whatever T is, meta::is_callable<T, std::string()> sends
   it to the same two operator<< overloads (`if (s) s.sstr() << t();`) — a callable is a callable (LogProofs.callable_kind_irrelevant).
   The kinds exist so that the harness exercises overload resolution for each of them. *)
Inductive ckind :=
| KFunctor      (* function object, temporary *)
| KLambda       (* lambda, temporary *)
| KFunPtr       (* plain function, decays to a function pointer *)
| KStdFunL      (* std::function<std::string()>, variable streamed as an lvalue *)
| KStdFunR      (* std::function<std::string()>, temporary *)
| KStdFunCStr   (* std::function<const char*()>, variable *)
| KConstObj     (* const function object, variable *)
| KLambdaVar    (* lambda stored in a variable, streamed as an lvalue *)
(* callables whose call operator is NOT const: invocable in the value category in which they are streamed (T is deduced
   by value, the operator calls its own non-const copy) *)
| KMutableLambda   (* mutable capturing lambda, temporary *)
| KNonConstTemp    (* function object with a non-const operator(), temporary *)
| KNonConstVar     (* the same, a non-const variable streamed as an lvalue *)
| KNonConstConstVar (* the same, a const variable (the by-value copy inside operator<< is not const) *)
| KBoolTemp        (* non-const operator() AND a non-explicit operator bool (so it could also be inserted as a value), temporary *)
| KBoolVar         (* the same, a variable *)
| KInsertableVar.  (* non-const operator() AND its own operator<<(std::ostream&, …), a variable *)

(* streamable objects other than std::string and numbers; `s` is what their operator<<(std::ostream&, …) writes.
   The model treats them like a string item: operator<<(stream, const T& t) hands the object itself to the std::ostream. *)
Inductive okind :=
| OBaseRef      (* an object of a derived class streamed through a reference to its (copyable, non-abstract) base whose
                   operator<< calls a virtual function: s is what the DERIVED class writes *)
| ONonCopyable  (* a class with a deleted copy constructor *)
| OCopyMarked.  (* a class whose copies would render differently from the original *)

(* ways to make the std::stringstream of a statement fail (none of them writes anything).  After it every formatted
   insertion of the std::ostream is a no-op (its sentry fails), str() keeps the text written before. *)
Inductive fkind :=
| FNullCStr        (* s << (const char* )nullptr          -> badbit *)
| FNullStreambuf   (* s << (std::streambuf* )nullptr      -> badbit *)
| FUserFailbit.    (* a user operator<<(std::ostream&, X) that calls setstate(failbit) *)

Inductive item :=
| IStr (s : str)                  (* s.sstr() << std::string *)
| INum (z : Z)                    (* s.sstr() << long long *)
| ICall (k : ckind) (id : nat) (ret : str)    (* a callable of shape k; `id` names it, `ret` is what it returns *)
| IObj (k : okind) (s : str)                  (* s.sstr() << object *)
| IFail (k : fkind).                          (* an insertion that puts the statement's std::stringstream into fail()/bad() *)

(* decimal rendering of an integer by std::ostream (modelled, tied by correspondence only) *)
Definition digit (d : N) : byte :=
  match d with
  | 0%N => x30 | 1%N => x31 | 2%N => x32 | 3%N => x33 | 4%N => x34
  | 5%N => x35 | 6%N => x36 | 7%N => x37 | 8%N => x38 | _ => x39
  end.
(* fuel = number of binary digits of n, which is at least its number of decimal digits *)
Fixpoint dec_digits (fuel : nat) (n : N) (acc : str) : str :=
  match fuel with
  | O => acc
  | S f => let acc' := digit (N.modulo n 10) :: acc in
           if N.eqb (N.div n 10) 0 then acc' else dec_digits f (N.div n 10) acc'
  end.
Definition dec_of_N (n : N) : str := dec_digits (S (N.to_nat (N.log2 n))) n [].
Definition dec_of_Z (z : Z) : str :=
  match z with
  | Z0 => [x30]
  | Zpos p => dec_of_N (Npos p)
  | Zneg p => x2d :: dec_of_N (Npos p)
  end.

(* the text an item contributes to the stringstream *)
Definition item_text (it : item) : str :=
  match it with IStr s => s | INum z => dec_of_Z z | ICall _ _ ret => ret | IObj _ s => s | IFail _ => [] end.
Definition is_fail (it : item) : bool := match it with IFail _ => true | _ => false end.

(* ---------------------------------------------------------------- observable events *)

Inductive event :=
| Call (id : nat)                          (* the callable `id` was invoked *)
| Format (r : record)                      (* Formatter<Record>::format(r) was invoked with this record *)
| Sink (member : nat) (s : sev) (text : str)   (* member `member` of sink::sequence got sink(s, text) *)
| Fault.                                   (* null pointer dereference (s->str() with s == nullptr) *)

(* the Sink of a logger: a tree of sink::sequence<…> whose leaves are the user's sinks.
   mkind: how a leaf's sink(severity, text) takes the text.  The model IGNORES it: sequence::sink passes the same
   `const std::string&` to every member, so what a member does with its argument cannot affect the others. *)
Inductive mkind :=
| MConstRef     (* sink(severity_level, const std::string&) *)
| MByValue      (* sink(severity_level, std::string) *)
| MRvalue.      (* overloads for const std::string& and std::string&&, the latter adopting the buffer *)
Inductive sinks :=
| SLeaf (k : mkind)
| SSeq (members : list sinks).     (* sink::sequence<members…>, possibly nested *)

(* number of leaves; leaves are numbered 0, 1, … in declaration order (depth first, left to right) *)
Fixpoint nleaves (t : sinks) : nat :=
  match t with
  | SLeaf _ => 1
  | SSeq l => (fix go (l : list sinks) : nat := match l with [] => 0 | m :: r => nleaves m + go r end) l
  end.

(* a logger type: logger<Record, Formatter, Sink, Filter>.
   lg_rec identifies the Record type (its severity filters are severity_filter<Record, k>), lg_tagged says whether that
   record type has a tag_attribute, lg_sink is the sink tree *)
Record logger := mkLogger { lg_rec : nat; lg_tagged : bool; lg_filter : fexpr; lg_sink : sinks }.
Definition lg_sinks (lg : logger) : nat := nleaves (lg_sink lg).

(* per binary: NITRO_LOG_MIN_SEVERITY and the user's Formatter (a function of the record) *)
Record config := mkConfig { c_min : sev; c_fmt : record -> str }.

(* sink::sequence<Sinks...>::sink — lang::tuple_foreach visits the members in declaration order *)
Definition sink_seq (m : nat) (s : sev) (text : str) : list event :=
  map (fun i => Sink i s text) (seq 0 m).
(* the same for a tree: a member that is itself a sequence forwards to ITS members in order before the next member of the
   outer sequence is visited.  n is the number of the next leaf; returns the events and the next free number. *)
Fixpoint sink_tree (t : sinks) (s : sev) (text : str) (n : nat) : list event * nat :=
  match t with
  | SLeaf _ => ([Sink n s text], S n)
  | SSeq l =>
      (fix go (l : list sinks) (n : nat) : list event * nat :=
         match l with
         | [] => ([], n)
         | m :: r => let '(e1, n1) := sink_tree m s text n in
                     let '(e2, n2) := go r n1 in (e1 ++ e2, n2)
         end) l n
  end.
(* the kinds of the leaves in declaration order, and the flat sequence with the same leaves *)
Fixpoint leaf_kinds (t : sinks) : list mkind :=
  match t with
  | SLeaf k => [k]
  | SSeq l => (fix go (l : list sinks) : list mkind := match l with [] => [] | m :: r => leaf_kinds m ++ go r end) l
  end.
Definition seq_flatten (t : sinks) : sinks := SSeq (map SLeaf (leaf_kinds t)).
Definition flat_sinks (m : nat) : sinks := SSeq (repeat (SLeaf MConstRef) m).

(* logger::log(s, r):  instance().Sink::sink(s, instance().Formatter::format(r)) *)
Definition log_record (cfg : config) (lg : logger) (s : sev) (r : record) : list event :=
  Format r :: fst (sink_tree (lg_sink lg) s (c_fmt cfg r) 0).

(* ---------------------------------------------------------------- stream.hpp: the stream objects *)

(* smart_stream: std::unique_ptr<Record> r; std::unique_ptr<std::stringstream> s *)
(* ss_bad: the error state (fail() || bad()) of the stringstream *s; it belongs to the stringstream and moves with it *)
Record sstream := mkSS { ss_r : option record; ss_s : option str; ss_bad : bool }.

(* smart_stream(string_ref tag) *)
Definition ss_construct (th : thresholds) (lg : logger) (sv : sev) (tag : option str) : sstream :=
  (* detail::set_tag: set_tag_attribute<Record, has_attribute<tag_attribute, Record>> — a record type without a tag
     attribute ignores the tag *)
  let r0 := if lg_tagged lg then set_tag new_record tag else new_record in
  let r := set_severity r0 sv in
  (* the filter is asked about the COMPLETE record: tag and severity are both set before will_log *)
  if filt (th (lg_rec lg)) (lg_filter lg) r         (* logger::will_log( *r ): the filters of THIS record type *)
  then mkSS (Some r) (Some []) false                (* s.reset(new std::stringstream()) *)
  else mkSS None None false.                        (* r.reset() *)

(* smart_stream(smart_stream&& ss) : r(std::move(ss.r)), s(std::move(ss.s)) — returns (new, source afterwards) *)
Definition ss_move (src : sstream) : sstream * sstream :=
  (mkSS (ss_r src) (ss_s src) (ss_bad src), mkSS None None false).

(* all four operator<< overloads on smart_stream: if (s) { s.sstr() << t  resp.  s.sstr() << t(); }
   `if (s)` asks only whether the buffer EXISTS (operator bool is static_cast<bool>(s)), not whether it is healthy: a callable
   is called even when the stringstream has failed; the std::ostream then drops the text. *)
Definition ss_put (x : sstream) (it : item) : sstream * list event :=
  match ss_s x with
  | Some b =>
      (mkSS (ss_r x) (Some (b ++ (if ss_bad x then [] else item_text it))) (ss_bad x || is_fail it),
       match it with ICall _ id _ => [Call id] | _ => [] end)
  | None => (x, [])
  end.

(* ~smart_stream(): if (r) { set_timestamp( *r ); r->message() = s->str(); logger::log(Severity, *r); } *)
Definition ss_destroy (cfg : config) (lg : logger) (sv : sev) (x : sstream) : list event :=
  match ss_r x with
  | None => []
  | Some r =>
      match ss_s x with
      | None => [Fault]
      | Some b => log_record cfg lg sv (set_message r b)
      end
  end.

(* log::actual_stream<Severity,...>::type *)
Inductive skind := KSmart | KNull.
Definition stream_kind (min sv : sev) : skind := if sev_ge sv min then KSmart else KNull.

(* the object a logger::<sev>(tag) call yields *)
Inductive stream := SSmart (x : sstream) | SNull.

Definition make_stream (cfg : config) (th : thresholds) (lg : logger) (sv : sev) (tag : option str) : stream :=
  match stream_kind (c_min cfg) sv with
  | KSmart => SSmart (ss_construct th lg sv tag)
  | KNull => SNull                                 (* null_stream(string_ref) {} *)
  end.

(* operator<<(stream&, item): null_stream's overloads ignore their argument (a callable is not called) *)
Definition stream_put (st : stream) (it : item) : stream * list event :=
  match st with
  | SSmart x => let '(x', ev) := ss_put x it in (SSmart x', ev)
  | SNull => (SNull, [])
  end.

Definition stream_destroy (cfg : config) (lg : logger) (sv : sev) (st : stream) : list event :=
  match st with
  | SSmart x => ss_destroy cfg lg sv x
  | SNull => []
  end.

(* ---------------------------------------------------------------- form 1: one expression
   L::sev(tag) << i1 << … << ik;
   Every operator<<(smart_stream&&, …) streams into its argument and returns `std::move(s)` BY VALUE:
   a new temporary move-constructed from the argument, which is left with two null pointers.  All k+1
   temporaries live to the end of the full expression and are destroyed in reverse order of creation. *)
Fixpoint one_chain (cur : sstream) (olds : list sstream) (its : list item)
  : (sstream * list sstream) * list event :=
  match its with
  | [] => ((cur, olds), [])
  | it :: rest =>
      let '(cur1, ev) := ss_put cur it in
      let '(nw, old) := ss_move cur1 in
      let '(res, ev') := one_chain nw (old :: olds) rest in
      (res, ev ++ ev')
  end.

Definition exec_one (cfg : config) (th : thresholds) (lg : logger) (sv : sev) (tag : option str)
           (its : list item) : list event :=
  match stream_kind (c_min cfg) sv with
  | KNull => []          (* null_stream temporaries: every << discards, destructors are trivial *)
  | KSmart =>
      let s0 := ss_construct th lg sv tag in
      let '((cur, olds), ev) := one_chain s0 [] its in
      ev ++ flat_map (ss_destroy cfg lg sv) (cur :: olds)
  end.

(* ---------------------------------------------------------------- programs
   form 2 is a named stream object:   auto s = L::sev(tag);  s << i1; …; s << ik;  (end of scope)
   A program is a sequence of operations over named stream variables (slots), one-expression
   statements and threshold changes; a named statement is Open; Put…; Close. *)
Record slot := mkSlot { sl_lg : logger; sl_sev : sev; sl_stream : stream }.

Record world := mkWorld { w_th : thresholds; w_slots : nat -> option slot }.

Definition init_world : world := mkWorld init_thresholds (fun _ => None).

Definition set_slot (sl : nat -> option slot) (v : nat) (x : option slot) : nat -> option slot :=
  fun j => if j =? v then x else sl j.

(* where in the program a whole statement is executed.  The model IGNORES it: a statement is a statement. *)
Inductive sctx :=
| CNormal       (* straight-line code *)
| CUnwinding    (* inside a destructor that runs while an exception propagates (a scope guard logging during stack unwinding) *)
| CCatch        (* inside a catch handler *)
| CDtor.        (* inside a destructor on normal scope exit *)

Fixpoint stream_puts (st : stream) (its : list item) : stream * list event :=
  match its with
  | [] => (st, [])
  | it :: rest => let '(st1, ev) := stream_put st it in
                  let '(st2, ev') := stream_puts st1 rest in (st2, ev ++ ev')
  end.

(* form 2 with a local variable:  { auto s = L::sv(tag); s << i1; …; s << ik; } *)
Definition exec_named (cfg : config) (th : thresholds) (lg : logger) (sv : sev) (tag : option str)
           (its : list item) : list event :=
  let '(st, ev) := stream_puts (make_stream cfg th lg sv tag) its in
  ev ++ stream_destroy cfg lg sv st.

(* the same with the stream object moved into another variable half-way:
     { auto s = L::sv(tag); s << pre…; auto t = std::move(s); t << post…; }     t is declared later, so it is destroyed first *)
Definition exec_named_moved (cfg : config) (th : thresholds) (lg : logger) (sv : sev) (tag : option str)
           (pre post : list item) : list event :=
  let '(st1, e1) := stream_puts (make_stream cfg th lg sv tag) pre in
  match st1 with
  | SNull => e1 ++ snd (stream_puts SNull post)
  | SSmart x =>
      let '(t, s') := ss_move x in
      let '(st2, e2) := stream_puts (SSmart t) post in
      e1 ++ e2 ++ stream_destroy cfg lg sv st2 ++ ss_destroy cfg lg sv s'
  end.

(* a named stream initialised from a `<<` chain and filled further afterwards:
     auto s = L::sv(tag) << pre…;      (the chain's last temporary initialises s directly: copy elision)
     auto&& s = L::sv(tag) << pre…;    (operator<< returns BY VALUE: the reference extends the lifetime of that last temporary)
     s << post…;   }                   (s dies at the end of the scope)
   The emptied temporaries of the chain die at the end of the declaration. *)
Definition exec_named_from_chain (cfg : config) (th : thresholds) (lg : logger) (sv : sev) (tag : option str)
           (pre post : list item) : list event :=
  match stream_kind (c_min cfg) sv with
  | KNull => []
  | KSmart =>
      let '((cur, olds), e1) := one_chain (ss_construct th lg sv tag) [] pre in
      let d1 := flat_map (ss_destroy cfg lg sv) olds in
      let '(st2, e2) := stream_puts (SSmart cur) post in
      e1 ++ d1 ++ e2 ++ stream_destroy cfg lg sv st2
  end.

Inductive op :=
| OSet (rc k : nat) (s : sev)                                          (* severity_filter<Record rc, k>::set_severity(s) *)
| OOne (c : sctx) (lg : logger) (sv : sev) (tag : option str) (its : list item)     (* L::sv(tag) << its…;   executed in context c *)
| ONamed (c : sctx) (lg : logger) (sv : sev) (tag : option str) (its : list item)   (* { auto s = L::sv(tag); s << its…; }  in context c *)
| OOpen (v : nat) (lg : logger) (sv : sev) (tag : option str)          (* auto v = L::sv(tag); *)
| OPut (v : nat) (it : item)                                           (* v << it; *)
| OClose (v : nat).                                                    (* v goes out of scope *)

(* end of life of the object in slot v, if any *)
Definition close_slot (cfg : config) (w : world) (v : nat) : world * list event :=
  match w_slots w v with
  | None => (w, [])
  | Some sl => (mkWorld (w_th w) (set_slot (w_slots w) v None),
                stream_destroy cfg (sl_lg sl) (sl_sev sl) (sl_stream sl))
  end.

Definition exec_op (cfg : config) (w : world) (o : op) : world * list event :=
  match o with
  | OSet rc k s => (mkWorld (set_threshold (w_th w) rc k s) (w_slots w), [])
  | OOne _ lg sv tag its => (w, exec_one cfg (w_th w) lg sv tag its)
  | ONamed _ lg sv tag its => (w, exec_named cfg (w_th w) lg sv tag its)
  | OOpen v lg sv tag =>
      (* harness convention: a slot that is still occupied is closed first *)
      let '(w1, ev) := close_slot cfg w v in
      (mkWorld (w_th w1) (set_slot (w_slots w1) v (Some (mkSlot lg sv (make_stream cfg (w_th w1) lg sv tag)))), ev)
  | OPut v it =>
      match w_slots w v with
      | None => (w, [])
      | Some sl =>
          let '(st', ev) := stream_put (sl_stream sl) it in
          (mkWorld (w_th w) (set_slot (w_slots w) v (Some (mkSlot (sl_lg sl) (sl_sev sl) st'))), ev)
      end
  | OClose v => close_slot cfg w v
  end.

Fixpoint exec_prog (cfg : config) (w : world) (ops : list op) : world * list event :=
  match ops with
  | [] => (w, [])
  | o :: rest =>
      let '(w1, ev) := exec_op cfg w o in
      let '(w2, ev') := exec_prog cfg w1 rest in
      (w2, ev ++ ev')
  end.

Definition run (cfg : config) (ops : list op) : list event := snd (exec_prog cfg init_world ops).

(* the named form of one statement, in slot v *)
Definition named_ops (v : nat) (lg : logger) (sv : sev) (tag : option str) (its : list item) : list op :=
  OOpen v lg sv tag :: map (OPut v) its ++ [OClose v].

(* ---------------------------------------------------------------- the harness's recording formatter:
   format(r) = <digit of severity> '|' tag '|' message *)
Definition sev_digit (s : sev) : byte :=
  match s with Trace => x30 | Debug => x31 | Info => x32 | Warn => x33 | Error => x34 | Fatal => x35 end.
Definition harness_fmt (r : record) : str := sev_digit (r_sev r) :: x7c :: r_tag r ++ x7c :: r_msg r.

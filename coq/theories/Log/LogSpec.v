(* Log/LogSpec.v — what a log statement means (C05, C10), without stream objects, ownership or moves. *)
From Coq Require Import List Arith Bool ZArith.
From Coq Require Import Init.Byte.
From Nitro Require Import Base.Bytes Log.LogModel.
Import ListNotations.
Local Open Scope list_scope.

(* a filter expression is a boolean formula over "threshold k <= severity" and "the statement's tag is / is not t";
   sv and tg are the severity and the tag OF THE STATEMENT (the record that would be delivered) *)
Fixpoint holds (th : ktable) (f : fexpr) (sv : sev) (tg : str) : bool :=
  match f with
  | FNull => true
  | FThr k => rank (th k) <=? rank sv
  | FAnd a b => holds th a sv tg && holds th b sv tg
  | FOr a b => holds th a sv tg || holds th b sv tg
  | FNot a => negb (holds th a sv tg)
  | FTag accept t => if accept then str_eqb tg t else negb (str_eqb tg t)
  end.

(* compile-time gate: the statement's severity is at or above the compile-time minimum *)
Definition gate_open (min sv : sev) : bool := rank min <=? rank sv.

(* the tag a record carries: the tag argument read as a C string, empty when there is none *)
Definition tag_text (tag : option str) : str := match tag with None => [] | Some t => cstr t end.
(* … as far as the logger's record type has a tag attribute at all *)
Definition rec_tag (lg : logger) (tag : option str) : str := if lg_tagged lg then tag_text tag else [].

(* a statement is enabled iff the gate is open and the runtime filter expression accepts its severity AND ITS TAG under the
   thresholds configured for ITS logger's record type *)
Definition enabled (min : sev) (th : thresholds) (lg : logger) (sv : sev) (tag : option str) : bool :=
  gate_open min sv && holds (th (lg_rec lg)) (lg_filter lg) sv (rec_tag lg tag).


(* the message: everything streamed, in order — up to an item that makes the std::stringstream fail (a null const char*, …):
   the standard stream writes nothing from then on.  bad: has the stream already failed *)
Fixpoint msg_from (bad : bool) (its : list item) : str :=
  match its with
  | [] => []
  | it :: rest => (if bad then [] else item_text it) ++ msg_from (bad || is_fail it) rest
  end.
Definition message (its : list item) : str := msg_from false its.
Fixpoint bad_after (bad : bool) (its : list item) : bool :=
  match its with [] => bad | it :: rest => bad_after (bad || is_fail it) rest end.

(* the callables streamed, in order *)
Definition calls_of (its : list item) : list nat :=
  flat_map (fun it => match it with ICall _ id _ => [id] | _ => [] end) its.


Definition delivered (lg : logger) (sv : sev) (tag : option str) (its : list item) : record :=
  mkRecord sv (rec_tag lg tag) (message its).

(* one record reaches the formatter once and then every member of the sequence once, in declaration order *)
Definition delivery (cfg : config) (lg : logger) (sv : sev) (r : record) : list event :=
  Format r :: map (fun i => Sink i sv (c_fmt cfg r)) (seq 0 (lg_sinks lg)).

(* THE SPEC of one statement (either syntactic form) *)
Definition spec_stmt (cfg : config) (th : thresholds) (lg : logger) (sv : sev) (tag : option str)
           (its : list item) : list event :=
  if enabled (c_min cfg) th lg sv tag
  then map Call (calls_of its) ++ delivery cfg lg sv (delivered lg sv tag its)
  else [].

(* ---------------------------------------------------------------- programs: logical streams *)

(* a named stream as the programmer thinks of it: on or off (decided when it is created), and its text so far *)
Record lstream := mkL { l_lg : logger; l_sev : sev; l_tag : str; l_on : bool; l_text : str; l_bad : bool }.

Record sworld := mkSW { s_th : thresholds; s_slots : nat -> option lstream }.

Definition init_sworld : sworld := mkSW init_thresholds (fun _ => None).

Definition set_lslot (sl : nat -> option lstream) (v : nat) (x : option lstream) : nat -> option lstream :=
  fun j => if j =? v then x else sl j.

Definition spec_close (cfg : config) (sw : sworld) (v : nat) : sworld * list event :=
  match s_slots sw v with
  | None => (sw, [])
  | Some l => (mkSW (s_th sw) (set_lslot (s_slots sw) v None),
               if l_on l then delivery cfg (l_lg l) (l_sev l) (mkRecord (l_sev l) (l_tag l) (l_text l)) else [])
  end.

Definition spec_op (cfg : config) (sw : sworld) (o : op) : sworld * list event :=
  match o with
  | OSet rc k s => (mkSW (set_threshold (s_th sw) rc k s) (s_slots sw), [])
  | OOne _ lg sv tag its => (sw, spec_stmt cfg (s_th sw) lg sv tag its)       (* whatever the context *)
  | ONamed _ lg sv tag its => (sw, spec_stmt cfg (s_th sw) lg sv tag its)
  | OOpen v lg sv tag =>
      let '(sw1, ev) := spec_close cfg sw v in
      (mkSW (s_th sw1) (set_lslot (s_slots sw1) v
              (Some (mkL lg sv (rec_tag lg tag) (enabled (c_min cfg) (s_th sw1) lg sv tag) [] false))), ev)
  | OPut v it =>
      match s_slots sw v with
      | None => (sw, [])
      | Some l =>
          if l_on l
          then (mkSW (s_th sw) (set_lslot (s_slots sw) v
                        (Some (mkL (l_lg l) (l_sev l) (l_tag l) true (l_text l ++ (if l_bad l then [] else item_text it))
                                   (l_bad l || is_fail it)))),
                map Call (calls_of [it]))          (* a callable is called here, when it is streamed — failed stream or not *)
          else (sw, [])
      end
  | OClose v => spec_close cfg sw v
  end.

Fixpoint spec_prog (cfg : config) (sw : sworld) (ops : list op) : sworld * list event :=
  match ops with
  | [] => (sw, [])
  | o :: rest =>
      let '(sw1, ev) := spec_op cfg sw o in
      let '(sw2, ev') := spec_prog cfg sw1 rest in
      (sw2, ev ++ ev')
  end.

Definition spec_run (cfg : config) (ops : list op) : list event := snd (spec_prog cfg init_sworld ops).

(* ---------------------------------------------------------------- sequences of whole statements *)

Inductive form := OneExpr | Named.

Inductive sitem :=
| SSet (rc k : nat) (s : sev)
| SStmt (f : form) (lg : logger) (sv : sev) (tag : option str) (its : list item).

(* the program text of a statement sequence; named statements all use variable 0 *)
Definition sitem_ops (x : sitem) : list op :=
  match x with
  | SSet rc k s => [OSet rc k s]
  | SStmt OneExpr lg sv tag its => [OOne CNormal lg sv tag its]
  | SStmt Named lg sv tag its => named_ops 0 lg sv tag its
  end.

(* its meaning: the statements' traces in program order, each under the thresholds then in force *)
Fixpoint spec_seq (cfg : config) (th : thresholds) (l : list sitem) : list event :=
  match l with
  | [] => []
  | SSet rc k s :: rest => spec_seq cfg (set_threshold th rc k s) rest
  | SStmt _ lg sv tag its :: rest => spec_stmt cfg th lg sv tag its ++ spec_seq cfg th rest
  end.

(* what arrives, statement by statement: the (logger, record) pairs of the enabled statements in program order *)
Fixpoint arrivals (min : sev) (th : thresholds) (l : list sitem) : list (logger * record) :=
  match l with
  | [] => []
  | SSet rc k s :: rest => arrivals min (set_threshold th rc k s) rest
  | SStmt _ lg sv tag its :: rest =>
      (if enabled min th lg sv tag then [(lg, delivered lg sv tag its)] else []) ++ arrivals min th rest
  end.

(* the records the formatter saw, and the (severity, text) pairs member i of the sequence received, in order of arrival *)
Definition formatted (tr : list event) : list record :=
  flat_map (fun e => match e with Format r => [r] | _ => [] end) tr.
Definition received (i : nat) (tr : list event) : list (sev * str) :=
  flat_map (fun e => match e with Sink j s t => if j =? i then [(s, t)] else [] | _ => [] end) tr.

(* ---------------------------------------------------------------- projections used in statements and oracles *)

Definition is_call (e : event) : bool := match e with Call _ => true | _ => false end.
Definition is_format (e : event) : bool := match e with Format _ => true | _ => false end.
Definition is_sink_of (i : nat) (e : event) : bool := match e with Sink j _ _ => j =? i | _ => false end.
Definition is_call_of (id : nat) (e : event) : bool := match e with Call j => j =? id | _ => false end.
Definition count {A} (p : A -> bool) (l : list A) : nat := length (filter p l).
Definition sink_members (tr : list event) : list nat :=
  flat_map (fun e => match e with Sink j _ _ => [j] | _ => [] end) tr.

(* a stream object that will take insertions: a smart_stream whose buffer is present *)
Definition stream_live (st : stream) : bool :=
  match st with SSmart x => match ss_s x with Some _ => true | None => false end | SNull => false end.

(* Log/LogProofs.v — the model of stream.hpp/logger.hpp refines LogSpec (C05, C10). All statements for ALL inputs. *)
From Coq Require Import List Arith Bool Lia ZArith NArith.
From Coq Require Import Init.Byte.
From Nitro Require Import Base.Bytes Log.LogModel Log.LogSpec.
Import ListNotations.
Local Open Scope list_scope.

(* ---------------------------------------------------------------- severities and filters *)

Lemma sev_ge_gate a b : sev_ge a b = gate_open b a.
Proof. reflexivity. Qed.

Lemma rank_inj a b : rank a = rank b -> a = b.
Proof. destruct a, b; simpl; intros H; try reflexivity; discriminate. Qed.

Lemma rank_bound s : rank s < 6.
Proof. destruct s; simpl; lia. Qed.

Lemma filt_holds_aux th r f :
  filt th f r = holds th f (r_sev r) (r_tag r) /\ filt th (FNot f) r = negb (holds th f (r_sev r) (r_tag r)).
Proof.
  induction f as [|k|a [IHa IHa'] b [IHb IHb']|a [IHa IHa'] b [IHb IHb']|a [IHa IHa']|acc t].
  - split; reflexivity.
  - split; reflexivity.
  - split; simpl; rewrite IHa, IHb; reflexivity.
  - split; simpl; rewrite IHa, IHb; reflexivity.
  - split; [exact IHa'|].
    change (filt th (FNot (FNot a)) r) with (filt th a r).
    rewrite IHa. simpl. now rewrite negb_involutive.
  - split; reflexivity.
Qed.

(* the filter code computes exactly the boolean formula (the double-negation specialisation included) over the severity
   AND THE TAG of the record it is handed *)
Lemma filt_holds th f r : filt th f r = holds th f (r_sev r) (r_tag r).
Proof. apply filt_holds_aux. Qed.

Lemma filter_algebra th r :
  filt th FNull r = true
  /\ (forall k, filt th (FThr k) r = (rank (th k) <=? rank (r_sev r)))
  /\ (forall a b, filt th (FAnd a b) r = filt th a r && filt th b r)
  /\ (forall a b, filt th (FOr a b) r = filt th a r || filt th b r)
  /\ (forall a, filt th (FNot a) r = negb (filt th a r))
  /\ (forall a, filt th (FNot (FNot a)) r = filt th a r).
Proof.
  repeat split; try reflexivity.
  intros a. rewrite !filt_holds. reflexivity.
Qed.

Lemma holds_threshold_only th th' f sv tg :
  (forall k, th k = th' k) -> holds th f sv tg = holds th' f sv tg.
Proof.
  intros E. induction f; simpl; try reflexivity.
  - now rewrite E.
  - now rewrite IHf1, IHf2.
  - now rewrite IHf1, IHf2.
  - now rewrite IHf.
Qed.

(* ---------------------------------------------------------------- records *)

Lemma set_tag_text tag : r_tag (set_tag new_record tag) = tag_text tag.
Proof.
  destruct tag as [t|]; simpl; [|reflexivity].
  destruct (cstr t); reflexivity.
Qed.

Lemma set_tag_sev_msg tag : r_msg (set_tag new_record tag) = [].
Proof. destruct tag as [t|]; simpl; [|reflexivity]. destruct (cstr t); reflexivity. Qed.

Lemma fresh_record lg sv tag :
  set_severity (if lg_tagged lg then set_tag new_record tag else new_record) sv = mkRecord sv (rec_tag lg tag) [].
Proof.
  unfold set_severity, rec_tag. destruct (lg_tagged lg); [|reflexivity].
  now rewrite set_tag_text, set_tag_sev_msg.
Qed.

Lemma cstr_no_nul t : ~ In x00 t -> cstr t = t.
Proof.
  induction t as [|c t IH]; simpl; [reflexivity|]. intros H.
  destruct (beq c x00) eqn:E.
  - apply beq_true in E. subst. exfalso. apply H. now left.
  - f_equal. apply IH. intros K. apply H. now right.
Qed.

(* ---------------------------------------------------------------- sink trees: nesting flattens *)

Section SinksInd.
  Variable P : sinks -> Prop.
  Hypothesis Hleaf : forall k, P (SLeaf k).
  Hypothesis Hseq : forall l, Forall P l -> P (SSeq l).
  Fixpoint sinks_ind' (t : sinks) : P t :=
    match t with
    | SLeaf k => Hleaf k
    | SSeq l => Hseq l ((fix go (l : list sinks) : Forall P l :=
                           match l with
                           | [] => Forall_nil P
                           | m :: r => Forall_cons m (sinks_ind' m) (go r)
                           end) l)
    end.
End SinksInd.

(* a (nested) sequence hands the same text to all its leaves, in declaration order *)
Lemma sink_tree_flat s text t : forall n,
  sink_tree t s text n = (map (fun i => Sink i s text) (seq n (nleaves t)), n + nleaves t).
Proof.
  induction t as [k|l IH] using sinks_ind'; intros n.
  - simpl. f_equal. lia.
  - cbn [sink_tree nleaves].
    revert n. induction IH as [|m r Hm _ IHr]; intros n.
    + simpl. f_equal. lia.
    + rewrite Hm, IHr. rewrite seq_app, map_app. f_equal. lia.
Qed.

Lemma nleaves_flatten t : nleaves (seq_flatten t) = nleaves t.
Proof.
  induction t as [k|l IH] using sinks_ind'; [reflexivity|].
  unfold seq_flatten. cbn [leaf_kinds nleaves].
  induction IH as [|m r Hm _ IHr]; [reflexivity|].
  rewrite map_app. unfold seq_flatten in Hm. cbn [nleaves] in Hm, IHr |- *.
  rewrite <- Hm, <- IHr. clear.
  induction (map SLeaf (leaf_kinds m)) as [|x xs IHx]; [reflexivity|]. cbn [app]. rewrite IHx. lia.
Qed.

(* sequence<A, sequence<B, C>>, sequence<sequence<A, B>, C> and sequence<A, B, C> deliver alike *)
Theorem nested_sequence_flattens s text t n :
  sink_tree t s text n = sink_tree (seq_flatten t) s text n.
Proof. now rewrite !sink_tree_flat, nleaves_flatten. Qed.

Lemma log_record_delivery cfg lg s r : log_record cfg lg s r = delivery cfg lg s r.
Proof. unfold log_record, delivery, lg_sinks. now rewrite sink_tree_flat. Qed.

(* ---------------------------------------------------------------- the smart_stream operations *)

Definition dead : sstream := mkSS None None false.
(* a stream that owns its record and a buffer holding b; bad = the stringstream has failed *)
Definition liveb (r : record) (b : str) (bad : bool) : sstream := mkSS (Some r) (Some b) bad.
Definition live (r : record) (b : str) : sstream := liveb r b false.

Lemma msg_from_cons bad it its :
  msg_from bad (it :: its) = (if bad then [] else item_text it) ++ msg_from (bad || is_fail it) its.
Proof. reflexivity. Qed.

(* once the stream has failed nothing more is written *)
Lemma msg_from_bad its : msg_from true its = [].
Proof. induction its as [|it its IH]; [reflexivity|]. simpl. exact IH. Qed.

(* without a failing item the message is the plain concatenation of everything streamed *)
Lemma message_plain its : (forall it, In it its -> is_fail it = false) -> message its = concat (map item_text its).
Proof.
  unfold message. induction its as [|it its IH]; intros H; [reflexivity|].
  rewrite msg_from_cons. rewrite (H it (or_introl eq_refl)). simpl. f_equal. apply IH. intros x Hx. apply H. now right.
Qed.

(* with one: the concatenation of what was streamed before the first failing item *)
Lemma message_until_fail pre k post :
  (forall it, In it pre -> is_fail it = false) -> message (pre ++ IFail k :: post) = concat (map item_text pre).
Proof.
  unfold message. induction pre as [|it pre IH]; intros H.
  - simpl. apply msg_from_bad.
  - cbn [app]. rewrite msg_from_cons. rewrite (H it (or_introl eq_refl)). simpl. f_equal. apply IH. intros x Hx. apply H. now right.
Qed.

Lemma calls_of_cons it its : calls_of (it :: its) = calls_of [it] ++ calls_of its.
Proof. unfold calls_of. simpl. now rewrite app_nil_r. Qed.

Lemma calls_of_app a b : calls_of (a ++ b) = calls_of a ++ calls_of b.
Proof. unfold calls_of. now rewrite flat_map_app. Qed.

Lemma ss_put_live r b bad it :
  ss_put (liveb r b bad) it
  = (liveb r (b ++ (if bad then [] else item_text it)) (bad || is_fail it), map Call (calls_of [it])).
Proof. destruct it; reflexivity. Qed.

(* a callable is a callable: its C++ shape changes nothing in the model *)
Lemma callable_kind_irrelevant k k' id ret x :
  ss_put x (ICall k id ret) = ss_put x (ICall k' id ret)
  /\ item_text (ICall k id ret) = item_text (ICall k' id ret)
  /\ calls_of [ICall k id ret] = calls_of [ICall k' id ret].
Proof. repeat split. Qed.

(* an object is streamed as itself: it contributes what its own operator<< writes, like a string item *)
Lemma object_item_as_string k s x : ss_put x (IObj k s) = ss_put x (IStr s).
Proof. reflexivity. Qed.

Lemma ss_put_dead it : ss_put dead it = (dead, []).
Proof. reflexivity. Qed.

Lemma repeat_shift {A} (x : A) n l : repeat x n ++ x :: l = x :: repeat x n ++ l.
Proof. induction n as [|n IH]; simpl; [reflexivity|]. now rewrite IH. Qed.

(* a `<<` chain on an accepted stream: the last temporary owns the record and the whole text,
   every earlier temporary has been emptied, the callables were called in order *)
Lemma one_chain_live r its : forall b bad olds,
  one_chain (liveb r b bad) olds its
  = ((liveb r (b ++ msg_from bad its) (bad_after bad its), repeat dead (length its) ++ olds), map Call (calls_of its)).
Proof.
  induction its as [|it rest IH]; intros b bad olds.
  - simpl. now rewrite app_nil_r.
  - cbn [one_chain]. rewrite ss_put_live. cbn [ss_move liveb ss_r ss_s ss_bad].
    change (mkSS (Some r) (Some ?x) ?y) with (liveb r x y).
    change (mkSS None None false) with dead.
    rewrite IH. rewrite msg_from_cons, app_assoc. cbn [bad_after]. rewrite repeat_shift.
    rewrite (calls_of_cons it rest), map_app. reflexivity.
Qed.

Lemma one_chain_dead its : forall olds,
  one_chain dead olds its = ((dead, repeat dead (length its) ++ olds), []).
Proof.
  induction its as [|it rest IH]; intros olds.
  - reflexivity.
  - cbn [one_chain]. rewrite ss_put_dead. cbn [ss_move dead ss_r ss_s ss_bad].
    change (mkSS None None false) with dead. rewrite IH, repeat_shift. reflexivity.
Qed.

Lemma destroy_dead cfg lg sv : ss_destroy cfg lg sv dead = [].
Proof. reflexivity. Qed.

Lemma destroy_deads cfg lg sv n : flat_map (ss_destroy cfg lg sv) (repeat dead n) = [].
Proof. induction n; simpl; auto. Qed.

Lemma destroy_live cfg lg sv sv' tg m b bad :
  ss_destroy cfg lg sv (liveb (mkRecord sv' tg m) b bad) = delivery cfg lg sv (mkRecord sv' tg b).
Proof. cbn [ss_destroy liveb ss_r ss_s]. apply log_record_delivery. Qed.

Lemma construct_spec th lg sv tag :
  ss_construct th lg sv tag
  = if holds (th (lg_rec lg)) (lg_filter lg) sv (rec_tag lg tag) then live (mkRecord sv (rec_tag lg tag) []) [] else dead.
Proof.
  unfold ss_construct. rewrite filt_holds, fresh_record. simpl r_sev; simpl r_tag.
  destruct (holds (th (lg_rec lg)) (lg_filter lg) sv (rec_tag lg tag)); reflexivity.
Qed.

(* ---------------------------------------------------------------- form 1 *)

Theorem exec_one_spec cfg th lg sv tag its :
  exec_one cfg th lg sv tag its = spec_stmt cfg th lg sv tag its.
Proof.
  unfold exec_one, spec_stmt, enabled, stream_kind. rewrite sev_ge_gate.
  destruct (gate_open (c_min cfg) sv); [|reflexivity]. simpl andb.
  rewrite construct_spec; unfold live. destruct (holds (th (lg_rec lg)) (lg_filter lg) sv (rec_tag lg tag)).
  - rewrite one_chain_live. cbn [flat_map]. rewrite (app_nil_r (repeat dead (length its))), destroy_deads.
    rewrite app_nil_r. cbn [app]. rewrite destroy_live. reflexivity.
  - rewrite one_chain_dead. cbn [flat_map]. rewrite app_nil_r, destroy_deads. reflexivity.
Qed.

(* the state of the chain after a prefix of the items: the calls of the prefix have happened and the
   buffer holds exactly the prefix's text — a callable is evaluated when it is streamed, before any later item *)
Lemma one_chain_app cur olds pre post :
  one_chain cur olds (pre ++ post)
  = let '((c, o), e) := one_chain cur olds pre in
    let '((c', o'), e') := one_chain c o post in ((c', o'), e ++ e').
Proof.
  revert cur olds. induction pre as [|it pre IH]; intros cur olds.
  - simpl. destruct (one_chain cur olds post) as [[c o] e]. reflexivity.
  - cbn [app one_chain]. destruct (ss_put cur it) as [cur1 ev]. cbn [ss_move].
    rewrite IH. destruct (one_chain _ _ pre) as [[c o] e].
    destruct (one_chain c o post) as [[c' o'] e']. now rewrite app_assoc.
Qed.

Lemma one_chain_prefix th lg sv tag pre :
  holds (th (lg_rec lg)) (lg_filter lg) sv (rec_tag lg tag) = true ->
  exists olds,
    one_chain (ss_construct th lg sv tag) [] pre
    = ((liveb (mkRecord sv (rec_tag lg tag) []) (message pre) (bad_after false pre), olds), map Call (calls_of pre)).
Proof.
  intros H. rewrite construct_spec, H. unfold live. rewrite one_chain_live. eexists. reflexivity.
Qed.

Lemma stream_puts_live r its : forall b bad,
  stream_puts (SSmart (liveb r b bad)) its
  = (SSmart (liveb r (b ++ msg_from bad its) (bad_after bad its)), map Call (calls_of its)).
Proof.
  induction its as [|it rest IH]; intros b bad.
  - simpl. now rewrite app_nil_r.
  - cbn [stream_puts stream_put]. rewrite ss_put_live. rewrite IH. cbn [bad_after].
    now rewrite msg_from_cons, app_assoc, (calls_of_cons it rest), map_app.
Qed.

Lemma stream_puts_dead its : stream_puts (SSmart dead) its = (SSmart dead, []).
Proof. induction its as [|it rest IH]; [reflexivity|]. cbn [stream_puts stream_put]. rewrite ss_put_dead, IH. reflexivity. Qed.

Lemma stream_puts_null its : stream_puts SNull its = (SNull, []).
Proof. induction its as [|it rest IH]; [reflexivity|]. cbn [stream_puts stream_put]. rewrite IH. reflexivity. Qed.

(* what a stream created by make_stream does with a sequence of insertions and its destruction *)
Lemma made_stream_life cfg th lg sv tag its :
  snd (stream_puts (make_stream cfg th lg sv tag) its)
  ++ stream_destroy cfg lg sv (fst (stream_puts (make_stream cfg th lg sv tag) its))
  = spec_stmt cfg th lg sv tag its.
Proof.
  unfold make_stream, spec_stmt, enabled, stream_kind. rewrite sev_ge_gate.
  destruct (gate_open (c_min cfg) sv); cbn [andb].
  - rewrite construct_spec; unfold live. destruct (holds (th (lg_rec lg)) (lg_filter lg) sv (rec_tag lg tag)).
    + rewrite stream_puts_live. cbn [fst snd stream_destroy]. rewrite destroy_live. reflexivity.
    + rewrite stream_puts_dead. reflexivity.
  - rewrite stream_puts_null. reflexivity.
Qed.

(* form 2 with a local variable *)
Theorem exec_named_spec cfg th lg sv tag its :
  exec_named cfg th lg sv tag its = spec_stmt cfg th lg sv tag its.
Proof.
  unfold exec_named. rewrite <- made_stream_life.
  destruct (stream_puts (make_stream cfg th lg sv tag) its) as [st ev]. reflexivity.
Qed.

Lemma msg_from_app pre post : forall bad,
  msg_from bad (pre ++ post) = msg_from bad pre ++ msg_from (bad_after bad pre) post.
Proof.
  induction pre as [|it pre IH]; intros bad; [reflexivity|].
  cbn [app]. rewrite !msg_from_cons. cbn [bad_after]. rewrite IH. now rewrite app_assoc.
Qed.

(* moving a named stream object into another variable half-way changes nothing: the new variable owns record and buffer,
   the old one is empty and silent *)
Theorem named_moved_same cfg th lg sv tag pre post :
  exec_named_moved cfg th lg sv tag pre post = spec_stmt cfg th lg sv tag (pre ++ post).
Proof.
  unfold exec_named_moved, make_stream, spec_stmt, enabled, stream_kind. rewrite sev_ge_gate.
  destruct (gate_open (c_min cfg) sv); cbn [andb].
  - rewrite construct_spec; unfold live. destruct (holds (th (lg_rec lg)) (lg_filter lg) sv (rec_tag lg tag)).
    + rewrite stream_puts_live. cbn [ss_move liveb ss_r ss_s ss_bad].
      change (mkSS (Some ?r) (Some ?x) ?y) with (liveb r x y). rewrite stream_puts_live.
      cbn [stream_destroy]. rewrite destroy_live. change (mkSS None None false) with dead. rewrite destroy_dead, app_nil_r.
      unfold delivered, message. rewrite msg_from_app, calls_of_app, map_app. cbn [app]. now rewrite app_assoc.
    + rewrite stream_puts_dead. cbn [ss_move dead ss_r ss_s ss_bad]. change (mkSS None None false) with dead.
      rewrite stream_puts_dead. reflexivity.
  - rewrite !stream_puts_null. reflexivity.
Qed.

(* whatever the declaration form of the named stream (by value or by reference, from the plain call or from a << chain):
   one delivery, at the end of the scope, with ALL items — those of the initialising chain and those streamed later *)
Theorem named_from_chain_same cfg th lg sv tag pre post :
  exec_named_from_chain cfg th lg sv tag pre post = spec_stmt cfg th lg sv tag (pre ++ post).
Proof.
  unfold exec_named_from_chain, spec_stmt, enabled, stream_kind. rewrite sev_ge_gate.
  destruct (gate_open (c_min cfg) sv); cbn [andb]; [|reflexivity].
  rewrite construct_spec; unfold live. destruct (holds (th (lg_rec lg)) (lg_filter lg) sv (rec_tag lg tag)).
  - rewrite one_chain_live. rewrite app_nil_r, destroy_deads. rewrite stream_puts_live.
    cbn [stream_destroy app]. rewrite destroy_live.
    unfold delivered, message. rewrite msg_from_app, calls_of_app, map_app. cbn [app]. now rewrite app_assoc.
  - rewrite one_chain_dead. rewrite app_nil_r, destroy_deads. rewrite stream_puts_dead. reflexivity.
Qed.

(* ---------------------------------------------------------------- programs: basic facts *)

Lemma exec_prog_app cfg ops1 : forall w ops2,
  exec_prog cfg w (ops1 ++ ops2)
  = let '(w1, e1) := exec_prog cfg w ops1 in
    let '(w2, e2) := exec_prog cfg w1 ops2 in (w2, e1 ++ e2).
Proof.
  induction ops1 as [|o ops1 IH]; intros w ops2.
  - simpl. destruct (exec_prog cfg w ops2). reflexivity.
  - cbn [app exec_prog]. destruct (exec_op cfg w o) as [w1 ev]. rewrite IH.
    destruct (exec_prog cfg w1 ops1) as [w2 e2]. destruct (exec_prog cfg w2 ops2) as [w3 e3].
    now rewrite app_assoc.
Qed.

Lemma spec_prog_app cfg ops1 : forall sw ops2,
  spec_prog cfg sw (ops1 ++ ops2)
  = let '(w1, e1) := spec_prog cfg sw ops1 in
    let '(w2, e2) := spec_prog cfg w1 ops2 in (w2, e1 ++ e2).
Proof.
  induction ops1 as [|o ops1 IH]; intros w ops2.
  - simpl. destruct (spec_prog cfg w ops2). reflexivity.
  - cbn [app spec_prog]. destruct (spec_op cfg w o) as [w1 ev]. rewrite IH.
    destruct (spec_prog cfg w1 ops1) as [w2 e2]. destruct (spec_prog cfg w2 ops2) as [w3 e3].
    now rewrite app_assoc.
Qed.

(* ---------------------------------------------------------------- refinement model -> logical streams *)

Definition stream_rel (l : lstream) (st : stream) : Prop :=
  if l_on l
  then st = SSmart (liveb (mkRecord (l_sev l) (l_tag l) []) (l_text l) (l_bad l))
  else st = SNull \/ st = SSmart dead.

Definition slot_rel (o : option slot) (ol : option lstream) : Prop :=
  match o, ol with
  | None, None => True
  | Some sl, Some l => sl_lg sl = l_lg l /\ sl_sev sl = l_sev l /\ stream_rel l (sl_stream sl)
  | _, _ => False
  end.

Definition R (w : world) (sw : sworld) : Prop :=
  w_th w = s_th sw /\ forall v, slot_rel (w_slots w v) (s_slots sw v).

Lemma R_init : R init_world init_sworld.
Proof. split; [reflexivity|]. intros v. exact I. Qed.

Lemma slot_rel_set f g v x y :
  (forall j, slot_rel (f j) (g j)) -> slot_rel x y ->
  forall j, slot_rel (set_slot f v x j) (set_lslot g v y j).
Proof. intros H Hx j. unfold set_slot, set_lslot. destruct (j =? v); auto. Qed.

Lemma refine_close cfg w sw v : R w sw ->
  R (fst (close_slot cfg w v)) (fst (spec_close cfg sw v))
  /\ snd (close_slot cfg w v) = snd (spec_close cfg sw v).
Proof.
  intros [Hth Hs]. unfold close_slot, spec_close. pose proof (Hs v) as Hv.
  destruct (w_slots w v) as [sl|]; destruct (s_slots sw v) as [l|]; simpl in Hv; try contradiction.
  - destruct Hv as (Hlg & Hsv & Hst). cbn [fst snd]. split.
    + split; [exact Hth|]. cbn [w_slots s_slots]. apply slot_rel_set; [exact Hs | exact I].
    + unfold stream_rel in Hst. rewrite Hlg, Hsv. destruct (l_on l).
      * rewrite Hst. cbn [stream_destroy]. apply destroy_live.
      * destruct Hst as [-> | ->]; reflexivity.
  - cbn [fst snd]. split; [split; assumption | reflexivity].
Qed.

Lemma make_stream_rel cfg th lg sv tag :
  stream_rel (mkL lg sv (rec_tag lg tag) (enabled (c_min cfg) th lg sv tag) [] false) (make_stream cfg th lg sv tag).
Proof.
  unfold stream_rel, make_stream, enabled, stream_kind. cbn [l_on l_sev l_tag l_text].
  rewrite sev_ge_gate. destruct (gate_open (c_min cfg) sv); cbn [andb].
  - rewrite construct_spec; unfold live. destruct (holds (th (lg_rec lg)) (lg_filter lg) sv (rec_tag lg tag)); [reflexivity | now right].
  - now left.
Qed.

Lemma refine_op cfg w sw o : R w sw ->
  R (fst (exec_op cfg w o)) (fst (spec_op cfg sw o))
  /\ snd (exec_op cfg w o) = snd (spec_op cfg sw o).
Proof.
  intros HR. destruct o as [rc k s|c lg sv tag its|c lg sv tag its|v lg sv tag|v it|v]; cbn [exec_op spec_op].
  - destruct HR as [Hth Hs]. cbn [fst snd]. split; [|reflexivity]. split; [|exact Hs].
    cbn [w_th s_th]. now rewrite Hth.
  - cbn [fst snd]. split; [exact HR|]. destruct HR as [Hth _]. rewrite <- Hth. apply exec_one_spec.
  - cbn [fst snd]. split; [exact HR|]. destruct HR as [Hth _]. rewrite <- Hth. apply exec_named_spec.
  - destruct (refine_close cfg w sw v HR) as [HR1 Hev].
    destruct (close_slot cfg w v) as [w1 ev]. destruct (spec_close cfg sw v) as [sw1 ev'].
    cbn [fst snd] in *. split; [|exact Hev]. destruct HR1 as [Hth1 Hs1]. split; [exact Hth1|].
    cbn [w_slots s_slots w_th s_th]. apply slot_rel_set; [exact Hs1|].
    cbn [slot_rel sl_lg sl_sev sl_stream l_lg l_sev]. repeat split. rewrite Hth1. apply make_stream_rel.
  - destruct HR as [Hth Hs]. pose proof (Hs v) as Hv.
    destruct (w_slots w v) as [sl|] eqn:Ew; destruct (s_slots sw v) as [l|] eqn:El; simpl in Hv; try contradiction.
    + destruct Hv as (Hlg & Hsv & Hst). unfold stream_rel in Hst. destruct (l_on l) eqn:Hon.
      * rewrite Hst. cbn [stream_put]. rewrite ss_put_live. cbn [fst snd]. split; [|reflexivity].
        split; [exact Hth|]. cbn [w_slots s_slots]. apply slot_rel_set; [exact Hs|].
        cbn [slot_rel sl_lg sl_sev sl_stream l_lg l_sev]. repeat split; try assumption.
      * assert (Hput : exists st', stream_put (sl_stream sl) it = (st', []) /\ (st' = SNull \/ st' = SSmart dead)).
        { destruct Hst as [-> | ->]; [exists SNull | exists (SSmart dead)]; split; auto. }
        destruct Hput as (st' & -> & Hst'). cbn [fst snd]. split; [|reflexivity].
        split; [exact Hth|]. intros j. cbn [w_slots]. unfold set_slot.
        destruct (j =? v) eqn:Ej; [|apply Hs].
        apply Nat.eqb_eq in Ej. subst j. rewrite El.
        cbn [slot_rel sl_lg sl_sev sl_stream]. repeat split; try assumption.
        unfold stream_rel. rewrite Hon. exact Hst'.
    + cbn [fst snd]. split; [split; assumption | reflexivity].
  - apply refine_close. exact HR.
Qed.


Lemma refine_prog cfg ops : forall w sw, R w sw ->
  R (fst (exec_prog cfg w ops)) (fst (spec_prog cfg sw ops))
  /\ snd (exec_prog cfg w ops) = snd (spec_prog cfg sw ops).
Proof.
  induction ops as [|o ops IH]; intros w sw HR.
  - simpl. split; [exact HR | reflexivity].
  - cbn [exec_prog spec_prog]. destruct (refine_op cfg w sw o HR) as [HR1 Hev].
    destruct (exec_op cfg w o) as [w1 ev]. destruct (spec_op cfg sw o) as [sw1 ev'].
    cbn [fst snd] in HR1, Hev. destruct (IH w1 sw1 HR1) as [HR2 Hev2].
    destruct (exec_prog cfg w1 ops) as [w2 e2]. destruct (spec_prog cfg sw1 ops) as [sw2 e2'].
    cbn [fst snd] in *. split; [exact HR2 | now rewrite Hev, Hev2].
Qed.

(* every program: the trace of the stream objects is the trace of the logical streams *)
Theorem run_refines_spec cfg ops : run cfg ops = spec_run cfg ops.
Proof. unfold run, spec_run. apply refine_prog. apply R_init. Qed.

(* ---------------------------------------------------------------- form 2 and the middle of a named statement *)

(* operations allowed between Open v and Close v in the lemma below: insertions into v and threshold changes *)
Definition mid_ok (v : nat) (o : op) : bool :=
  match o with OPut v' _ => v' =? v | OSet _ _ _ => true | _ => false end.
Definition items_of (mid : list op) : list item :=
  flat_map (fun o => match o with OPut _ it => [it] | _ => [] end) mid.

Lemma exec_mid cfg v lg sv mid : forall w st,
  forallb (mid_ok v) mid = true ->
  w_slots w v = Some (mkSlot lg sv st) ->
  exists w', exec_prog cfg w mid = (w', snd (stream_puts st (items_of mid)))
             /\ w_slots w' v = Some (mkSlot lg sv (fst (stream_puts st (items_of mid)))).
Proof.
  induction mid as [|o mid IH]; intros w st Hok Hv.
  - exists w. split; [reflexivity | exact Hv].
  - cbn [forallb] in Hok. apply andb_true_iff in Hok as [Ho Hok].
    destruct o as [rc k s|?|?|?|v' it|?]; try discriminate.
    + (* OSet *) cbn [exec_prog exec_op].
      destruct (IH (mkWorld (set_threshold (w_th w) rc k s) (w_slots w)) st Hok Hv) as (w' & E & Hv').
      rewrite E. exists w'. split; [reflexivity | exact Hv'].
    + (* OPut *) cbn [mid_ok] in Ho. apply Nat.eqb_eq in Ho. subst v'.
      cbn [exec_prog exec_op]. rewrite Hv. cbn [sl_stream sl_lg sl_sev].
      change (items_of (OPut v it :: mid)) with (it :: items_of mid). cbn [stream_puts].
      destruct (stream_put st it) as [st1 ev].
      set (w1 := mkWorld (w_th w) (set_slot (w_slots w) v (Some (mkSlot lg sv st1)))).
      assert (Hv1 : w_slots w1 v = Some (mkSlot lg sv st1)).
      { unfold w1. cbn [w_slots]. unfold set_slot. now rewrite Nat.eqb_refl. }
      destruct (IH w1 st1 Hok Hv1) as (w' & E & Hv'). rewrite E.
      destruct (stream_puts st1 (items_of mid)) as [st2 ev']. cbn [fst snd] in *.
      exists w'. split; [reflexivity | exact Hv'].
Qed.

Lemma mid_thresholds cfg v mid : forall w w' ev,
  forallb (mid_ok v) mid = true -> exec_prog cfg w mid = (w', ev) ->
  forallb (fun o => match o with OSet _ _ _ => false | _ => true end) mid = true -> w_th w' = w_th w.
Proof.
  induction mid as [|o mid IH]; intros w w' ev Hok E Hns.
  - simpl in E. now inversion E.
  - cbn [forallb] in Hok, Hns. apply andb_true_iff in Hok as [Ho Hok]. apply andb_true_iff in Hns as [Hn Hns].
    destruct o as [rc k s|?|?|?|v' it|?]; try discriminate.
    cbn [exec_prog] in E. destruct (exec_op cfg w (OPut v' it)) as [w1 e1] eqn:E1.
    destruct (exec_prog cfg w1 mid) as [w2 e2] eqn:E2. inversion E; subst.
    rewrite (IH w1 w' e2 Hok E2 Hns). cbn [exec_op] in E1.
    destruct (w_slots w v'); [destruct (stream_put _ _) in E1|]; inversion E1; reflexivity.
Qed.

(* Open v; (insertions into v and threshold changes)*; Close v  — the filter was consulted once, at Open *)
Theorem named_with_mid cfg w v lg sv tag mid :
  w_slots w v = None -> forallb (mid_ok v) mid = true ->
  exists w', exec_prog cfg w (OOpen v lg sv tag :: mid ++ [OClose v])
             = (w', spec_stmt cfg (w_th w) lg sv tag (items_of mid))
             /\ w_slots w' v = None.
Proof.
  intros Hfree Hok. cbn [exec_prog exec_op]. unfold close_slot at 1. rewrite Hfree.
  set (st := make_stream cfg (w_th w) lg sv tag).
  set (w1 := mkWorld (w_th w) (set_slot (w_slots w) v (Some (mkSlot lg sv st)))).
  assert (Hv1 : w_slots w1 v = Some (mkSlot lg sv st)).
  { unfold w1. cbn [w_slots]. unfold set_slot. now rewrite Nat.eqb_refl. }
  destruct (exec_mid cfg v lg sv mid w1 st Hok Hv1) as (w2 & E & Hv2).
  rewrite exec_prog_app, E. cbn [exec_prog exec_op]. unfold close_slot. rewrite Hv2.
  cbn [sl_lg sl_sev sl_stream]. eexists. split.
  - cbn [app]. rewrite app_nil_r. f_equal. apply made_stream_life.
  - cbn [w_slots]. unfold set_slot. now rewrite Nat.eqb_refl.
Qed.

Lemma puts_mid_ok v its : forallb (mid_ok v) (map (OPut v) its) = true.
Proof. induction its; simpl; [reflexivity|]. now rewrite Nat.eqb_refl. Qed.
Lemma puts_items v its : items_of (map (OPut v) its) = its.
Proof.
  induction its as [|a its IH]; [reflexivity|].
  change (items_of (map (OPut v) (a :: its))) with (a :: items_of (map (OPut v) its)). now rewrite IH.
Qed.
Lemma puts_no_set v its :
  forallb (fun o => match o with OSet _ _ _ => false | _ => true end) (map (OPut v) its) = true.
Proof. induction its; simpl; auto. Qed.

(* form 2: a named stream object in a free variable *)
Theorem named_spec cfg w v lg sv tag its :
  w_slots w v = None ->
  exists w', exec_prog cfg w (named_ops v lg sv tag its) = (w', spec_stmt cfg (w_th w) lg sv tag its)
             /\ w_slots w' v = None /\ w_th w' = w_th w.
Proof.
  intros Hfree. unfold named_ops.
  destruct (named_with_mid cfg w v lg sv tag (map (OPut v) its) Hfree (puts_mid_ok v its)) as (w' & E & Hv).
  rewrite puts_items in E. exists w'. split; [exact E|]. split; [exact Hv|].
  (* thresholds: no OSet among the operations *)
  clear Hv. cbn [exec_prog exec_op] in E. unfold close_slot at 1 in E. rewrite Hfree in E.
  rewrite exec_prog_app in E.
  destruct (exec_prog cfg _ (map (OPut v) its)) as [w2 e2] eqn:E2.
  apply (mid_thresholds cfg v _ _ _ _ (puts_mid_ok v its)) in E2; [|apply puts_no_set].
  cbn [exec_prog exec_op] in E. unfold close_slot in E. cbn [w_th] in E2.
  destruct (w_slots w2 v); inversion E; subst; cbn [w_th]; exact E2.
Qed.

Theorem forms_agree cfg w v c lg sv tag its :
  w_slots w v = None ->
  snd (exec_prog cfg w (named_ops v lg sv tag its)) = snd (exec_prog cfg w [OOne c lg sv tag its]).
Proof.
  intros Hfree. destruct (named_spec cfg w v lg sv tag its Hfree) as (w' & E & _). rewrite E.
  cbn [exec_prog exec_op snd]. now rewrite app_nil_r, exec_one_spec.
Qed.

(* a statement is a statement: where it is executed (straight-line code, a destructor during stack unwinding, a catch
   handler, a destructor on normal exit) and which of the forms is used changes nothing *)
Theorem context_irrelevant cfg w c c' lg sv tag its :
  exec_op cfg w (OOne c lg sv tag its) = exec_op cfg w (OOne c' lg sv tag its)
  /\ exec_op cfg w (ONamed c lg sv tag its) = exec_op cfg w (ONamed c' lg sv tag its)
  /\ exec_op cfg w (ONamed c lg sv tag its) = exec_op cfg w (OOne c' lg sv tag its)
  /\ snd (exec_op cfg w (OOne c lg sv tag its)) = spec_stmt cfg (w_th w) lg sv tag its.
Proof.
  cbn [exec_op snd]. rewrite exec_one_spec, exec_named_spec. repeat split.
Qed.

(* ---------------------------------------------------------------- sequences of statements: program order *)

Theorem seq_spec cfg l : forall w,
  w_slots w 0 = None ->
  snd (exec_prog cfg w (flat_map sitem_ops l)) = spec_seq cfg (w_th w) l.
Proof.
  induction l as [|x l IH]; intros w Hfree; [reflexivity|].
  cbn [flat_map]. rewrite exec_prog_app. destruct x as [rc k s|f lg sv tag its].
  - cbn [sitem_ops exec_prog exec_op spec_seq].
    specialize (IH (mkWorld (set_threshold (w_th w) rc k s) (w_slots w)) Hfree).
    destruct (exec_prog cfg _ (flat_map sitem_ops l)) as [w2 e2]. cbn [snd] in *. exact IH.
  - destruct f; cbn [sitem_ops spec_seq].
    + cbn [exec_prog exec_op]. specialize (IH w Hfree).
      destruct (exec_prog cfg w (flat_map sitem_ops l)) as [w2 e2]. cbn [snd] in *.
      now rewrite app_nil_r, exec_one_spec, IH.
    + destruct (named_spec cfg w 0 lg sv tag its Hfree) as (w' & E & Hv & Hth). rewrite E.
      specialize (IH w' Hv). destruct (exec_prog cfg w' (flat_map sitem_ops l)) as [w2 e2].
      cbn [snd] in *. now rewrite IH, Hth.
Qed.

(* ---------------------------------------------------------------- counting what arrives *)

Lemma count_app {A} (p : A -> bool) a b : count p (a ++ b) = count p a + count p b.
Proof. unfold count. now rewrite filter_app, app_length. Qed.

Lemma filter_calls_none (p : event -> bool) ids : (forall id, p (Call id) = false) -> filter p (map Call ids) = [].
Proof. intros H. induction ids; simpl; [reflexivity|]. now rewrite H. Qed.

Lemma count_sinks i sv t m : forall a,
  count (is_sink_of i) (map (fun j => Sink j sv t) (seq a m)) = if (a <=? i) && (i <? a + m) then 1 else 0.
Proof.
  induction m as [|m IH]; intros a.
  - simpl. destruct (a <=? i) eqn:E1; [|reflexivity]. destruct (i <? a + 0) eqn:E2; [|reflexivity].
    apply Nat.leb_le in E1. apply Nat.ltb_lt in E2. lia.
  - cbn [seq map]. change (count (is_sink_of i) (?x :: ?l)) with (count (is_sink_of i) ([x] ++ l)).
    rewrite count_app, IH. unfold count. cbn [filter is_sink_of].
    destruct (a =? i) eqn:E.
    + apply Nat.eqb_eq in E. subst a. cbn [length].
      replace (S i <=? i) with false by (symmetry; apply Nat.leb_gt; lia).
      replace (i <=? i) with true by (symmetry; apply Nat.leb_le; lia).
      replace (i <? i + S m) with true by (symmetry; apply Nat.ltb_lt; lia). reflexivity.
    + apply Nat.eqb_neq in E. cbn [length].
      destruct (a <=? i) eqn:E1; destruct (S a <=? i) eqn:E2;
      destruct (i <? S a + m) eqn:E3; destruct (i <? a + S m) eqn:E4; cbn [andb]; try reflexivity;
      repeat match goal with
             | H : (_ <=? _) = true |- _ => apply Nat.leb_le in H
             | H : (_ <=? _) = false |- _ => apply Nat.leb_gt in H
             | H : (_ <? _) = true |- _ => apply Nat.ltb_lt in H
             | H : (_ <? _) = false |- _ => apply Nat.ltb_ge in H
             end; lia.
Qed.

(* member i of the sequence receives the record exactly once iff the statement is enabled (and i is a member) *)
Theorem sink_exactly_once cfg th lg sv tag its i :
  count (is_sink_of i) (spec_stmt cfg th lg sv tag its)
  = if enabled (c_min cfg) th lg sv tag && (i <? lg_sinks lg) then 1 else 0.
Proof.
  unfold spec_stmt. destruct (enabled (c_min cfg) th lg sv tag); [|reflexivity].
  rewrite count_app. unfold count at 1. rewrite filter_calls_none by reflexivity.
  unfold delivery. change (count (is_sink_of i) (?x :: ?l)) with (count (is_sink_of i) ([x] ++ l)).
  rewrite count_app, count_sinks. cbn. reflexivity.
Qed.

Lemma filter_sinks_none (p : event -> bool) sv t l :
  (forall j, p (Sink j sv t) = false) -> filter p (map (fun j => Sink j sv t) l) = [].
Proof. intros H. induction l; simpl; [reflexivity|]. now rewrite H. Qed.

Theorem format_exactly_once cfg th lg sv tag its :
  count is_format (spec_stmt cfg th lg sv tag its) = if enabled (c_min cfg) th lg sv tag then 1 else 0.
Proof.
  unfold spec_stmt. destruct (enabled (c_min cfg) th lg sv tag); [|reflexivity].
  rewrite count_app. unfold count. rewrite filter_calls_none by reflexivity.
  unfold delivery. cbn [filter is_format]. rewrite filter_sinks_none by reflexivity. reflexivity.
Qed.

Lemma sink_members_sinks sv t l : sink_members (map (fun j => Sink j sv t) l) = l.
Proof.
  induction l as [|a l IH]; [reflexivity|].
  change (sink_members (map (fun j => Sink j sv t) (a :: l))) with (a :: sink_members (map (fun j => Sink j sv t) l)).
  now rewrite IH.
Qed.

Lemma sink_members_calls ids : sink_members (map Call ids) = [].
Proof. induction ids; simpl; auto. Qed.

(* a sequence sink forwards to each member once, in declaration order *)
Theorem sink_order cfg th lg sv tag its :
  sink_members (spec_stmt cfg th lg sv tag its)
  = if enabled (c_min cfg) th lg sv tag then seq 0 (lg_sinks lg) else [].
Proof.
  unfold spec_stmt. destruct (enabled (c_min cfg) th lg sv tag); [|reflexivity].
  unfold sink_members. rewrite flat_map_app. fold (sink_members (map Call (calls_of its))).
  rewrite sink_members_calls. unfold delivery. cbn [flat_map app].
  apply sink_members_sinks.
Qed.

(* what arrives is the statement's record *)
Theorem delivered_content cfg th lg sv tag its e :
  In e (spec_stmt cfg th lg sv tag its) ->
  match e with
  | Call id => In id (calls_of its)
  | Format r => r = mkRecord sv (rec_tag lg tag) (message its)
  | Sink i s t => i < lg_sinks lg /\ s = sv /\ t = c_fmt cfg (mkRecord sv (rec_tag lg tag) (message its))
  | Fault => False
  end.
Proof.
  unfold spec_stmt. destruct (enabled (c_min cfg) th lg sv tag); [|intros []].
  rewrite in_app_iff. intros [H|H].
  - apply in_map_iff in H as (id & <- & Hid). exact Hid.
  - unfold delivery in H. destruct H as [<-|H]; [reflexivity|].
    apply in_map_iff in H as (j & <- & Hj). apply in_seq in Hj. repeat split. lia.
Qed.

(* ---------------------------------------------------------------- C10 *)

Lemma filter_calls_all ids : filter is_call (map Call ids) = map Call ids.
Proof. induction ids; simpl; [reflexivity|]. now rewrite IHids. Qed.

Theorem calls_exactly cfg th lg sv tag its :
  filter is_call (spec_stmt cfg th lg sv tag its)
  = if enabled (c_min cfg) th lg sv tag then map Call (calls_of its) else [].
Proof.
  unfold spec_stmt. destruct (enabled (c_min cfg) th lg sv tag); [|reflexivity].
  rewrite filter_app, filter_calls_all. unfold delivery. cbn [filter is_call].
  rewrite filter_sinks_none by reflexivity. apply app_nil_r.
Qed.

Lemma count_call_of id ids : count (is_call_of id) (map Call ids) = count_occ Nat.eq_dec ids id.
Proof.
  induction ids as [|j ids IH]; [reflexivity|]. unfold count in *. cbn [map filter is_call_of count_occ].
  destruct (Nat.eq_dec j id) as [->|N].
  - rewrite Nat.eqb_refl. cbn [length]. now rewrite IH.
  - apply Nat.eqb_neq in N. rewrite N. exact IH.
Qed.

(* each callable is called as many times as it is streamed (once, when it is streamed once) — or never *)
Theorem calls_once_each cfg th lg sv tag its id :
  count (is_call_of id) (spec_stmt cfg th lg sv tag its)
  = if enabled (c_min cfg) th lg sv tag then count_occ Nat.eq_dec (calls_of its) id else 0.
Proof.
  unfold spec_stmt. destruct (enabled (c_min cfg) th lg sv tag); [|reflexivity].
  rewrite count_app, count_call_of. unfold delivery, count. cbn [filter is_call_of].
  rewrite filter_sinks_none by reflexivity. cbn. lia.
Qed.

Theorem disabled_nothing cfg th lg sv tag its :
  enabled (c_min cfg) th lg sv tag = false -> spec_stmt cfg th lg sv tag its = [].
Proof. unfold spec_stmt. now intros ->. Qed.

(* below the compile-time minimum the statement's object is a null_stream, which discards every insertion *)
Theorem below_minimum_null cfg th lg sv tag :
  gate_open (c_min cfg) sv = false ->
  make_stream cfg th lg sv tag = SNull
  /\ (forall it, stream_put SNull it = (SNull, []))
  /\ stream_destroy cfg lg sv SNull = [].
Proof.
  intros H. unfold make_stream, stream_kind. rewrite sev_ge_gate, H. repeat split.
Qed.

Theorem above_minimum_smart cfg th lg sv tag :
  gate_open (c_min cfg) sv = true -> exists x, make_stream cfg th lg sv tag = SSmart x.
Proof. intros H. unfold make_stream, stream_kind. rewrite sev_ge_gate, H. eexists. reflexivity. Qed.

(* an insertion into a named stream calls the callable right there iff the stream takes insertions *)
Theorem put_calls_now cfg w v sl it :
  w_slots w v = Some sl ->
  snd (exec_op cfg w (OPut v it))
  = if stream_live (sl_stream sl) then map Call (calls_of [it]) else [].
Proof.
  intros Hv. cbn [exec_op]. rewrite Hv. destruct (sl_stream sl) as [x|]; cbn [stream_put stream_live].
  - destruct x as [r [b|]]; cbn [ss_s].
    + unfold ss_put. cbn [ss_s ss_r]. destruct it; reflexivity.
    + reflexivity.
  - reflexivity.
Qed.

(* a stream made by a logger call takes insertions iff the statement is enabled, and stays that way *)
Theorem live_iff_enabled cfg th lg sv tag its :
  stream_live (fst (stream_puts (make_stream cfg th lg sv tag) its)) = enabled (c_min cfg) th lg sv tag.
Proof.
  unfold make_stream, enabled, stream_kind. rewrite sev_ge_gate.
  destruct (gate_open (c_min cfg) sv); cbn [andb].
  - rewrite construct_spec; unfold live. destruct (holds (th (lg_rec lg)) (lg_filter lg) sv (rec_tag lg tag)).
    + rewrite stream_puts_live. reflexivity.
    + rewrite stream_puts_dead. reflexivity.
  - rewrite stream_puts_null. reflexivity.
Qed.

(* ---------------------------------------------------------------- decimal rendering: the fuel suffices and the digits denote n *)
Definition digit_val (c : byte) : N := (N.of_nat (Byte.to_nat c) - 48)%N.
Definition dec_value (s : str) : N := fold_left (fun acc c => (acc * 10 + digit_val c)%N) s 0%N.

Lemma digit_val_digit d : (d < 10)%N -> digit_val (digit d) = d.
Proof.
  intros H. destruct d as [|p]; [reflexivity|].
  do 4 (destruct p as [p|p|]; try reflexivity; try (exfalso; lia)).
Qed.

Lemma dec_digits_acc fuel : forall n acc, dec_digits fuel n acc = dec_digits fuel n [] ++ acc.
Proof.
  induction fuel as [|f IH]; intros n acc; [reflexivity|].
  cbn [dec_digits]. destruct (N.eqb (n / 10) 0); [reflexivity|].
  rewrite IH. rewrite (IH _ [_]). now rewrite <- app_assoc.
Qed.

Lemma dec_value_snoc s c : dec_value (s ++ [c]) = (dec_value s * 10 + digit_val c)%N.
Proof. unfold dec_value. now rewrite fold_left_app. Qed.

Lemma dec_digits_value fuel : forall n, (n < 2 ^ N.of_nat fuel)%N -> dec_value (dec_digits fuel n []) = n.
Proof.
  induction fuel as [|f IH]; intros n H.
  - simpl in H. assert (n = 0%N) by lia. subst. reflexivity.
  - cbn [dec_digits]. pose proof (N.div_mod n 10 ltac:(lia)) as Hdm.
    pose proof (N.mod_lt n 10 ltac:(lia)) as Hlt.
    destruct (N.eqb (n / 10) 0) eqn:E.
    + apply N.eqb_eq in E. unfold dec_value. cbn [fold_left]. rewrite digit_val_digit by exact Hlt. lia.
    + rewrite dec_digits_acc, dec_value_snoc, digit_val_digit by exact Hlt.
      rewrite IH; [lia|].
      rewrite Nat2N.inj_succ, N.pow_succ_r' in H.
      apply N.div_lt_upper_bound; lia.
Qed.

Theorem dec_of_N_value n : dec_value (dec_of_N n) = n.
Proof.
  unfold dec_of_N. apply dec_digits_value.
  destruct n as [|p]; [reflexivity|].
  rewrite Nat2N.inj_succ, N2Nat.id. apply N.log2_spec. lia.
Qed.

(* ---------------------------------------------------------------- the same facts stated on the model's functions *)

Lemma tag_text_plain lg t : lg_tagged lg = true -> ~ In x00 t -> rec_tag lg (Some t) = t.
Proof. unfold rec_tag. intros ->. apply cstr_no_nul. Qed.

(* a record type without a tag attribute carries no tag *)
Lemma untagged_no_tag lg tag : lg_tagged lg = false -> rec_tag lg tag = [].
Proof. unfold rec_tag. now intros ->. Qed.

(* ---------------------------------------------------------------- thresholds are per record type *)

Lemma set_threshold_other th rc k s rc' : rc' <> rc -> set_threshold th rc k s rc' = th rc'.
Proof. intros H. unfold set_threshold. apply Nat.eqb_neq in H. now rewrite H. Qed.

(* the getter: min_severity of (rc', k') after set_severity on (rc, k) *)
Theorem min_severity_after_set th rc k s rc' k' :
  min_severity (set_threshold th rc k s) rc' k' = if (rc' =? rc) && (k' =? k) then s else min_severity th rc' k'.
Proof.
  unfold min_severity, set_threshold. destruct (rc' =? rc); [|reflexivity]. destruct (k' =? k); reflexivity.
Qed.

(* configuring the severity filter of one record type changes no statement of a logger over another record type *)
Theorem thresholds_independent_one cfg th rc k s lg sv tag its :
  lg_rec lg <> rc ->
  exec_one cfg (set_threshold th rc k s) lg sv tag its = exec_one cfg th lg sv tag its.
Proof.
  intros H. unfold exec_one, ss_construct. now rewrite (set_threshold_other th rc k s (lg_rec lg) H).
Qed.

Theorem thresholds_independent_named cfg th rc k s lg sv tag :
  lg_rec lg <> rc ->
  make_stream cfg (set_threshold th rc k s) lg sv tag = make_stream cfg th lg sv tag.
Proof.
  intros H. unfold make_stream, ss_construct. now rewrite (set_threshold_other th rc k s (lg_rec lg) H).
Qed.

Theorem thresholds_independent_enabled min th rc k s lg sv tag :
  lg_rec lg <> rc -> enabled min (set_threshold th rc k s) lg sv tag = enabled min th lg sv tag.
Proof. intros H. unfold enabled. now rewrite (set_threshold_other th rc k s (lg_rec lg) H). Qed.

Theorem one_sink_exactly_once cfg th lg sv tag its i :
  count (is_sink_of i) (exec_one cfg th lg sv tag its)
  = if enabled (c_min cfg) th lg sv tag && (i <? lg_sinks lg) then 1 else 0.
Proof. rewrite exec_one_spec. apply sink_exactly_once. Qed.

Theorem one_format_exactly_once cfg th lg sv tag its :
  count is_format (exec_one cfg th lg sv tag its) = if enabled (c_min cfg) th lg sv tag then 1 else 0.
Proof. rewrite exec_one_spec. apply format_exactly_once. Qed.

Theorem one_sink_order cfg th lg sv tag its :
  sink_members (exec_one cfg th lg sv tag its) = if enabled (c_min cfg) th lg sv tag then seq 0 (lg_sinks lg) else [].
Proof. rewrite exec_one_spec. apply sink_order. Qed.

Theorem one_delivered_content cfg th lg sv tag its e :
  In e (exec_one cfg th lg sv tag its) ->
  match e with
  | Call id => In id (calls_of its)
  | Format r => r = mkRecord sv (rec_tag lg tag) (message its)
  | Sink i s t => i < lg_sinks lg /\ s = sv /\ t = c_fmt cfg (mkRecord sv (rec_tag lg tag) (message its))
  | Fault => False
  end.
Proof. rewrite exec_one_spec. apply delivered_content. Qed.

Theorem one_calls_exactly cfg th lg sv tag its :
  filter is_call (exec_one cfg th lg sv tag its)
  = if enabled (c_min cfg) th lg sv tag then map Call (calls_of its) else [].
Proof. rewrite exec_one_spec. apply calls_exactly. Qed.

Theorem one_calls_once_each cfg th lg sv tag its id :
  count (is_call_of id) (exec_one cfg th lg sv tag its)
  = if enabled (c_min cfg) th lg sv tag then count_occ Nat.eq_dec (calls_of its) id else 0.
Proof. rewrite exec_one_spec. apply calls_once_each. Qed.

Lemma not_enabled min th lg sv tag :
  gate_open min sv = false \/ holds (th (lg_rec lg)) (lg_filter lg) sv (rec_tag lg tag) = false -> enabled min th lg sv tag = false.
Proof. unfold enabled. intros [-> | ->]; [reflexivity | apply andb_false_r]. Qed.

Theorem one_disabled_nothing cfg th lg sv tag its :
  gate_open (c_min cfg) sv = false \/ holds (th (lg_rec lg)) (lg_filter lg) sv (rec_tag lg tag) = false ->
  exec_one cfg th lg sv tag its = [].
Proof. intros H. rewrite exec_one_spec. apply disabled_nothing, not_enabled, H. Qed.

Theorem named_disabled_nothing cfg w v lg sv tag its :
  w_slots w v = None ->
  gate_open (c_min cfg) sv = false \/ holds (w_th w (lg_rec lg)) (lg_filter lg) sv (rec_tag lg tag) = false ->
  snd (exec_prog cfg w (named_ops v lg sv tag its)) = [].
Proof.
  intros Hfree H. destruct (named_spec cfg w v lg sv tag its Hfree) as (w' & E & _). rewrite E.
  apply disabled_nothing, not_enabled, H.
Qed.

Theorem stream_kind_gate min sv : stream_kind min sv = KSmart <-> gate_open min sv = true.
Proof. unfold stream_kind. rewrite sev_ge_gate. destruct (gate_open min sv); split; congruence. Qed.

Theorem run_seq_spec cfg l : run cfg (flat_map sitem_ops l) = spec_seq cfg init_thresholds l.
Proof. unfold run. now rewrite seq_spec. Qed.

(* ---------------------------------------------------------------- records arrive in program order *)

Lemma formatted_app a b : formatted (a ++ b) = formatted a ++ formatted b.
Proof. unfold formatted. apply flat_map_app. Qed.
Lemma received_app i a b : received i (a ++ b) = received i a ++ received i b.
Proof. unfold received. apply flat_map_app. Qed.

Lemma formatted_stmt cfg th lg sv tag its :
  formatted (spec_stmt cfg th lg sv tag its)
  = if enabled (c_min cfg) th lg sv tag then [delivered lg sv tag its] else [].
Proof.
  unfold spec_stmt. destruct (enabled (c_min cfg) th lg sv tag); [|reflexivity].
  rewrite formatted_app. unfold delivery.
  assert (H1 : forall ids, formatted (map Call ids) = []) by (induction ids; simpl; auto).
  assert (H2 : forall s t l, formatted (map (fun j => Sink j s t) l) = []) by (induction l; simpl; auto).
  rewrite H1. change (formatted (Format ?r :: ?l)) with (r :: formatted l). now rewrite H2.
Qed.

Lemma received_sinks i s t m : forall a,
  received i (map (fun j => Sink j s t) (seq a m)) = if (a <=? i) && (i <? a + m) then [(s, t)] else [].
Proof.
  induction m as [|m IH]; intros a.
  - simpl. destruct (a <=? i) eqn:E1; [|reflexivity]. destruct (i <? a + 0) eqn:E2; [|reflexivity].
    apply Nat.leb_le in E1. apply Nat.ltb_lt in E2. lia.
  - cbn [seq map].
    match goal with |- received i (?x :: ?l) = _ => change (x :: l) with ([x] ++ l) end.
    rewrite received_app, IH. unfold received. cbn [flat_map]. rewrite app_nil_r. destruct (a =? i) eqn:E.
    + apply Nat.eqb_eq in E. subst a.
      replace (S i <=? i) with false by (symmetry; apply Nat.leb_gt; lia).
      replace (i <=? i) with true by (symmetry; apply Nat.leb_le; lia).
      replace (i <? i + S m) with true by (symmetry; apply Nat.ltb_lt; lia). reflexivity.
    + apply Nat.eqb_neq in E. cbn [app].
      destruct (a <=? i) eqn:E1; destruct (S a <=? i) eqn:E2;
      destruct (i <? S a + m) eqn:E3; destruct (i <? a + S m) eqn:E4; cbn [andb]; try reflexivity;
      repeat match goal with
             | H : (_ <=? _) = true |- _ => apply Nat.leb_le in H
             | H : (_ <=? _) = false |- _ => apply Nat.leb_gt in H
             | H : (_ <? _) = true |- _ => apply Nat.ltb_lt in H
             | H : (_ <? _) = false |- _ => apply Nat.ltb_ge in H
             end; lia.
Qed.

Lemma received_stmt cfg th lg sv tag its i :
  received i (spec_stmt cfg th lg sv tag its)
  = if enabled (c_min cfg) th lg sv tag && (i <? lg_sinks lg)
    then [(sv, c_fmt cfg (delivered lg sv tag its))] else [].
Proof.
  unfold spec_stmt. destruct (enabled (c_min cfg) th lg sv tag); [|reflexivity].
  rewrite received_app. unfold delivery.
  assert (H1 : forall ids, received i (map Call ids) = []) by (induction ids; simpl; auto).
  rewrite H1. change (received i (Format ?r :: ?l)) with (received i l).
  rewrite received_sinks. reflexivity.
Qed.

(* the formatter sees, and every sink member receives, the records of the enabled statements in program order *)
Theorem arrivals_in_program_order cfg l : forall th,
  formatted (spec_seq cfg th l) = map snd (arrivals (c_min cfg) th l)
  /\ forall i, received i (spec_seq cfg th l)
               = map (fun p => (r_sev (snd p), c_fmt cfg (snd p)))
                     (filter (fun p => i <? lg_sinks (fst p)) (arrivals (c_min cfg) th l)).
Proof.
  induction l as [|x l IH]; intros th; [split; reflexivity|].
  destruct x as [rc k s|f lg sv tag its]; cbn [spec_seq arrivals]; [apply IH|].
  destruct (IH th) as [IH1 IH2]. split.
  - rewrite formatted_app, formatted_stmt, map_app, IH1.
    destruct (enabled (c_min cfg) th lg sv tag); reflexivity.
  - intros i. rewrite received_app, received_stmt, filter_app, map_app, IH2.
    destruct (enabled (c_min cfg) th lg sv tag); cbn [andb filter fst snd]; [|reflexivity].
    destruct (i <? lg_sinks lg); reflexivity.
Qed.

Theorem run_arrivals cfg l :
  formatted (run cfg (flat_map sitem_ops l)) = map snd (arrivals (c_min cfg) init_thresholds l)
  /\ forall i, received i (run cfg (flat_map sitem_ops l))
               = map (fun p => (r_sev (snd p), c_fmt cfg (snd p)))
                     (filter (fun p => i <? lg_sinks (fst p)) (arrivals (c_min cfg) init_thresholds l)).
Proof. rewrite run_seq_spec. apply arrivals_in_program_order. Qed.

(* ---------------------------------------------------------------- no null dereference in any program *)

Lemma delivery_no_fault cfg lg sv r : ~ In Fault (delivery cfg lg sv r).
Proof.
  unfold delivery. intros [H|H]; [discriminate|].
  apply in_map_iff in H as (j & Hj & _). discriminate.
Qed.

Lemma spec_stmt_no_fault cfg th lg sv tag its : ~ In Fault (spec_stmt cfg th lg sv tag its).
Proof. intros H. apply delivered_content in H. exact H. Qed.

Lemma spec_close_no_fault cfg sw v : ~ In Fault (snd (spec_close cfg sw v)).
Proof.
  unfold spec_close. destruct (s_slots sw v) as [l|]; cbn [snd]; [|intros []].
  destruct (l_on l); [apply delivery_no_fault | intros []].
Qed.

Lemma spec_op_no_fault cfg sw o : ~ In Fault (snd (spec_op cfg sw o)).
Proof.
  destruct o as [rc k s|c lg sv tag its|c lg sv tag its|v lg sv tag|v it|v]; cbn [spec_op].
  - intros [].
  - apply spec_stmt_no_fault.
  - apply spec_stmt_no_fault.
  - pose proof (spec_close_no_fault cfg sw v) as H. destruct (spec_close cfg sw v) as [sw1 ev]. exact H.
  - destruct (s_slots sw v) as [l|]; [|intros []]. destruct (l_on l); [|intros []].
    cbn [snd]. intros H. apply in_map_iff in H as (j & Hj & _). discriminate.
  - apply spec_close_no_fault.
Qed.

Lemma spec_prog_no_fault cfg ops : forall sw, ~ In Fault (snd (spec_prog cfg sw ops)).
Proof.
  induction ops as [|o ops IH]; intros sw; [intros []|].
  cbn [spec_prog]. pose proof (spec_op_no_fault cfg sw o) as H1.
  destruct (spec_op cfg sw o) as [sw1 ev]. specialize (IH sw1).
  destruct (spec_prog cfg sw1 ops) as [sw2 ev']. cbn [snd] in *.
  rewrite in_app_iff. tauto.
Qed.

(* s->str() is never reached with s == nullptr: a record is owned only together with a buffer *)
Theorem run_no_fault cfg ops : ~ In Fault (run cfg ops).
Proof. rewrite run_refines_spec. apply spec_prog_no_fault. Qed.

(* ---------------------------------------------------------------- the run-time filter decides about the COMPLETE record *)

(* the verdict does not depend on the message (still empty when the filter is asked), only on severity and tag *)
Lemma filt_ignores_message th f sv tg m m' : filt th f (mkRecord sv tg m) = filt th f (mkRecord sv tg m').
Proof. now rewrite !filt_holds. Qed.

(* smart_stream's constructor: the filter is asked about the record with the statement's severity AND ITS TAG already set *)
Theorem construct_verdict_on_complete_record th lg sv tag :
  ss_construct th lg sv tag
  = if filt (th (lg_rec lg)) (lg_filter lg) (mkRecord sv (rec_tag lg tag) [])
    then mkSS (Some (mkRecord sv (rec_tag lg tag) [])) (Some []) false else mkSS None None false.
Proof. rewrite construct_spec, filt_holds. reflexivity. Qed.

(* enabled = gate open and the filter accepts the very record that is delivered (severity and tag as delivered) *)
Theorem enabled_iff_filter_accepts_delivered min th lg sv tag its :
  enabled min th lg sv tag = gate_open min sv && filt (th (lg_rec lg)) (lg_filter lg) (delivered lg sv tag its).
Proof. unfold enabled, delivered. now rewrite filt_holds. Qed.

Theorem live_iff_filter_on_complete_record cfg th lg sv tag its :
  stream_live (fst (stream_puts (make_stream cfg th lg sv tag) its))
  = gate_open (c_min cfg) sv && filt (th (lg_rec lg)) (lg_filter lg) (mkRecord sv (rec_tag lg tag) []).
Proof. rewrite live_iff_enabled. unfold enabled. now rewrite filt_holds. Qed.

(* a statement whose complete record (tag included) the filter rejects: nothing happens, in both forms *)
Theorem rejected_on_complete_record_nothing cfg th lg sv tag its :
  filt (th (lg_rec lg)) (lg_filter lg) (mkRecord sv (rec_tag lg tag) []) = false ->
  exec_one cfg th lg sv tag its = [] /\ exec_named cfg th lg sv tag its = [].
Proof.
  intros H. rewrite filt_holds in H. cbn [r_sev r_tag] in H.
  rewrite exec_named_spec, exec_one_spec. split; apply disabled_nothing, not_enabled; right; exact H.
Qed.

(* towers of not_filter: n negations are a negation when n is odd and nothing when n is even (whatever the specialisation
   not_filter<not_filter<F>> does in between) — over every leaf kind *)
Lemma holds_not_tower th f sv tg n :
  holds th (Nat.iter n FNot f) sv tg = if Nat.even n then holds th f sv tg else negb (holds th f sv tg).
Proof.
  induction n as [|n IH]; [reflexivity|].
  change (Nat.iter (S n) FNot f) with (FNot (Nat.iter n FNot f)). cbn [holds]. rewrite IH.
  rewrite Nat.even_succ, <- Nat.negb_even. destruct (Nat.even n); cbn [negb]; [reflexivity | apply negb_involutive].
Qed.

Theorem filt_not_tower th f r n :
  filt th (Nat.iter n FNot f) r = if Nat.even n then filt th f r else negb (filt th f r).
Proof. rewrite !filt_holds. apply holds_not_tower. Qed.

(* Own/OptLang.v — the small language into which gen/tr_optional.py translates the members of nitro::lang::optional<T>
   (include/nitro/lang/optional.hpp) from clang's AST on every run, and its meaning over the heap model of Own/Optional.v.
   Tie/Tie_C18.v proves that the translated members ARE ctor_copy, ctor_val, assign_opt, assign_val and the two readers of
   the model, for every heap, object and argument.  No proofs here.

   Meaning given to the primitives (trusted: std::unique_ptr / std::make_unique as specified):
     data_ = std::make_unique<T>(x)   x is evaluated first, a fresh cell holds it, then the unique_ptr is move-assigned:
                                      it lets go of its old cell
     data_(std::make_unique<T>(x))    the same in a member initialiser (data_ starts out null)
     data_.reset()                    the unique_ptr lets go of its cell and becomes null
     *other                           optional::operator* of the other object: raises when it is empty
     std::move(data) / data           the value of the T parameter (T is modelled as a byte string) *)
From Coq Require Import List Arith Bool.
From Nitro Require Import Base.Bytes Own.Count Own.Optional.
Import ListNotations.
Local Open Scope list_scope.

Inductive ocond := CData | COther | CNot (c : ocond) | CUnknown.
Inductive osrc := SDerefOther | SParam | SMovedParam | SUnknownSrc.
Inductive ostmt :=
| OIf (c : ocond) (a b : list ostmt)
| OAssignMake (s : osrc)
| OReset
| ORetThis | ORetBool (c : ocond) | ORetDerefData | ORaise
| OUnknown.

Inductive oresult := RThis | RB (b : bool) | RRead (r : rd).
Definition ost : Type := (list cell * option nat)%type.
Inductive oout := ONorm (s : ost) | ORet (s : ost) (r : oresult) | ORaised | OStuck.

Section Exec.
Variable other : option nat.     (* the data_ of the parameter `other` *)
Variable v : str.                (* the value of the parameter `data` *)

Fixpoint ceval (s : ost) (c : ocond) : option bool :=
  match c with
  | CData => Some (match snd s with Some _ => true | None => false end)
  | COther => Some (match other with Some _ => true | None => false end)
  | CNot a => option_map negb (ceval s a)
  | CUnknown => None
  end.

Fixpoint oexec1 (st : ostmt) (s : ost) {struct st} : oout :=
  let seq := fix seq (l : list ostmt) (s : ost) {struct l} : oout :=
    match l with
    | [] => ONorm s
    | x :: r => match oexec1 x s with ONorm s' => seq r s' | o => o end
    end in
  match st with
  | OIf c a b => match ceval s c with
                 | Some true => seq a s
                 | Some false => seq b s
                 | None => OStuck end
  | OAssignMake src =>
      let value := match src with
                   | SDerefOther => match other with Some c => Some (Some (deref (fst s) c)) | None => Some None end
                   | SParam | SMovedParam => Some (Some v)
                   | SUnknownSrc => None
                   end in
      match value with
      | Some (Some x) => let '(cs', id) := new_cell (fst s) x in ONorm (free_cell cs' (snd s), Some id)
      | Some None => ORaised
      | None => OStuck
      end
  | OReset => ONorm (free_cell (fst s) (snd s), None)
  | ORetThis => ORet s RThis
  | ORetBool c => match ceval s c with Some b => ORet s (RB b) | None => OStuck end
  | ORetDerefData =>
      match snd s with
      | Some c => ORet s (RRead (match view_of (fst s) (Some c) with VVal x => RVal x | _ => RDangling end))
      | None => OStuck      (* dereferencing a null unique_ptr *)
      end
  | ORaise => ORaised
  | OUnknown => OStuck
  end.

Fixpoint oexec (l : list ostmt) (s : ost) : oout :=
  match l with
  | [] => ONorm s
  | x :: r => match oexec1 x s with ONorm s' => oexec r s' | o => o end
  end.
End Exec.

(* a constructor: the member initialiser of data_ (if any) runs on the null pointer, then the body *)
Record octor := { oc_init : option osrc; oc_body : list ostmt }.
Definition run_ctor (other : option nat) (v : str) (k : octor) (cs : list cell) : oout :=
  let pre := match oc_init k with Some src => [OAssignMake src] | None => [] end in
  oexec other v (pre ++ oc_body k) (cs, None).

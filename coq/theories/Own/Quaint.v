(* Own/Quaint.v — executable model of nitro::lang::quaint_ptr (include/nitro/lang/quaint_ptr.hpp), C18.

   quaint_ptr is a std::unique_ptr to void with a std::function deleter; the deleter, installed by
   make_quaint<T>, casts the pointer back to a pointer to T and deletes it.  The model keeps
     - a heap of payload objects (identity = index), each with the type it was created with, an alive
       flag and the list of destructor types that have been run on it (a list, so that a double or a
       wrongly typed destruction is representable),
     - a pool of named pointers (a slot is Gone when no quaint_ptr object lives there) and the
       contents of one std::vector<quaint_ptr>.
   A pointer value is None (null) or Some (id, dt): the pointee and the type REMEMBERED BY THE DELETER,
   stored separately from the object's own type — that the two agree is a theorem, not a definition.
   std::unique_ptr's own behaviour (release on destruction / reset / move assignment, null after move)
   is written out here as the standard specifies it; it is assumed, not verified (see props/C18.py).
   Definitions only; proofs are in QuaintProofs.v. *)
From Coq Require Import List Arith Bool.
From Nitro Require Import Own.Count.
Import ListNotations.
Local Open Scope list_scope.

Definition ty := nat.                       (* payload types: 0 = A, 1 = B, 2 = C, ... *)
Record obj := mkObj { otype : ty; alive : bool; destroyed_by : list ty }.
Definition ptr := option (nat * ty).
Inductive slot := Gone | Live (p : ptr).
Record qstate := mkQ { heap : list obj; pool : list slot; vec : list ptr }.

Definition q_init (n : nat) : qstate := mkQ [] (repeat Gone n) [].

(* the deleter lambda of make_quaint<dt>:  delete static_cast<dt*>(ptr)  — runs dt's destructor on object id *)
Definition run_deleter (h : list obj) (id : nat) (dt : ty) : list obj :=
  match nth_error h id with
  | Some o => setn h id (mkObj (otype o) false (destroyed_by o ++ [dt]))
  | None => h
  end.

(* ~unique_ptr() and reset(nullptr):  if (ptr != nullptr) get_deleter()(ptr) *)
Definition release (h : list obj) (p : ptr) : list obj :=
  match p with Some (id, dt) => run_deleter h id dt | None => h end.

Definition release_all (h : list obj) (l : list ptr) : list obj := fold_left release l h.

(* make_quaint<t>(...): new t(...) and a deleter remembering t *)
Definition make_quaint (h : list obj) (t : ty) : list obj * ptr :=
  (h ++ [mkObj t true []], Some (length h, t)).

(* move construction of a unique_ptr: the new object takes pointer and deleter, the source is null *)
Definition move_out (p : ptr) : ptr * ptr := (p, None).

(* reallocation of the vector's buffer: move-construct every element into the new buffer, then destroy
   every element of the old one *)
Definition vec_realloc (st : qstate) : qstate :=
  let moved := map move_out (vec st) in
  mkQ (release_all (heap st) (map snd moved)) (pool st) (map fst moved).

Inductive qop :=
| Make (i : nat) (t : ty)      (* pool[i] = make_quaint<t>()  (constructs slot i when it is Gone) *)
| MoveCtor (i j : nat)         (* new (&pool[i]) quaint_ptr(std::move(pool[j]))   slot i Gone, slot j Live *)
| MoveAssign (i j : nat)       (* pool[i] = std::move(pool[j])                     both Live *)
| Reset (i : nat)              (* pool[i].reset() *)
| Drop (i : nat)               (* pool[i].~quaint_ptr() *)
| VecPush (i : nat)            (* vec.push_back(std::move(pool[i])) — modelled on the reallocating path *)
| VecGrow                      (* vec.reserve(capacity()+1): reallocation *)
| VecClear                     (* vec.clear() *)
| VecTake (i k : nat)          (* pool[i] = std::move(vec[k]) *)
| AssignNull (i : nat)         (* pool[i] = nullptr     (the re-exported unique_ptr::operator=(nullptr_t): same as reset()) *)
| VecAssignNull (k : nat)      (* vec[k] = nullptr *)
| Swap (i j : nat)             (* std::swap(pool[i], pool[j]): move-construct a temporary, two move assignments *)
| DefCtor (i : nat)            (* new (&pool[i]) quaint_ptr()   slot i Gone: an empty pointer *)
| VecPop                       (* vec.pop_back() *)
| MakeThrows (i : nat) (t : ty) (* pool[i] = make_quaint<t>(...) where t's constructor throws: `new T(...)` never completes, no object
                                  exists, no owner was created: nothing happens to the state, the history goes on *)
| VecErase (k : nat).          (* vec.erase(vec.begin() + k): the elements behind k are move-assigned one position down
                                  (the first of these assignments releases vec[k]'s pointee, the others land on moved-from
                                  elements), then the last, moved-from, element is destroyed *)

Definition is_live (s : option slot) : option ptr := match s with Some (Live p) => Some p | _ => None end.

Definition q_applicable (st : qstate) (o : qop) : bool :=
  match o with
  | Make i _ => match nth_error (pool st) i with Some _ => true | None => false end
  | MoveCtor i j => match nth_error (pool st) i, is_live (nth_error (pool st) j) with Some Gone, Some _ => true | _, _ => false end
  | MoveAssign i j => match is_live (nth_error (pool st) i), is_live (nth_error (pool st) j) with Some _, Some _ => true | _, _ => false end
  | Reset i | Drop i | VecPush i => match is_live (nth_error (pool st) i) with Some _ => true | None => false end
  | VecGrow | VecClear => true
  | VecTake i k => match is_live (nth_error (pool st) i), nth_error (vec st) k with Some _, Some _ => true | _, _ => false end
  | AssignNull i => match is_live (nth_error (pool st) i) with Some _ => true | None => false end
  | VecAssignNull k => match nth_error (vec st) k with Some _ => true | None => false end
  | Swap i j => match is_live (nth_error (pool st) i), is_live (nth_error (pool st) j) with Some _, Some _ => true | _, _ => false end
  | DefCtor i => match nth_error (pool st) i with Some Gone => true | _ => false end
  | VecPop => match vec st with [] => false | _ => true end
  | VecErase k => match nth_error (vec st) k with Some _ => true | None => false end
  | MakeThrows i _ => match nth_error (pool st) i with Some _ => true | None => false end
  end.

Definition q_step (st : qstate) (o : qop) : qstate :=
  match o with
  | Make i t =>
      match nth_error (pool st) i with
      | Some Gone => let '(h, p) := make_quaint (heap st) t in mkQ h (setn (pool st) i (Live p)) (vec st)
      | Some (Live old) =>
          (* the temporary is created first; move assignment then releases the old pointee *)
          let '(h, p) := make_quaint (heap st) t in mkQ (release h old) (setn (pool st) i (Live p)) (vec st)
      | None => st
      end
  | MoveCtor i j =>
      match nth_error (pool st) i, is_live (nth_error (pool st) j) with
      | Some Gone, Some pj =>
          let '(n, src) := move_out pj in
          mkQ (heap st) (setn (setn (pool st) i (Live n)) j (Live src)) (vec st)
      | _, _ => st
      end
  | MoveAssign i j =>
      match is_live (nth_error (pool st) i), is_live (nth_error (pool st) j) with
      | Some pi, Some pj =>
          if Nat.eqb i j then st      (* reset(release()) on itself: nothing is destroyed *)
          else
            (* reset(u.release()); get_deleter() = std::move(u.get_deleter()) *)
            let '(n, src) := move_out pj in
            mkQ (release (heap st) pi) (setn (setn (pool st) i (Live n)) j (Live src)) (vec st)
      | _, _ => st
      end
  | Reset i =>
      match is_live (nth_error (pool st) i) with
      | Some p => mkQ (release (heap st) p) (setn (pool st) i (Live None)) (vec st)
      | None => st
      end
  | Drop i =>
      match is_live (nth_error (pool st) i) with
      | Some p => mkQ (release (heap st) p) (setn (pool st) i Gone) (vec st)
      | None => st
      end
  | VecPush i =>
      match is_live (nth_error (pool st) i) with
      | Some p =>
          let st1 := vec_realloc st in
          let '(n, src) := move_out p in
          mkQ (heap st1) (setn (pool st1) i (Live src)) (vec st1 ++ [n])
      | None => st
      end
  | VecGrow => vec_realloc st
  | VecClear => mkQ (release_all (heap st) (vec st)) (pool st) []
  | VecTake i k =>
      match is_live (nth_error (pool st) i), nth_error (vec st) k with
      | Some pi, Some pk =>
          let '(n, src) := move_out pk in
          mkQ (release (heap st) pi) (setn (pool st) i (Live n)) (setn (vec st) k src)
      | _, _ => st
      end
  | AssignNull i =>
      (* unique_ptr::operator=(nullptr_t): reset() *)
      match is_live (nth_error (pool st) i) with
      | Some p => mkQ (release (heap st) p) (setn (pool st) i (Live None)) (vec st)
      | None => st
      end
  | VecAssignNull k =>
      match nth_error (vec st) k with
      | Some p => mkQ (release (heap st) p) (pool st) (setn (vec st) k None)
      | None => st
      end
  | Swap i j =>
      match is_live (nth_error (pool st) i), is_live (nth_error (pool st) j) with
      | Some pi, Some pj =>
          (* tmp(std::move(a)): a null;  a = std::move(b): releases a's (null) pointee, b null;  b = std::move(tmp): releases
             b's (null) pointee; ~tmp (null).  On itself the middle step is a self move assignment.  Nothing is destroyed. *)
          let '(tmp, a0) := move_out pi in
          let h1 := release (heap st) a0 in
          let h2 := release h1 None in
          let h3 := release h2 None in
          mkQ h3 (setn (setn (pool st) i (Live pj)) j (Live tmp)) (vec st)
      | _, _ => st
      end
  | DefCtor i =>
      match nth_error (pool st) i with
      | Some Gone => mkQ (heap st) (setn (pool st) i (Live None)) (vec st)
      | _ => st
      end
  | VecPop =>
      match rev (vec st) with
      | p :: r => mkQ (release (heap st) p) (pool st) (rev r)
      | [] => st
      end
  | VecErase k =>
      match nth_error (vec st) k with
      | Some p => mkQ (release (heap st) p) (pool st) (firstn k (vec st) ++ skipn (S k) (vec st))
      | None => st
      end
  | MakeThrows _ _ => st
  end.

Definition q_run (st : qstate) (ops : list qop) : qstate := fold_left q_step ops st.

(* every prefix state, for the per-step observations of the driver *)
Fixpoint q_trace (st : qstate) (ops : list qop) : list qstate :=
  match ops with [] => [] | o :: r => let st' := q_step st o in st' :: q_trace st' r end.

Definition sptr (s : slot) : ptr := match s with Gone => None | Live p => p end.
Definition ptrs (st : qstate) : list ptr := map sptr (pool st) ++ vec st.

(* end of the history: the vector and every pool pointer go out of scope *)
Definition q_finish (st : qstate) : qstate :=
  mkQ (release_all (heap st) (ptrs st)) (map (fun _ => Gone) (pool st)) [].

(* ---- spec side: what the property demands of an observed state (used by the oracle on the
        IMPLEMENTATION's observations, and proved of every reachable model state) ---- *)
Definition pid (p : ptr) : option nat := match p with Some (i, _) => Some i | None => None end.

Definition destroyed_ok (o : obj) : bool :=            (* at most once, by the creation type, iff not alive *)
  match destroyed_by o with
  | [] => alive o
  | [t] => negb (alive o) && Nat.eqb t (otype o)
  | _ => false
  end.

Fixpoint owners_ok_from (id : nat) (h : list obj) (ps : list ptr) : bool :=   (* live iff exactly one owner, dead iff none *)
  match h with
  | [] => true
  | o :: r => Nat.eqb (cnt pid id ps) (if alive o then 1 else 0) && owners_ok_from (S id) r ps
  end.

Definition ptr_in_heap (h : list obj) (p : ptr) : bool :=
  match p with Some (id, _) => Nat.ltb id (length h) | None => true end.

Definition q_state_ok (st : qstate) : bool :=
  forallb destroyed_ok (heap st) && owners_ok_from 0 (heap st) (ptrs st) && forallb (ptr_in_heap (heap st)) (ptrs st).

Definition all_destroyed_once (st : qstate) : bool :=
  forallb (fun o => negb (alive o) && match destroyed_by o with [t] => Nat.eqb t (otype o) | _ => false end) (heap st).

(* the slot an operation must leave empty (null): the source of a move, the target of reset *)
Definition must_be_empty (o : qop) : option nat :=
  match o with
  | MoveCtor _ j => Some j
  | MoveAssign i j => if Nat.eqb i j then None else Some j
  | Reset i => Some i
  | VecPush i => Some i
  | AssignNull i => Some i
  | _ => None
  end.

(* the vector element an operation must leave empty: moved out of, or assigned nullptr *)
Definition vec_must_be_null (o : qop) : option nat :=
  match o with VecTake _ k => Some k | VecAssignNull k => Some k | _ => None end.
Definition vec_is_null (st : qstate) (k : nat) : bool :=
  match nth_error (vec st) k with Some None => true | _ => false end.

Definition slot_is_null (st : qstate) (i : nat) : bool :=
  match nth_error (pool st) i with Some (Live None) => true | _ => false end.

(* objects are never forgotten, never change type, never come back to life, never lose a destruction record *)
Fixpoint heap_extends (h h' : list obj) : bool :=
  match h, h' with
  | [], _ => true
  | o :: r, o' :: r' => Nat.eqb (otype o) (otype o') && (alive o || negb (alive o'))
                        && Nat.leb (length (destroyed_by o)) (length (destroyed_by o')) && heap_extends r r'
  | _ :: _, [] => false
  end.

Definition count_type (t : ty) (h : list obj) : nat := length (filter (fun o => Nat.eqb (otype o) t) h).
Definition count_destroyed_by (t : ty) (h : list obj) : nat :=
  length (filter (Nat.eqb t) (flat_map destroyed_by h)).

(* ---- re-entrant payloads: a payload whose destructor reaches back to the pointer that owns it ("a child unregisters
   itself from its parent") and calls reset() on it, assigns nullptr to it, moves from it or move-assigns an empty
   pointer onto it.  reset() is unique_ptr::reset(nullptr):
       old = stored pointer;  stored pointer = nullptr;  if (old) get_deleter()(old)        — in THIS order,
   so the owner is already empty while the deleter (and with it the payload's destructor) runs.  reset_reentrant writes
   the three stages out; that the re-entrant actions then do nothing and the whole is the plain Reset step is proved in
   QuaintProofs.v (reentrant_reset_is_reset), which carries every theorem about histories over to such payloads. ---- *)
Inductive reentry := ReReset | ReAssignNull | ReMoveFrom | ReMoveAssignEmpty.

(* stage 1: the pointer forgets its pointee *)
Definition forget (st : qstate) (i : nat) : qstate := mkQ (heap st) (setn (pool st) i (Live None)) (vec st).

(* stage 2: what the destructor body of the pointee does to slot i *)
Definition reenter (st : qstate) (i : nat) (a : reentry) : qstate :=
  match a with
  | ReReset => q_step st (Reset i)                     (* owner.reset() *)
  | ReAssignNull => q_step st (AssignNull i)           (* owner = nullptr *)
  | ReMoveFrom =>                                      (* { quaint_ptr tmp(std::move(owner)); }  — tmp dies at once *)
      match is_live (nth_error (pool st) i) with
      | Some p => let '(n, src) := move_out p in mkQ (release (heap st) n) (setn (pool st) i (Live src)) (vec st)
      | None => st
      end
  | ReMoveAssignEmpty =>                               (* owner = quaint_ptr() *)
      match is_live (nth_error (pool st) i) with
      | Some p => mkQ (release (release (heap st) p) None) (setn (pool st) i (Live None)) (vec st)
      | None => st
      end
  end.

(* pool[i].reset() where the pointee's destructor performs `acts` on pool[i]; stage 3: the pointee is destroyed *)
Definition reset_reentrant (st : qstate) (i : nat) (acts : list reentry) : qstate :=
  match is_live (nth_error (pool st) i) with
  | Some p =>
      let st1 := forget st i in
      let st2 := fold_left (fun s a => reenter s i a) acts st1 in
      mkQ (release (heap st2) p) (pool st2) (vec st2)
  | None => st
  end.

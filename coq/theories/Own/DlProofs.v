(* Own/DlProofs.v — invariants of the dl/symbol model (Own/Dl.v) for ALL operation lists and every world. *)
From Coq Require Import List Arith Bool Lia.
From Nitro Require Import Own.Count Own.CountProofs Own.Dl.
Import ListNotations.
Local Open Scope list_scope.

Definition refs_n (l : list hrec) (h : nat) : nat := match nth_error l h with Some r => refs r | None => 0 end.
(* dlclose has been called on a handle exactly when its use count is zero, and then once *)
Definition cl_ok (r : hrec) : Prop := closes r = if Nat.eqb (refs r) 0 then 1 else 0.

(* an owning symbol's function pointer points into the library its shared_ptr keeps alive *)
Definition sym_ok (o : option owner) : Prop :=
  match o with Some (OSym (Some h) fh _) => fh = h | _ => True end.

Record dinv (st : dstate) : Prop := mkDInv {
  k_cnt : forall h, cnt okey h (slots st) = refs_n (hs st) h;     (* use count = number of owning objects *)
  k_cl : Forall cl_ok (hs st);
  k_nc : null_closes st = 0;
  k_fn : Forall sym_ok (slots st) }.

(* 1 when the (possibly null) shared_ptr ho refers to handle k *)
Definition hn (ho : option nat) (k : nat) : nat := match ho with Some h => if Nat.eqb h k then 1 else 0 | None => 0 end.

Lemma holds_okey h o : holds okey h o = hn (okey o) h.
Proof. unfold holds, hn. destruct (okey o); reflexivity. Qed.

Lemma setn_setn {A} (l : list A) k x y : setn (setn l k x) k y = setn l k y.
Proof. revert k; induction l as [|z l IH]; intros [|k]; simpl; auto. f_equal; auto. Qed.

Lemma setn_same {A} (l : list A) k y : nth_error l k = Some y -> setn l k y = l.
Proof. revert k; induction l as [|z l IH]; intros [|k]; simpl; try discriminate. - intros [= ->]; auto. - intros H; f_equal; auto. Qed.

Lemma refs_n_range l h : 0 < refs_n l h -> exists r, nth_error l h = Some r /\ 0 < refs r.
Proof. unfold refs_n. destruct (nth_error l h) as [r|]; [eauto|lia]. Qed.

Lemma refs_n_setn l h r x k : nth_error l h = Some r ->
  refs_n (setn l h x) k = if Nat.eqb h k then refs x else refs_n l k.
Proof.
  intros H. unfold refs_n. destruct (Nat.eqb h k) eqn:E.
  - apply Nat.eqb_eq in E. subst k. rewrite (nth_error_setn_eq _ _ _ _ H). reflexivity.
  - apply Nat.eqb_neq in E. rewrite nth_error_setn_ne by auto. reflexivity.
Qed.

Lemma refs_n_app l x k : refs_n (l ++ [x]) k = refs_n l k + (if Nat.eqb (length l) k then refs x else 0).
Proof.
  unfold refs_n. destruct (Nat.lt_ge_cases k (length l)) as [H|H].
  - rewrite nth_error_app1 by auto. destruct (Nat.eqb (length l) k) eqn:E; [apply Nat.eqb_eq in E; lia|lia].
  - rewrite nth_error_app2 by auto. assert (E0 : nth_error l k = None) by (apply nth_error_None; auto). rewrite E0.
    destruct (Nat.eqb (length l) k) eqn:E.
    + apply Nat.eqb_eq in E. subst. rewrite Nat.sub_diag. reflexivity.
    + apply Nat.eqb_neq in E. destruct (k - length l) as [|m] eqn:K; [lia|]. simpl. destruct m; reflexivity.
Qed.

Lemma upd_h_app_last l x f : upd_h (l ++ [x]) (length l) f = l ++ [f x].
Proof.
  unfold upd_h. rewrite nth_error_app2, Nat.sub_diag by auto. simpl.
  induction l as [|a l IH]; simpl; auto. f_equal; auto.
Qed.

(* ---------- shared_ptr bookkeeping ---------- *)

Lemma sp_copy_spec st h r : nth_error (hs st) h = Some r -> 0 < refs r -> Forall cl_ok (hs st) ->
  hs (sp_copy st h) = setn (hs st) h (mkH (hlib r) (S (refs r)) (closes r))
  /\ Forall cl_ok (hs (sp_copy st h))
  /\ (forall k, refs_n (hs (sp_copy st h)) k = refs_n (hs st) k + (if Nat.eqb h k then 1 else 0)).
Proof.
  intros Hr Hpos Hcl. unfold sp_copy, upd_h. simpl. rewrite Hr. split; [reflexivity|]. split.
  - apply Forall_setn; auto. rewrite Forall_forall in Hcl. specialize (Hcl r (nth_error_In _ _ Hr)).
    unfold cl_ok in *. simpl. destruct (Nat.eqb (refs r) 0) eqn:E; [apply Nat.eqb_eq in E; lia|auto].
  - intros k. rewrite (refs_n_setn _ _ r) by auto. simpl. destruct (Nat.eqb h k) eqn:E; [|lia].
    apply Nat.eqb_eq in E. subst k. unfold refs_n. rewrite Hr. lia.
Qed.

Lemma sp_drop_spec st h r : nth_error (hs st) h = Some r -> 0 < refs r -> Forall cl_ok (hs st) ->
  let st' := sp_drop st h in
  slots st' = slots st /\ pend st' = pend st /\ null_closes st' = null_closes st
  /\ Forall cl_ok (hs st')
  /\ (forall k, refs_n (hs st') k + (if Nat.eqb h k then 1 else 0) = refs_n (hs st) k)
  /\ hs st' = setn (hs st) h (mkH (hlib r) (pred (refs r)) (if Nat.eqb (pred (refs r)) 0 then S (closes r) else closes r)).
Proof.
  intros Hr Hpos Hcl. unfold sp_drop, upd_h, refs_of. simpl. rewrite Hr.
  rewrite (nth_error_setn_eq _ _ _ _ Hr). simpl.
  assert (Hc0 : closes r = 0).
  { rewrite Forall_forall in Hcl. specialize (Hcl r (nth_error_In _ _ Hr)). unfold cl_ok in Hcl.
    destruct (Nat.eqb (refs r) 0) eqn:E; [apply Nat.eqb_eq in E; lia|auto]. }
  destruct (Nat.eqb (pred (refs r)) 0) eqn:E; simpl.
  - unfold upd_h. rewrite (nth_error_setn_eq _ _ _ _ Hr). simpl. rewrite setn_setn.
    repeat split; auto.
    + apply Forall_setn; auto. unfold cl_ok. simpl. rewrite E. lia.
    + intros k. rewrite (refs_n_setn _ _ r) by auto. simpl. apply Nat.eqb_eq in E.
      destruct (Nat.eqb h k) eqn:E2; [|lia]. apply Nat.eqb_eq in E2. subst k. unfold refs_n. rewrite Hr. lia.
  - repeat split; auto.
    + apply Forall_setn; auto. unfold cl_ok. simpl. rewrite E. auto.
    + intros k. rewrite (refs_n_setn _ _ r) by auto. simpl.
      destruct (Nat.eqb h k) eqn:E2; [|lia]. apply Nat.eqb_eq in E2. subst k. unfold refs_n. rewrite Hr. lia.
Qed.

(* copy then drop is the identity on the handle table (a failed symbol look-up leaves the library as it was) *)
Lemma sp_copy_drop st h r : nth_error (hs st) h = Some r -> 0 < refs r -> Forall cl_ok (hs st) ->
  forall p, hs (sp_drop (mkD (hs (sp_copy st h)) (slots st) p (null_closes st)) h) = hs st.
Proof.
  intros Hr Hpos Hcl p. destruct (sp_copy_spec st h r Hr Hpos Hcl) as (E & Hcl' & _).
  set (st1 := mkD (hs (sp_copy st h)) (slots st) p (null_closes st)).
  assert (Hr1 : nth_error (hs st1) h = Some (mkH (hlib r) (S (refs r)) (closes r))).
  { unfold st1. cbn [hs]. rewrite E. eapply nth_error_setn_eq; eauto. }
  destruct (sp_drop_spec st1 h _ Hr1 ltac:(simpl; lia) Hcl') as (_ & _ & _ & _ & _ & E2).
  rewrite E2. unfold st1. cbn [hs hlib refs closes pred]. rewrite E, setn_setn.
  destruct (Nat.eqb (refs r) 0) eqn:E0; [apply Nat.eqb_eq in E0; lia|].
  apply setn_same. rewrite Hr. destruct r; reflexivity.
Qed.

(* ---------- slots ---------- *)

Lemma slot_owner_nth st j o : slot_owner st j = Some o -> nth_error (slots st) j = Some (Some o).
Proof. unfold slot_owner. destruct (nth_error (slots st) j) as [[x|]|]; try discriminate. intros [= ->]. reflexivity. Qed.

Lemma slot_empty_nth st i : slot_empty st i = true -> nth_error (slots st) i = Some None.
Proof. unfold slot_empty. destruct (nth_error (slots st) i) as [[x|]|]; try discriminate. reflexivity. Qed.

Lemma owner_has_refs st j o h : dinv st -> slot_owner st j = Some o -> owner_h o = Some h ->
  exists r, nth_error (hs st) h = Some r /\ 0 < refs r.
Proof.
  intros I H Hh. apply slot_owner_nth in H. apply refs_n_range. rewrite <- (k_cnt _ I).
  pose proof (cnt_nth okey h _ _ _ H) as C. rewrite holds_okey in C. simpl in C. rewrite Hh in C. simpl in C.
  rewrite Nat.eqb_refl in C. lia.
Qed.

(* ---------- possibly-null shared_ptr: copy and destroy ---------- *)

Lemma sp_copy_opt_spec st ho :
  (forall h, ho = Some h -> 0 < refs_n (hs st) h) -> Forall cl_ok (hs st) ->
  let st' := sp_copy_opt st ho in
  slots st' = slots st /\ pend st' = pend st /\ null_closes st' = null_closes st
  /\ Forall cl_ok (hs st') /\ (forall k, refs_n (hs st') k = refs_n (hs st) k + hn ho k).
Proof.
  intros Hpos Hcl. destruct ho as [h|]; simpl.
  - destruct (refs_n_range _ _ (Hpos h eq_refl)) as (r & Hr & Hp).
    destruct (sp_copy_spec st h r Hr Hp Hcl) as (_ & C & R). repeat split; auto.
  - repeat split; auto.
Qed.

Lemma sp_drop_opt_spec st ho :
  (forall h, ho = Some h -> 0 < refs_n (hs st) h) -> Forall cl_ok (hs st) ->
  let st' := sp_drop_opt st ho in
  slots st' = slots st /\ pend st' = pend st /\ null_closes st' = null_closes st
  /\ Forall cl_ok (hs st') /\ (forall k, refs_n (hs st') k + hn ho k = refs_n (hs st) k)
  /\ length (hs st') = length (hs st).
Proof.
  intros Hpos Hcl. destruct ho as [h|]; simpl.
  - destruct (refs_n_range _ _ (Hpos h eq_refl)) as (r & Hr & Hp).
    destruct (sp_drop_spec st h r Hr Hp Hcl) as (S1 & S2 & S3 & S4 & S5 & S6). repeat split; auto.
    rewrite S6. apply setn_length.
  - repeat split; auto.
Qed.

(* the workhorse: a state whose owner counts are right except that one more reference ho is still held by an object
   that is about to let go of it; letting go restores the invariant *)
Lemma drop_restores st ho :
  Forall cl_ok (hs st) -> null_closes st = 0 -> Forall sym_ok (slots st) ->
  (forall k, cnt okey k (slots st) + hn ho k = refs_n (hs st) k) ->
  dinv (sp_drop_opt st ho) /\ slots (sp_drop_opt st ho) = slots st /\ pend (sp_drop_opt st ho) = pend st
  /\ length (hs (sp_drop_opt st ho)) = length (hs st).
Proof.
  intros Hcl Hnc Hfn Hc.
  destruct (sp_drop_opt_spec st ho) as (S1 & S2 & S3 & S4 & S5 & S6); auto.
  { intros h ->. specialize (Hc h). simpl in Hc. rewrite Nat.eqb_refl in Hc. lia. }
  repeat split; auto.
  - intros k. rewrite S1. specialize (S5 k). specialize (Hc k). lia.
  - rewrite S3. auto.
  - rewrite S1. auto.
Qed.

Lemma okey_some o : okey (Some o) = owner_h o.
Proof. reflexivity. Qed.

Lemma owner_h_with o h : owner_h (with_h o h) = h.
Proof. destruct o; reflexivity. Qed.

Lemma sym_ok_with_none o : sym_ok (Some (with_h o None)).
Proof. destruct o; simpl; auto. Qed.

Lemma slot_sym_ok st j o : dinv st -> slot_owner st j = Some o -> sym_ok (Some o).
Proof.
  intros I H. apply slot_owner_nth in H. pose proof (k_fn _ I) as F. rewrite Forall_forall in F.
  apply F. eapply nth_error_In; eauto.
Qed.

(* a new owner object in empty slot i whose shared_ptr is a fresh copy of ho *)
Lemma add_owner_ok st st1 i o : dinv st -> slot_empty st i = true ->
  slots st1 = slots st -> null_closes st1 = null_closes st -> Forall cl_ok (hs st1) ->
  (forall k, refs_n (hs st1) k = refs_n (hs st) k + hn (owner_h o) k) -> sym_ok (Some o) ->
  dinv (set_slot st1 i (Some o)).
Proof.
  intros I He Es En Hcl Hr Hs. apply slot_empty_nth in He. constructor; simpl; auto.
  - intros h. rewrite Es. pose proof (cnt_setn okey h _ i (Some o) _ He) as C. rewrite !holds_okey in C.
    simpl in C. rewrite (k_cnt _ I) in C. rewrite Hr. lia.
  - rewrite En. apply (k_nc _ I).
  - rewrite Es. apply Forall_setn; auto. apply (k_fn _ I).
Qed.

(* dropping the owner in slot i *)
Lemma drop_slot_ok st i o : dinv st -> slot_owner st i = Some o ->
  let st' := sp_drop_opt (set_slot st i None) (owner_h o) in
  dinv st' /\ slots st' = setn (slots st) i None /\ pend st' = pend st /\ length (hs st') = length (hs st).
Proof.
  intros I Ho. pose proof (slot_owner_nth _ _ _ Ho) as Hn.
  destruct (drop_restores (set_slot st i None) (owner_h o)) as (D & S1 & S2 & S3); simpl; auto.
  - apply (k_cl _ I).
  - apply (k_nc _ I).
  - apply Forall_setn; [apply (k_fn _ I)|simpl; auto].
  - intros k. pose proof (cnt_setn okey k _ i None _ Hn) as C. rewrite !holds_okey in C. simpl in C.
    rewrite (k_cnt _ I) in C. lia.
Qed.

(* ---------- closed forms of the two constructors ---------- *)

Lemma dl_ctor_ok w st f : lib_exists w f = true ->
  dl_ctor w st f = (mkD (hs st ++ [mkH f 1 0]) (slots st) (pend st) (null_closes st), Some (length (hs st)), DOk).
Proof.
  intros H. unfold dl_ctor, ld_dlopen. rewrite H. unfold sp_adopt. simpl. rewrite upd_h_app_last. reflexivity.
Qed.

(* a failed open: nothing is created, dlclose is not called (not even on NULL), the diagnostic of THIS failure is
   captured whatever error was pending before, and no error is left pending *)
Lemma dl_ctor_fail w st f : lib_exists w f = false ->
  dl_ctor w st f = (mkD (hs st) (slots st) None (null_closes st), None, DRaise (Some (DgOpen f))).
Proof. intros H. unfold dl_ctor, ld_dlopen. rewrite H. reflexivity. Qed.

Lemma symbol_ctor_spec w st h s r : nth_error (hs st) h = Some r ->
  symbol_ctor w st h s =
    if sym_exists w (hlib r) s
    then (mkD (hs (sp_copy st h)) (slots st) None (null_closes st), true, DOk)
    else (sp_drop (mkD (hs (sp_copy st h)) (slots st) None (null_closes st)) h, false, DRaise (Some (DgSym (hlib r) s))).
Proof.
  intros Hr. unfold symbol_ctor, ld_dlerror, ld_dlsym. simpl.
  unfold upd_h. rewrite Hr. rewrite (nth_error_setn_eq _ _ _ _ Hr). simpl.
  destruct (sym_exists w (hlib r) s); simpl; reflexivity.
Qed.

(* ---------- one step preserves the invariant ---------- *)

Lemma dinv_ext st st' : hs st' = hs st -> slots st' = slots st -> null_closes st' = null_closes st -> dinv st -> dinv st'.
Proof. intros E1 E2 E3 [A B C D]. constructor; rewrite ?E1, ?E2, ?E3; auto. Qed.

Lemma refs_pos_of_owner st j o : dinv st -> slot_owner st j = Some o ->
  forall h, owner_h o = Some h -> 0 < refs_n (hs st) h.
Proof.
  intros I Ho h Hh. destruct (owner_has_refs st j o h I Ho Hh) as (r & Hr & Hp). unfold refs_n. rewrite Hr. exact Hp.
Qed.

Lemma dinv_step w st o : dinv st -> dinv (fst (d_step w st o)).
Proof.
  intros I. destruct o as [i f|i j s|i j|i j|i j|i j|i j|i j|i|i x|f]; simpl.
  - (* DOpen *)
    destruct (slot_empty st i) eqn:Ei; [|exact I].
    destruct (lib_exists w f) eqn:Ef.
    + rewrite dl_ctor_ok by auto. simpl.
      apply (add_owner_ok st _ i (OLib (Some (length (hs st))))); simpl; auto.
      * apply Forall_app. split; [apply (k_cl _ I)|]. constructor; auto. reflexivity.
      * intros k. rewrite refs_n_app. simpl. destruct (Nat.eqb (length (hs st)) k); lia.
    + rewrite dl_ctor_fail by auto. simpl. eapply dinv_ext; [| | |exact I]; reflexivity.
  - (* DLoad *)
    destruct (slot_empty st i) eqn:Ei; [|destruct (slot_owner st j) as [[[?|]|? ? ?|?]|]; exact I].
    destruct (slot_owner st j) as [[[h|]|? ? ?|?]|] eqn:Ej; try exact I.
    destruct (owner_has_refs st j _ h I Ej eq_refl) as (r & Hr & Hpos).
    rewrite (symbol_ctor_spec w st h s r Hr).
    destruct (sp_copy_spec st h r Hr Hpos (k_cl _ I)) as (E & Hcl & Hrefs).
    destruct (sym_exists w (hlib r) s); simpl.
    + apply (add_owner_ok st _ i (OSym (Some h) h s)); simpl; auto.
    + set (st1 := mkD (hs (sp_copy st h)) (slots st) None (null_closes st)).
      assert (Hr1 : nth_error (hs st1) h = Some (mkH (hlib r) (S (refs r)) (closes r))).
      { unfold st1. cbn [hs]. rewrite E. eapply nth_error_setn_eq; eauto. }
      destruct (sp_drop_spec st1 h _ Hr1 ltac:(simpl; lia) Hcl) as (S1 & _ & S3 & _).
      eapply dinv_ext; [| | |exact I]; auto.
      apply (sp_copy_drop st h r Hr Hpos (k_cl _ I)).
  - (* DGet *)
    destruct (slot_empty st i) eqn:Ei; [|destruct (slot_owner st j) as [[?|? ? ?|?]|]; exact I].
    destruct (slot_owner st j) as [[ho|? ? ?|?]|] eqn:Ej; try exact I. simpl.
    destruct (sp_copy_opt_spec st ho) as (S1 & S2 & S3 & S4 & S5).
    { apply (refs_pos_of_owner st j _ I Ej). }
    { apply (k_cl _ I). }
    apply (add_owner_ok st _ i (ORaw ho)); simpl; auto.
  - (* DCopy *)
    destruct (slot_empty st i) eqn:Ei; [|destruct (slot_owner st j); exact I].
    destruct (slot_owner st j) as [o|] eqn:Ej; try exact I. simpl.
    destruct (sp_copy_opt_spec st (owner_h o)) as (S1 & S2 & S3 & S4 & S5).
    { apply (refs_pos_of_owner st j _ I Ej). }
    { apply (k_cl _ I). }
    apply (add_owner_ok st _ i o); simpl; auto. apply (slot_sym_ok st j o I Ej).
  - (* DMove *)
    destruct (slot_empty st i) eqn:Ei; [|destruct (slot_owner st j); exact I].
    destruct (slot_owner st j) as [o|] eqn:Ej; try exact I. simpl.
    pose proof (slot_sym_ok st j o I Ej) as So.
    apply slot_empty_nth in Ei. apply slot_owner_nth in Ej.
    assert (Hne : i <> j) by (intros ->; congruence).
    assert (Ej' : nth_error (setn (slots st) i (Some o)) j = Some (Some o)) by (rewrite nth_error_setn_ne; auto).
    constructor; simpl; [|apply (k_cl _ I)|apply (k_nc _ I)|].
    + intros h. pose proof (cnt_setn okey h _ i (Some o) _ Ei) as C1.
      pose proof (cnt_setn okey h _ j (Some (with_h o None)) _ Ej') as C2.
      rewrite !holds_okey in *. simpl in C1, C2. rewrite owner_h_with in C2. simpl in C2. rewrite <- (k_cnt _ I). lia.
    + apply Forall_setn; [apply Forall_setn; [apply (k_fn _ I)|auto]|apply sym_ok_with_none].
  - (* DAssign *)
    destruct (slot_owner st i) as [a|] eqn:Ei; [|exact I].
    destruct (slot_owner st j) as [b|] eqn:Ej; [|exact I].
    destruct (same_kind a b); [|exact I]. simpl.
    destruct (sp_copy_opt_spec st (owner_h b)) as (S1 & S2 & S3 & S4 & S5).
    { apply (refs_pos_of_owner st j _ I Ej). }
    { apply (k_cl _ I). }
    pose proof (slot_owner_nth _ _ _ Ei) as Hi.
    apply (drop_restores (set_slot (sp_copy_opt st (owner_h b)) i (Some b)) (owner_h a)); simpl; auto.
    + rewrite S3. apply (k_nc _ I).
    + rewrite S1. apply Forall_setn; [apply (k_fn _ I)|apply (slot_sym_ok st j b I Ej)].
    + intros k. rewrite S1, S5. pose proof (cnt_setn okey k _ i (Some b) _ Hi) as C. rewrite !holds_okey in C. simpl in C.
      rewrite (k_cnt _ I) in C. lia.
  - (* DMoveAssign *)
    destruct (slot_owner st i) as [a|] eqn:Ei; [|exact I].
    destruct (slot_owner st j) as [b|] eqn:Ej; [|exact I].
    destruct (same_kind a b); [|exact I].
    destruct (Nat.eqb i j) eqn:Eij; [exact I|]. apply Nat.eqb_neq in Eij. simpl.
    pose proof (slot_owner_nth _ _ _ Ei) as Hi. pose proof (slot_owner_nth _ _ _ Ej) as Hj.
    assert (Hj' : nth_error (setn (slots st) i (Some b)) j = Some (Some b)) by (rewrite nth_error_setn_ne; auto).
    apply (drop_restores (set_slot (set_slot st i (Some b)) j (Some (with_h b None))) (owner_h a)); simpl.
    + apply (k_cl _ I).
    + apply (k_nc _ I).
    + apply Forall_setn; [apply Forall_setn; [apply (k_fn _ I)|apply (slot_sym_ok st j b I Ej)]|apply sym_ok_with_none].
    + intros k. pose proof (cnt_setn okey k _ i (Some b) _ Hi) as C1.
      pose proof (cnt_setn okey k _ j (Some (with_h b None)) _ Hj') as C2.
      rewrite !holds_okey in *. simpl in C1, C2. rewrite owner_h_with in C2. simpl in C2. rewrite <- (k_cnt _ I). lia.
  - (* DSwap *)
    destruct (slot_owner st i) as [a|] eqn:Ei; [|exact I].
    destruct (slot_owner st j) as [b|] eqn:Ej; [|exact I].
    destruct (same_kind a b); [|exact I]. simpl.
    pose proof (slot_owner_nth _ _ _ Ei) as Hi. pose proof (slot_owner_nth _ _ _ Ej) as Hj.
    constructor; simpl; [|apply (k_cl _ I)|apply (k_nc _ I)|].
    + intros k. destruct (Nat.eq_dec i j) as [->|Hne].
      * assert (a = b) by congruence. subst b. rewrite setn_setn. rewrite (setn_same _ _ _ Hi). apply (k_cnt _ I).
      * assert (Hj' : nth_error (setn (slots st) i (Some b)) j = Some (Some b)) by (rewrite nth_error_setn_ne; auto).
        pose proof (cnt_setn okey k _ i (Some b) _ Hi) as C1. pose proof (cnt_setn okey k _ j (Some a) _ Hj') as C2.
        rewrite <- (k_cnt _ I). lia.
    + apply Forall_setn; [apply Forall_setn; [apply (k_fn _ I)|apply (slot_sym_ok st j b I Ej)]|apply (slot_sym_ok st i a I Ei)].
  - (* DDrop *)
    destruct (slot_owner st i) as [o|] eqn:Ei; try exact I. simpl. apply (drop_slot_ok st i o I Ei).
  - (* DCall *)
    destruct (slot_owner st i) as [[?|[?|] fh s|?]|]; try exact I. simpl.
    destruct (nth_error (hs st) fh) as [r|]; [destruct (Nat.eqb (closes r) 0)|]; exact I.
  - (* DStale *)
    eapply dinv_ext; [| | |exact I]; reflexivity.
Qed.

Lemma dinv_init n : dinv (d_init n).
Proof.
  constructor; simpl; auto.
  - intros h. rewrite cnt_all_none.
    + unfold refs_n. destruct h; reflexivity.
    + intros a Ha. apply repeat_spec in Ha. subst. reflexivity.
  - apply Forall_forall. intros a Ha. apply repeat_spec in Ha. subst. exact I.
Qed.

Lemma dinv_run w ops : forall st, dinv st -> dinv (d_run w st ops).
Proof. induction ops as [|o ops IH]; intros st I; simpl; auto. apply IH, dinv_step, I. Qed.

Lemma dinv_reach w n ops : dinv (d_run w (d_init n) ops).
Proof. apply dinv_run, dinv_init. Qed.

(* ---------- theorems ---------- *)

Lemma cl_ok_le1 r : cl_ok r -> closes r <= 1.
Proof. unfold cl_ok. intros ->. destruct (Nat.eqb (refs r) 0); lia. Qed.

(* dlclose is called at most once on every handle *)
Theorem closed_at_most_once w n ops r : In r (hs (d_run w (d_init n) ops)) -> closes r <= 1.
Proof. intros H. apply cl_ok_le1. pose proof (k_cl _ (dinv_reach w n ops)) as F. rewrite Forall_forall in F. auto. Qed.

(* a handle is closed exactly when no owner object (library, symbol, raw pointer, or a copy / assignment target) is
   left; while one is left it has not been closed *)
Theorem closed_iff_unowned w n ops h r : let st := d_run w (d_init n) ops in
  nth_error (hs st) h = Some r ->
  closes r = (if Nat.eqb (cnt okey h (slots st)) 0 then 1 else 0).
Proof.
  intros st Hr. subst st. pose proof (dinv_reach w n ops) as I.
  rewrite (k_cnt _ I). unfold refs_n. rewrite Hr.
  pose proof (k_cl _ I) as F. rewrite Forall_forall in F. apply F. eapply nth_error_In; eauto.
Qed.

(* dlclose(NULL) is never called *)
Theorem null_never_closed w n ops : null_closes (d_run w (d_init n) ops) = 0.
Proof. apply (k_nc _ (dinv_reach w n ops)). Qed.

(* a symbol object that owns a library — however it got its contents: load, copy, move, assignment, swap — holds a
   function of exactly that library, and a call through it finds the library mapped *)
Theorem call_while_mapped w n ops i x : let st := d_run w (d_init n) ops in
  snd (d_step w st (DCall i x)) <> DUnmapped /\
  (forall h fh s, slot_owner st i = Some (OSym (Some h) fh s) ->
     fh = h /\ exists r, nth_error (hs st) h = Some r /\ closes r = 0
                       /\ snd (d_step w st (DCall i x)) = DCallOk (hlib r) s x).
Proof.
  intros st. subst st. set (st := d_run w (d_init n) ops). pose proof (dinv_reach w n ops) as I. fold st in I.
  assert (K : forall h fh s, slot_owner st i = Some (OSym (Some h) fh s) ->
              fh = h /\ exists r, nth_error (hs st) h = Some r /\ closes r = 0).
  { intros h fh s Ho. pose proof (slot_sym_ok st i _ I Ho) as F. simpl in F. split; auto.
    destruct (owner_has_refs st i _ h I Ho eq_refl) as (r & Hr & Hpos). exists r. split; auto.
    pose proof (k_cl _ I) as G. rewrite Forall_forall in G. specialize (G r (nth_error_In _ _ Hr)). unfold cl_ok in G.
    destruct (Nat.eqb (refs r) 0) eqn:E; [apply Nat.eqb_eq in E; lia|auto]. }
  split.
  - simpl. destruct (slot_owner st i) as [[?|[h|] fh s|?]|] eqn:Ho; simpl; try discriminate.
    destruct (K h fh s eq_refl) as (-> & r & Hr & Hc). rewrite Hr, Hc. simpl. discriminate.
  - intros h fh s Ho. destruct (K h fh s Ho) as (-> & r & Hr & Hc). split; auto. exists r. repeat split; auto.
    simpl. rewrite Ho, Hr, Hc. reflexivity.
Qed.

(* assignment between two existing owner objects of the same kind makes the target hold what the source holds (handle
   and, for a symbol, function); a moved-from source keeps nothing; swap exchanges. Together with closed_iff_unowned:
   the target's previous library is closed exactly if the target was its last owner, the new one stays mapped *)
Lemma slots_sp_drop_opt st ho : slots (sp_drop_opt st ho) = slots st.
Proof.
  destruct ho as [h|]; simpl; auto. unfold sp_drop. simpl.
  destruct (Nat.eqb _ 0); reflexivity.
Qed.
Lemma slots_sp_copy_opt st ho : slots (sp_copy_opt st ho) = slots st.
Proof. destruct ho as [h|]; reflexivity. Qed.

Theorem assign_transfers w st i j a b :
  slot_owner st i = Some a -> slot_owner st j = Some b -> same_kind a b = true ->
  slot_owner (fst (d_step w st (DAssign i j))) i = Some b /\
  (i <> j -> slot_owner (fst (d_step w st (DMoveAssign i j))) i = Some b /\
             slot_owner (fst (d_step w st (DMoveAssign i j))) j = Some (with_h b None)) /\
  (i <> j -> slot_owner (fst (d_step w st (DSwap i j))) i = Some b /\
             slot_owner (fst (d_step w st (DSwap i j))) j = Some a).
Proof.
  intros Hi Hj Hk. pose proof (slot_owner_nth _ _ _ Hi) as Ni. pose proof (slot_owner_nth _ _ _ Hj) as Nj.
  simpl. rewrite Hi, Hj, Hk. simpl. split; [|split].
  - unfold slot_owner. rewrite slots_sp_drop_opt. simpl. rewrite slots_sp_copy_opt.
    rewrite (nth_error_setn_eq _ _ _ _ Ni). reflexivity.
  - intros Hne.
    assert (Nj' : nth_error (setn (slots st) i (Some b)) j = Some (Some b)) by (rewrite nth_error_setn_ne; auto).
    apply Nat.eqb_neq in Hne. rewrite Hne. apply Nat.eqb_neq in Hne. simpl.
    unfold slot_owner. rewrite slots_sp_drop_opt. simpl. split.
    + rewrite nth_error_setn_ne by auto. rewrite (nth_error_setn_eq _ _ _ _ Ni). reflexivity.
    + rewrite (nth_error_setn_eq _ _ _ _ Nj'). reflexivity.
  - intros Hne.
    assert (Nj' : nth_error (setn (slots st) i (Some b)) j = Some (Some b)) by (rewrite nth_error_setn_ne; auto).
    unfold slot_owner. simpl. split.
    + rewrite nth_error_setn_ne by auto. rewrite (nth_error_setn_eq _ _ _ _ Ni). reflexivity.
    + rewrite (nth_error_setn_eq _ _ _ _ Nj'). reflexivity.
Qed.

(* a failed open creates nothing, raises the dl exception carrying the loader's diagnostic for THIS failure
   (whatever was pending before), and calls dlclose on nothing — in every state *)
Theorem failed_open_creates_nothing w st i f :
  slot_empty st i = true -> lib_exists w f = false ->
  d_step w st (DOpen i f) = (mkD (hs st) (slots st) None (null_closes st), DRaise (Some (DgOpen f))).
Proof. intros Hi Hf. simpl. rewrite Hi, dl_ctor_fail by auto. reflexivity. Qed.

(* a successful open creates exactly one handle, mapped, owned by the new library object *)
Theorem open_creates_one w st i f :
  slot_empty st i = true -> lib_exists w f = true ->
  d_step w st (DOpen i f) =
    (mkD (hs st ++ [mkH f 1 0]) (setn (slots st) i (Some (OLib (Some (length (hs st)))))) (pend st) (null_closes st), DOk).
Proof. intros Hi Hf. simpl. rewrite Hi, dl_ctor_ok by auto. reflexivity. Qed.

(* a failed symbol look-up raises the dl exception carrying the loader's diagnostic and leaves every handle
   (use counts, close counts) and every owner as they were *)
Theorem failed_load_keeps_library w n ops i j h s r : let st := d_run w (d_init n) ops in
  slot_empty st i = true -> slot_owner st j = Some (OLib (Some h)) -> nth_error (hs st) h = Some r ->
  sym_exists w (hlib r) s = false ->
  d_step w st (DLoad i j s) = (mkD (hs st) (slots st) None (null_closes st), DRaise (Some (DgSym (hlib r) s))).
Proof.
  intros st Hi Hj Hr Hs. pose proof (dinv_reach w n ops) as I. fold st in I.
  destruct (owner_has_refs st j _ h I Hj eq_refl) as (r' & Hr' & Hpos). rewrite Hr in Hr'. injection Hr' as <-.
  simpl. rewrite Hi, Hj, (symbol_ctor_spec w st h s r Hr), Hs.
  destruct (sp_copy_spec st h r Hr Hpos (k_cl _ I)) as (E & Hcl & Hrefs).
  set (st1 := mkD (hs (sp_copy st h)) (slots st) None (null_closes st)).
  assert (Hr1 : nth_error (hs st1) h = Some (mkH (hlib r) (S (refs r)) (closes r))).
  { unfold st1. cbn [hs]. rewrite E. eapply nth_error_setn_eq; eauto. }
  destruct (sp_drop_spec st1 h _ Hr1 ltac:(simpl; lia) Hcl) as (S1 & S2 & S3 & _).
  pose proof (sp_copy_drop st h r Hr Hpos (k_cl _ I) None) as S0. fold st1 in S0.
  f_equal. destruct (sp_drop st1 h) as [a b c d]. simpl in *. subst. reflexivity.
Qed.

(* a successful look-up succeeds whatever loader error was left pending by unrelated code, and the new symbol
   object becomes one more owner of the library, holding a function of that library *)
Theorem load_ignores_stale_error w n ops i j h s r : let st := d_run w (d_init n) ops in
  slot_empty st i = true -> slot_owner st j = Some (OLib (Some h)) -> nth_error (hs st) h = Some r ->
  sym_exists w (hlib r) s = true ->
  snd (d_step w st (DLoad i j s)) = DOk /\
  slot_owner (fst (d_step w st (DLoad i j s))) i = Some (OSym (Some h) h s).
Proof.
  intros st Hi Hj Hr Hs. simpl. rewrite Hi, Hj, (symbol_ctor_spec w st h s r Hr), Hs. simpl. split; auto.
  unfold slot_owner. simpl. apply slot_empty_nth in Hi. rewrite (nth_error_setn_eq _ _ _ _ Hi). reflexivity.
Qed.

(* complete histories: after every owner object is destroyed, in whatever order they were created, copied, moved,
   assigned or swapped, every handle ever opened has been closed exactly once *)
Lemma d_drop_from_ok n : forall st i, dinv st -> i + n = length (slots st) ->
  let st' := d_drop_from st i n in
  dinv st' /\ length (slots st') = length (slots st) /\ length (hs st') = length (hs st)
  /\ (forall k, k < i -> nth_error (slots st') k = nth_error (slots st) k)
  /\ (forall k, i <= k -> k < length (slots st) -> nth_error (slots st') k = Some None).
Proof.
  induction n as [|n IH]; intros st i I Hlen; simpl.
  - split; [exact I|]. split; [reflexivity|]. split; [reflexivity|]. split; [reflexivity|]. intros k H1 H2. lia.
  - destruct (slot_owner st i) as [o|] eqn:Ho.
    + destruct (drop_slot_ok st i o I Ho) as (I' & Es & _ & El).
      set (st1 := sp_drop_opt (set_slot st i None) (owner_h o)) in *.
      assert (L1 : length (slots st1) = length (slots st)) by (rewrite Es; apply setn_length).
      destruct (IH st1 (S i) I') as (I2 & L2 & H2 & P2 & Q2); [lia|].
      split; [exact I2|]. split; [lia|]. split; [lia|]. split.
      * intros k Hk. rewrite P2 by lia. rewrite Es. apply nth_error_setn_ne. lia.
      * intros k Hk1 Hk2. destruct (Nat.eq_dec k i) as [->|Hne].
        -- rewrite P2 by lia. rewrite Es. apply slot_owner_nth in Ho. eapply nth_error_setn_eq; eauto.
        -- apply Q2; lia.
    + destruct (IH st (S i) I) as (I2 & L2 & H2 & P2 & Q2); [lia|].
      split; [exact I2|]. split; [lia|]. split; [lia|]. split.
      * intros k Hk. apply P2. lia.
      * intros k Hk1 Hk2. destruct (Nat.eq_dec k i) as [->|Hne].
        -- rewrite P2 by lia. unfold slot_owner in Ho.
           assert (i < length (slots st)) by lia. apply nth_error_Some in H.
           destruct (nth_error (slots st) i) as [[x|]|]; congruence.
        -- apply Q2; lia.
Qed.

Theorem complete_history_closes_once w n ops r :
  In r (hs (d_finish (d_run w (d_init n) ops))) -> closes r = 1.
Proof.
  set (st := d_run w (d_init n) ops). intros Hr. pose proof (dinv_reach w n ops) as I. fold st in I.
  destruct (d_drop_from_ok (length (slots st)) st 0 I) as (I' & L & _ & _ & Q); auto.
  fold (d_finish st) in *. apply In_nth_error in Hr. destruct Hr as [h Hh].
  pose proof (k_cnt _ I' h) as C. rewrite cnt_all_none in C.
  - pose proof (k_cl _ I') as F. rewrite Forall_forall in F. specialize (F r (nth_error_In _ _ Hh)).
    unfold cl_ok in F. unfold refs_n in C. rewrite Hh in C. rewrite <- C in F. exact F.
  - intros a Ha. apply In_nth_error in Ha. destruct Ha as [k Hk].
    assert (k < length (slots (d_finish st))) by (apply nth_error_Some; congruence).
    rewrite Q in Hk by lia. injection Hk as <-. reflexivity.
Qed.

(* finishing forgets no handle *)
Theorem finish_keeps_handles w n ops : let st := d_run w (d_init n) ops in length (hs (d_finish st)) = length (hs st).
Proof.
  intros st. pose proof (dinv_reach w n ops) as I. fold st in I.
  destruct (d_drop_from_ok (length (slots st)) st 0 I) as (_ & _ & H & _); auto.
Qed.

(* ---------- the oracle's checks accept every reachable model state ---------- *)

Lemma handles_ok_from_spec sl l : forall base,
  (forall k r, nth_error l k = Some r -> closes r = if Nat.eqb (cnt okey (base + k) sl) 0 then 1 else 0) ->
  handles_ok_from base l sl = true.
Proof.
  induction l as [|r l IH]; intros base H; simpl; auto. apply andb_true_iff. split.
  - apply Nat.eqb_eq. specialize (H 0 r eq_refl). rewrite Nat.add_0_r in H. exact H.
  - apply IH. intros k r' Hk. specialize (H (S k) r' Hk). rewrite Nat.add_succ_r in H. exact H.
Qed.

Lemma dinv_state_ok st : dinv st -> d_state_ok st = true.
Proof.
  intros I. unfold d_state_ok. rewrite !andb_true_iff. repeat split.
  - apply handles_ok_from_spec. intros k r Hr. simpl. rewrite (k_cnt _ I). unfold refs_n. rewrite Hr.
    pose proof (k_cl _ I) as F. rewrite Forall_forall in F. apply F. eapply nth_error_In; eauto.
  - apply Nat.eqb_eq. apply (k_nc _ I).
  - apply forallb_forall. intros o Ho. unfold owner_in_range. destruct (okey o) as [h|] eqn:E; auto. apply Nat.ltb_lt.
    pose proof (cnt_in okey h _ _ Ho) as C. rewrite holds_okey, E in C. simpl in C. rewrite Nat.eqb_refl, (k_cnt _ I) in C.
    apply nth_error_Some. unfold refs_n in C. destruct (nth_error (hs st) h); [discriminate|lia].
Qed.

Theorem d_state_ok_reach w n ops : d_state_ok (d_run w (d_init n) ops) = true.
Proof. apply dinv_state_ok, dinv_reach. Qed.

Theorem all_closed_once_finish w n ops : all_closed_once (d_finish (d_run w (d_init n) ops)) = true.
Proof.
  unfold all_closed_once. apply forallb_forall. intros r Hr. apply Nat.eqb_eq. eapply complete_history_closes_once; eauto.
Qed.

(* ---------- caught exceptions carry their diagnostic ---------- *)

Lemma x_step_log_grows w xs o : exists l, xlog (fst (x_step w xs o)) = xlog xs ++ l.
Proof.
  destruct o as [o|k]; simpl.
  - destruct (d_step w (xd xs) o) as [st' r]. simpl. destruct r; try (exists []; rewrite app_nil_r; reflexivity).
    eexists; reflexivity.
  - exists []. rewrite app_nil_r. reflexivity.
Qed.

Lemma x_run_log_grows w ops : forall xs, exists l, xlog (x_run w xs ops) = xlog xs ++ l.
Proof.
  induction ops as [|o ops IH]; intros xs; simpl.
  - exists []. rewrite app_nil_r. reflexivity.
  - destruct (x_step_log_grows w xs o) as [l1 E1]. destruct (IH (fst (x_step w xs o))) as [l2 E2].
    exists (l1 ++ l2). rewrite E2, E1, app_assoc. reflexivity.
Qed.

(* reading the diagnostic of a caught exception gives the same text whenever it is read: whatever operations (failed or
   successful opens, look-ups, calls, destructions, other reads) happen in between *)
Theorem exception_diagnostic_stable w xs ops k d :
  snd (x_step w xs (XRead k)) = XDiag (Some d) ->
  snd (x_step w (x_run w xs ops) (XRead k)) = XDiag (Some d).
Proof.
  simpl. intros [= H]. destruct (x_run_log_grows w ops xs) as [l E]. rewrite E. f_equal.
  rewrite nth_error_app1; auto. apply nth_error_Some. congruence.
Qed.

(* reading changes nothing *)
Theorem exception_read_is_pure w xs k : fst (x_step w xs (XRead k)) = xs.
Proof. reflexivity. Qed.

(* the exception caught from a failed open / a failed look-up carries the loader's diagnostic of that very failure, and it
   is what a read of that exception returns from then on *)
Theorem caught_exception_carries_its_diagnostic w n ops o dle : let xs := x_run w (x_init n) ops in
  snd (d_step w (xd xs) o) = DRaise dle ->
  let xs' := fst (x_step w xs (XOp o)) in
  snd (x_step w xs' (XRead (length (xlog xs)))) = XDiag (Some dle) /\
  forall more, snd (x_step w (x_run w xs' more) (XRead (length (xlog xs)))) = XDiag (Some dle).
Proof.
  intros xs Hr xs'.
  assert (E : snd (x_step w xs' (XRead (length (xlog xs)))) = XDiag (Some dle)).
  { unfold xs'. simpl. destruct (d_step w (xd xs) o) as [st' r] eqn:D. simpl in Hr. subst r. simpl.
    rewrite nth_error_app2, Nat.sub_diag by auto. reflexivity. }
  split; auto. intros more. apply exception_diagnostic_stable. exact E.
Qed.

(* the dl part of an extended run is the plain run of its operations (reads do not touch it) *)
Lemma x_run_xd w ops : forall xs,
  xd (x_run w xs ops) = d_run w (xd xs) (flat_map (fun o => match o with XOp o => [o] | XRead _ => [] end) ops).
Proof.
  induction ops as [|o ops IH]; intros xs; simpl; auto. rewrite IH. destruct o as [o|k]; simpl; auto.
  destruct (d_step w (xd xs) o); reflexivity.
Qed.

(* Own/Count.v — definitions shared by the three ownership models of this cluster (C18, C19):
   positional list update and "how many positions of a list refer to identity id".
   Definitions only; the lemmas are in CountProofs.v. *)
From Coq Require Import List Arith.
Import ListNotations.
Local Open Scope list_scope.

(* l[k] := x ; out of range: unchanged *)
Fixpoint setn {A} (l : list A) (k : nat) (x : A) : list A :=
  match l, k with
  | [], _ => []
  | _ :: r, 0 => x :: r
  | y :: r, S j => y :: setn r j x
  end.

Section Cnt.
  Context {A : Type} (key : A -> option nat).
  (* 1 when position content a refers to identity id *)
  Definition holds (id : nat) (a : A) : nat :=
    match key a with Some i => if Nat.eqb i id then 1 else 0 | None => 0 end.
  Fixpoint cnt (id : nat) (l : list A) : nat :=
    match l with [] => 0 | a :: r => holds id a + cnt id r end.
End Cnt.

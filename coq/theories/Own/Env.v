(* Own/Env.v — executable model of nitro::env::get (src/env/get.cpp, include/nitro/env/get.hpp), C19.

     std::string get(const std::string& name, std::string default_ = "")
       { char* tmp = std::getenv(name.c_str()); if (tmp == nullptr) return default_; return std::string(tmp); }
     std::string get(const std::string& name, detail::no_default_t)
       { ... if (tmp == nullptr) raise("Couldn't read the enviroment variable ", name); return std::string(tmp); }

   The only test is the null check: a variable set to the empty string yields a non-null pointer to "" and so
   returns "" (not the default).  getenv is the assumed environment: a function from names to "unset" or a value.
   Names and values contain no NUL byte (c_str() / std::string from a char pointer would cut there) — scope of the property.
   For the executable side the environment is an association list changed by setenv/unsetenv (libc, assumed).
   Definitions only; the three clauses are proved in EnvProofs.v. *)
From Coq Require Import List Bool.
From Nitro Require Import Base.Bytes.
Import ListNotations.
Local Open Scope list_scope.

Inductive eres := EOk (v : str) | ERaise.

Definition env_get_default (getenv : str -> option str) (name default_ : str) : str :=
  match getenv name with None => default_ | Some tmp => tmp end.

Definition env_get_nodefault (getenv : str -> option str) (name : str) : eres :=
  match getenv name with None => ERaise | Some tmp => EOk tmp end.

(* ---- a concrete environment for the drivers ---- *)
Definition environ := list (str * str).

Fixpoint env_lookup (e : environ) (n : str) : option str :=
  match e with [] => None | (k, v) :: r => if seq_eqb k n then Some v else env_lookup r n end.
Fixpoint env_unset (e : environ) (n : str) : environ :=
  match e with [] => [] | (k, v) :: r => if seq_eqb k n then env_unset r n else (k, v) :: env_unset r n end.
Definition env_set (e : environ) (n v : str) : environ := (n, v) :: env_unset e n.

Inductive eop :=
| ESet (n v : str)            (* setenv(n, v, 1) *)
| EUnset (n : str)            (* unsetenv(n) *)
| EGet (n d : str)            (* nitro::env::get(n, d) *)
| EGetDefaulted (n : str)     (* nitro::env::get(n)  — the default argument "" *)
| EGetNoDefault (n : str).    (* nitro::env::get(n, nitro::env::no_default) *)

(* runs the operations, returning the outcome of every get in order *)
Fixpoint env_run (e : environ) (ops : list eop) : list eres :=
  match ops with
  | [] => []
  | ESet n v :: r => env_run (env_set e n v) r
  | EUnset n :: r => env_run (env_unset e n) r
  | EGet n d :: r => EOk (env_get_default (env_lookup e) n d) :: env_run e r
  | EGetDefaulted n :: r => EOk (env_get_default (env_lookup e) n []) :: env_run e r
  | EGetNoDefault n :: r => env_get_nodefault (env_lookup e) n :: env_run e r
  end.

(* spec of one get, for the oracle: what the property demands given whether/what the variable is *)
Definition env_spec_ok (cur : option str) (dflt : option str) (out : eres) : bool :=
  match cur, dflt, out with
  | Some v, _, EOk r => seq_eqb v r              (* set: exact value, also when empty *)
  | None, Some d, EOk r => seq_eqb d r           (* unset: the default *)
  | None, None, ERaise => true                   (* unset, no default: raises *)
  | _, _, _ => false
  end.

(* ---- results as OBJECTS: histories in which results of earlier gets are still held while later gets and later
   setenv/unsetenv calls run, and are read only afterwards.  `std::string get(...)` returns a fresh string object per
   call: the state keeps every outcome ever produced (hres, in order of creation; a raising get leaves ERaise in its
   place), HRead k looks at outcome k at any later time.  That a read always finds the text the get returned — the
   result is a VALUE — is proved in EnvProofs.v (held_result_stable, get_result_is_value). ---- *)
Definition env_step_env (e : environ) (o : eop) : environ :=
  match o with ESet n v => env_set e n v | EUnset n => env_unset e n | _ => e end.

Definition env_res (e : environ) (o : eop) : option eres :=
  match o with
  | EGet n d => Some (EOk (env_get_default (env_lookup e) n d))
  | EGetDefaulted n => Some (EOk (env_get_default (env_lookup e) n []))
  | EGetNoDefault n => Some (env_get_nodefault (env_lookup e) n)
  | _ => None
  end.

Record hstate := mkHS { henv : environ; hres : list eres }.
Inductive hop := HOp (o : eop) | HRead (k : nat).

Definition h_init (e : environ) : hstate := mkHS e [].

Definition h_step (st : hstate) (o : hop) : hstate * option eres :=
  match o with
  | HOp o => (mkHS (env_step_env (henv st) o)
                   (match env_res (henv st) o with Some r => hres st ++ [r] | None => hres st end), None)
  | HRead k => (st, nth_error (hres st) k)
  end.

Fixpoint h_run (st : hstate) (ops : list hop) : hstate :=
  match ops with [] => st | o :: r => h_run (fst (h_step st o)) r end.

(* what the reads of a history see, in order *)
Fixpoint h_obs (st : hstate) (ops : list hop) : list (option eres) :=
  match ops with
  | [] => []
  | HRead k :: r => snd (h_step st (HRead k)) :: h_obs st r
  | o :: r => h_obs (fst (h_step st o)) r
  end.

(* Own/CountProofs.v — lemmas about setn and cnt. *)
From Coq Require Import List Arith Lia.
From Nitro Require Import Own.Count.
Import ListNotations.
Local Open Scope list_scope.

Lemma setn_length {A} (l : list A) k x : length (setn l k x) = length l.
Proof. revert k; induction l as [|y l IH]; intros [|k]; simpl; auto. Qed.

Lemma nth_error_setn_eq {A} (l : list A) k x y : nth_error l k = Some y -> nth_error (setn l k x) k = Some x.
Proof. revert k; induction l as [|z l IH]; intros [|k]; simpl; try discriminate; auto. Qed.

Lemma nth_error_setn_ne {A} (l : list A) k k' x : k <> k' -> nth_error (setn l k x) k' = nth_error l k'.
Proof.
  revert k k'; induction l as [|z l IH]; intros [|k] [|k'] H; simpl; auto; try congruence.
Qed.

Lemma setn_out {A} (l : list A) k x : nth_error l k = None -> setn l k x = l.
Proof. revert k; induction l as [|z l IH]; intros [|k]; simpl; try discriminate; auto. intros H. f_equal. auto. Qed.

Lemma In_setn {A} (l : list A) k x y : In y (setn l k x) -> y = x \/ In y l.
Proof.
  revert k; induction l as [|z l IH]; intros [|k]; simpl; auto.
  - intros [H|H]; auto.
  - intros [H|H]; auto. destruct (IH _ H); auto.
Qed.

Lemma Forall_setn {A} (P : A -> Prop) l k x : Forall P l -> P x -> Forall P (setn l k x).
Proof.
  intros Hl Hx. apply Forall_forall. intros y Hy. apply In_setn in Hy. destruct Hy as [->|Hy]; auto.
  rewrite Forall_forall in Hl. auto.
Qed.

Lemma map_setn {A B} (f : A -> B) l k x : map f (setn l k x) = setn (map f l) k (f x).
Proof. revert k; induction l as [|z l IH]; intros [|k]; simpl; auto. f_equal. auto. Qed.

Lemma setn_app_l {A} (l1 l2 : list A) k x : k < length l1 -> setn (l1 ++ l2) k x = setn l1 k x ++ l2.
Proof.
  revert k; induction l1 as [|z l IH]; intros [|k]; simpl; try lia; auto.
  intros H. f_equal. apply IH. lia.
Qed.

Section CntP.
  Context {A : Type} (key : A -> option nat).

  Lemma holds_le1 id a : holds key id a <= 1.
  Proof. unfold holds. destruct (key a); [destruct (Nat.eqb _ _)|]; lia. Qed.

  Lemma holds_key id a : holds key id a = 1 <-> key a = Some id.
  Proof.
    unfold holds. destruct (key a) as [i|]; [|split; [lia|discriminate]].
    destruct (Nat.eqb i id) eqn:E.
    - apply Nat.eqb_eq in E. subst. split; auto.
    - apply Nat.eqb_neq in E. split; [lia|]. intros [= ->]. congruence.
  Qed.

  Lemma holds_none id a : key a = None -> holds key id a = 0.
  Proof. unfold holds. intros ->. reflexivity. Qed.

  Lemma holds_some id a i : key a = Some i -> holds key id a = if Nat.eqb i id then 1 else 0.
  Proof. unfold holds. intros ->. reflexivity. Qed.

  Lemma cnt_app id l1 l2 : cnt key id (l1 ++ l2) = cnt key id l1 + cnt key id l2.
  Proof. induction l1 as [|a l IH]; simpl; auto. rewrite IH. lia. Qed.

  Lemma cnt_setn id l k x y : nth_error l k = Some y ->
    cnt key id (setn l k x) + holds key id y = cnt key id l + holds key id x.
  Proof.
    revert k; induction l as [|z l IH]; intros [|k]; simpl; try discriminate.
    - intros [= ->]. lia.
    - intros H. specialize (IH _ H). lia.
  Qed.

  Lemma cnt_nth id l k y : nth_error l k = Some y -> holds key id y <= cnt key id l.
  Proof.
    revert k; induction l as [|z l IH]; intros [|k]; simpl; try discriminate.
    - intros [= ->]. lia.
    - intros H. specialize (IH _ H). lia.
  Qed.

  Lemma cnt_in id l y : In y l -> holds key id y <= cnt key id l.
  Proof. intros H. apply In_nth_error in H. destruct H as [k H]. eapply cnt_nth; eauto. Qed.

  (* two different positions referring to the same identity count twice *)
  Lemma cnt_two id l : forall k1 k2 y1 y2, k1 <> k2 -> nth_error l k1 = Some y1 -> nth_error l k2 = Some y2 ->
    holds key id y1 + holds key id y2 <= cnt key id l.
  Proof.
    induction l as [|z l IH]; intros [|k1] [|k2] y1 y2 Hne H1 H2; simpl in *; try discriminate; try congruence.
    - injection H1 as ->. pose proof (cnt_nth id l k2 y2 H2). lia.
    - injection H2 as ->. pose proof (cnt_nth id l k1 y1 H1). lia.
    - assert (k1 <> k2) by congruence. specialize (IH k1 k2 y1 y2 H H1 H2). lia.
  Qed.

  Lemma cnt_all_none id l : (forall a, In a l -> key a = None) -> cnt key id l = 0.
  Proof.
    induction l as [|a l IH]; simpl; auto. intros H.
    rewrite holds_none by (apply H; auto). rewrite IH; auto.
  Qed.

  Lemma cnt_pos_in id l : 0 < cnt key id l -> exists k a, nth_error l k = Some a /\ key a = Some id.
  Proof.
    induction l as [|a l IH]; simpl; [lia|]. intros H.
    destruct (holds key id a) eqn:E.
    - destruct IH as (k & b & H1 & H2); [lia|]. exists (S k), b. auto.
    - exists 0, a. split; auto. apply holds_key. pose proof (holds_le1 id a). lia.
  Qed.
End CntP.

Lemma cnt_map {A B} (key : B -> option nat) (f : A -> B) id l :
  cnt key id (map f l) = cnt (fun a => key (f a)) id l.
Proof. induction l as [|a l IH]; simpl; auto. Qed.

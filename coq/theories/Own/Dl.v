(* Own/Dl.v — executable model of nitro::dl::dl, nitro::dl::symbol and nitro::dl::exception
   (include/nitro/dl/dl.hpp, symbol.hpp, exception.hpp), C19.

   dl holds  std::shared_ptr<void> handle(dlopen(file, RTLD_NOW), [](void* h){ if (h != nullptr) dlclose(h); });
   every symbol obtained from it holds a copy of that shared_ptr.  The model keeps
     - one record per successful dlopen call (identity = index): which file, the shared_ptr use count,
       how many times dlclose was called on it,
     - a pool of owner objects: library object, symbol (with its name), or a raw shared_ptr obtained by get(),
     - the loader's pending error (what the next dlerror() returns), and a counter of dlclose(NULL) calls.
   The loader (dlopen/dlsym/dlclose/dlerror) is the assumed environment; which files and symbols exist is a
   parameter (world).  std::shared_ptr's counting (copy +1, destroy -1, deleter run by the last owner — ALSO for a
   null pointer that was given a deleter) is written out as specified and assumed, not verified.
   dl and symbol have only implicitly defined copy/move constructors and assignment operators (member-wise): the
   model writes those out too — an owner object whose shared_ptr member was moved from stays in the pool as a
   NULL owner (a moved-from symbol keeps its function pointer but owns nothing).
   Definitions only; proofs in DlProofs.v. *)
From Coq Require Import List Arith Bool.
From Nitro Require Import Own.Count.
Import ListNotations.
Local Open Scope list_scope.

Record world := mkWorld { lib_exists : nat -> bool; sym_exists : nat -> nat -> bool }.

Record hrec := mkH { hlib : nat; refs : nat; closes : nat }.
(* an owner object and the handle its shared_ptr member refers to (None: null, e.g. moved from).
   A symbol also holds a function pointer: function s of the library instance opened as handle fh. *)
Inductive owner := OLib (h : option nat) | OSym (h : option nat) (fh s : nat) | ORaw (h : option nat).
Definition owner_h (o : owner) : option nat := match o with OLib h | OSym h _ _ | ORaw h => h end.
(* the same object with its shared_ptr member replaced *)
Definition with_h (o : owner) (h : option nat) : owner :=
  match o with OLib _ => OLib h | OSym _ fh s => OSym h fh s | ORaw _ => ORaw h end.
Definition same_kind (a b : owner) : bool :=
  match a, b with OLib _, OLib _ | OSym _ _ _, OSym _ _ _ | ORaw _, ORaw _ => true | _, _ => false end.
(* the loader's diagnostic text, abstractly: what failed *)
Inductive diag := DgOpen (f : nat) | DgSym (lib s : nat).
Record dstate := mkD { hs : list hrec; slots : list (option owner); pend : option diag; null_closes : nat }.

Definition d_init (n : nat) : dstate := mkD [] (repeat None n) None 0.

Definition upd_h (l : list hrec) (h : nat) (f : hrec -> hrec) : list hrec :=
  match nth_error l h with Some r => setn l h (f r) | None => l end.

(* ---- the loader ---- *)
Definition ld_dlopen (w : world) (st : dstate) (f : nat) : dstate * option nat :=
  if lib_exists w f
  then (mkD (hs st ++ [mkH f 0 0]) (slots st) (pend st) (null_closes st), Some (length (hs st)))
  else (mkD (hs st) (slots st) (Some (DgOpen f)) (null_closes st), None).
Definition ld_dlsym (w : world) (st : dstate) (h s : nat) : dstate * bool :=
  match nth_error (hs st) h with
  | Some r => if sym_exists w (hlib r) s then (st, true)
              else (mkD (hs st) (slots st) (Some (DgSym (hlib r) s)) (null_closes st), false)
  | None => (st, false)
  end.
Definition ld_dlclose (st : dstate) (h : option nat) : dstate :=
  match h with
  | Some id => mkD (upd_h (hs st) id (fun r => mkH (hlib r) (refs r) (S (closes r)))) (slots st) (pend st) (null_closes st)
  | None => mkD (hs st) (slots st) (pend st) (S (null_closes st))
  end.
(* dlerror(): returns the pending diagnostic and clears it *)
Definition ld_dlerror (st : dstate) : dstate * option diag :=
  (mkD (hs st) (slots st) None (null_closes st), pend st).

(* ---- the deleter lambda of dl's constructors:  if (handle != nullptr) dlclose(handle); ---- *)
Definition deleter (st : dstate) (p : option nat) : dstate :=
  match p with Some h => ld_dlclose st (Some h) | None => st end.

(* ---- std::shared_ptr<void> with that deleter ---- *)
Definition sp_adopt (st : dstate) (h : nat) : dstate :=      (* shared_ptr(p, d) : use count 1 *)
  mkD (upd_h (hs st) h (fun r => mkH (hlib r) 1 (closes r))) (slots st) (pend st) (null_closes st).
Definition sp_copy (st : dstate) (h : nat) : dstate :=
  mkD (upd_h (hs st) h (fun r => mkH (hlib r) (S (refs r)) (closes r))) (slots st) (pend st) (null_closes st).
Definition refs_of (st : dstate) (h : nat) : nat := match nth_error (hs st) h with Some r => refs r | None => 0 end.
Definition sp_drop (st : dstate) (h : nat) : dstate :=
  let st1 := mkD (upd_h (hs st) h (fun r => mkH (hlib r) (pred (refs r)) (closes r))) (slots st) (pend st) (null_closes st) in
  if Nat.eqb (refs_of st1 h) 0 then deleter st1 (Some h) else st1.
(* the only owner of a NULL pointer that carries a deleter goes away: the deleter runs on nullptr *)
Definition sp_drop_null (st : dstate) : dstate := deleter st None.
(* copying / destroying a shared_ptr that may be empty (moved from: no control block, nothing happens) *)
Definition sp_copy_opt (st : dstate) (h : option nat) : dstate := match h with Some x => sp_copy st x | None => st end.
Definition sp_drop_opt (st : dstate) (h : option nat) : dstate := match h with Some x => sp_drop st x | None => st end.

(* ---- outcomes ---- *)
Inductive dres :=
| DOk | DSkip
| DRaise (dle : option diag)        (* nitro::dl::exception; exception(char* dle, what): dlerror_ = dle if dle != nullptr *)
| DCallOk (lib s x : nat)          (* the function s of library file lib was entered with argument x *)
| DUnmapped.                        (* a call through a symbol whose library has been dlclosed *)

Inductive dop :=
| DOpen (i f : nat)          (* slots[i] = dl(file f) *)
| DLoad (i j s : nat)        (* slots[i] = slots[j].load<int(int)>(name s)        slot j: library object *)
| DGet (i j : nat)           (* slots[i] = slots[j].get()                         slot j: library object *)
| DCopy (i j : nat)          (* new object in slot i copy-constructed from slots[j]       any owner *)
| DMove (i j : nat)          (* new object in slot i move-constructed from slots[j]; slots[j] stays, moved from *)
| DAssign (i j : nat)        (* slots[i] = slots[j]                 two existing objects of the same kind, i = j allowed *)
| DMoveAssign (i j : nat)    (* slots[i] = std::move(slots[j])      two existing objects of the same kind, i = j allowed *)
| DSwap (i j : nat)          (* using std::swap; swap(slots[i], slots[j])      two existing objects of the same kind *)
| DDrop (i : nat)            (* slots[i] destroyed *)
| DCall (i x : nat)          (* slots[i](x)                                       slot i: symbol *)
| DStale (f : nat).          (* unrelated code leaves a loader error pending (a failed call without dlerror()) *)

Definition slot_empty (st : dstate) (i : nat) : bool :=
  match nth_error (slots st) i with Some None => true | _ => false end.
Definition slot_owner (st : dstate) (j : nat) : option owner :=
  match nth_error (slots st) j with Some (Some o) => Some o | _ => None end.
Definition set_slot (st : dstate) (i : nat) (o : option owner) : dstate :=
  mkD (hs st) (setn (slots st) i o) (pend st) (null_closes st).

(* dl::dl(const std::string& filename) *)
Definition dl_ctor (w : world) (st : dstate) (f : nat) : dstate * option nat * dres :=
  let '(st1, r) := ld_dlopen w st f in
  match r with
  | Some h => (sp_adopt st1 h, Some h, DOk)
  | None =>
      (* if (handle == nullptr) raise<exception>(dlerror(), msg);  unwinding destroys the member shared_ptr *)
      let '(st2, dle) := ld_dlerror st1 in
      (sp_drop_null st2, None, DRaise dle)
  end.

(* symbol::symbol(std::shared_ptr<void> library, const std::string& name) *)
Definition symbol_ctor (w : world) (st : dstate) (h s : nat) : dstate * bool * dres :=
  let st1 := sp_copy st h in                    (* library(library) *)
  let '(st2, _) := ld_dlerror st1 in            (* clear previous errors *)
  let '(st3, _) := ld_dlsym w st2 h s in        (* the address may legally be null: not tested *)
  let '(st4, error) := ld_dlerror st3 in
  match error with
  | Some d => (sp_drop st4 h, false, DRaise (Some d))   (* raise; unwinding destroys the member library *)
  | None => (st4, true, DOk)
  end.

Definition d_step (w : world) (st : dstate) (o : dop) : dstate * dres :=
  match o with
  | DOpen i f =>
      if slot_empty st i then
        let '(st1, r, res) := dl_ctor w st f in
        match r with Some h => (set_slot st1 i (Some (OLib (Some h))), res) | None => (st1, res) end
      else (st, DSkip)
  | DLoad i j s =>
      match slot_empty st i, slot_owner st j with
      | true, Some (OLib (Some h)) =>
          let '(st1, ok, res) := symbol_ctor w st h s in
          if ok then (set_slot st1 i (Some (OSym (Some h) h s)), res) else (st1, res)
      | _, _ => (st, DSkip)
      end
  | DGet i j =>
      match slot_empty st i, slot_owner st j with
      | true, Some (OLib h) => (set_slot (sp_copy_opt st h) i (Some (ORaw h)), DOk)
      | _, _ => (st, DSkip)
      end
  | DCopy i j =>
      (* implicit copy constructor: member-wise; the shared_ptr member is copied *)
      match slot_empty st i, slot_owner st j with
      | true, Some o => (set_slot (sp_copy_opt st (owner_h o)) i (Some o), DOk)
      | _, _ => (st, DSkip)
      end
  | DMove i j =>
      (* implicit move constructor: the shared_ptr member is moved (source left null, no count changes),
         a function pointer is copied *)
      match slot_empty st i, slot_owner st j with
      | true, Some o => (set_slot (set_slot st i (Some o)) j (Some (with_h o None)), DOk)
      | _, _ => (st, DSkip)
      end
  | DAssign i j =>
      (* implicit copy assignment: member-wise; shared_ptr::operator=(const&) takes the new reference first and
         then releases the old one *)
      match slot_owner st i, slot_owner st j with
      | Some a, Some b =>
          if same_kind a b then
            let st1 := sp_copy_opt st (owner_h b) in
            (sp_drop_opt (set_slot st1 i (Some b)) (owner_h a), DOk)
          else (st, DSkip)
      | _, _ => (st, DSkip)
      end
  | DMoveAssign i j =>
      (* implicit move assignment: shared_ptr(std::move(r)).swap( *this ) — the source is left null, the target's old
         reference is released; on itself nothing changes *)
      match slot_owner st i, slot_owner st j with
      | Some a, Some b =>
          if same_kind a b then
            if Nat.eqb i j then (st, DOk)
            else (sp_drop_opt (set_slot (set_slot st i (Some b)) j (Some (with_h b None))) (owner_h a), DOk)
          else (st, DSkip)
      | _, _ => (st, DSkip)
      end
  | DSwap i j =>
      (* std::swap: T tmp(std::move(a)); a = std::move(b); b = std::move(tmp);  — contents exchanged, no count changes *)
      match slot_owner st i, slot_owner st j with
      | Some a, Some b =>
          if same_kind a b then (set_slot (set_slot st i (Some b)) j (Some a), DOk) else (st, DSkip)
      | _, _ => (st, DSkip)
      end
  | DDrop i =>
      match slot_owner st i with
      | Some o => (sp_drop_opt (set_slot st i None) (owner_h o), DOk)
      | None => (st, DSkip)
      end
  | DCall i x =>
      match slot_owner st i with
      | Some (OSym (Some _) fh s) =>         (* a symbol that owns a library; a moved-from symbol is never called *)
          match nth_error (hs st) fh with
          | Some r => if Nat.eqb (closes r) 0 then (st, DCallOk (hlib r) s x) else (st, DUnmapped)
          | None => (st, DUnmapped)
          end
      | _ => (st, DSkip)
      end
  | DStale f => (mkD (hs st) (slots st) (Some (DgOpen f)) (null_closes st), DOk)
  end.

Fixpoint d_run (w : world) (st : dstate) (ops : list dop) : dstate :=
  match ops with [] => st | o :: r => d_run w (fst (d_step w st o)) r end.

(* per-step observations for the drivers *)
Fixpoint d_trace (w : world) (st : dstate) (ops : list dop) : list (dstate * dres) :=
  match ops with [] => [] | o :: r => let sr := d_step w st o in sr :: d_trace w (fst sr) r end.

(* ---- caught exceptions: nitro::dl::exception(char* dle, what) copies the diagnostic into its own std::string member at
        construction, so the exception VALUE carries it.  The handler keeps (a copy of) every exception it catches; the
        diagnostic of the k-th one can be read at any later time. ---- *)
Record xstate := mkX { xd : dstate; xlog : list (option diag) }.
Definition x_init (n : nat) : xstate := mkX (d_init n) [].
Inductive xop :=
| XOp (o : dop)              (* an operation; if it raises, the exception is caught and kept *)
| XRead (k : nat).           (* caught[k].dlerror() *)
Inductive xres :=
| XRes (r : dres)
| XDiag (d : option (option diag)).   (* None: no such exception; Some dle: the diagnostic it carries (None = empty string) *)
Definition x_step (w : world) (xs : xstate) (o : xop) : xstate * xres :=
  match o with
  | XOp o =>
      let '(st', r) := d_step w (xd xs) o in
      (mkX st' (match r with DRaise dle => xlog xs ++ [dle] | _ => xlog xs end), XRes r)
  | XRead k => (xs, XDiag (nth_error (xlog xs) k))
  end.
Fixpoint x_run (w : world) (xs : xstate) (ops : list xop) : xstate :=
  match ops with [] => xs | o :: r => x_run w (fst (x_step w xs o)) r end.

(* every owner of the pool is destroyed, in slot order *)
Fixpoint d_drop_from (st : dstate) (i n : nat) : dstate :=
  match n with
  | 0 => st
  | S m => let st' := match slot_owner st i with Some o => sp_drop_opt (set_slot st i None) (owner_h o) | None => st end in
           d_drop_from st' (S i) m
  end.
Definition d_finish (st : dstate) : dstate := d_drop_from st 0 (length (slots st)).

(* ---- spec side (oracle): what the property demands of an observed state ---- *)
Definition okey (o : option owner) : option nat := match o with Some x => owner_h x | None => None end.

Fixpoint handles_ok_from (h : nat) (l : list hrec) (sl : list (option owner)) : bool :=
  match l with
  | [] => true
  | r :: rest =>
      (* closed at most once, and closed exactly when no owner is left *)
      Nat.eqb (closes r) (if Nat.eqb (cnt okey h sl) 0 then 1 else 0) && handles_ok_from (S h) rest sl
  end.
Definition owner_in_range (n : nat) (o : option owner) : bool :=
  match okey o with Some h => Nat.ltb h n | None => true end.
Definition d_state_ok (st : dstate) : bool :=
  handles_ok_from 0 (hs st) (slots st) && Nat.eqb (null_closes st) 0 && forallb (owner_in_range (length (hs st))) (slots st).
Definition all_closed_once (st : dstate) : bool := forallb (fun r => Nat.eqb (closes r) 1) (hs st).

(* Own/EnvProofs.v — the three clauses of C19's environment part, for every getenv function, name and default. *)
From Coq Require Import List Bool.
From Nitro Require Import Base.Bytes Own.Env.
Import ListNotations.
Local Open Scope list_scope.

Lemma get_set_returns_value getenv name v :
  getenv name = Some v ->
  (forall d, env_get_default getenv name d = v) /\ env_get_nodefault getenv name = EOk v.
Proof. intros H. unfold env_get_default, env_get_nodefault. rewrite H. auto. Qed.

Lemma get_set_empty_returns_empty getenv name :
  getenv name = Some [] -> (forall d, env_get_default getenv name d = []) /\ env_get_nodefault getenv name = EOk [].
Proof. apply get_set_returns_value. Qed.

Lemma get_unset_returns_default getenv name d :
  getenv name = None -> env_get_default getenv name d = d.
Proof. intros H. unfold env_get_default. rewrite H. auto. Qed.

Lemma get_unset_nodefault_raises getenv name :
  getenv name = None -> env_get_nodefault getenv name = ERaise.
Proof. intros H. unfold env_get_nodefault. rewrite H. auto. Qed.

Lemma get_raises_only_when_unset getenv name :
  env_get_nodefault getenv name = ERaise -> getenv name = None.
Proof. unfold env_get_nodefault. destruct (getenv name); auto; discriminate. Qed.

(* the association-list environment of the drivers behaves like setenv/unsetenv *)
Lemma lookup_unset_same e n : env_lookup (env_unset e n) n = None.
Proof.
  induction e as [|[k v] e IH]; simpl; auto. destruct (seq_eqb k n) eqn:E; auto. simpl. rewrite E. auto.
Qed.
Lemma lookup_unset_other e n m : n <> m -> env_lookup (env_unset e n) m = env_lookup e m.
Proof.
  intros H. induction e as [|[k v] e IH]; simpl; auto. destruct (seq_eqb k n) eqn:E.
  - apply seq_eqb_true in E. subst k. destruct (seq_eqb n m) eqn:E2; auto. apply seq_eqb_true in E2. contradiction.
  - simpl. rewrite IH. reflexivity.
Qed.
Lemma lookup_set_same e n v : env_lookup (env_set e n v) n = Some v.
Proof. simpl. rewrite seq_eqb_refl. reflexivity. Qed.
Lemma lookup_set_other e n m v : n <> m -> env_lookup (env_set e n v) m = env_lookup e m.
Proof.
  intros H. simpl. destruct (seq_eqb n m) eqn:E; [apply seq_eqb_true in E; contradiction|]. apply lookup_unset_other; auto.
Qed.

(* every get of the model satisfies the oracle's clause *)
Lemma env_spec_ok_model e n :
  (forall d, env_spec_ok (env_lookup e n) (Some d) (EOk (env_get_default (env_lookup e) n d)) = true)
  /\ env_spec_ok (env_lookup e n) None (env_get_nodefault (env_lookup e) n) = true.
Proof.
  unfold env_get_default, env_get_nodefault. destruct (env_lookup e n); simpl; split; intros; auto using seq_eqb_refl.
Qed.

(* ---- the result of get is a value: held results are not altered by later gets or later environment changes ---- *)
Lemma h_step_keeps_results st o k r :
  nth_error (hres st) k = Some r -> nth_error (hres (fst (h_step st o))) k = Some r.
Proof.
  intros H. destruct o as [o|j]; simpl; auto.
  destruct (env_res (henv st) o); auto.
  rewrite nth_error_app1; auto. apply nth_error_Some. rewrite H. discriminate.
Qed.

Lemma held_result_stable st ops k r :
  nth_error (hres st) k = Some r -> nth_error (hres (h_run st ops)) k = Some r.
Proof.
  revert st. induction ops as [|o ops IH]; intros st H; simpl; auto.
  apply IH. apply h_step_keeps_results. exact H.
Qed.

(* the outcome a get produces in state st — by the three clauses: the variable's value at that moment / the default /
   raise — is what a read of that result finds immediately and after ANY further history (gets of the same or other
   variables through either overload, setenv / unsetenv of the same variable, other reads) *)
Lemma get_result_is_value st o r more :
  env_res (henv st) o = Some r ->
  snd (h_step (h_run (fst (h_step st (HOp o))) more) (HRead (length (hres st)))) = Some r.
Proof.
  intros H. simpl. apply held_result_stable. simpl. rewrite H.
  rewrite nth_error_app2; auto. rewrite PeanoNat.Nat.sub_diag. reflexivity.
Qed.

(* two results held at the same time are independent: each keeps its own outcome *)
Lemma two_held_results_independent st o1 o2 r1 r2 mid more :
  env_res (henv st) o1 = Some r1 ->
  let st1 := h_run (fst (h_step st (HOp o1))) mid in
  env_res (henv st1) o2 = Some r2 ->
  let st2 := h_run (fst (h_step st1 (HOp o2))) more in
  snd (h_step st2 (HRead (length (hres st)))) = Some r1 /\ snd (h_step st2 (HRead (length (hres st1)))) = Some r2.
Proof.
  intros H1 st1 H2 st2. split.
  - unfold st2. change (nth_error (hres (h_run (fst (h_step st1 (HOp o2))) more)) (length (hres st)) = Some r1).
    apply held_result_stable. apply h_step_keeps_results.
    exact (get_result_is_value st o1 r1 mid H1).
  - apply (get_result_is_value st1 o2 r2 more H2).
Qed.

(* a get outcome satisfies the oracle's clause for the environment of that moment *)
Lemma env_res_spec_ok e o r :
  env_res e o = Some r ->
  match o with
  | EGet n d => env_spec_ok (env_lookup e n) (Some d) r = true
  | EGetDefaulted n => env_spec_ok (env_lookup e n) (Some []) r = true
  | EGetNoDefault n => env_spec_ok (env_lookup e n) None r = true
  | _ => False
  end.
Proof.
  destruct o; simpl; intros H; try discriminate; injection H as <-;
    unfold env_get_default, env_get_nodefault; destruct (env_lookup e n); simpl; auto using seq_eqb_refl.
Qed.

(* Own/EnvProofs.v — the three clauses of C19's environment part, for every getenv function, name and default. *)
From Coq Require Import List Bool.
From Nitro Require Import Base.Bytes Own.Env.
Import ListNotations.
Local Open Scope list_scope.

Lemma get_set_returns_value getenv name v :
  getenv name = Some v ->
  (forall d, env_get_default getenv name d = v) /\ env_get_nodefault getenv name = EOk v.
Proof. intros H. unfold env_get_default, env_get_nodefault. rewrite H. auto. Qed.

Lemma get_set_empty_returns_empty getenv name :
  getenv name = Some [] -> (forall d, env_get_default getenv name d = []) /\ env_get_nodefault getenv name = EOk [].
Proof. apply get_set_returns_value. Qed.

Lemma get_unset_returns_default getenv name d :
  getenv name = None -> env_get_default getenv name d = d.
Proof. intros H. unfold env_get_default. rewrite H. auto. Qed.

Lemma get_unset_nodefault_raises getenv name :
  getenv name = None -> env_get_nodefault getenv name = ERaise.
Proof. intros H. unfold env_get_nodefault. rewrite H. auto. Qed.

Lemma get_raises_only_when_unset getenv name :
  env_get_nodefault getenv name = ERaise -> getenv name = None.
Proof. unfold env_get_nodefault. destruct (getenv name); auto; discriminate. Qed.

(* the association-list environment of the drivers behaves like setenv/unsetenv *)
Lemma lookup_unset_same e n : env_lookup (env_unset e n) n = None.
Proof.
  induction e as [|[k v] e IH]; simpl; auto. destruct (seq_eqb k n) eqn:E; auto. simpl. rewrite E. auto.
Qed.
Lemma lookup_unset_other e n m : n <> m -> env_lookup (env_unset e n) m = env_lookup e m.
Proof.
  intros H. induction e as [|[k v] e IH]; simpl; auto. destruct (seq_eqb k n) eqn:E.
  - apply seq_eqb_true in E. subst k. destruct (seq_eqb n m) eqn:E2; auto. apply seq_eqb_true in E2. contradiction.
  - simpl. rewrite IH. reflexivity.
Qed.
Lemma lookup_set_same e n v : env_lookup (env_set e n v) n = Some v.
Proof. simpl. rewrite seq_eqb_refl. reflexivity. Qed.
Lemma lookup_set_other e n m v : n <> m -> env_lookup (env_set e n v) m = env_lookup e m.
Proof.
  intros H. simpl. destruct (seq_eqb n m) eqn:E; [apply seq_eqb_true in E; contradiction|]. apply lookup_unset_other; auto.
Qed.

(* every get of the model satisfies the oracle's clause *)
Lemma env_spec_ok_model e n :
  (forall d, env_spec_ok (env_lookup e n) (Some d) (EOk (env_get_default (env_lookup e) n d)) = true)
  /\ env_spec_ok (env_lookup e n) None (env_get_nodefault (env_lookup e) n) = true.
Proof.
  unfold env_get_default, env_get_nodefault. destruct (env_lookup e n); simpl; split; intros; auto using seq_eqb_refl.
Qed.

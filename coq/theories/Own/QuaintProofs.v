(* Own/QuaintProofs.v — invariants of the quaint_ptr model (Own/Quaint.v) over ALL operation lists. *)
From Coq Require Import List Arith Bool Lia.
From Nitro Require Import Base.ListX Own.Count Own.CountProofs Own.Quaint.
Import ListNotations.
Local Open Scope list_scope.

Definition live_n (h : list obj) (id : nat) : nat :=
  match nth_error h id with Some o => if alive o then 1 else 0 | None => 0 end.
Definition typed (h : list obj) (p : ptr) : Prop :=
  match p with Some (id, dt) => exists o, nth_error h id = Some o /\ otype o = dt | None => True end.
Definition wf_obj (o : obj) : Prop := destroyed_by o = if alive o then [] else [otype o].

(* the ownership invariant: every object is referred to by exactly as many pointers as it is alive (1 or 0),
   every deleter remembers the creation type of its pointee, destruction records are consistent *)
Record inv (st : qstate) : Prop := mkInv {
  inv_cnt : forall id, cnt pid id (map sptr (pool st)) + cnt pid id (vec st) = live_n (heap st) id;
  inv_tp : Forall (typed (heap st)) (map sptr (pool st));
  inv_tv : Forall (typed (heap st)) (vec st);
  inv_wf : Forall wf_obj (heap st) }.

(* ---------- releasing ---------- *)

Lemma setn_same {A} (l : list A) k y : nth_error l k = Some y -> setn l k y = l.
Proof. revert k; induction l as [|z l IH]; intros [|k]; simpl; try discriminate. - intros [= ->]; auto. - intros H; f_equal; auto. Qed.

Lemma setn_setn' {A} (l : list A) k x y : setn (setn l k x) k y = setn l k y.
Proof. revert k; induction l as [|z l IH]; intros [|k]; simpl; auto. f_equal; auto. Qed.

Lemma skipn_S_app {A} (l1 l2 : list A) p : skipn (S (length l1)) (l1 ++ p :: l2) = l2.
Proof. induction l1 as [|a l IH]; simpl; auto. Qed.

Lemma map_otype_release h p : map otype (release h p) = map otype h.
Proof.
  destruct p as [[i dt]|]; simpl; auto. unfold run_deleter.
  destruct (nth_error h i) as [o|] eqn:E; auto.
  rewrite map_setn. simpl. apply setn_same. rewrite nth_error_map, E. reflexivity.
Qed.

Lemma release_length h p : length (release h p) = length h.
Proof. rewrite <- (map_length otype), map_otype_release, map_length. reflexivity. Qed.

Lemma release_one h p :
  (forall id, holds pid id p <= live_n h id) -> typed h p -> Forall wf_obj h ->
  Forall wf_obj (release h p)
  /\ (forall id, live_n (release h p) id + holds pid id p = live_n h id)
  /\ (forall q, typed h q -> typed (release h p) q).
Proof.
  intros Hb Ht Hw. destruct p as [[i dt]|]; simpl.
  2:{ repeat split; auto. }
  destruct Ht as (o & Ho & Hdt). unfold run_deleter. rewrite Ho.
  assert (Hal : alive o = true).
  { specialize (Hb i). unfold holds in Hb; simpl in Hb. rewrite Nat.eqb_refl in Hb. unfold live_n in Hb. rewrite Ho in Hb.
    destruct (alive o); auto; lia. }
  assert (Hwo : wf_obj o) by (rewrite Forall_forall in Hw; apply Hw; eapply nth_error_In; eauto).
  repeat split.
  - apply Forall_setn; auto. unfold wf_obj in *. simpl. rewrite Hal in Hwo. rewrite Hwo. simpl. congruence.
  - intros id. unfold holds; simpl. unfold live_n. destruct (Nat.eqb i id) eqn:E.
    + apply Nat.eqb_eq in E. subst id. rewrite (nth_error_setn_eq _ _ _ _ Ho), Ho, Hal. reflexivity.
    + apply Nat.eqb_neq in E. rewrite nth_error_setn_ne by auto. lia.
  - intros [[k t]|]; simpl; auto. intros (o' & Ho' & Ht').
    destruct (Nat.eq_dec i k) as [->|Hne].
    + rewrite (nth_error_setn_eq _ _ _ _ Ho). eexists; split; eauto. simpl. congruence.
    + rewrite nth_error_setn_ne by auto. eauto.
Qed.

Lemma release_all_ok l : forall h,
  (forall id, cnt pid id l <= live_n h id) -> Forall (typed h) l -> Forall wf_obj h ->
  Forall wf_obj (release_all h l)
  /\ (forall id, live_n (release_all h l) id + cnt pid id l = live_n h id)
  /\ (forall q, typed h q -> typed (release_all h l) q).
Proof.
  induction l as [|p l IH]; intros h Hb Ht Hw; simpl.
  - repeat split; auto.
  - change (release_all h (p :: l)) with (release_all (release h p) l).
    inversion Ht as [|? ? Htp Htl]; subst.
    destruct (release_one h p) as (W1 & L1 & T1); auto.
    { intros id. specialize (Hb id). simpl in Hb. lia. }
    destruct (IH (release h p)) as (W2 & L2 & T2); auto.
    { intros id. specialize (Hb id). specialize (L1 id). simpl in Hb. lia. }
    { rewrite Forall_forall in *. auto. }
    repeat split; auto.
    intros id. specialize (L1 id). specialize (L2 id). simpl cnt. lia.
Qed.

Lemma release_all_length l : forall h, length (release_all h l) = length h.
Proof.
  induction l as [|p l IH]; intros h; [reflexivity|].
  change (release_all h (p :: l)) with (release_all (release h p) l). rewrite IH. apply release_length.
Qed.

Lemma map_otype_release_all l : forall h, map otype (release_all h l) = map otype h.
Proof.
  induction l as [|p l IH]; intros h; [reflexivity|].
  change (release_all h (p :: l)) with (release_all (release h p) l). rewrite IH. apply map_otype_release.
Qed.

Lemma release_all_nulls h l : (forall p, In p l -> p = None) -> release_all h l = h.
Proof.
  revert h; induction l as [|p l IH]; intros h H; [reflexivity|].
  change (release_all h (p :: l)) with (release_all (release h p) l).
  rewrite (H p) by (left; auto). simpl. apply IH. intros; apply H; right; auto.
Qed.

(* reallocation of the vector is observably the identity: nothing is destroyed, every element keeps its pointee *)
Lemma realloc_old_buffer h (v : list ptr) : release_all h (map snd (map move_out v)) = h.
Proof.
  apply release_all_nulls. intros q Hq. rewrite map_map in Hq. simpl in Hq. apply in_map_iff in Hq. destruct Hq as (? & <- & _). auto.
Qed.
Lemma realloc_new_buffer (v : list ptr) : map fst (map move_out v) = v.
Proof. rewrite map_map. simpl. apply map_id. Qed.
Lemma vec_realloc_id st : vec_realloc st = st.
Proof.
  destruct st as [h p v]. unfold vec_realloc; simpl. f_equal; [apply realloc_old_buffer | apply realloc_new_buffer].
Qed.

(* ---------- allocation ---------- *)

Lemma live_n_app h o id : live_n (h ++ [o]) id = live_n h id + (if Nat.eqb (length h) id then (if alive o then 1 else 0) else 0).
Proof.
  unfold live_n. destruct (Nat.lt_ge_cases id (length h)) as [H|H].
  - rewrite nth_error_app1 by auto. destruct (Nat.eqb (length h) id) eqn:E; [apply Nat.eqb_eq in E; lia|lia].
  - rewrite nth_error_app2 by auto. assert (E0 : nth_error h id = None) by (apply nth_error_None; auto). rewrite E0.
    destruct (Nat.eqb (length h) id) eqn:E.
    + apply Nat.eqb_eq in E. subst. rewrite Nat.sub_diag. simpl. reflexivity.
    + apply Nat.eqb_neq in E. destruct (id - length h) as [|k] eqn:K; [lia|]. simpl. destruct k; reflexivity.
Qed.

Lemma typed_app h o q : typed h q -> typed (h ++ [o]) q.
Proof.
  destruct q as [[k t]|]; simpl; auto. intros (o' & H1 & H2). exists o'. split; auto.
  rewrite nth_error_app1; auto. apply nth_error_Some. congruence.
Qed.

Lemma live_n_out h id : length h <= id -> live_n h id = 0.
Proof. intros H. unfold live_n. apply nth_error_None in H. rewrite H. reflexivity. Qed.

(* ---------- pool bookkeeping ---------- *)

Lemma pool_cnt pool i s s' id : nth_error pool i = Some s ->
  cnt pid id (map sptr (setn pool i s')) + holds pid id (sptr s) = cnt pid id (map sptr pool) + holds pid id (sptr s').
Proof. intros H. rewrite map_setn. apply cnt_setn. rewrite nth_error_map, H. reflexivity. Qed.

Lemma pool_holds pool i s id : nth_error pool i = Some s -> holds pid id (sptr s) <= cnt pid id (map sptr pool).
Proof. intros H. eapply cnt_nth. rewrite nth_error_map, H. reflexivity. Qed.

Lemma pool_typed h pool i s : Forall (typed h) (map sptr pool) -> nth_error pool i = Some s -> typed h (sptr s).
Proof. intros F H. rewrite Forall_forall in F. apply F. apply in_map. eapply nth_error_In; eauto. Qed.

Lemma is_live_some pool i p : is_live (nth_error pool i) = Some p -> nth_error pool i = Some (Live p).
Proof. destruct (nth_error pool i) as [[|q]|]; simpl; try discriminate. intros [= ->]. reflexivity. Qed.

Lemma holds_ptr id i t : holds pid id (Some (i, t)) = if Nat.eqb i id then 1 else 0.
Proof. reflexivity. Qed.

Lemma Forall_typed_mono h h' l : (forall q, typed h q -> typed h' q) -> Forall (typed h) l -> Forall (typed h') l.
Proof. intros H F. rewrite Forall_forall in *. auto. Qed.

Lemma Forall_pool_setn h pool i s : Forall (typed h) (map sptr pool) -> typed h (sptr s) -> Forall (typed h) (map sptr (setn pool i s)).
Proof. intros F T. rewrite map_setn. apply Forall_setn; auto. Qed.

(* ---------- one step preserves the invariant ---------- *)

Lemma inv_step st o : inv st -> inv (q_step st o).
Proof.
  intros [Hc Htp Htv Hw]. destruct st as [h pool v]. simpl in *.
  destruct o as [i t|i j|i j|i|i|i| | |i k|i|k|i j|i| |i t|k]; simpl.
  - (* Make *)
    destruct (nth_error pool i) as [[|old]|] eqn:Ei; [| |constructor; auto].
    + constructor; simpl.
      * intros id. pose proof (pool_cnt pool i Gone (Live (Some (length h, t))) id Ei) as P. simpl in P.
        rewrite holds_ptr in P. rewrite live_n_app. simpl. specialize (Hc id).
        change (holds pid id None) with 0 in P. lia.
      * apply Forall_pool_setn.
        -- eapply Forall_typed_mono; [|exact Htp]. intros; apply typed_app; auto.
        -- simpl. exists (mkObj t true []). split; auto. rewrite nth_error_app2, Nat.sub_diag; auto.
      * eapply Forall_typed_mono; [|exact Htv]. intros; apply typed_app; auto.
      * apply Forall_app. split; auto. constructor; auto. reflexivity.
    + set (h1 := h ++ [mkObj t true []]).
      assert (Hw1 : Forall wf_obj h1) by (apply Forall_app; split; auto; constructor; auto; reflexivity).
      assert (Tm : forall q, typed h q -> typed h1 q) by (intros; apply typed_app; auto).
      destruct (release_one h1 old) as (W & L & T); auto.
      { intros id. pose proof (pool_holds pool i (Live old) id Ei) as P. simpl in P. unfold h1. rewrite live_n_app.
        specialize (Hc id). lia. }
      { apply Tm. apply (pool_typed h pool i (Live old)); auto. }
      constructor; simpl.
      * intros id. pose proof (pool_cnt pool i (Live old) (Live (Some (length h, t))) id Ei) as P. simpl in P.
        rewrite holds_ptr in P. specialize (L id). unfold h1 in L. rewrite live_n_app in L. simpl in L.
        specialize (Hc id). fold h1 in L |- *. lia.
      * apply Forall_pool_setn.
        -- eapply Forall_typed_mono; [|exact Htp]. auto.
        -- simpl. apply (T (Some (length h, t))). simpl. exists (mkObj t true []). split; auto.
           unfold h1. rewrite nth_error_app2, Nat.sub_diag; auto.
      * eapply Forall_typed_mono; [|exact Htv]. auto.
      * exact W.
  - (* MoveCtor *)
    destruct (nth_error pool i) as [[|?]|] eqn:Ei; try (constructor; auto; fail).
    destruct (is_live (nth_error pool j)) as [pj|] eqn:Ej; [|constructor; auto].
    apply is_live_some in Ej. simpl.
    assert (Hne : i <> j) by (intros ->; congruence).
    assert (Ej' : nth_error (setn pool i (Live pj)) j = Some (Live pj)) by (rewrite nth_error_setn_ne; auto).
    constructor; simpl; auto.
    + intros id. pose proof (pool_cnt pool i Gone (Live pj) id Ei) as P1.
      pose proof (pool_cnt _ j (Live pj) (Live None) id Ej') as P2. simpl in P1, P2.
      change (holds pid id None) with 0 in *. specialize (Hc id). lia.
    + apply Forall_pool_setn; [apply Forall_pool_setn|]; simpl; auto.
      apply (pool_typed h pool j (Live pj)); auto.
  - (* MoveAssign *)
    destruct (is_live (nth_error pool i)) as [pi|] eqn:Ei; [|constructor; auto].
    destruct (is_live (nth_error pool j)) as [pj|] eqn:Ej; [|constructor; auto].
    destruct (Nat.eqb i j) eqn:Eij; [constructor; auto|].
    apply Nat.eqb_neq in Eij. apply is_live_some in Ei, Ej. simpl.
    assert (Ej' : nth_error (setn pool i (Live pj)) j = Some (Live pj)) by (rewrite nth_error_setn_ne; auto).
    destruct (release_one h pi) as (W & L & T); auto.
    { intros id. pose proof (pool_holds pool i (Live pi) id Ei) as P. simpl in P. specialize (Hc id). lia. }
    { apply (pool_typed h pool i (Live pi)); auto. }
    constructor; simpl; auto.
    + intros id. pose proof (pool_cnt pool i (Live pi) (Live pj) id Ei) as P1.
      pose proof (pool_cnt _ j (Live pj) (Live None) id Ej') as P2. simpl in P1, P2.
      change (holds pid id None) with 0 in *. specialize (Hc id). specialize (L id). lia.
    + apply Forall_pool_setn; [apply Forall_pool_setn|]; simpl; auto.
      * eapply Forall_typed_mono; eauto.
      * apply T. apply (pool_typed h pool j (Live pj)); auto.
    + eapply Forall_typed_mono; eauto.
  - (* Reset *)
    destruct (is_live (nth_error pool i)) as [p|] eqn:Ei; [|constructor; auto].
    apply is_live_some in Ei. simpl.
    destruct (release_one h p) as (W & L & T); auto.
    { intros id. pose proof (pool_holds pool i (Live p) id Ei) as P. simpl in P. specialize (Hc id). lia. }
    { apply (pool_typed h pool i (Live p)); auto. }
    constructor; simpl; auto.
    + intros id. pose proof (pool_cnt pool i (Live p) (Live None) id Ei) as P1. simpl in P1.
      change (holds pid id None) with 0 in *. specialize (Hc id). specialize (L id). lia.
    + apply Forall_pool_setn; simpl; auto. eapply Forall_typed_mono; eauto.
    + eapply Forall_typed_mono; eauto.
  - (* Drop *)
    destruct (is_live (nth_error pool i)) as [p|] eqn:Ei; [|constructor; auto].
    apply is_live_some in Ei. simpl.
    destruct (release_one h p) as (W & L & T); auto.
    { intros id. pose proof (pool_holds pool i (Live p) id Ei) as P. simpl in P. specialize (Hc id). lia. }
    { apply (pool_typed h pool i (Live p)); auto. }
    constructor; simpl; auto.
    + intros id. pose proof (pool_cnt pool i (Live p) Gone id Ei) as P1. simpl in P1.
      change (holds pid id None) with 0 in *. specialize (Hc id). specialize (L id). lia.
    + apply Forall_pool_setn; simpl; auto. eapply Forall_typed_mono; eauto.
    + eapply Forall_typed_mono; eauto.
  - (* VecPush *)
    destruct (is_live (nth_error pool i)) as [p|] eqn:Ei; [|constructor; auto].
    apply is_live_some in Ei. rewrite realloc_old_buffer, realloc_new_buffer. simpl.
    constructor; simpl; auto.
    + intros id. pose proof (pool_cnt pool i (Live p) (Live None) id Ei) as P1. simpl in P1.
      change (holds pid id None) with 0 in *. specialize (Hc id). rewrite cnt_app. simpl. lia.
    + apply Forall_pool_setn; simpl; auto.
    + apply Forall_app. split; auto. constructor; auto. apply (pool_typed h pool i (Live p)); auto.
  - (* VecGrow *)
    rewrite vec_realloc_id. constructor; auto.
  - (* VecClear *)
    destruct (release_all_ok v h) as (W & L & T); auto.
    { intros id. specialize (Hc id). lia. }
    constructor; simpl; auto.
    + intros id. specialize (Hc id). specialize (L id). lia.
    + eapply Forall_typed_mono; eauto.
  - (* VecTake *)
    destruct (is_live (nth_error pool i)) as [pi|] eqn:Ei; [|constructor; auto].
    destruct (nth_error v k) as [pk|] eqn:Ek; [|constructor; auto].
    apply is_live_some in Ei. simpl.
    destruct (release_one h pi) as (W & L & T); auto.
    { intros id. pose proof (pool_holds pool i (Live pi) id Ei) as P. simpl in P. specialize (Hc id). lia. }
    { apply (pool_typed h pool i (Live pi)); auto. }
    constructor; simpl; auto.
    + intros id. pose proof (pool_cnt pool i (Live pi) (Live pk) id Ei) as P1. simpl in P1.
      pose proof (cnt_setn pid id v k None pk Ek) as P2.
      change (holds pid id None) with 0 in *. specialize (Hc id). specialize (L id). lia.
    + apply Forall_pool_setn; simpl; auto.
      * eapply Forall_typed_mono; eauto.
      * apply T. rewrite Forall_forall in Htv. apply Htv. eapply nth_error_In; eauto.
    + apply Forall_setn; simpl; auto. eapply Forall_typed_mono; eauto.
  - (* AssignNull *)
    destruct (is_live (nth_error pool i)) as [p|] eqn:Ei; [|constructor; auto].
    apply is_live_some in Ei. simpl.
    destruct (release_one h p) as (W & L & T); auto.
    { intros id. pose proof (pool_holds pool i (Live p) id Ei) as P. simpl in P. specialize (Hc id). lia. }
    { apply (pool_typed h pool i (Live p)); auto. }
    constructor; simpl; auto.
    + intros id. pose proof (pool_cnt pool i (Live p) (Live None) id Ei) as P1. simpl in P1.
      change (holds pid id None) with 0 in *. specialize (Hc id). specialize (L id). lia.
    + apply Forall_pool_setn; simpl; auto. eapply Forall_typed_mono; eauto.
    + eapply Forall_typed_mono; eauto.
  - (* VecAssignNull *)
    destruct (nth_error v k) as [p|] eqn:Ek; [|constructor; auto]. simpl.
    destruct (release_one h p) as (W & L & T); auto.
    { intros id. pose proof (cnt_nth pid id v k p Ek) as P. specialize (Hc id). lia. }
    { rewrite Forall_forall in Htv. apply Htv. eapply nth_error_In; eauto. }
    constructor; simpl; auto.
    + intros id. pose proof (cnt_setn pid id v k None p Ek) as P2.
      change (holds pid id None) with 0 in *. specialize (Hc id). specialize (L id). lia.
    + eapply Forall_typed_mono; eauto.
    + apply Forall_setn; simpl; auto. eapply Forall_typed_mono; eauto.
  - (* Swap *)
    destruct (is_live (nth_error pool i)) as [pi|] eqn:Ei; [|constructor; auto].
    destruct (is_live (nth_error pool j)) as [pj|] eqn:Ej; [|constructor; auto].
    apply is_live_some in Ei, Ej. simpl.
    constructor; simpl; auto.
    + intros id. destruct (Nat.eq_dec i j) as [->|Hne].
      * assert (pi = pj) by congruence. subst pj. rewrite setn_setn', (setn_same _ _ _ Ei). apply Hc.
      * assert (Ej' : nth_error (setn pool i (Live pj)) j = Some (Live pj)) by (rewrite nth_error_setn_ne; auto).
        pose proof (pool_cnt pool i (Live pi) (Live pj) id Ei) as P1.
        pose proof (pool_cnt _ j (Live pj) (Live pi) id Ej') as P2. simpl in P1, P2. specialize (Hc id). lia.
    + apply Forall_pool_setn; [apply Forall_pool_setn|]; simpl; auto.
      * apply (pool_typed h pool j (Live pj)); auto.
      * apply (pool_typed h pool i (Live pi)); auto.
  - (* DefCtor *)
    destruct (nth_error pool i) as [[|?]|] eqn:Ei; try (constructor; auto; fail).
    constructor; simpl; auto.
    + intros id. pose proof (pool_cnt pool i Gone (Live None) id Ei) as P1. simpl in P1. specialize (Hc id). lia.
    + apply Forall_pool_setn; simpl; auto.
  - (* VecPop *)
    destruct (rev v) as [|p r] eqn:Er; [constructor; auto|]. simpl.
    assert (Ev : v = rev r ++ [p]) by (rewrite <- (rev_involutive v), Er; reflexivity).
    subst v. apply Forall_app in Htv. destruct Htv as [Htr Htl]. inversion Htl as [|? ? Tp _]; subst.
    destruct (release_one h p) as (W & L & T); auto.
    { intros id. specialize (Hc id). rewrite cnt_app in Hc. simpl in Hc. lia. }
    constructor; simpl; auto.
    + intros id. specialize (Hc id). rewrite cnt_app in Hc. simpl in Hc. specialize (L id). lia.
    + eapply Forall_typed_mono; eauto.
    + eapply Forall_typed_mono; eauto.
  - (* MakeThrows *) constructor; auto.
  - (* VecErase *)
    destruct (nth_error v k) as [p|] eqn:Ek; [|constructor; auto]. simpl.
    destruct (nth_error_split v k Ek) as (l1 & l2 & Ev & El). subst v k.
    rewrite firstn_app_exact.
    change (match l1 ++ p :: l2 with [] => [] | _ :: l => skipn (length l1) l end) with (skipn (S (length l1)) (l1 ++ p :: l2)).
    rewrite skipn_S_app.
    apply Forall_app in Htv. destruct Htv as [Ht1 Ht2]. inversion Ht2 as [|? ? Tp Ht2']; subst.
    destruct (release_one h p) as (W & L & T); auto.
    { intros id. specialize (Hc id). rewrite cnt_app in Hc. cbn [cnt] in Hc. lia. }
    constructor; simpl; auto.
    + intros id. specialize (Hc id). rewrite cnt_app in Hc. cbn [cnt] in Hc. rewrite cnt_app. specialize (L id). lia.
    + eapply Forall_typed_mono; eauto.
    + apply Forall_app. split; eapply Forall_typed_mono; eauto.
Qed.

Lemma inv_init n : inv (q_init n).
Proof.
  constructor; simpl; auto.
  - intros id. rewrite cnt_all_none.
    + unfold live_n. destruct id; reflexivity.
    + intros a Ha. apply in_map_iff in Ha. destruct Ha as (s & <- & Hs). apply repeat_spec in Hs. subst. reflexivity.
  - apply Forall_forall. intros a Ha. apply in_map_iff in Ha. destruct Ha as (s & <- & Hs). apply repeat_spec in Hs. subst. exact I.
Qed.

Lemma inv_run ops : forall st, inv st -> inv (q_run st ops).
Proof. induction ops as [|o ops IH]; intros st H; simpl; auto. apply IH. apply inv_step; auto. Qed.

Lemma inv_reach n ops : inv (q_run (q_init n) ops).
Proof. apply inv_run, inv_init. Qed.

(* ---------- consequences of the invariant ---------- *)

Lemma inv_cnt_ptrs st : inv st -> forall id, cnt pid id (ptrs st) = live_n (heap st) id.
Proof. intros H id. unfold ptrs. rewrite cnt_app. apply H. Qed.

Lemma wf_destroyed_le1 o : wf_obj o -> length (destroyed_by o) <= 1.
Proof. unfold wf_obj. intros ->. destruct (alive o); simpl; lia. Qed.

Lemma wf_right_dtor o t : wf_obj o -> In t (destroyed_by o) -> t = otype o.
Proof. unfold wf_obj. intros ->. destruct (alive o); simpl; intuition. Qed.

Theorem destroyed_at_most_once n ops o :
  In o (heap (q_run (q_init n) ops)) -> length (destroyed_by o) <= 1.
Proof. intros H. apply wf_destroyed_le1. pose proof (inv_wf _ (inv_reach n ops)) as W. rewrite Forall_forall in W. auto. Qed.

Theorem right_destructor n ops o t :
  In o (heap (q_run (q_init n) ops)) -> In t (destroyed_by o) -> t = otype o.
Proof. intros H. apply wf_right_dtor. pose proof (inv_wf _ (inv_reach n ops)) as W. rewrite Forall_forall in W. auto. Qed.

(* destroyed exactly when not alive *)
Theorem dead_iff_destroyed n ops o :
  In o (heap (q_run (q_init n) ops)) -> (alive o = false <-> destroyed_by o = [otype o]) /\ (alive o = true <-> destroyed_by o = []).
Proof.
  intros H. pose proof (inv_wf _ (inv_reach n ops)) as W. rewrite Forall_forall in W. specialize (W o H).
  unfold wf_obj in W. destruct (alive o); rewrite W; split; split; intros; try discriminate; auto.
Qed.

(* an object is alive iff exactly one pointer (pool or vector) owns it, and dead iff none does *)
Theorem live_iff_owned n ops id o : let st := q_run (q_init n) ops in
  nth_error (heap st) id = Some o ->
  cnt pid id (ptrs st) = (if alive o then 1 else 0).
Proof. intros st H. unfold st in *. rewrite inv_cnt_ptrs by apply inv_reach. unfold live_n. rewrite H. reflexivity. Qed.

(* two different pointers never own the same object *)
Theorem no_shared_owner n ops k1 k2 id t1 t2 : let st := q_run (q_init n) ops in
  k1 <> k2 -> nth_error (ptrs st) k1 = Some (Some (id, t1)) -> nth_error (ptrs st) k2 = Some (Some (id, t2)) -> False.
Proof.
  intros st Hne H1 H2. pose proof (cnt_two pid id _ _ _ _ _ Hne H1 H2) as C.
  rewrite !holds_ptr, Nat.eqb_refl in C. unfold st in C. rewrite inv_cnt_ptrs in C by apply inv_reach.
  unfold live_n in C. destruct (nth_error _ id) as [o|]; [destruct (alive o)|]; lia.
Qed.

(* every non-null pointer refers to a live object of the type its deleter remembers *)
Theorem owner_points_to_live_of_its_type n ops k id t : let st := q_run (q_init n) ops in
  nth_error (ptrs st) k = Some (Some (id, t)) ->
  exists o, nth_error (heap st) id = Some o /\ alive o = true /\ otype o = t.
Proof.
  intros st H. pose proof (inv_reach n ops) as I. fold st in I.
  assert (T : typed (heap st) (Some (id, t))).
  { apply nth_error_In in H. unfold ptrs in H. apply in_app_or in H. destruct H as [H|H].
    - pose proof (inv_tp _ I) as F. rewrite Forall_forall in F. auto.
    - pose proof (inv_tv _ I) as F. rewrite Forall_forall in F. auto. }
  destruct T as (o & Ho & Ht). exists o. repeat split; auto.
  pose proof (cnt_nth pid id _ _ _ H) as C. rewrite holds_ptr, Nat.eqb_refl in C.
  rewrite inv_cnt_ptrs in C by auto. unfold live_n in C. rewrite Ho in C. destruct (alive o); auto; lia.
Qed.

(* the source of a move and the target of reset are null afterwards — in every state, reachable or not *)
Theorem moved_from_and_reset_empty st o j :
  q_applicable st o = true -> must_be_empty o = Some j -> slot_is_null (q_step st o) j = true.
Proof.
  destruct st as [h pool v]. unfold slot_is_null. destruct o as [i t|i j'|i j'|i|i|i| | |i k|i|k|i j'|i| |i t|k]; simpl; try discriminate.
  - intros A [= ->]. destruct (nth_error pool i) as [[|?]|] eqn:Ei; try discriminate.
    destruct (is_live (nth_error pool j)) as [pj|] eqn:Ej; [|discriminate]. apply is_live_some in Ej. simpl.
    assert (i <> j) by (intros ->; congruence).
    erewrite nth_error_setn_eq; eauto. rewrite nth_error_setn_ne; eauto.
  - intros A. destruct (Nat.eqb i j') eqn:Eij; [discriminate|]. intros [= ->]. apply Nat.eqb_neq in Eij.
    destruct (is_live (nth_error pool i)) as [pi|] eqn:Ei; [|discriminate].
    destruct (is_live (nth_error pool j)) as [pj|] eqn:Ej; [|discriminate]. apply is_live_some in Ej. simpl.
    erewrite nth_error_setn_eq; eauto. rewrite nth_error_setn_ne; eauto.
  - intros A [= ->]. destruct (is_live (nth_error pool j)) as [p|] eqn:Ei; [|discriminate]. apply is_live_some in Ei. simpl.
    erewrite nth_error_setn_eq; eauto.
  - intros A [= ->]. destruct (is_live (nth_error pool j)) as [p|] eqn:Ei; [|discriminate]. apply is_live_some in Ei.
    simpl. erewrite nth_error_setn_eq; eauto.
  - intros A [= ->]. destruct (is_live (nth_error pool j)) as [p|] eqn:Ei; [|discriminate]. apply is_live_some in Ei. simpl.
    erewrite nth_error_setn_eq; eauto.
Qed.

(* a vector element that was moved out of, or assigned nullptr, is empty afterwards — in every state *)
Theorem vec_element_emptied st o k :
  q_applicable st o = true -> vec_must_be_null o = Some k -> vec_is_null (q_step st o) k = true.
Proof.
  destruct st as [h pool v]. unfold vec_is_null. destruct o; simpl; try discriminate.
  - intros A [= ->]. destruct (is_live (nth_error pool i)) as [pi|]; [|discriminate].
    destruct (nth_error v k) as [pk|] eqn:Ek; [|discriminate]. simpl. erewrite nth_error_setn_eq; eauto.
  - intros A [= ->]. destruct (nth_error v k) as [pk|] eqn:Ek; [|discriminate]. simpl. erewrite nth_error_setn_eq; eauto.
Qed.

(* std::swap exchanges what two pointers own and destroys nothing — in every state *)
Theorem swap_exchanges st i j pi pj :
  is_live (nth_error (pool st) i) = Some pi -> is_live (nth_error (pool st) j) = Some pj ->
  heap (q_step st (Swap i j)) = heap st /\
  (i <> j -> nth_error (pool (q_step st (Swap i j))) i = Some (Live pj) /\ nth_error (pool (q_step st (Swap i j))) j = Some (Live pi)).
Proof.
  intros Hi Hj. destruct st as [h pool v]. simpl in *. rewrite Hi, Hj. simpl. split; auto.
  intros Hne. apply is_live_some in Hi, Hj.
  assert (Ej' : nth_error (setn pool i (Live pj)) j = Some (Live pj)) by (rewrite nth_error_setn_ne; auto).
  split.
  - rewrite nth_error_setn_ne by auto. eapply nth_error_setn_eq; eauto.
  - eapply nth_error_setn_eq; eauto.
Qed.

(* the target of a move owns what the source owned *)
Theorem move_transfers st i j p :
  i <> j -> is_live (nth_error (pool st) j) = Some p ->
  (nth_error (pool st) i = Some Gone -> nth_error (pool (q_step st (MoveCtor i j))) i = Some (Live p)) /\
  (forall pi, is_live (nth_error (pool st) i) = Some pi -> nth_error (pool (q_step st (MoveAssign i j))) i = Some (Live p)).
Proof.
  intros Hne Hj. destruct st as [h pool v]. simpl in *. split.
  - intros Hi. rewrite Hi, Hj. simpl. rewrite nth_error_setn_ne by auto. eapply nth_error_setn_eq; eauto.
  - intros pi Hi. rewrite Hi, Hj. apply Nat.eqb_neq in Hne. rewrite Hne. simpl. apply Nat.eqb_neq in Hne.
    rewrite nth_error_setn_ne by auto. apply is_live_some in Hi. eapply nth_error_setn_eq; eauto.
Qed.

(* complete histories balance: once the vector and all pool pointers are gone, every object ever created
   has been destroyed exactly once, by the destructor of its creation type, and none was forgotten *)
Theorem complete_history_balances n ops : let st := q_run (q_init n) ops in
  (forall o, In o (heap (q_finish st)) -> alive o = false /\ destroyed_by o = [otype o])
  /\ map otype (heap (q_finish st)) = map otype (heap st).
Proof.
  intros st. pose proof (inv_reach n ops) as I. fold st in I. unfold q_finish; simpl.
  destruct (release_all_ok (ptrs st) (heap st)) as (W & L & _).
  - intros id. rewrite inv_cnt_ptrs by auto. lia.
  - unfold ptrs. apply Forall_app. split; [apply (inv_tp _ I) | apply (inv_tv _ I)].
  - apply (inv_wf _ I).
  - split; [|apply map_otype_release_all].
    intros o Ho. rewrite Forall_forall in W. pose proof (W o Ho) as Wo. unfold wf_obj in Wo.
    apply In_nth_error in Ho. destruct Ho as [id Hid]. specialize (L id). rewrite inv_cnt_ptrs in L by auto.
    unfold live_n at 1 in L. rewrite Hid in L. destruct (alive o); [lia|auto].
Qed.


(* ---------- the oracle's checks accept every reachable model state ---------- *)

Lemma wf_destroyed_ok o : wf_obj o -> destroyed_ok o = true.
Proof.
  unfold wf_obj, destroyed_ok. intros ->. destruct (alive o); simpl; auto. apply Nat.eqb_refl.
Qed.

Lemma owners_ok_from_spec ps h : forall base,
  (forall k o, nth_error h k = Some o -> cnt pid (base + k) ps = if alive o then 1 else 0) ->
  owners_ok_from base h ps = true.
Proof.
  induction h as [|o h IH]; intros base H; simpl; auto.
  apply andb_true_iff. split.
  - apply Nat.eqb_eq. specialize (H 0 o eq_refl). rewrite Nat.add_0_r in H. exact H.
  - apply IH. intros k o' Hk. specialize (H (S k) o' Hk). rewrite Nat.add_succ_r in H. exact H.
Qed.

Lemma inv_state_ok st : inv st -> q_state_ok st = true.
Proof.
  intros I. unfold q_state_ok. rewrite !andb_true_iff. repeat split.
  - apply forallb_forall. intros o Ho. apply wf_destroyed_ok. pose proof (inv_wf _ I) as W. rewrite Forall_forall in W. auto.
  - apply owners_ok_from_spec. intros k o Hk. simpl. rewrite inv_cnt_ptrs by auto. unfold live_n. rewrite Hk. reflexivity.
  - apply forallb_forall. intros p Hp.
    assert (T : typed (heap st) p).
    { unfold ptrs in Hp. apply in_app_or in Hp. destruct Hp as [H|H].
      - pose proof (inv_tp _ I) as F. rewrite Forall_forall in F. auto.
      - pose proof (inv_tv _ I) as F. rewrite Forall_forall in F. auto. }
    destruct p as [[id t]|]; simpl; auto. destruct T as (o & Ho & _). apply Nat.ltb_lt. apply nth_error_Some. congruence.
Qed.

Theorem q_state_ok_reach n ops : q_state_ok (q_run (q_init n) ops) = true.
Proof. apply inv_state_ok, inv_reach. Qed.

Theorem all_destroyed_once_finish n ops : all_destroyed_once (q_finish (q_run (q_init n) ops)) = true.
Proof.
  unfold all_destroyed_once. apply forallb_forall. intros o Ho.
  destruct (complete_history_balances n ops) as [H _]. destruct (H o Ho) as [Ha Hd].
  rewrite Ha, Hd. simpl. apply Nat.eqb_refl.
Qed.

Lemma heap_extends_refl h : heap_extends h h = true.
Proof.
  induction h as [|o h IH]; simpl; auto. rewrite Nat.eqb_refl, Nat.leb_refl, IH. destruct (alive o); reflexivity.
Qed.

Lemma heap_extends_app h l : heap_extends h (h ++ l) = true.
Proof.
  induction h as [|o h IH]; simpl; auto. rewrite Nat.eqb_refl, Nat.leb_refl, IH. destruct (alive o); reflexivity.
Qed.

Lemma heap_extends_trans h1 : forall h2 h3, heap_extends h1 h2 = true -> heap_extends h2 h3 = true -> heap_extends h1 h3 = true.
Proof.
  induction h1 as [|a h1 IH]; intros [|b h2] [|c h3]; simpl; auto; try discriminate.
  rewrite !andb_true_iff. intros (((E1 & A1) & L1) & R1) (((E2 & A2) & L2) & R2).
  apply Nat.eqb_eq in E1, E2. apply Nat.leb_le in L1, L2. repeat split.
  - apply Nat.eqb_eq. congruence.
  - destruct (alive a), (alive b), (alive c); auto.
  - apply Nat.leb_le. lia.
  - eapply IH; eauto.
Qed.

Lemma heap_extends_setn h : forall k o o', nth_error h k = Some o -> otype o' = otype o -> alive o' = false ->
  length (destroyed_by o) <= length (destroyed_by o') -> heap_extends h (setn h k o') = true.
Proof.
  induction h as [|a h IH]; intros [|k] o o' Hk Ht Ha Hl; simpl in *; try discriminate.
  - injection Hk as ->. rewrite Ht, Nat.eqb_refl, Ha, heap_extends_refl. simpl.
    rewrite orb_true_r. simpl. rewrite andb_true_r. apply Nat.leb_le. exact Hl.
  - rewrite Nat.eqb_refl, Nat.leb_refl. rewrite (IH k o o'); auto. destruct (alive a); reflexivity.
Qed.

Lemma heap_extends_release h p : heap_extends h (release h p) = true.
Proof.
  destruct p as [[i t]|]; simpl; [|apply heap_extends_refl]. unfold run_deleter.
  destruct (nth_error h i) as [o|] eqn:E; [|apply heap_extends_refl].
  eapply heap_extends_setn; eauto. simpl. rewrite app_length. lia.
Qed.

Lemma heap_extends_release_all l : forall h, heap_extends h (release_all h l) = true.
Proof.
  induction l as [|p l IH]; intros h; [apply heap_extends_refl|].
  change (release_all h (p :: l)) with (release_all (release h p) l).
  eapply heap_extends_trans; [apply heap_extends_release | apply IH].
Qed.

(* one operation never forgets an object, changes its type, revives it or removes a destruction record — in every state *)
Theorem heap_extends_step st o : heap_extends (heap st) (heap (q_step st o)) = true.
Proof.
  destruct st as [h pool v]. destruct o as [i t|i j|i j|i|i|i| | |i k|i|k|i j|i| |i t|k]; simpl.
  - destruct (nth_error pool i) as [[|old]|]; simpl; try apply heap_extends_refl.
    + apply heap_extends_app.
    + eapply heap_extends_trans; [apply heap_extends_app | apply heap_extends_release].
  - destruct (nth_error pool i) as [[|?]|]; try apply heap_extends_refl.
    destruct (is_live (nth_error pool j)); simpl; apply heap_extends_refl.
  - destruct (is_live (nth_error pool i)); [|apply heap_extends_refl].
    destruct (is_live (nth_error pool j)); [|apply heap_extends_refl].
    destruct (Nat.eqb i j); simpl; [apply heap_extends_refl | apply heap_extends_release].
  - destruct (is_live (nth_error pool i)); simpl; [apply heap_extends_release | apply heap_extends_refl].
  - destruct (is_live (nth_error pool i)); simpl; [apply heap_extends_release | apply heap_extends_refl].
  - destruct (is_live (nth_error pool i)); simpl; [|apply heap_extends_refl]. apply heap_extends_release_all.
  - apply heap_extends_release_all.
  - apply heap_extends_release_all.
  - destruct (is_live (nth_error pool i)); [|apply heap_extends_refl].
    destruct (nth_error v k); simpl; [apply heap_extends_release | apply heap_extends_refl].
  - destruct (is_live (nth_error pool i)); simpl; [apply heap_extends_release | apply heap_extends_refl].
  - destruct (nth_error v k); simpl; [apply heap_extends_release | apply heap_extends_refl].
  - destruct (is_live (nth_error pool i)); [|apply heap_extends_refl].
    destruct (is_live (nth_error pool j)); simpl; apply heap_extends_refl.
  - destruct (nth_error pool i) as [[|?]|]; simpl; apply heap_extends_refl.
  - destruct (rev v); simpl; [apply heap_extends_refl | apply heap_extends_release].
  - apply heap_extends_refl.
  - destruct (nth_error v k); simpl; [apply heap_extends_release | apply heap_extends_refl].
Qed.

(* a make_quaint whose payload constructor throws creates nothing and destroys nothing *)
Theorem failed_make_changes_nothing st i t : q_step st (MakeThrows i t) = st.
Proof. reflexivity. Qed.

(* ---- re-entrant payloads ---- *)
Theorem pointer_empty_while_deleter_runs st i p :
  is_live (nth_error (pool st) i) = Some p -> slot_is_null (forget st i) i = true.
Proof.
  intros H. apply is_live_some in H. unfold slot_is_null, forget. simpl.
  rewrite (nth_error_setn_eq _ _ _ _ H). reflexivity.
Qed.

Lemma reenter_on_empty_noop st i a : slot_is_null st i = true -> reenter st i a = st.
Proof.
  unfold slot_is_null. intros H. destruct (nth_error (pool st) i) as [[|[q|]]|] eqn:E; try discriminate.
  destruct st as [h pool v]. simpl in E.
  destruct a; simpl; rewrite E; simpl; rewrite (setn_same _ _ _ E); reflexivity.
Qed.

Lemma reenter_all_on_empty_noop i acts : forall st, slot_is_null st i = true ->
  fold_left (fun s a => reenter s i a) acts st = st.
Proof.
  induction acts as [|a acts IH]; intros st H; simpl; auto.
  rewrite (reenter_on_empty_noop st i a H). apply IH. exact H.
Qed.

Theorem reentrant_reset_is_reset st i acts : reset_reentrant st i acts = q_step st (Reset i).
Proof.
  unfold reset_reentrant. simpl. destruct (is_live (nth_error (pool st) i)) as [p|] eqn:E; auto.
  rewrite (reenter_all_on_empty_noop i acts (forget st i) (pointer_empty_while_deleter_runs st i p E)).
  reflexivity.
Qed.

(* histories that end in (and, by induction over q_run, contain) resets of re-entrant payloads keep the invariant:
   every object destroyed at most once, by its own destructor, alive iff exactly one owner *)
Theorem reentrant_reset_state_ok n ops i acts :
  q_state_ok (reset_reentrant (q_run (q_init n) ops) i acts) = true
  /\ slot_is_null (reset_reentrant (q_run (q_init n) ops) i acts) i
     = match is_live (nth_error (pool (q_run (q_init n) ops)) i) with Some _ => true | None => slot_is_null (q_run (q_init n) ops) i end.
Proof.
  rewrite reentrant_reset_is_reset. split.
  - change (q_step (q_run (q_init n) ops) (Reset i)) with (fold_left q_step [Reset i] (q_run (q_init n) ops)).
    unfold q_run. rewrite <- fold_left_app. apply (q_state_ok_reach n (ops ++ [Reset i])).
  - simpl. destruct (is_live (nth_error (pool (q_run (q_init n) ops)) i)) as [p|] eqn:E; auto.
    apply is_live_some in E. unfold slot_is_null. simpl. rewrite (nth_error_setn_eq _ _ _ _ E). reflexivity.
Qed.
